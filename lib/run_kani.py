"""Kani route: contracts and harnesses injected into a scratch copy of /repo.

contracts/<unit>.k.rs directives:
  //@features <cargo features>
  //@attrs <file> :: <container|-> :: <fn> [nth=k]      contract attributes for the real fn
  ...attribute lines...
  //@end
  //@append <file>                                       harness/spec module appended to that file
  ...
  //@end
  //@harness <name> <K|Kb> fn=<real fn under contract> [bound=<text>] [timeout=<s>] [thorough]
"""
import fcntl
import json
import os
import re
import shutil
import subprocess
import time

from rustscan import Source, ScanError

HERE = os.path.dirname(os.path.abspath(__file__))
VERIF = os.path.dirname(HERE)
CACHE = os.environ.get('VERIF_CACHE_DIR') or os.path.join(VERIF, '.cache')   # (maintenance sweeps give each worker its own copy)
SCRATCH_ROOT = os.environ.get('VERIF_SCRATCH_ROOT') or os.environ.get('VERIF_SCRATCH', '/tmp/verif-scratch')   # (maintenance sweeps give each worker its own)


def parse_template(path):
    feats = 'ca,rtr,slurm'
    attrs, appends, harnesses = [], [], []
    lines = open(path, encoding='utf-8').read().split('\n')
    i = 0
    while i < len(lines):
        s = lines[i].strip()
        if s.startswith('//@include '):
            inc = os.path.join(os.path.dirname(path), s.split()[1] + '.k.rs')
            _, iattrs, iapp, _ = parse_template(inc)
            attrs += iattrs
            appends += iapp
            i += 1
        elif s.startswith('//@features'):
            feats = s.split(None, 1)[1].strip()
            i += 1
        elif s.startswith('//@attrs '):
            parts = [p.strip() for p in s[len('//@attrs '):].split('::')]
            rel = parts[0]
            last = parts[-1].split()
            container = '::'.join(parts[1:-1])
            name = last[0]
            nth = 0
            for w in last[1:]:
                if w.startswith('nth='):
                    nth = int(w[4:])
            j = i + 1
            body = []
            while lines[j].strip() != '//@end':
                body.append(lines[j])
                j += 1
            attrs.append(dict(file=rel, container=container, name=name, nth=nth, text='\n'.join(body), line=i + 1))
            i = j + 1
        elif s.startswith('//@append '):
            rel = s.split(None, 1)[1].strip()
            j = i + 1
            body = []
            while lines[j].strip() != '//@end':
                body.append(lines[j])
                j += 1
            appends.append(dict(file=rel, text='\n'.join(body), line=i + 1))
            # harness registrations inside
            for ln in body:
                t = ln.strip()
                if t.startswith('//@harness '):
                    w = t.split()
                    h = dict(name=w[1], kind=w[2], fn='', bound='', timeout=600, thorough=False)
                    rest = t.split(None, 3)[3] if len(w) > 3 else ''
                    for mm in re.finditer(r'(\w+)=("[^"]*"|\S+)', rest):
                        v = mm.group(2).strip('"')
                        h[mm.group(1)] = int(v) if mm.group(1) == 'timeout' else v
                    if ' thorough' in ' ' + rest:
                        h['thorough'] = True
                    harnesses.append(h)
            i = j + 1
        else:
            i += 1
    return feats, attrs, appends, harnesses


def make_scratch(repo, unit, feats, attrs, appends):
    """rsync the working tree and inject contracts. Returns (dir, lockfile handle, applied list)"""
    os.makedirs(SCRATCH_ROOT, exist_ok=True)
    d = os.path.join(SCRATCH_ROOT, 'kani-' + unit)
    lock = open(d + '.lock', 'w')
    fcntl.flock(lock, fcntl.LOCK_EX)
    if os.path.exists(d):
        shutil.rmtree(d)
    subprocess.run(['rsync', '-a', '--exclude', 'target', '--exclude', '.git', repo.rstrip('/') + '/', d + '/'],
                   check=True)
    applied = []
    # attributes: group by file, apply bottom-up
    byfile = {}
    for a in attrs:
        byfile.setdefault(a['file'], []).append(a)
    for rel, lst in byfile.items():
        p = os.path.join(d, rel)
        if not os.path.exists(p):
            raise ScanError('lost anchor: file %s missing' % rel)
        src = Source(p)
        pts = []
        for a in lst:
            f = src.find_fn(a['container'] or '-', a['name'], a['nth'])
            # insert just before `[pub] [const] fn` qualifiers: i.e. at start of the line holding `fn`
            # (attributes must precede visibility)
            pre = src.text[f['start']:f['fn']]
            # position after doc comments/attrs but before `pub`
            mm = re.search(r'(pub(\s*\([^)]*\))?\s+)?((const|unsafe|async)\s+)*$', pre)
            pos = f['start'] + (mm.start() if mm else len(pre))
            pts.append((pos, a))
        text = src.text
        for pos, a in sorted(pts, key=lambda t: -t[0]):
            indent = ' ' * (pos - (text.rfind('\n', 0, pos) + 1))
            ins = '\n'.join((indent if k else '') + l.strip() for k, l in enumerate(a['text'].split('\n')) if l.strip())
            text = text[:pos] + ins + '\n' + indent + text[pos:]
            applied.append('%s: contract attributes on %s::%s' % (rel, a['container'], a['name']))
        open(p, 'w').write(text)
    for ap in appends:
        p = os.path.join(d, ap['file'])
        if not os.path.exists(p):
            raise ScanError('lost anchor: file %s missing' % ap['file'])
        with open(p, 'a') as fh:
            fh.write('\n' + ap['text'] + '\n')
        applied.append('%s: verification module appended' % ap['file'])
    # support module into lib.rs before the first `pub mod`
    lib = os.path.join(d, 'src/lib.rs')
    t = open(lib).read()
    k = t.find('\npub mod ')
    if k < 0:
        raise ScanError('lost anchor: src/lib.rs has no `pub mod`')
    sup = open(os.path.join(VERIF, 'contracts/shared/verif_support.rs')).read()
    t = t[:k + 1] + sup + '\n' + t[k + 1:]
    open(lib, 'w').write(t)
    # cargo config: offline; Cargo.lock is already part of the copy
    os.makedirs(os.path.join(d, '.cargo'), exist_ok=True)
    open(os.path.join(d, '.cargo/config.toml'), 'w').write('[net]\noffline = true\n')
    return d, lock, applied


def cleanup(d, lock):
    shutil.rmtree(d, ignore_errors=True)
    try:
        fcntl.flock(lock, fcntl.LOCK_UN)
        lock.close()
    except Exception:
        pass


def _split_blocks(out):
    """per-harness text blocks from cargo-kani output (with or without -j)"""
    blocks = {}
    thread_h = {}
    cur = None
    for ln in out.split('\n'):
        mt = re.match(r'^Thread (\d+): ?(.*)$', ln)
        if mt:
            tid, rest = mt.group(1), mt.group(2)
            mm = re.match(r'Checking harness (\S+?)\.\.\.', rest)
            if mm:
                thread_h[tid] = mm.group(1)
                blocks.setdefault(mm.group(1), [])
                cur = None
            else:
                cur = thread_h.get(tid)
                if cur:
                    blocks[cur].append(rest)
            continue
        mm = re.match(r'Checking harness (\S+?)\.\.\.', ln)
        if mm:
            cur = mm.group(1)
            blocks.setdefault(cur, [])
            continue
        if ln.startswith('Manual Harness Summary') or ln.startswith('Complete - '):
            cur = None
        if cur:
            blocks[cur].append(ln)
    return {k: '\n'.join(v) for k, v in blocks.items()}


def run_unit(repo, unit, contracts_dir, tier='quick', jobs=8, keep=False, known=()):
    """Kani harnesses (kinds K, Kb) through cargo kani; witness-search harnesses (kind W) natively, in
    parallel.  A W harness never proves anything: it only looks for a concrete input on which the real
    code violates the stated postcondition (reported as a violation with that input replayed)."""
    import threading
    t0 = time.time()
    res = dict(unit=unit, engine='kani', status='undecided', reason='', harnesses=[], failures=[],
               applied=[], wall_s=0.0, stubs=[])
    tmpl = os.path.join(contracts_dir, unit + '.k.rs')
    feats, attrs, appends, harnesses = parse_template(tmpl)
    if tier != 'thorough':
        harnesses = [h for h in harnesses if not h['thorough']]
    res['features'] = feats
    if not harnesses:
        res['reason'] = 'no harnesses registered'
        return res
    w_h = [h for h in harnesses if h['kind'] == 'W']
    k_h = [h for h in harnesses if h['kind'] != 'W']
    d = lock = None
    try:
        try:
            d, lock, applied = make_scratch(repo, unit, feats, attrs, appends)
        except ScanError as e:
            res['reason'] = 'extraction: %s' % e
            return res
        res['applied'] = applied
        wout = {}
        wt = None
        if w_h:
            wt = threading.Thread(target=lambda: wout.update(search_phase(d, feats, w_h, tier)))
            wt.start()
        if k_h:
            _kani_phase(d, feats, k_h, jobs, res, known, tier)
        else:
            res['status'] = 'ok'
        if wt:
            wt.join()
            res['harnesses'] += wout.get('harnesses', [])
            if wout.get('failures'):
                res['failures'] += wout['failures']
                res['status'] = 'violation'
            elif wout.get('undecided'):
                # a witness search that could not run (harness no longer builds against a refactored private
                # item, candidate that does not replay) decides nothing either way: it is refutation-only, so
                # it is reported as a note and does not turn a unit whose proofs all passed into "undecided"
                res['witness_note'] = wout['undecided']
                res['witness_diagnostics'] = wout.get('diagnostics', '')[-1500:]
        return res
    finally:
        res['wall_s'] = time.time() - t0
        if d and not keep:
            cleanup(d, lock)
        elif d:
            res['scratch'] = d


def _touch_sources(d):
    """All scratch copies share one native target dir and (same relative package path) one cargo
    fingerprint; cargo's freshness test is mtime based.  Called with the target-dir lock held: makes this
    copy's sources newer than whatever another unit built last, so cargo rebuilds instead of running the
    other unit's test binary."""
    now = time.time()
    for root, _, files in os.walk(os.path.join(d, 'src')):
        for f in files:
            if f.endswith('.rs'):
                try:
                    os.utime(os.path.join(root, f), (now, now))
                except OSError:
                    pass


def search_phase(d, feats, w_h, tier):
    """native witness search: the W harnesses run as #[test]s over biased random inputs"""
    out = dict(harnesses=[], failures=[])
    env = dict(os.environ)
    env['CARGO_NET_OFFLINE'] = 'true'
    env['CARGO_TARGET_DIR'] = os.path.join(CACHE, 'replay-target')
    env['RUSTFLAGS'] = '--cfg verif_replay -A warnings --check-cfg cfg(verif_replay) --check-cfg cfg(kani)'
    env['RUST_BACKTRACE'] = '0'
    env.pop('VERIF_REPLAY_VALS', None)
    seed = int(os.environ.get('VERIF_SEED', '0') or 0) + 1
    env['VERIF_SEARCH_SEED'] = str(seed)
    os.makedirs(CACHE, exist_ok=True)
    tlock = open(os.path.join(CACHE, 'replay-target.lock'), 'w')
    fcntl.flock(tlock, fcntl.LOCK_EX)
    _touch_sources(d)
    try:
        for h in w_h:
            n = int(h.get('n', 20000)) * (5 if tier == 'thorough' else 1)
            env['VERIF_SEARCH_N'] = str(n)
            cmd = ['cargo', 'test', '--offline', '--lib', '--features', feats, '--', '--nocapture',
                   '--test-threads', '1', '::' + h['name']]
            rec = dict(name=h['name'], kind='W', fn=h['fn'], bound='witness search over %d biased random inputs (seed %d); proves nothing' % (n, seed),
                       status='undecided', checks=0)
            t1 = time.time()
            try:
                p = subprocess.run(cmd, cwd=d, env=env, capture_output=True, text=True, timeout=h['timeout'] + 1500)
                o = p.stdout + '\n' + p.stderr
            except subprocess.TimeoutExpired:
                o = 'timeout'
            rec['wall_s'] = round(time.time() - t1, 1)
            mf = re.search(r'SEARCH-FOUND %s vals=(\S*) msg=(.*)' % re.escape(h['name']), o)
            md = re.search(r'SEARCH-DONE %s tried=(\d+) accepted=(\d+)' % re.escape(h['name']), o)
            if mf:
                vals = [[int(b) for b in v.split(',')] for v in mf.group(1).split(';') if v]
                rec['status'] = 'failed'
                rec['failed_checks'] = [dict(desc=mf.group(2)[:400], file='', line='', within=h['fn'], category='witness-search')]
                rec['checks_failed'] = 1
                rec['counterexample'] = dict(vals=vals, pretty=[], check=mf.group(2)[:400])
                fcntl.flock(tlock, fcntl.LOCK_UN)
                rec['replay'] = native_replay(d, feats, h['name'], vals)
                fcntl.flock(tlock, fcntl.LOCK_EX)
                _touch_sources(d)
                if rec['replay'].get('confirmed'):
                    out['failures'].append(rec)
                else:
                    rec['status'] = 'undecided'
                    out['undecided'] = 'witness search %s: candidate did not replay' % h['name']
            elif md:
                rec['tried'], rec['accepted'] = int(md.group(1)), int(md.group(2))
                if rec['accepted'] * 20 < rec['tried']:
                    rec['status'] = 'vacuous'
                    out['undecided'] = 'witness search %s: fewer than 5%% of the inputs satisfy the assumptions' % h['name']
                else:
                    rec['status'] = 'ok'
            else:
                out['undecided'] = 'witness search %s: no result (build failure, hang or crash)' % h['name']
                out['diagnostics'] = o[-3000:]
            out['harnesses'].append(rec)
    finally:
        fcntl.flock(tlock, fcntl.LOCK_UN)
        tlock.close()
    return out


def _kani_phase(d, feats, harnesses, jobs, res, known=(), tier='quick'):
    if True:
        env = dict(os.environ)
        env['CARGO_NET_OFFLINE'] = 'true'
        env['CARGO_TARGET_DIR'] = os.path.join(CACHE, 'kani-target')
        os.makedirs(CACHE, exist_ok=True)
        jpath = os.path.join(d, 'kani-export.json')
        tmo = max(h['timeout'] for h in harnesses)
        if tier == 'quick':
            # the check meant to run on every change stays bounded on a changed tree too: a complete harness
            # without an answer by then makes the unit undecided, a bounded one is a note
            tmo = min(tmo, 600)
        cmd = ['cargo', 'kani', '--lib', '--features', feats, '-Z', 'function-contracts', '-Z', 'stubbing',
               '-Z', 'unstable-options', '--output-format=terse', '-j', str(jobs), '--export-json', jpath,
               '--harness-timeout', '%ds' % tmo]
        for h in harnesses:
            cmd += ['--exact', '--harness', h['path']] if 'path' in h else ['--harness', h['name']]
        res['cmd'] = ' '.join(cmd)
        try:
            p = subprocess.run(cmd, cwd=d, env=env, capture_output=True, text=True, timeout=tmo * 2 + 900)
        except subprocess.TimeoutExpired:
            res['reason'] = 'cargo kani timeout'
            return res
        out = p.stdout + '\n' + p.stderr
        res['output_tail'] = out[-6000:]
        if not os.path.exists(jpath):
            # compile error or tool failure
            errs = [l for l in out.split('\n') if l.startswith('error')]
            res['reason'] = 'kani build/tool failure (not a proof failure): ' + ' | '.join(errs[:4])
            res['diagnostics'] = out[-3000:]
            return res
        js = json.load(open(jpath))
        blocks = _split_blocks(out)
        props = {x['harness_id']: x['property_details'] for x in js.get('property_details', [])}
        errs = {x['harness_id']: x for x in js.get('error_details', [])}
        cb = {x['harness_id']: x for x in js.get('cbmc', [])}
        vres = {x['harness_id']: x for x in js.get('verification_results', {}).get('results', [])}
        meta = {x['pretty_name']: x for x in js.get('harness_metadata', [])}
        res['stubs'] = sorted(set(re.findall(r'- Stub: (.*)', out)))
        undecided = []
        for h in harnesses:
            full = [k for k in meta if k == h['name'] or k.endswith('::' + h['name'])]
            rec = dict(name=h['name'], kind=h['kind'], fn=h['fn'], bound=h['bound'], status='missing')
            if len(full) != 1:
                undecided.append('harness %s not found/ambiguous in Kani metadata' % h['name'])
                res['harnesses'].append(rec)
                continue
            hid = full[0]
            rec['id'] = hid
            pd = props.get(hid, {})
            rec['checks'] = pd.get('total_properties', 0)
            rec['checks_passed'] = pd.get('passed', 0)
            rec['checks_failed'] = pd.get('failed', 0)
            rec['cover_satisfied'] = pd.get('satisfied', 0)
            rec['undetermined'] = pd.get('undetermined', 0)
            st = (cb.get(hid) or {}).get('cbmc_stats') or {}
            rec['solver_s'] = round(st.get('runtime_decision_procedure_s', 0) or 0, 4)
            rec['symex_s'] = round(st.get('runtime_symex_s', 0) or 0, 4)
            rec['vccs'] = st.get('vccs_generated', 0)
            rec['contract'] = meta[hid].get('attributes', {}).get('kind', '')
            blk = blocks.get(hid, '')
            mvt = re.search(r'Verification Time: ([0-9.]+)s', blk)
            rec['verif_s'] = float(mvt.group(1)) if mvt else None
            ok = (not errs.get(hid, {}).get('has_errors', True)) and str(vres.get(hid, {}).get('status', '')).lower() in ('success', 'successful', 'passed')
            if ok:
                if rec['checks'] == 0:
                    undecided.append('harness %s: zero checks (vacuous)' % h['name'])
                    rec['status'] = 'vacuous'
                elif rec['cover_satisfied'] < 1:
                    undecided.append('harness %s: reachability cover not satisfied (vacuous preconditions)' % h['name'])
                    rec['status'] = 'vacuous'
                else:
                    rec['status'] = 'ok'
            else:
                chks = vres.get(hid, {}).get('checks', [])
                rec['failed_checks'] = [dict(desc=c.get('description', ''), file=c.get('location', {}).get('file', ''),
                                             line=c.get('location', {}).get('line', ''), within=c.get('function', ''),
                                             category=c.get('category', ''))
                                        for c in chks if c.get('status') in ('Failure', 'Failed')]
                et = errs.get(hid, {})
                rec['error_type'] = et.get('error_type', '')
                real = [f for f in rec['failed_checks'] if not re.search(r'unwinding assertion|recursion unwinding|Only a single top-level call|is not currently supported|unsupported', f['desc'])]
                if real and rec['checks_failed'] > 0:
                    rec['status'] = 'failed'
                    res['failures'].append(rec)
                elif h['kind'] == 'Kb':
                    # a bounded stand-in is never counted as proved; when it gives no answer (time / memory limit)
                    # the run loses that supporting evidence and says so - it does not make the property undecided
                    rec['status'] = 'no-answer'
                    res.setdefault('bounded_notes', []).append('harness %s: %s (no failed property; time or memory limit)' % (
                        h['name'], et.get('error_type') or 'unknown'))
                    rec['output'] = blk[-1500:]
                else:
                    rec['status'] = 'undecided'
                    undecided.append('harness %s: %s (no failed property; timeout/oom/unwinding?)' % (
                        h['name'], et.get('error_type') or 'unknown'))
                    rec['output'] = blk[-1500:]
            res['harnesses'].append(rec)
        if res['failures']:
            res['status'] = 'violation'
            # counterexamples via concrete playback, then native replay
            for rec in res['failures']:
                # a failure listed in known_findings.txt is reported as KNOWN-FINDING by the driver: no need
                # to extract and replay its counterexample again on every run
                if rec['name'] in known:
                    rec['counterexample'] = None
                    continue
                get_counterexample(d, env, feats, rec)
        elif undecided:
            res['reason'] = '; '.join(undecided)
        else:
            res['status'] = 'ok'
        return res


def get_counterexample(d, env, feats, rec):
    cmd = ['cargo', 'kani', '--lib', '--features', feats, '-Z', 'function-contracts', '-Z', 'stubbing',
           '-Z', 'unstable-options', '--output-format=terse', '-Z', 'concrete-playback',
           '--concrete-playback=print', '--harness-timeout', '900s', '--exact', '--harness', rec['id']]
    try:
        p = subprocess.run(cmd, cwd=d, env=env, capture_output=True, text=True, timeout=1500)
    except subprocess.TimeoutExpired:
        rec['counterexample'] = None
        return
    out = p.stdout
    cands = []
    for blk in re.split(r'Concrete playback unit test for', out)[1:]:
        for t in re.split(r'#\[test\]', blk)[0:]:
            pass
        # each generated test: doc comment naming the check, then the vals
        for mm in re.finditer(r'((?:///[^\n]*\n)+)\s*#\[test\]\s*fn \w+\(\) \{\s*let concrete_vals: Vec<Vec<u8>> = vec!\[(.*?)\n\s*\];', blk, re.S):
            doc = mm.group(1)
            if re.search(r'Check for `cover`', doc):
                continue
            vals, comments = [], []
            for ln in mm.group(2).split('\n'):
                t = ln.strip()
                if t.startswith('//'):
                    comments.append(t[2:].strip())
                v = re.match(r'vec!\[(.*)\],?$', t)
                if v:
                    vals.append([int(x) for x in v.group(1).split(',') if x.strip()])
            chk = re.search(r'Check for `[^`]*`: (.*)', doc)
            cands.append(dict(vals=vals, pretty=comments, check=chk.group(1).strip() if chk else ''))
    if not cands:
        rec['counterexample'] = None
        rec['playback_output'] = out[-1500:]
        return
    seen = set()
    rec['counterexample'] = cands[0]
    for c in cands[:6]:
        key = json.dumps(c['vals'])
        if key in seen:
            continue
        seen.add(key)
        rp = native_replay(d, feats, rec['name'], c['vals'])
        if rp.get('confirmed') or 'replay' not in rec:
            rec['counterexample'] = c
            rec['replay'] = rp
        if rp.get('confirmed'):
            break


def native_replay(d, feats, harness, vals):
    """compile the scratch copy natively (stable toolchain) with --cfg verif_replay and run the
    harness as a #[test] on the concrete values.  Returns dict(confirmed, output)."""
    env = dict(os.environ)
    env['CARGO_NET_OFFLINE'] = 'true'
    env['CARGO_TARGET_DIR'] = os.path.join(CACHE, 'replay-target')
    env['RUSTFLAGS'] = '--cfg verif_replay -A warnings --check-cfg cfg(verif_replay) --check-cfg cfg(kani)'
    env['RUST_BACKTRACE'] = '0'
    env['VERIF_REPLAY_VALS'] = ';'.join(','.join(str(b) for b in v) for v in vals)
    cmd = ['cargo', 'test', '--offline', '--lib', '--features', feats, '--', '--exact', '--nocapture',
           '--test-threads', '1']
    # test path unknown a priori: filter by name suffix without --exact
    cmd = ['cargo', 'test', '--offline', '--lib', '--features', feats, '--', '--nocapture', '--test-threads', '1',
           '::' + harness]
    os.makedirs(CACHE, exist_ok=True)
    tlock = open(os.path.join(CACHE, 'replay-target.lock'), 'w')
    fcntl.flock(tlock, fcntl.LOCK_EX)
    _touch_sources(d)
    try:
        p = subprocess.run(cmd, cwd=d, env=env, capture_output=True, text=True, timeout=3000)
    except subprocess.TimeoutExpired:
        return dict(confirmed=False, output='native replay build timeout')
    finally:
        fcntl.flock(tlock, fcntl.LOCK_UN)
        tlock.close()
    out = p.stdout + '\n' + p.stderr
    ran = 'REPLAY-INPUTS ' + harness in out
    passed = 'REPLAY-PASSED ' + harness in out
    confirmed = ran and not passed and 'REPLAY-ASSUMPTION-FALSE' not in out
    tail = out[out.find('Running unittests'):] if 'Running unittests' in out else out
    keep = [l for l in tail.split('\n') if l.startswith('REPLAY') or l.startswith('  ') or 'panicked' in l
            or 'assertion' in l or 'left:' in l or 'right:' in l or l.startswith('test ')]
    return dict(confirmed=confirmed, ran=ran, cmd='VERIF_REPLAY_VALS=%s RUSTFLAGS="--cfg verif_replay" %s' % (
        env['VERIF_REPLAY_VALS'], ' '.join(cmd)), output='\n'.join(keep)[-3000:] if ran else out[-3000:])
