"""Which units decide which property; what stays assumed / not decided."""

PROPS = {
    'C16': dict(
        level='proof',
        units=[('V', 'rtr_serial'), ('K', 'rtr_serial')],
        technique='contract-based deductive verification: Verus contracts on the extracted bodies of Serial::partial_cmp/add/eq against an RFC 1982 spec function + Kani function contract / loop-free full-domain harnesses on the compiled code',
        level_text='Unbounded proof for all pairs of u32 serials and all increments: Verus discharges the postconditions of the real function bodies (extracted each run) against rfc1982(); Kani/CBMC repeats it on the compiled crate over fully symbolic u32 inputs (loop-free, hence complete) and proves big-endian wire conversion.',
        level_note='Trusted: Verus/Z3, Kani/CBMC, rustc operator desugaring (a < b reaching partial_cmp).',
        assumed=['rustc desugaring of `<`/`==` operators to the trait methods verified here (R3)'],
        not_decided=[],
    ),
    'C13': dict(
        level='proof',
        units=[('K', 'addr_prefix'), ('V', 'asn_set'), ('K', 'asn_set')],
        technique='contract-based deductive verification: Kani function contracts (requires/ensures + proof_for_contract) and loop-free full-domain lemma harnesses on the real Prefix/MaxLenPrefix/RouteOrigin code; Verus contract on the extracted SmallAsnSet::from_iter; set-operation iterators bounded (Kani, <=2 elements per operand)',
        level_text='Complete proofs (all 2^128 address bits, every length byte, all pairs/triples) of the constructor contracts, covers == range inclusion, and the total-order/eq/hash laws for Prefix, MaxLenPrefix and RouteOrigin on the compiled code; unbounded Verus proof that from_iter yields a strictly increasing vector with the same element set. The four merge iterators are only checked bounded and are not counted as proved.',
        level_note='Trusted: Kani/CBMC, Verus/Z3; std slice::sort and Vec::dedup contracts; derive(Hash/Eq) expansion by rustc. Display/FromStr/serde text round trips are not decided (std::net parsing/formatting is outside both tools). Merge iterators: bounded only.',
        assumed=['std::net::{Ipv4Addr,Ipv6Addr} <-> integer conversions as compiled by Kani (real std code, symbolically executed)',
                 'Vec<Asn> as IntoIterator + collect() is the identity on the element sequence (R12 specialisation of from_iter to its Vec call shape)'],
        not_decided=['text form parses back to the same value (Display/FromStr/serde of Prefix, MaxLenPrefix, Asn): std::net formatting/parsing and str slicing are outside Verus and too costly for CBMC',
                     'SmallAsnSet union/intersection/difference/symmetric_difference beyond 2 elements per operand (Peekable state machines: rejected by Verus; bounded Kani only)',
                     'SmallAsnSet::contains (slice::binary_search internals)'],
    ),
    'C15': dict(
        level='proof',
        units=[('V', 'slurm'), ('K', 'slurm')],
        technique='contract-based deductive verification: Verus contracts on the extracted drop_origin/drop_router_key/drop_aspa/drop_payload bodies and loops (postcondition = the property statement as an exists-over-filters spec), Kani full-domain harnesses for the prefix filter with the real covers() and for KeyIdentifier equality',
        level_text='Unbounded proof for all filter lists (any length, every present/absent combination) and all payloads that drop_payload returns true exactly when some filter of the payload kind matches; assertion->payload functions carry their fields exactly. Kani proves the leaf facts Verus assumes (covers == range inclusion, KeyIdentifier == is octet equality).',
        level_note='Trusted: Verus/Z3, Kani/CBMC; derive(PartialEq/Clone) expansions; opaque stand-ins for Bytes-backed RouterKeyInfo/ProviderAsns. JSON round trip (serde_json) is not decided.',
        assumed=['derive(PartialEq) is field-wise equality; derive(Clone) on Bytes newtypes preserves the octets'],
        not_decided=['serialising a file to JSON and parsing it back gives an equal file (serde/serde_json code is outside both verifiers)',
                     'BgpsecAssertion::to_payload and LocallyAddedAssertions::iter_payload (iterator adapters map/chain: rejected by Verus); PrefixAssertion/AspaAssertion::to_payload are proved'],
    ),
    'C14': dict(
        level='proof',
        units=[('V', 'mft_name'), ('K', 'mft_name')],
        technique='contract-based deductive verification: Verus loop contract on the extracted FileAndHash::validate_file_name (any name length) + spec-level lemma that a valid name is a single safe URI segment; Kani complete harness for the 3-byte extension test and a bounded (<=8 bytes) equivalence with the RFC 9286 predicate',
        level_text='Unbounded proof (all lengths) that an accepted manifest file name has the shape stem{1,}[A-Za-z0-9_-] "." xyz, so it contains no slash, is not a dot segment and is non-empty (lemma_valid_name_is_single_safe_segment: exactly the failure conditions of Rsync::join are excluded). The letter test of the extension goes through slice::Iter::all, which Verus cannot specify; it is proved complete by Kani for all 2^40 five-byte names and the full equivalence Ok <=> valid only bounded (<= 8 bytes).',
        level_note='Trusted: Verus/Z3, Kani/CBMC, std u8::is_ascii_* contracts (proved for all 256 bytes by Kani). Assumed, not proved: the contract of Rsync::join (Bytes/str code), that both bcder decode closures call validate_file_name, len()==iterator count, thisUpdate<=nextUpdate, ManifestHash::verify (Bytes/AsRef/aws-lc digest).',
        assumed=['Rsync::join(base, name) fails only for names with "/" , empty names or dot segments and otherwise yields base + name (uri.rs is Bytes/str code outside Verus)'],
        not_decided=['that skip_opt_in and take_opt_from (bcder closures) call validate_file_name before returning Ok',
                     'reported length equals the number of entries the iterator yields; this-update is not after next-update (inside bcder closures of ManifestContent::take_from)',
                     'ManifestHash::verify: Ok exactly when hash == digest(data) (AsRef/Bytes/slice != and the aws-lc digest are outside both tools)',
                     'Ok <=> valid for names longer than 8 bytes (only Ok => shape is proved unbounded)'],
    ),
}

_PENDING = 'contracts for this property are not built yet in this revision (work in progress; see DESIGN.md §5)'
NOT_APPLICABLE = {
    'C01': _PENDING, 'C02': _PENDING, 'C03': _PENDING, 'C07': _PENDING, 'C09': _PENDING, 'C10': _PENDING,
    'C12': _PENDING,  'C17': _PENDING,
    'C04': 'quantifies over all byte strings into eleven decoders that are trees of bcder closures over bytes::Bytes (external crate); no function-level contract expresses "the whole parser returns", Verus cannot take that code and Kani does not terminate on Bytes (DESIGN.md §6)',
    'C05': 'built-object vs decoded-object agreement is a statement about the symmetry of bcder encoders and decoders across ten object types; not a per-function property of code within reach of Verus/Kani (DESIGN.md §6)',
    'C06': 'whole-history property of an async client/server exchange; contracts over one call cannot state "after any completed exchange", and neither tool has a scheduler model that survives tokio (DESIGN.md §6)',
    'C08': 'quantifies over schedules (fragmentation x notify interleavings); async erasure removes exactly the select/cancellation behaviour the property is about (DESIGN.md §6)',
    'C11': 'XML write->parse equality is decided inside quick_xml and str/fmt code outside both verifiers; only the escaping kernel is reachable (DESIGN.md §6)',
}
