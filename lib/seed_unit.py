#!/usr/bin/env python3
"""maintenance: run ONE unit against a scratch copy of /repo with a seeded patch applied
   seed_unit.py <seeded dir or patch> <K|V> <unit> [tier]"""
import os, sys, subprocess, shutil, json, tempfile
sys.path.insert(0, os.path.dirname(os.path.abspath(__file__)))
import run_kani, run_verus
src, eng, unit = sys.argv[1], sys.argv[2], sys.argv[3]
tier = sys.argv[4] if len(sys.argv) > 4 else 'quick'
patch = src if src.endswith('.diff') else os.path.join(src, 'patch.diff')
if not os.path.exists(patch):
    patch = os.path.join('/verif/seeded', src, 'patch.diff')
scr = tempfile.mkdtemp(prefix='seedunit-')
try:
    subprocess.run(['rsync', '-a', '--exclude', 'target', '--exclude', '.git', '/repo/', scr + '/'], check=True)
    ap = subprocess.run(['git', 'apply', '--unsafe-paths', '--directory=' + scr, os.path.abspath(patch)], cwd='/', capture_output=True, text=True)
    assert ap.returncode == 0, ap.stderr
    if eng == 'K':
        r = run_kani.run_unit(scr, unit, '/verif/contracts', tier=tier, jobs=12)
        print(r['status'], r['reason'][:500], round(r['wall_s'], 1))
        for h in r['harnesses']:
            print(' ', h['name'], h['status'], h.get('tried'), h.get('accepted'), [f['desc'] for f in h.get('failed_checks', [])][:3], (h.get('replay') or {}).get('confirmed'))
    else:
        w = tempfile.mkdtemp(prefix='verif-verus-')
        r = run_verus.run_unit(scr, unit, '/verif/contracts', w)
        print(r['status'], r.get('reason', '')[:500])
        for f in r.get('failures', [])[:6]:
            print('  ', f.get('fn'), f.get('kind'))
        shutil.rmtree(w, ignore_errors=True)
finally:
    shutil.rmtree(scr, ignore_errors=True)
