#!/usr/bin/env python3
"""print the as-built per-property table (markdown) from lib/props.py and the contract files"""
import os, re, sys, json
HERE = os.path.dirname(os.path.abspath(__file__))
sys.path.insert(0, HERE)
from props import PROPS, NOT_APPLICABLE
C = os.path.join(os.path.dirname(HERE), 'contracts')
def nfun(u):
    p = os.path.join(C, u + '.baseline.json')
    return len(json.load(open(p))['functions']) if os.path.exists(p) else 0
def harn(u):
    p = os.path.join(C, u + '.k.rs')
    if not os.path.exists(p): return (0, 0, 0)
    t = open(p).read()
    return (len(re.findall(r'//@harness \S+ K ', t)), len(re.findall(r'//@harness \S+ Kb ', t)), len(re.findall(r'//@harness \S+ W ', t)))
print('| id | level | Verus units (functions verified) | Kani units (complete K / bounded Kb / witness-search W harnesses) | not decided (listed in evidence) |')
print('|----|-------|---|---|---|')
for pid in sorted(PROPS):
    p = PROPS[pid]
    v = ', '.join('%s (%d)' % (u, nfun(u)) for e, u in p['units'] if e == 'V') or '-'
    k = ', '.join('%s (%d/%d/%d)' % ((u,) + harn(u)) for e, u in p['units'] if e == 'K') or '-'
    nd = '; '.join(x.split(' (')[0][:90] for x in p.get('not_decided', [])) or '-'
    print('| %s | %s | %s | %s | %s |' % (pid, p['level'], v, k, nd))
for pid in sorted(NOT_APPLICABLE):
    if pid not in PROPS:
        print('| %s | not applicable | - | - | %s |' % (pid, NOT_APPLICABLE[pid][:160]))
