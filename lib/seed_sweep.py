#!/usr/bin/env python3
"""maintenance: re-run the registered quick check against every (or every not yet detected) seeded change
   seed_sweep.py [all|undetected|<name>...] [-j N]   -- prints one line per change; meta.json is updated"""
import json, os, subprocess, sys
from concurrent.futures import ThreadPoolExecutor
VERIF = os.path.dirname(os.path.dirname(os.path.abspath(__file__)))
args = [a for a in sys.argv[1:] if not a.startswith('-j')]
j = [int(a[2:]) for a in sys.argv[1:] if a.startswith('-j')]
j = j[0] if j else 2
names = sorted(os.listdir(os.path.join(VERIF, 'seeded')))
if args and args[0] == 'undetected':
    names = [n for n in names if not json.load(open(os.path.join(VERIF, 'seeded', n, 'meta.json'))).get('detected')]
elif args and args[0] == 'except':
    skip = set(open(args[1]).read().split())
    names = [n for n in names if n not in skip]
elif args and args[0] != 'all':
    names = args
import threading, itertools
_ids = itertools.count()
_tl = threading.local()
def one(n):
    # each worker thread gets its own copy of the build caches (no lock contention between parallel checks)
    if not hasattr(_tl, 'cache'):
        k = next(_ids)
        _tl.cache = '/tmp/verif-sweep-cache-%d' % k
        subprocess.run(['rsync', '-a', os.path.join(VERIF, '.cache') + '/', _tl.cache + '/'])
    pid = json.load(open(os.path.join(VERIF, 'seeded', n, 'meta.json')))['property']
    p = subprocess.run([sys.executable, os.path.join(VERIF, 'lib', 'seed_verify.py'), os.path.join(VERIF, 'seeded', n), pid, '--no-confirm'],
                       capture_output=True, text=True, env=dict(os.environ, VERIF_CACHE_DIR=_tl.cache, VERIF_SCRATCH_ROOT=_tl.cache.replace('cache', 'scratch')))
    return n, p.stdout + p.stderr[-2000:]
with ThreadPoolExecutor(max_workers=j) as ex:
    for n, out in ex.map(one, names):
        print('=== ' + n); print(out, flush=True)
