"""Run Verus on one assembled unit and classify the outcome."""
import json
import os
import re
import subprocess
import time

from rustscan import ScanError, mask, match_brace
from assemble import assemble

TRUST_PATTERNS = [
    r'\bassume\s*\(', r'\badmit\s*\(', r'external_body', r'assume_specification',
    r'external_fn_specification', r'#\[verifier::external', r'exec_allows_no_decreases_clause',
    r'external_type_specification', r'verifier::trusted', r'#\[verifier::axiom', r'\baxiom\b',
    r'verifier::opaque_outside', r'uninterp\b', r'no_decreases', r'assume_termination',
    r'accept_recursive_types', r'reject_recursive_types',
]

CANARY = '''
verus! { proof fn verif_canary_must_fail() ensures false {} }
'''

PROOF_FAIL = [
    (r'^postcondition not satisfied', 'post'),
    (r'^precondition not satisfied', 'pre-of-callee'),
    (r'^precondition not met', 'pre-of-callee'),
    (r'^unable to prove post-condition of closure', 'post'),
    (r'^invariant not satisfied at end of loop body', 'invariant-preserved'),
    (r'^invariant not satisfied before loop', 'invariant-init'),
    (r'^assertion failed', 'assert'),
    (r'^possible arithmetic underflow/overflow', 'overflow'),
    (r'^possible division by zero', 'div-by-zero'),
    (r'^possible bit shift underflow/overflow', 'shift'),
    (r'^decreases not satisfied', 'decreases'),
    (r'^could not prove termination', 'decreases'),
    (r'^possible panic|^panic|unreachable', 'panic'),
    (r'index out of bounds|possible out of bounds', 'index'),
    (r'^recommendation not met', 'recommends'),
    (r'^loop invariant not satisfied', 'invariant-preserved'),
    (r'^unable to prove assertion safety condition', 'assert'),
    (r'^assert_by|^assertion', 'assert'),
    (r'^cannot show invariant holds', 'invariant-preserved'),
    (r'^failed this', 'post'),
]
RLIMIT = re.compile(r'Resource limit \(rlimit\) exceeded|rlimit|resource limit', re.I)


def fn_ranges(text):
    """[(name, first_line, last_line)] for every fn (with body or `;`) in assembled text"""
    m = mask(text)
    res = []
    for mm in re.finditer(r'(?<![A-Za-z0-9_])fn\s+([A-Za-z_][A-Za-z0-9_]*)', m):
        s = mm.start()
        k = mm.end()
        depth = 0
        end = None
        while k < len(m):
            ch = m[k]
            if ch in '([':
                depth += 1
            elif ch in ')]':
                depth -= 1
            elif ch == '{' and depth == 0:
                # a brace block at depth 0 is the body unless it is a block expression inside a spec
                # clause (`ensures a ==> { .. },`): those are followed by `,` or an operator
                e = match_brace(m, k)
                j = e + 1
                while j < len(m) and m[j] in ' \t\r\n':
                    j += 1
                if j < len(m) and m[j] in ',&|=<>+-*/.?':
                    k = e + 1
                    continue
                end = e
                break
            elif ch == ';' and depth == 0:
                end = k
                break
            k += 1
        if end is None:
            continue
        res.append((mm.group(1), text.count('\n', 0, s) + 1, text.count('\n', 0, end) + 1))
    return res


def scan_trusted(text):
    """every line that introduces an assumption, with its line number.  `#[verifier::external_body]`
    is itemised: the key is the attribute plus the header line of the item it is attached to, so every
    unverified body has to be listed individually in <unit>.trusted."""
    hits = []
    m = mask(text)
    raw_lines = text.split('\n')
    m_lines = m.split('\n')
    for no, (raw, ml) in enumerate(zip(raw_lines, m_lines), 1):
        for p in TRUST_PATTERNS:
            if re.search(p, ml):
                key = raw.strip()
                if 'linked: proved in unit' in raw:
                    break  # a //@stub link: reported under links, the proving unit is checked in the same run
                if re.search(r'external_body', ml) and ml.strip().startswith('#['):
                    k = no  # 0-based index of next line
                    while k < len(raw_lines) and (m_lines[k].strip() == '' or m_lines[k].strip().startswith('#[')):
                        k += 1
                    nxt = raw_lines[k].strip() if k < len(raw_lines) else ''
                    key = 'external_body: ' + re.sub(r'\s+', ' ', nxt).rstrip('{').strip()
                hits.append((no, key))
                break
    return hits


def run_unit(repo, unit, contracts_dir, workdir, rlimit=None, extra_args=(), seed=None, use_baseline=True):
    """Returns dict: status in {ok, violation, undecided}, details..."""
    res = _run_unit(repo, unit, contracts_dir, workdir, rlimit, extra_args, seed, use_baseline)
    if res.get('degraded') is not None:
        if res['status'] == 'ok':
            res['reason'] = 'verified without %d annotation(s) whose anchors are gone: %s' % (len(res['degraded']), '; '.join(res['degraded'])[:400])
        elif res['status'] == 'violation' and not res.get('degraded_hint_lost', True):
            # only call-shape rewrites found nothing to rewrite (no proof annotation was dropped): the emitted
            # bodies are exactly the source with every hint in place, so a failed baseline obligation stands
            res['reason'] = 'note: %s' % '; '.join(res['degraded'])[:300]
        else:
            # without the lost hints a failed proof says nothing: undecided, exactly as before the second attempt
            why = res['status'] if res['status'] == 'violation' else res['reason'][:200]
            res['status'] = 'undecided'
            res['reason'] = '%s (second attempt without the lost annotations did not verify: %s)' % (res['lost_anchor'], why if why != 'violation' else ', '.join(res.get('failing_functions', [])))
            res['failures'] = []
    return res


def _run_unit(repo, unit, contracts_dir, workdir, rlimit=None, extra_args=(), seed=None, use_baseline=True):
    t0 = time.time()
    res = dict(unit=unit, engine='verus', status='undecided', reason='', functions=[], failures=[],
               trusted=[], rewrites=[], extracted=[], smt_ms=0, wall_s=0.0)
    tmpl = os.path.join(contracts_dir, unit + '.v.rs')
    lost = None
    try:
        asm = assemble(repo, tmpl)
    except ScanError as e:
        lost = 'extraction: %s' % e
        asm = None
        if 'lost anchor' in str(e) and 'signature' not in str(e) and 'file ' not in str(e):
            # second attempt: drop the ghost blocks / loop annotations / call-shape substitutions whose
            # anchors are gone.  If everything still verifies, the proof stands (fewer hints, same
            # obligations); if not, the unit is undecided as before - never a violation.
            try:
                asm = assemble(repo, tmpl, degrade=True)
            except ScanError:
                asm = None
        if asm is None:
            res['reason'] = lost
            res['wall_s'] = time.time() - t0
            return res
        res['degraded'] = list(asm.degraded)
        res['degraded_hint_lost'] = asm.degraded_hint_lost
        res['lost_anchor'] = lost
    text = asm.text() + CANARY
    os.makedirs(workdir, exist_ok=True)
    path = os.path.join(workdir, unit + '.rs')
    open(path, 'w').write(text)
    res['assembled'] = path
    res['rewrites'] = asm.rewrites
    res['extracted'] = asm.fns + asm.items
    res['links'] = asm.links

    # trusted scan against allow-list
    allow_path = os.path.join(contracts_dir, unit + '.trusted')
    allow = []
    if os.path.exists(allow_path):
        allow = [l.rstrip('\n') for l in open(allow_path) if l.strip() and not l.startswith('# ')]
    hits = scan_trusted(asm.text())
    res['trusted'] = [h[1] for h in hits]
    allowed_keys = set(a.split(' ## ')[0].strip() for a in allow)
    notes = {a.split(' ## ')[0].strip(): (a.split(' ## ')[1].strip() if ' ## ' in a else '') for a in allow}
    res['trusted_notes'] = [(h[1], notes.get(h[1], '')) for h in hits]
    undeclared = [h for h in hits if h[1] not in allowed_keys]
    if undeclared:
        res['reason'] = 'trusted-scan: undeclared assumption(s): ' + '; '.join('%d: %s' % h for h in undeclared[:5])
        res['wall_s'] = time.time() - t0
        return res

    cmd = ['verus', path, '--output-json', '--time', '--error-format=json', '--multiple-errors', '4']
    if rlimit:
        cmd += ['--rlimit', str(rlimit)]
    if seed is not None:
        cmd += ['--smt-option', 'smt.random_seed=%d' % seed]
    cmd += list(extra_args)
    res['cmd'] = ' '.join(cmd)
    try:
        p = subprocess.run(cmd, cwd=workdir, capture_output=True, text=True, timeout=1500)
    except subprocess.TimeoutExpired:
        res['reason'] = 'verus timeout'
        res['wall_s'] = time.time() - t0
        return res
    res['stderr_tail'] = p.stderr[-4000:]
    try:
        js = json.loads(p.stdout)
    except Exception:
        res['reason'] = 'verus produced no JSON (front-end failure): ' + p.stderr[-1500:]
        res['wall_s'] = time.time() - t0
        return res
    diags = []
    for ln in p.stderr.split('\n'):
        ln = ln.strip()
        if ln.startswith('{'):
            try:
                d = json.loads(ln)
            except Exception:
                continue
            if d.get('level') == 'error':
                diags.append(d)
    vr = js.get('verification-results', {})
    res['verus_results'] = vr
    if vr.get('encountered-vir-error') or 'times-ms' not in js:
        msg = '; '.join(d.get('message', '') for d in diags[:3])
        res['reason'] = 'front-end error (not a proof failure): ' + msg
        res['diagnostics'] = [d.get('rendered', '') for d in diags[:5]]
        res['wall_s'] = time.time() - t0
        return res
    breakdown = []
    try:
        for mt in js['times-ms']['smt']['smt-run-module-times']:
            breakdown += mt.get('function-breakdown', [])
        res['smt_ms'] = js['times-ms']['smt']['smt-run']
    except KeyError:
        pass
    if not breakdown:
        msg = '; '.join(d.get('message', '') for d in diags[:3])
        res['reason'] = 'no functions verified (front-end error?): ' + msg
        res['diagnostics'] = [d.get('rendered', '') for d in diags[:5]]
        res['wall_s'] = time.time() - t0
        return res
    crate = unit
    funcs = {}
    for b in breakdown:
        name = b['function']
        if name.startswith(crate + '::'):
            name = name[len(crate) + 2:]
        f = funcs.setdefault(name, dict(name=name, mode=b.get('mode:', ''), time_us=0, rlimit=0, success=True))
        f['time_us'] += b.get('time-micros', 0)
        f['rlimit'] += b.get('rlimit', 0)
        f['success'] = f['success'] and b.get('success', False)
    # canary
    can = funcs.pop('verif_canary_must_fail', None)
    if can is None or can['success']:
        res['reason'] = 'vacuity guard: canary `ensures false` did not fail (inconsistent axioms?)'
        res['wall_s'] = time.time() - t0
        return res
    res['functions'] = list(funcs.values())

    # map diagnostics to functions
    ranges = fn_ranges(text)

    def fn_at(line):
        best = None
        for (n, a, b) in ranges:
            if a <= line <= b and (best is None or a >= best[1]):
                best = (n, a, b)
        return best[0] if best else None

    failing = {n for n, f in funcs.items() if not f['success']}
    fail_recs = []
    other_errors = []
    for d in diags:
        msg = d.get('message', '')
        if msg.startswith('aborting due to'):
            continue
        spans = d.get('spans', [])
        prim = [s for s in spans if s.get('is_primary')] or spans
        kind = None
        for pat, k in PROOF_FAIL:
            if re.search(pat, msg):
                kind = k
                break
        is_rlimit = bool(RLIMIT.search(msg))
        # choose span inside a failing fn
        loc_fn, loc_line = None, None
        for s in prim + spans:
            f = fn_at(s['line_start'])
            if f == 'verif_canary_must_fail':
                loc_fn = f
                break
            short = f
            if f and any(n == f or n.endswith('::' + f) for n in failing):
                loc_fn, loc_line = f, s['line_start']
                break
        if loc_fn == 'verif_canary_must_fail':
            continue
        if loc_fn is None and prim:
            loc_fn = fn_at(prim[0]['line_start'])
            loc_line = prim[0]['line_start']
        origin = asm.origin(loc_line) if loc_line else None
        rec = dict(fn=loc_fn, kind=kind, message=msg, rlimit=is_rlimit, line=loc_line, origin=origin,
                   rendered=d.get('rendered', ''))
        if kind is None and not is_rlimit:
            other_errors.append(rec)
        else:
            fail_recs.append(rec)
    res['failures'] = fail_recs
    if other_errors:
        res['reason'] = 'unclassified verus error(s) (treated as tool/front-end problem): ' + \
            '; '.join(r['message'] for r in other_errors[:3])
        res['diagnostics'] = [r['rendered'] for r in other_errors[:5]]
        res['wall_s'] = time.time() - t0
        return res

    # baseline
    base_path = os.path.join(contracts_dir, unit + '.baseline.json')
    baseline = json.load(open(base_path))['functions'] if (use_baseline and os.path.exists(base_path)) else None
    res['baseline'] = baseline
    if baseline is not None:
        missing = [b for b in baseline if b not in funcs]
        if missing:
            res['reason'] = 'vacuity guard: baseline function(s) not verified in this run: ' + ', '.join(missing)
            res['wall_s'] = time.time() - t0
            return res
    if not failing:
        res['status'] = 'ok'
    else:
        # rlimit-only failures are undecided
        real = []
        for n in failing:
            short = n.split('::')[-1]
            recs = [r for r in fail_recs if r['fn'] == short]
            if recs and all(r['rlimit'] for r in recs):
                continue
            if not recs:
                # failed without a classified diagnostic -> undecided
                continue
            real.append(n)
        if real:
            res['status'] = 'violation'
            res['failing_functions'] = sorted(real)
        else:
            res['reason'] = 'resource limit / unexplained failure in: ' + ', '.join(sorted(failing))
    res['wall_s'] = time.time() - t0
    return res
