#!/usr/bin/env python3
"""Rewrite the generated parts of DESIGN.md §9 (claims table 9.2 and seeded-changes table 9.4)."""
import subprocess, json, glob, os, re
p='/verif/DESIGN.md'
s=open(p).read()
table=subprocess.run(['python3','/verif/lib/gen_design_table.py'],capture_output=True,text=True).stdout
a=s.index('### 9.2 What is claimed')
b=s.index('Deviations from the plan worth knowing:')
s=s[:a]+'### 9.2 What is claimed\n\n'+table+'\n'+s[b:]
rows=[]
det=0; tot=0
for d in sorted(glob.glob('/verif/seeded/*')):
    mp=os.path.join(d,'meta.json')
    if not os.path.exists(mp): continue
    m=json.load(open(mp)); tot+=1
    lines=m.get('check',{}).get('lines',[])
    obl=sorted({l.split('obligation=')[1].split()[0] for l in lines if 'obligation=' in l and l.startswith('VIOLATION')})
    replayed=any((l.startswith('VIOLATION') and 'no-failing-input-found' not in l) for l in lines)
    und=[l for l in lines if l.startswith('UNDECIDED')]
    if m.get('detected'):
        det+=1
        ded=[o for o in obl if not o.split('/')[0].endswith('_w')]
        if ded:
            detded=globals().get('detded',0)+1; globals()['detded']=detded
        res='VIOLATION'+(' (counterexample replayed natively)' if replayed else '')+': '+', '.join((ded or obl)[:3])+('' if ded else ' [witness search only]')
    elif und:
        res='undecided (exit 2): '+und[0].split(': ',1)[-1][:110]
    else:
        res='not detected'
    rows.append('| %s | %s | %s |' % (os.path.basename(d), m.get('property'), res))
hdr='| change | property | result of `./check` with the change applied |\n|---|---|---|\n'
a=s.index('| change | property | result of `./check` with the change applied |')
b=s.index('\nMisses and why:')
s=s[:a]+hdr+'\n'.join(rows)+'\n\n'+('Detected: %d of %d confirmed seeded changes (%d by a failing obligation of a deductive unit, the others only by the witness search behind them).\n' % (det,tot,globals().get('detded',0)))+s[b:]
open(p,'w').write(s)
print('detected %d of %d' % (det,tot))
