"""Rust-token-aware source scanner used to extract real items from /repo.

No parsing of expressions: it only needs to (a) blank out comments and
string/char literals so that braces and keywords can be matched reliably, and
(b) locate items (impl/trait/struct/enum/fn/macro_rules) by their header text.
"""
import re


class ScanError(Exception):
    """Anchor lost / construct not understood -> the caller exits 2."""


def mask(src):
    """Return a same-length string in which the *contents* of comments, string
    literals, raw strings, byte strings and char literals are replaced by
    spaces (newlines kept).  Lifetimes ('a) are left alone."""
    out = list(src)
    i, n = 0, len(src)

    def blank(a, b):
        for k in range(a, b):
            if out[k] != '\n':
                out[k] = ' '

    while i < n:
        c = src[i]
        if c == '/' and i + 1 < n and src[i + 1] == '/':
            j = src.find('\n', i)
            if j < 0:
                j = n
            blank(i, j)
            i = j
        elif c == '/' and i + 1 < n and src[i + 1] == '*':
            depth, j = 1, i + 2
            while j < n and depth:
                if src.startswith('/*', j):
                    depth += 1
                    j += 2
                elif src.startswith('*/', j):
                    depth -= 1
                    j += 2
                else:
                    j += 1
            blank(i, j)
            i = j
        elif c == '"' or (c in 'bc' and i + 1 < n and src[i + 1] == '"'
                          and not _ident_before(src, i)):
            j = i + (1 if c == '"' else 2)
            while j < n and src[j] != '"':
                j += 2 if src[j] == '\\' else 1
            blank(i + 1, min(j, n))
            i = j + 1
        elif c in 'rb' and not _ident_before(src, i) and _raw_start(src, i):
            k = i
            if src[k] == 'b':
                k += 1
            k += 1  # r
            hashes = 0
            while src[k] == '#':
                hashes += 1
                k += 1
            end = src.find('"' + '#' * hashes, k + 1)
            if end < 0:
                end = n
            blank(k + 1, end)
            i = end + 1 + hashes
        elif c == "'":
            # char literal or lifetime
            m = re.match(r"'(\\.[^']*|[^\\'])'", src[i:i + 12])
            if m:
                blank(i + 1, i + m.end() - 1)
                i += m.end()
            else:
                i += 1
        elif c == 'b' and i + 1 < n and src[i + 1] == "'" and not _ident_before(src, i):
            m = re.match(r"b'(\\.[^']*|[^\\'])'", src[i:i + 12])
            if m:
                blank(i + 2, i + m.end() - 1)
                i += m.end()
            else:
                i += 1
        else:
            i += 1
    return ''.join(out)


def _ident_before(src, i):
    return i > 0 and (src[i - 1].isalnum() or src[i - 1] == '_')


def _raw_start(src, i):
    return re.match(r'b?r#*"', src[i:i + 40]) is not None


def match_brace(m, open_idx):
    """m is masked text; open_idx points at '{', '(' or '['."""
    pairs = {'{': '}', '(': ')', '[': ']'}
    o = m[open_idx]
    c = pairs[o]
    depth = 0
    for k in range(open_idx, len(m)):
        ch = m[k]
        if ch == o:
            depth += 1
        elif ch == c:
            depth -= 1
            if depth == 0:
                return k
    raise ScanError('unbalanced %s at %d' % (o, open_idx))


def norm(s):
    """whitespace-insensitive normal form used to compare headers"""
    s = re.sub(r'\s+', ' ', s.strip())
    s = re.sub(r'\s*([<>,:(){}\[\]&+=;])\s*', r'\1', s)
    return s


def line_of(src, idx):
    return src.count('\n', 0, idx) + 1


class Source:
    def __init__(self, path, text=None):
        self.path = path
        self.text = text if text is not None else open(path, encoding='utf-8').read()
        self.m = mask(self.text)

    # ------------------------------------------------------------------
    def containers(self, header):
        """All brace-delimited items whose header (text from the item keyword
        up to the opening brace) equals `header` up to whitespace.  Header may
        start with impl / trait / mod / struct / enum / macro_rules!.
        Returns list of (start_idx, open_brace_idx, close_brace_idx)."""
        want = norm(header)
        kw = want.split(' ')[0].split('<')[0]
        res = []
        for mm in re.finditer(r'(?<![A-Za-z0-9_])' + re.escape(kw) + r'(?![A-Za-z0-9_])', self.m):
            s = mm.start()
            # header ends at first '{' or ';' at bracket depth 0 (ignoring <> which
            # cannot contain braces in the headers we care about)
            k = s
            depth = 0
            ob = -1
            while k < len(self.m):
                ch = self.m[k]
                if ch in '([':
                    depth += 1
                elif ch in ')]':
                    depth -= 1
                elif ch == '{' and depth == 0:
                    ob = k
                    break
                elif ch == ';' and depth == 0:
                    break
                k += 1
            if ob < 0:
                continue
            head = norm(self.text[s:ob])
            # strip where-clauses / pub prefixes for comparison convenience
            if head == want or head.startswith(want + ' where') or \
                    head.startswith(want + ' where'.replace(' ', '')):
                res.append((s, ob, match_brace(self.m, ob)))
        return res

    def item_start_with_attrs(self, s):
        """Walk back from item keyword over `pub`, `pub(crate)`, attributes and
        doc comments; returns index of first char of that prefix."""
        t = self.text
        k = s
        while True:
            # skip whitespace backwards
            j = k
            while j > 0 and t[j - 1] in ' \t\r\n':
                j -= 1
            # visibility / qualifiers
            mm = re.search(r'(pub(\s*\([^)]*\))?|const|unsafe|async|default|extern(\s*"[^"]*")?)$', t[:j])
            if mm:
                k = mm.start()
                continue
            # attribute  #[...]
            if j > 0 and t[j - 1] == ']':
                # find matching '[' in masked text
                depth = 0
                q = j - 1
                while q >= 0:
                    if self.m[q] == ']':
                        depth += 1
                    elif self.m[q] == '[':
                        depth -= 1
                        if depth == 0:
                            break
                    q -= 1
                if q > 0 and t[q - 1] == '#':
                    k = q - 1
                    continue
                if q > 1 and t[q - 2:q] == '#!':
                    k = q - 2
                    continue
            # doc / line comment
            ls = t.rfind('\n', 0, j) + 1
            line = t[ls:j]
            if line.strip().startswith('//'):
                k = ls + (len(line) - len(line.lstrip()))
                continue
            return k if k != s else s

    # ------------------------------------------------------------------
    def find_fn(self, header, name, nth=0):
        """Locate `fn name` directly inside a container with the given header
        (or at top level when header is '-').  Returns dict with indices."""
        if header == '-':
            ranges = [(0, -1, len(self.text))]
        else:
            ranges = self.containers(header)
            if not ranges:
                raise ScanError('lost anchor: no item "%s" in %s' % (header, self.path))
        hits = []
        for (_, ob, cb) in ranges:
            for mm in re.finditer(r'(?<![A-Za-z0-9_])fn\s+' + re.escape(name) + r'(?![A-Za-z0-9_])',
                                  self.m[ob + 1:cb]):
                s = ob + 1 + mm.start()
                if self._depth(ob + 1, s) != 0:
                    continue
                hits.append(s)
        if len(hits) <= nth:
            raise ScanError('lost anchor: fn %s not found in "%s" (%s)' % (name, header, self.path))
        s = hits[nth]
        # body: first '{' at paren depth 0 after s
        k = s
        depth = 0
        ob = -1
        while k < len(self.m):
            ch = self.m[k]
            if ch in '([':
                depth += 1
            elif ch in ')]':
                depth -= 1
            elif ch == '{' and depth == 0:
                ob = k
                break
            elif ch == ';' and depth == 0:
                break
            k += 1
        if ob < 0:
            raise ScanError('fn %s has no body in %s' % (name, self.path))
        cb = match_brace(self.m, ob)
        full = self.item_start_with_attrs(s)
        quals = self.text[full:s]
        return dict(start=full, fn=s, open=ob, close=cb,
                    sig=self.text[s:ob], body=self.text[ob:cb + 1],
                    prefix=quals, line=line_of(self.text, s), count=len(hits))

    def _depth(self, a, b):
        d = 0
        for ch in self.m[a:b]:
            if ch == '{':
                d += 1
            elif ch == '}':
                d -= 1
        return d

    # ------------------------------------------------------------------
    def find_item(self, header):
        """struct/enum/const/type/static item by header prefix.  Returns text
        including terminating ';' or brace block (and trailing ';' for tuple
        structs)."""
        want = norm(header)
        kw = want.split(' ')[0]
        for mm in re.finditer(r'(?<![A-Za-z0-9_])' + re.escape(kw) + r'(?![A-Za-z0-9_])', self.m):
            s = mm.start()
            if self._depth(0, s) != 0 and kw not in ('const', 'type'):
                continue
            seg = self.m[s:s + 400]
            if not norm(self.text[s:s + len(seg)]).startswith(want):
                continue
            nxt = norm(self.text[s:s + len(seg)])[len(want):len(want) + 1]
            if nxt and (nxt.isalnum() or nxt == '_'):
                continue
            # find end
            k = s
            depth = 0
            while k < len(self.m):
                ch = self.m[k]
                if ch in '([':
                    depth += 1
                elif ch in ')]':
                    depth -= 1
                elif ch == '{' and depth == 0:
                    e = match_brace(self.m, k) + 1
                    return dict(start=s, end=e, text=self.text[s:e], line=line_of(self.text, s))
                elif ch == ';' and depth == 0:
                    e = k + 1
                    return dict(start=s, end=e, text=self.text[s:e], line=line_of(self.text, s))
                k += 1
        raise ScanError('lost anchor: item "%s" not found in %s' % (header, self.path))


def strip_attrs_and_docs(text):
    """R7: drop #[..] attributes and all comments from an extracted item."""
    text = strip_comments(text)
    m = mask(text)
    out = []
    i, n = 0, len(text)
    while i < n:
        if m[i] == '#' and i + 1 < n and m[i + 1] in '[!':
            j = i + 1
            if m[j] == '!':
                j += 1
            if j < n and m[j] == '[':
                i = match_brace(m, j) + 1
                continue
        out.append(text[i])
        i += 1
    res = ''.join(out)
    res = re.sub(r'[ \t]+\n', '\n', res)
    return res


def strip_comments(text):
    """Replace comment text by spaces but keep string literals intact."""
    out = list(text)
    i, n = 0, len(text)
    while i < n:
        c = text[i]
        if c == '/' and text.startswith('//', i):
            j = text.find('\n', i)
            j = n if j < 0 else j
            for k in range(i, j):
                out[k] = ' '
            i = j
        elif c == '/' and text.startswith('/*', i):
            j = text.find('*/', i + 2)
            j = n if j < 0 else j + 2
            for k in range(i, j):
                if out[k] != '\n':
                    out[k] = ' '
            i = j
        elif c == '"':
            j = i + 1
            while j < n and text[j] != '"':
                j += 2 if text[j] == '\\' else 1
            i = j + 1
        elif c == "'":
            mm = re.match(r"'(\\.[^']*|[^\\'])'", text[i:i + 12])
            i += mm.end() if mm else 1
        else:
            i += 1
    return ''.join(out)
