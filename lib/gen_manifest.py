#!/usr/bin/env python3
"""Regenerate MANIFEST.json from lib/props.py (single source of truth)."""
import json, os, sys
HERE = os.path.dirname(os.path.abspath(__file__))
sys.path.insert(0, HERE)
from props import PROPS, NOT_APPLICABLE

checks = []
for pid in sorted(PROPS):
    p = dict(PROPS[pid])
    wunits = [u for e, u in p['units'] if u.endswith('_w')]
    if wunits:
        p['technique'] += '; behind the deductive units a refutation-only witness search (units %s: the real compiled functions run natively on biased random inputs against the clauses of the property; a hit is a replayed concrete input; proves nothing and is not counted)' % ', '.join(wunits)
        p['level_note'] += ' Witness-search units (%s) are refutation-only: listed in the evidence under witness_search_not_counted_as_proved, excluded from obligations/discharged; clauses they alone look at stay under not_decided.' % ', '.join(wunits)
    checks.append(dict(
        property_id=pid,
        quick_cmd='./check %s --tier quick' % pid,
        thorough_cmd='./check %s --tier thorough' % pid,
        evidence_file='/verif/evidence/%s.json' % pid,
        replay_cmd_template='./check --replay {path}',
        engine='verus+kani' if len({e for e, _ in p['units']}) > 1 else ('verus' if p['units'][0][0] == 'V' else 'kani'),
        level_claimed=dict(category=p['level'], text=p['level_text'], design_ref=p.get('design_ref', 'DESIGN.md §5 ' + pid)),
        level_note=p['level_note'],
        technique=p['technique'],
    ))
m = dict(
    version=1,
    setup_cmd='./setup.sh',
    hooks=dict(
        guard='cfg(kani) / cfg(verif_replay)',
        enable='none in /repo: contracts and harness modules are injected into a scratch copy of the working tree on every run (lib/run_kani.py); Verus units are extracted from the working tree (lib/assemble.py)',
        baseline_off_cmd='cd /repo && cargo test --workspace --no-fail-fast --offline',
        source_commits=[],
        add_only=True,
    ),
    engines=[
        dict(name='verus', path='/verif/lib/run_verus.py', serves_properties=sorted(p for p in PROPS if any(e == 'V' for e, _ in PROPS[p]['units'])),
             kind_free_text='Verus 0.2026.09.13 (Z3) on function text extracted mechanically from /repo each run'),
        dict(name='kani', path='/verif/lib/run_kani.py', serves_properties=sorted(p for p in PROPS if any(e == 'K' for e, _ in PROPS[p]['units'])),
             kind_free_text='Kani 0.68 / CBMC 6.11 on a scratch copy of the real crate with injected cfg(kani) contracts and harnesses'),
    ],
    checks=checks,
    notes='Contract-based deductive verification; see DESIGN.md. exit 2 = undecided (never an alarm).',
    not_applicable=[dict(property_id=k, reason=v) for k, v in sorted(NOT_APPLICABLE.items()) if k not in PROPS],
)
json.dump(m, open(os.path.join(os.path.dirname(HERE), 'MANIFEST.json'), 'w'), indent=1)
print('MANIFEST.json: %d checks, %d not applicable' % (len(checks), len(m['not_applicable'])))
