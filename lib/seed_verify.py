#!/usr/bin/env python3
"""Confirm a seeded change (maintenance tool, not a registered check):
   seed_verify.py <dir with patch.diff demo.rs notes.txt> <property> [--no-confirm]
1. scratch worktree: demo passes on HEAD, fails with patch; default-feature suite passes with patch
2. apply to /repo, run ./check <property>, undo; store everything under /verif/seeded/<name>/"""
import json, os, shutil, subprocess, sys, time

src, pid = sys.argv[1].rstrip('/'), sys.argv[2]
name = os.path.basename(src)
VERIF = os.path.dirname(os.path.dirname(os.path.abspath(__file__)))
dst = os.path.join(VERIF, 'seeded', name)
wt = '/tmp/seedverify-' + name
env = dict(os.environ, CARGO_TARGET_DIR='/tmp/seedverify-target', CARGO_NET_OFFLINE='true', CARGO_BUILD_JOBS=os.environ.get('CARGO_BUILD_JOBS', '6'))

def sh(cmd, cwd=None, timeout=3600):
    p = subprocess.run(cmd, shell=True, cwd=cwd, env=env, capture_output=True, text=True, timeout=timeout)
    return p.returncode, p.stdout + p.stderr

meta = dict(property=pid, name=name, ran=[])
if '--no-confirm' not in sys.argv:
    sh('git -C /repo worktree remove --force %s' % wt)
    rc, out = sh('git -C /repo worktree add --detach %s HEAD' % wt)
    assert rc == 0, out
    try:
        tname = 'seed_demo_' + ''.join(c if c.isalnum() else '_' for c in name)
        shutil.copy(os.path.join(src, 'demo.rs'), os.path.join(wt, 'tests', tname + '.rs'))
        cmd = 'cargo test --offline --features ca,rtr,slurm --test %s' % tname
        rc0, out0 = sh(cmd, wt)
        meta['ran'].append(dict(cmd=cmd + '  (HEAD)', rc=rc0, tail=out0[-600:]))
        rc, out = sh('git apply %s' % os.path.join(src, 'patch.diff'), wt)
        assert rc == 0, 'patch does not apply: ' + out
        sh('touch src/lib.rs', wt)
        rc1, out1 = sh(cmd, wt)
        meta['ran'].append(dict(cmd=cmd + '  (patched)', rc=rc1, tail=out1[-1200:]))
        os.remove(os.path.join(wt, 'tests', tname + '.rs'))
        rc2, out2 = sh('cargo test --offline', wt)
        meta['ran'].append(dict(cmd='cargo test --offline  (patched, pinned default-feature suite)', rc=rc2, tail=out2[-400:]))
        meta['demo_passes_on_head'] = rc0 == 0
        meta['demo_fails_with_patch'] = rc1 != 0 and 'test result: FAILED' in out1
        meta['pinned_suite_passes_with_patch'] = rc2 == 0
    finally:
        sh('git -C /repo worktree remove --force %s' % wt)
        sh('rm -rf %s' % wt)
if '--no-check' in sys.argv:
    os.makedirs(dst, exist_ok=True)
    for f in ('patch.diff', 'demo.rs', 'notes.txt'):
        if os.path.exists(os.path.join(src, f)) and os.path.abspath(src) != os.path.abspath(dst):
            shutil.copy(os.path.join(src, f), dst)
    notes = open(os.path.join(dst, 'notes.txt')).read() if os.path.exists(os.path.join(dst, 'notes.txt')) else ''
    meta['needs_to_manifest'] = notes.strip()
    if os.path.exists(os.path.join(dst, 'meta.json')):
        old = json.load(open(os.path.join(dst, 'meta.json')))
        for k in ('check', 'detected'):
            if k in old: meta[k] = old[k]
    json.dump(meta, open(os.path.join(dst, 'meta.json'), 'w'), indent=1)
    print(name, 'head_ok=%s patched_fails=%s suite_ok=%s (check not run)' % (meta.get('demo_passes_on_head'), meta.get('demo_fails_with_patch'), meta.get('pinned_suite_passes_with_patch')))
    sys.exit(0)
# run the check against a scratch copy of /repo's working tree with the patch applied
# (equivalent to `git -C /repo apply` + check + `git -C /repo checkout -- .`, but does not disturb
# other work going on in /repo)
scr = '/tmp/seedrepo-' + name
sh('rm -rf %s' % scr)
rc, out = sh('rsync -a --exclude target --exclude .git /repo/ %s/' % scr)
assert rc == 0, out
rc, out = sh('git apply --unsafe-paths --directory=%s %s' % (scr, os.path.join(src, 'patch.diff')), cwd='/')
if rc != 0:
    rc, out = sh('patch -p1 -d %s < %s' % (scr, os.path.join(src, 'patch.diff')))
assert rc == 0, out
try:
    t0 = time.time()
    env['VERIF_REPO'] = scr
    env['VERIF_EVIDENCE_DIR'] = '/tmp/seedverify-evidence'
    rcq, outq = sh('./check %s --tier quick' % pid, VERIF, timeout=7200)
    meta['check'] = dict(cmd='git -C /repo apply patch.diff && ./check %s --tier quick' % pid, rc=rcq, wall_s=round(time.time() - t0, 1),
                         lines=[l for l in outq.split('\n') if l.startswith(('VIOLATION', 'UNDECIDED', 'KNOWN', pid))])
    meta['detected'] = rcq == 1 and 'VIOLATION property=%s' % pid in outq
finally:
    sh('rm -rf %s' % scr)
os.makedirs(dst, exist_ok=True)
for f in ('patch.diff', 'demo.rs', 'notes.txt'):
    if os.path.exists(os.path.join(src, f)) and os.path.abspath(src) != os.path.abspath(dst):
        shutil.copy(os.path.join(src, f), dst)
if os.path.exists(os.path.join(dst, 'meta.json')) and '--no-confirm' in sys.argv:
    old = json.load(open(os.path.join(dst, 'meta.json')))
    old.update({k: meta[k] for k in ('check', 'detected')})
    meta = old
notes = open(os.path.join(dst, 'notes.txt')).read() if os.path.exists(os.path.join(dst, 'notes.txt')) else ''
meta['needs_to_manifest'] = notes.strip()
json.dump(meta, open(os.path.join(dst, 'meta.json'), 'w'), indent=1)
print(name, 'head_ok=%s patched_fails=%s suite_ok=%s detected=%s' % (meta.get('demo_passes_on_head'), meta.get('demo_fails_with_patch'), meta.get('pinned_suite_passes_with_patch'), meta.get('detected')))
for l in meta['check']['lines']: print('   ', l[:300])
