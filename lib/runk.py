import sys, json
sys.path.insert(0,'/verif/lib')
import run_kani
unit=sys.argv[1]
r=run_kani.run_unit('/repo',unit,'/verif/contracts', tier=sys.argv[2] if len(sys.argv)>2 else 'quick', jobs=12)
print(r['status'], r['reason'][:2000], round(r['wall_s'],1))
for h in r['harnesses']:
    print(' ', h['name'], h['status'], h.get('checks'), h.get('solver_s'), [f['desc'] for f in h.get('failed_checks',[])][:4], (h.get('counterexample') or {}).get('pretty'), (h.get('replay') or {}).get('confirmed'))
if r['status']=='undecided':
    print(r.get('diagnostics','')[-3000:])
    out=r.get('output_tail','')
    i=out.find('error')
    print(out[i:i+3000] if i>=0 else out[-2000:])
