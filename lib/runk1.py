import sys, json, re
sys.path.insert(0,'/verif/lib')
import run_kani
unit=sys.argv[1]; only=sys.argv[2:]
orig=run_kani.parse_template
def pt(path):
    f,a,ap,h=orig(path)
    return f,a,ap,[x for x in h if x['name'] in only]
run_kani.parse_template=pt
r=run_kani.run_unit('/repo',unit,'/verif/contracts', tier='thorough', jobs=12)
print(r['status'], r['reason'][:500], round(r['wall_s'],1))
for h in r['harnesses']:
    print(' ', h['name'], h['status'], h.get('checks'), h.get('solver_s'), h.get('symex_s'), [f['desc'] for f in h.get('failed_checks',[])][:4], (h.get('counterexample') or {}).get('pretty'), (h.get('replay') or {}).get('confirmed'))
    if h['status']!='ok': print(h.get('output','')[-1500:])
print(r.get('output_tail','')[-1500:] if r['status']!='ok' else '')
