"""Assemble a Verus file from a contract template and source text extracted
from /repo's current working tree.

Template directives (all are `//@` comment lines inside contracts/<unit>.v.rs):

  //@fn <file> :: <container header | -> :: <fn name> [as=<new name>] [nth=<k>] [ret=<binder>] [external_body] [vis=<text>]
      //@sigsub <RULE> "<old>" "<new>"        textual substitution in the signature
      //@sub <RULE> "<old>" "<new>" [n=<k>]   textual substitution in the body (exactly k hits, default 1)
      //@spec                                  requires/ensures/decreases lines (R1)
          ...
      //@/spec
      //@loop "<snippet of loop header>" [iter=<name>] [nth=<k>]    (R2)
          invariant ...  decreases ...
      //@/loop
      //@ghost after|before "<snippet>" [nth=<k>]     (R8: erased proof code only)
          proof { ... }
      //@/ghost
  //@end
  //@item <file> :: <item header> [pubfields] [sub "<old>" "<new>"]...
  //@macrofn <file> :: <macro name> :: <fn name> $type=<T> ...   (R11, see code)

Everything else in the template is copied unchanged.
"""
import hashlib
import json
import os
import re

from rustscan import Source, ScanError, mask, match_brace, strip_attrs_and_docs, strip_comments, line_of

RULES = {
    'R1': 'signature: named return + inserted requires/ensures',
    'R2': 'loop invariants/decreases inserted; `for x in e` -> `for x in it: e`; requires/ensures inserted into closure headers',
    'R3': 'trait-impl method emitted as inherent method / free fn',
    'R4': 'AsRef<Chain<T>> parameter specialised to &Chain<T>, `.as_ref()` deleted',
    'R5': 'visibility normalised / fields made pub',
    'R6': 'async erasure: `async fn` -> `fn`, `.await` deleted',
    'R7': 'attributes and doc comments dropped',
    'R8': 'ghost (proof/assert) lines inserted',
    'R9': 'unsafe one-liner emitted external_body with assumed ensures',
    'R10': '`impl Iterator` return typed as Vec',
    'R11': 'macro_rules instantiation by textual substitution of $type',
    'R12': 'call-shape specialisation of an unsupported std/dependency idiom to an equivalent supported one (each instance listed)',
    'R13': 'closure body lifted: the `{ .. }` block of a closure inside the function is emitted, byte-identical, as the body of a named function whose signature (closure parameters + captured variables as parameters) comes from the template; dropped: the call that receives the closure and the rest of the enclosing function',
}


class Assembly:
    def __init__(self, repo, template_path):
        self.repo = repo
        self.template_path = template_path
        self.out = []          # list of (text_line, origin)
        self.fns = []          # extracted function records
        self.items = []
        self.rewrites = []     # (rule, file, line, what)
        self.links = []        # callee contracts linked to the unit that proves them
        self._src = {}
        self.degrade = False   # second attempt after a lost anchor: drop the annotations whose anchor is gone
        self.degraded = []     # what was dropped
        self.degraded_hint_lost = False   # True once a proof annotation (not just a call-shape rewrite) was dropped

    def src(self, rel):
        if rel not in self._src:
            p = os.path.join(self.repo, rel)
            if not os.path.exists(p):
                raise ScanError('lost anchor: file %s missing' % rel)
            self._src[rel] = Source(p)
        return self._src[rel]

    def emit(self, text, origin):
        for ln in text.split('\n'):
            self.out.append((ln, origin))

    def emit_src(self, text, rel, first_line):
        for k, ln in enumerate(text.split('\n')):
            self.out.append((ln, ('src', rel, first_line + k)))

    def text(self):
        return '\n'.join(l for l, _ in self.out) + '\n'

    def origin(self, line_no):
        if 1 <= line_no <= len(self.out):
            return self.out[line_no - 1][1]
        return None


def _parse_strs(rest):
    """parse a sequence of JSON strings and key=value words"""
    strs, kv, flags = [], {}, []
    dec = json.JSONDecoder()
    rest = rest.strip()
    while rest:
        if rest[0] == '"':
            v, e = dec.raw_decode(rest)
            strs.append(v)
            rest = rest[e:].strip()
        else:
            w = rest.split(None, 1)
            tok = w[0]
            rest = w[1].strip() if len(w) > 1 else ''
            if '=' in tok:
                k, v = tok.split('=', 1)
                kv[k] = v
            else:
                flags.append(tok)
    return strs, kv, flags


def _find_nth(hay, needle, nth, what):
    idx = -1
    pos = 0
    hits = []
    while True:
        k = hay.find(needle, pos)
        if k < 0:
            break
        hits.append(k)
        pos = k + 1
    if nth is None:
        if len(hits) != 1:
            raise ScanError('lost anchor: %s: snippet %r occurs %d times (need exactly 1)' % (what, needle, len(hits)))
        return hits[0]
    if nth >= len(hits):
        raise ScanError('lost anchor: %s: snippet %r occurrence %d not found' % (what, needle, nth))
    return hits[nth]


def _word_hits(text, needle):
    """start offsets of `needle` in `text`; where the needle begins / ends with an identifier character the
    match must not continue an identifier (`t.as_ref()` does not match inside `digest.as_ref()`)"""
    def idc(ch):
        return ch.isalnum() or ch == '_'
    out, i = [], text.find(needle)
    while i >= 0:
        j = i + len(needle)
        ok = True
        if needle and idc(needle[0]) and i > 0 and idc(text[i - 1]):
            ok = False
        if needle and idc(needle[-1]) and j < len(text) and idc(text[j]):
            ok = False
        if ok:
            out.append(i)
            i = text.find(needle, j)
        else:
            i = text.find(needle, i + 1)
    return out


def _loop_headers(body):
    """(kw_idx, open_brace_idx) for each loop in body (masked scan)."""
    m = mask(body)
    res = []
    for mm in re.finditer(r'(?<![A-Za-z0-9_\'])(while|for|loop)(?![A-Za-z0-9_])', m):
        s = mm.start()
        # `for` in `impl X for Y` / HRTB cannot occur in fn bodies we handle, except for<'a>
        if m[mm.end():mm.end() + 1] == '<':
            continue
        k = mm.end()
        depth = 0
        ob = -1
        while k < len(m):
            ch = m[k]
            if ch in '([':
                depth += 1
            elif ch in ')]':
                depth -= 1
            elif ch == '{' and depth == 0:
                # `while let Some(x) = foo { .. }` fine; struct literals in loop headers unsupported
                ob = k
                break
            elif ch == ';' and depth == 0:
                break
            k += 1
        if ob >= 0:
            res.append((s, ob))
    return res


def process_fn(asm, header_line, block, tmpl_line):
    parts = [p.strip() for p in header_line.split('::')]
    # file :: container (may contain ::) :: name opts
    rel = parts[0]
    last = parts[-1]
    container = ' :: '.join(parts[1:-1]).replace(' :: ', '::')
    words = last.split()
    name = words[0]
    _, kv, flags = _parse_strs(' '.join(words[1:]))
    src = asm.src(rel)
    f = src.find_fn(container, name, int(kv.get('nth', 0)))
    sig = strip_comments(f['sig']).rstrip()
    body = f['body']
    body_hash = hashlib.sha256((f['sig'] + f['body']).encode()).hexdigest()
    rec = dict(file=rel, container=container, name=name, line=f['line'],
               sha256=body_hash, emitted_as=kv.get('as', name), rules=[])

    def rule(r, what, line=None):
        assert r in RULES, r
        rec['rules'].append(r)
        asm.rewrites.append(dict(rule=r, file=rel, line=line or f['line'], what=what))

    # ---- parse block
    spec_lines, loops, ghosts, subs, sigsubs = [], [], [], [], []
    lift, lift_sig = None, []
    i = 0
    while i < len(block):
        ln, lno = block[i]
        s = ln.strip()
        if s.startswith('//@spec'):
            j = i + 1
            while not block[j][0].strip().startswith('//@/spec'):
                spec_lines.append(block[j])
                j += 1
            i = j + 1
        elif s.startswith('//@loop'):
            strs, lkv, lfl = _parse_strs(s[len('//@loop'):])
            if 'optional' in lfl:
                lkv['optional'] = '1'
            j = i + 1
            lines = []
            while not block[j][0].strip().startswith('//@/loop'):
                lines.append(block[j])
                j += 1
            loops.append((strs[0], lkv, lines))
            i = j + 1
        elif s.startswith('//@closure'):
            strs, gkv, _ = _parse_strs(s[len('//@closure'):])
            j = i + 1
            lines = []
            while not block[j][0].strip().startswith('//@/closure'):
                lines.append(block[j])
                j += 1
            gkv['rule'] = 'R2'
            ghosts.append(('after', strs[0], gkv, lines))
            i = j + 1
        elif s.startswith('//@ghost'):
            rest = s[len('//@ghost'):].strip()
            if rest == 'begin':
                where, rest = 'begin', '""'
            else:
                where, rest = rest.split(None, 1)
            strs, gkv, gfl = _parse_strs(rest)
            if 'optional' in gfl:
                gkv['optional'] = '1'
            j = i + 1
            lines = []
            while not block[j][0].strip().startswith('//@/ghost'):
                lines.append(block[j])
                j += 1
            ghosts.append((where, strs[0], gkv, lines))
            i = j + 1
        elif s.startswith('//@sub'):
            rest = s[len('//@sub'):].strip()
            r, rest = rest.split(None, 1)
            strs, skv, _ = _parse_strs(rest)
            subs.append((r, strs[0], strs[1], -1 if skv.get('n') == 'all' else int(skv.get('n', 1))))   # n=all: every occurrence, at least one
            i += 1
        elif s.startswith('//@lift'):
            strs, lkv, _ = _parse_strs(s[len('//@lift'):])
            lift = (strs[0], lkv)
            i += 1
        elif s == '//@sig':
            j = i + 1
            while not block[j][0].strip().startswith('//@/sig'):
                lift_sig.append(block[j][0].strip())
                j += 1
            i = j + 1
        elif s.startswith('//@sigsub'):
            rest = s[len('//@sigsub'):].strip()
            r, rest = rest.split(None, 1)
            strs, skv, _ = _parse_strs(rest)
            sigsubs.append((r, strs[0], strs[1]))
            i += 1
        elif s == '' or s.startswith('//'):
            i += 1
        else:
            raise ScanError('template error line %d: unexpected %r inside //@fn' % (lno, s))

    # ---- R13: a closure body lifted to a named function
    if lift is not None:
        snip, lkv = lift
        if not lift_sig:
            raise ScanError('template error: //@lift needs a //@sig .. //@/sig block')
        k = _find_nth(body, snip, int(lkv['nth']) if 'nth' in lkv else None, '%s::%s lift' % (container, name))
        mb = mask(body)
        p0 = k + len(snip)
        while p0 < len(body) and body[p0] in ' \t\r\n':
            p0 += 1
        if p0 >= len(body) or mb[p0] != '{':
            raise ScanError('lost anchor: %s::%s lift: closure after %r has no block body' % (container, name, snip))
        e0 = match_brace(mb, p0)
        new_line = f['line'] + f['sig'].count('\n') + body[:p0].count('\n')
        rule('R13', 'closure body after %r lifted to fn %s' % (snip, kv.get('as', name)), new_line)
        body = body[p0:e0 + 1]
        f = dict(f, line=new_line, sig=' '.join(lift_sig), prefix='', body=body)
        sig = f['sig']
        name = re.match(r'fn\s+([A-Za-z0-9_]+)', sig).group(1)
        rec['emitted_as'] = name
        rec['lifted_closure'] = snip

    # ---- signature
    for (r, old, new) in sigsubs:
        if sig.count(old) != 1:
            raise ScanError('lost anchor: %s::%s signature: %r occurs %d times' % (container, name, old, sig.count(old)))
        sig = sig.replace(old, new)
        rule(r, 'signature: %r -> %r' % (old, new))
    if 'as' in kv:
        sig = re.sub(r'^fn\s+' + re.escape(name), 'fn ' + kv['as'], sig)
        rule('R3', 'emitted as %s' % kv['as'])
    # R1 named return
    ret = kv.get('ret', 'r')
    msig = mask(sig)
    # find '->' at depth 0 after the parameter list
    po = msig.index('(')
    pc = match_brace(msig, po)
    arrow = msig.find('->', pc)
    where_idx = -1
    mm = re.search(r'(?<![A-Za-z0-9_])where(?![A-Za-z0-9_])', msig[pc:])
    if mm:
        where_idx = pc + mm.start()
    where_clause = ''
    if where_idx >= 0:
        where_clause = sig[where_idx:].strip()
        sig = sig[:where_idx].rstrip()
    if arrow >= 0:
        rt = sig[arrow + 2:].strip()
        sig = sig[:arrow] + '-> (%s: %s)' % (ret, rt)
    if where_clause:
        sig = sig + '\n    ' + where_clause
    if spec_lines or arrow >= 0:
        rule('R1', 'named return `%s`, %d spec lines' % (ret, len(spec_lines)))
    # visibility (R5) / qualifiers
    quals = strip_attrs_and_docs(f['prefix']).strip()
    if quals != f['prefix'].strip():
        rule('R7', 'attributes/doc comments dropped')
    if 'async' in quals.split():
        quals = ' '.join(w for w in quals.split() if w != 'async')
        rule('R6', 'async fn -> fn')
    quals = re.sub(r'pub\s*\([^)]*\)', 'pub', quals)
    if 'vis' in kv:
        quals = kv['vis'].replace('_', ' ')
    if 'novis' in flags:
        quals = ' '.join(w for w in quals.split() if w != 'pub')
    if 'const' in quals.split():
        quals = ' '.join(w for w in quals.split() if w != 'const')
        rule('R7', 'const qualifier dropped')
    head = (quals + ' ' if quals else '') + sig
    if 'loopiso' in flags:
        asm.emit('#[verifier::loop_isolation(false)]', ('tmpl', tmpl_line))
    if 'external_body' in flags:
        asm.emit('#[verifier::external_body]', ('tmpl', tmpl_line))
        rule('R9', 'external_body: body not verified, ensures assumed')
    asm.emit_src(head, rel, f['line'])
    for (ln, lno) in spec_lines:
        asm.emit(ln, ('tmpl', lno))

    # ---- body
    # work on a list of (char) with insertion points -> simpler: compute insertions as (index, text, origin)
    for (r, old, new, n) in subs:
        hits = _word_hits(body, old)
        c = len(hits)
        if n == -1 and c >= 1:
            n = c
        if c != n:
            if asm.degrade and c == 0:
                asm.degraded.append('%s::%s: substitution %s %r not applied (text no longer present)' % (container, name, r, old))
                # R4 / R13 rewrites are purely syntactic (delete `.as_ref()`, `&mut v` -> `v` for a captured variable):
                # when their text is absent there is nothing to rewrite and nothing is lost.  Every other rule may
                # carry proof-relevant text - R1/R2/R8 insert annotations, and an R12 rewrite often routes a std call
                # to an environment function WITH A CONTRACT (`value.try_into()` -> `slice_try_into_array20(value)`):
                # if a mere re-formatting hides its anchor, the un-rewritten call still compiles but the proof has lost
                # that contract - such a failed proof says nothing (found by running every check on a rustfmt-ed copy)
                asm.degraded_hint_lost = asm.degraded_hint_lost or r not in ('R4', 'R13')
                continue
            raise ScanError('lost anchor: %s::%s body: %r occurs %d times (need %d)' % (container, name, old, c, n))
        if old.count('\n') != new.count('\n'):
            raise ScanError('template error: substitution must preserve line count: %r' % old)
        first = hits[0]
        for h in reversed(hits):
            body = body[:h] + new + body[h + len(old):]
        rule(r, 'body: %r -> %r (x%d)' % (old, new, n), f['line'] + f['sig'].count('\n') + body[:first].count('\n'))
    inserts = []  # (index_in_body, [ (line, lno) ], mode) mode: 'before_brace' / 'after' / 'before'
    if loops:
        hdrs = _loop_headers(body)
        for (snip, lkv, lines) in loops:
            cands = [(s, ob) for (s, ob) in hdrs if snip in re.sub(r'\s+', ' ', body[s:ob])]
            nth = int(lkv['nth']) if 'nth' in lkv else None
            if not cands and 'optional' in lkv:
                asm.rewrites.append(dict(rule='R2', file=rel, line=f['line'], what='optional loop `%s` absent: invariants not inserted' % snip))
                rec.setdefault('missing_optional', []).append(snip)
                continue
            if asm.degrade and ((nth is None and len(cands) != 1) or (nth is not None and nth >= len(cands))):
                asm.degraded.append('%s::%s: loop annotations for %r not inserted (loop not found)' % (container, name, snip)); asm.degraded_hint_lost = True
                continue
            if nth is None and len(cands) != 1:
                raise ScanError('lost anchor: %s::%s: loop header %r matches %d loops' % (container, name, snip, len(cands)))
            if nth is not None and nth >= len(cands):
                raise ScanError('lost anchor: %s::%s: loop header %r #%d missing' % (container, name, snip, nth))
            s, ob = cands[nth or 0]
            inserts.append((ob, lines, 'loop'))
            rule('R2', 'loop `%s`: %d invariant/decreases lines' % (snip, len(lines)),
                 f['line'] + f['sig'].count('\n') + body[:s].count('\n'))
            if 'iter' in lkv:
                mm = re.match(r'for\s+(.+?)\s+in\s+', body[s:ob], re.S)
                if not mm:
                    raise ScanError('lost anchor: iter= on non-for loop %r' % snip)
                inserts.append((s + mm.end(), [(lkv['iter'] + ': ', None)], 'inline'))
    for (where, snip, gkv, lines) in ghosts:
        nth = int(gkv['nth']) if 'nth' in gkv else None
        if where == 'begin':
            inserts.append((1, lines, 'ghost'))
            rule('R8', 'ghost block (%d lines) at start of body' % len(lines), f['line'])
            continue
        if 'optional' in gkv and snip not in body:
            rec.setdefault('missing_optional', []).append(snip)
            continue
        try:
            k = _find_nth(body, snip, nth, '%s::%s ghost' % (container, name))
        except ScanError:
            if asm.degrade:
                asm.degraded.append('%s::%s: ghost block at %r not inserted (anchor not found)' % (container, name, snip)); asm.degraded_hint_lost = True
                continue
            raise
        pos = k + len(snip) if where == 'after' else k
        inserts.append((pos, lines, 'ghost'))
        rule(gkv.get('rule', 'R8'), '%s (%d lines) %s %r' % ('closure contract' if gkv.get('rule') == 'R2' else 'ghost block', len(lines), where, snip),
             f['line'] + f['sig'].count('\n') + body[:k].count('\n'))
    if '.await' in body and 'keep_await' not in flags:
        c = body.count('.await')
        body_new = body.replace('.await', '      ')
        # keep indices valid: same length replacement
        body = body_new
        rule('R6', '.await deleted x%d' % c)

    # emit body with insertions
    inserts.sort(key=lambda t: t[0])
    first_line = f['line'] + f['sig'].count('\n')
    cur = 0
    line_no = first_line
    pending = ''

    def flush_text(txt):
        nonlocal pending, line_no
        pending += txt
        while '\n' in pending:
            ln, pending = pending.split('\n', 1)
            asm.out.append((ln, ('src', rel, line_no)))
            line_no += 1

    for (pos, lines, mode) in inserts:
        flush_text(body[cur:pos])
        cur = pos
        if mode == 'inline':
            pending += lines[0][0]
        else:
            # finish current physical line fragment, emit inserted lines, continue
            if pending.strip() != '':
                asm.out.append((pending, ('src', rel, line_no)))
                pending = ' ' * 8
            else:
                pending = pending
            for (ln, lno) in lines:
                asm.out.append((ln, ('tmpl', lno)))
    flush_text(body[cur:])
    if pending != '':
        asm.out.append((pending, ('src', rel, line_no)))
    asm.fns.append(rec)


def process_item(asm, header_line, tmpl_line):
    parts = [p.strip() for p in header_line.split('::', 1)]
    rel = parts[0]
    rest = parts[1]
    # header is up to first option word starting with known flags
    strs_start = rest.find(' sub ')
    opts = ''
    for flag in (' pubfields', ' sub ', ' keepderive=', ' addderive='):
        k = rest.find(flag)
        if k >= 0:
            opts = rest[k:] if not opts or k < rest.find(opts) else opts
    if opts:
        header = rest[:rest.find(opts)].strip()
    else:
        header = rest.strip()
    src = asm.src(rel)
    it = src.find_item(header)
    text = strip_attrs_and_docs(it['text'])
    mk = re.search(r' keepderive=(\S+)', rest)
    derive_line = ''
    if mk:
        # R7 variant: keep the listed derives if (and only if) the source item derives them
        full = src.text[src.item_start_with_attrs(it['start']):it['start']]
        have = set()
        for dm in re.finditer(r'#\[derive\(([^)]*)\)\]', full):
            have |= {x.strip() for x in dm.group(1).split(',')}
        keep = [x for x in mk.group(1).split(',') if x in have]
        derive_line = '#[derive(%s)]\n' % ', '.join(keep) if keep else ''
    ma = re.search(r' addderive=(\S+)', rest)
    if ma:
        extra = ma.group(1).split(',')
        cur = [x.strip() for x in re.findall(r'derive\(([^)]*)\)', derive_line)[0].split(',')] if derive_line else []
        derive_line = '#[derive(%s)]\n' % ', '.join(cur + [x for x in extra if x not in cur])
        asm.rewrites.append(dict(rule='R12', file=rel, line=it['line'], what='item %s: derive(%s) added in place of a hand-written/generic impl (assumption listed)' % (header, ','.join(extra))))
    rec = dict(file=rel, item=header, line=it['line'],
               sha256=hashlib.sha256(it['text'].encode()).hexdigest())
    asm.rewrites.append(dict(rule='R7', file=rel, line=it['line'], what='item %s: attributes/comments dropped' % header))
    if 'pubfields' in opts:
        m = mask(text)
        # tuple struct or braced struct: add pub to each field lacking it
        def pubify(seg, sep_open, sep_close):
            return seg
        if re.match(r'(pub\s+)?struct', text):
            ob = min([k for k in (m.find('('), m.find('{')) if k >= 0])
            cb = match_brace(m, ob)
            inner = text[ob + 1:cb]
            mi = m[ob + 1:cb]
            # split at depth-0 commas
            fields, depth, last = [], 0, 0
            for k, ch in enumerate(mi):
                if ch in '([{<':
                    depth += 1
                elif ch in ')]}>':
                    depth -= 1
                elif ch == ',' and depth == 0:
                    fields.append(inner[last:k])
                    last = k + 1
            fields.append(inner[last:])
            nf = []
            for fld in fields:
                if fld.strip() == '':
                    nf.append(fld)
                    continue
                lead = fld[:len(fld) - len(fld.lstrip())]
                core = fld.lstrip()
                core = re.sub(r'^pub\s*(\([^)]*\))?\s*', '', core)
                nf.append(lead + 'pub ' + core)
            text = text[:ob + 1] + ','.join(nf) + text[cb:]
        text = re.sub(r'^(pub\s*(\([^)]*\))?\s*)?', 'pub ', text, count=1)
        asm.rewrites.append(dict(rule='R5', file=rel, line=it['line'], what='item %s: fields made pub' % header))
    # subs
    for mm in re.finditer(r' sub ("(?:[^"\\]|\\.)*") ("(?:[^"\\]|\\.)*")', opts):
        old, new = json.loads(mm.group(1)), json.loads(mm.group(2))
        if text.count(old) < 1:
            raise ScanError('lost anchor: item %s: %r not found' % (header, old))
        text = text.replace(old, new)
        asm.rewrites.append(dict(rule='R12', file=rel, line=it['line'], what='item %s: %r -> %r' % (header, old, new)))
    if derive_line:
        asm.emit(derive_line.rstrip('\n'), ('src', rel, it['line']))
    asm.emit_src(text, rel, it['line'])
    asm.items.append(rec)


def _load_template(path, depth=0):
    """template lines with //@include <relative path> spliced in (line numbers restart per file;
    origins carry the file name)"""
    out = []
    for no, ln in enumerate(open(path, encoding='utf-8').read().split('\n'), 1):
        if ln.strip().startswith('//@include '):
            inc = os.path.join(os.path.dirname(path), ln.strip().split(None, 1)[1].strip())
            if depth > 4:
                raise ScanError('template error: include depth')
            out += _load_template(inc, depth + 1)
        else:
            out.append((ln, '%s:%d' % (os.path.basename(path), no)))
    return out


def linked_spec(path, fname, cont=None):
    """the //@spec lines of the //@fn block that emits `fname` in another unit's template"""
    if not os.path.exists(path):
        raise ScanError('template error: linked unit %s missing' % path)
    L = [l for l, _ in _load_template(path)]
    for i, ln in enumerate(L):
        t = ln.strip()
        if not t.startswith('//@fn '):
            continue
        last = t.split('::')[-1].split()
        name = last[0]
        for w in last[1:]:
            if w.startswith('as='):
                name = w[3:]
        if name != fname:
            continue
        if cont is not None and cont not in t:
            continue
        spec = []
        j = i + 1
        while L[j].strip() != '//@end':
            if L[j].strip().startswith('//@spec'):
                k = j + 1
                while not L[k].strip().startswith('//@/spec'):
                    spec.append(L[k])
                    k += 1
                return spec
            j += 1
    raise ScanError('template error: no //@fn block emitting %s with a //@spec in %s' % (fname, path))


def assemble(repo, template_path, degrade=False):
    asm = Assembly(repo, template_path)
    asm.degrade = degrade
    loaded = _load_template(template_path)
    lines = [l for l, _ in loaded]
    asm.tmpl_origin = [o for _, o in loaded]
    i = 0
    while i < len(lines):
        ln = lines[i]
        s = ln.strip()
        if s.startswith('//@fn '):
            j = i + 1
            block = []
            while j < len(lines) and lines[j].strip() != '//@end':
                block.append((lines[j], j + 1))
                j += 1
            if j >= len(lines):
                raise ScanError('template error: //@fn at line %d has no //@end' % (i + 1))
            process_fn(asm, s[len('//@fn '):], block, i + 1)
            i = j + 1
        elif s.startswith('//@item '):
            process_item(asm, s[len('//@item '):], i + 1)
            i += 1
        elif s.startswith('//@stub '):
            # //@stub <unit> :: <fn (emitted) name>  + signature lines + //@end
            # A callee proved in another unit: emitted external_body with the requires/ensures text taken
            # from the proving unit's //@spec block, so what is assumed here is what is proved there.
            parts_ = [x.strip() for x in s[len('//@stub '):].split(' :: ')]
            unit, fname = parts_[0], parts_[-1]
            cont = parts_[1] if len(parts_) > 2 else None
            j = i + 1
            sig = []
            while j < len(lines) and lines[j].strip() != '//@end':
                sig.append(lines[j])
                j += 1
            spec = linked_spec(os.path.join(os.path.dirname(template_path), unit + '.v.rs'), fname, cont)
            asm.out.append(('#[verifier::external_body] // linked: proved in unit %s (%s)' % (unit, fname), ('tmpl', i + 1)))
            for ln in sig:
                asm.out.append((ln, ('tmpl', i + 1)))
            for ln in spec:
                asm.out.append((ln, ('link', unit, fname)))
            asm.out.append(('    { unimplemented!() }', ('tmpl', i + 1)))
            asm.links.append(dict(assumed_in=os.path.basename(template_path)[:-5], proved_in=unit, function=fname))
            i = j + 1
        else:
            asm.out.append((ln, ('tmpl', i + 1)))
            i += 1
    return asm
