#!/usr/bin/env python3
"""maintenance: run every witness-search unit on the unchanged tree under many seeds; any harness that is not
`ok` is either an over-strong clause (false alarm - fix the harness) or a genuine defect (examine!).
   soak_w.py [first_seed] [last_seed] [unit ...]"""
import glob, os, sys
sys.path.insert(0, os.path.dirname(os.path.abspath(__file__)))
import run_kani
a = int(sys.argv[1]) if len(sys.argv) > 1 else 10
b = int(sys.argv[2]) if len(sys.argv) > 2 else 20
units = sys.argv[3:] or sorted(os.path.basename(p)[:-5] for p in glob.glob('/verif/contracts/*_w.k.rs'))
bad = 0
for seed in range(a, b + 1):
    os.environ['VERIF_SEED'] = str(seed)
    for u in units:
        r = run_kani.run_unit(os.environ.get('VERIF_REPO', '/repo'), u, '/verif/contracts', tier='quick', jobs=4)
        for h in r['harnesses']:
            if h['status'] != 'ok':
                bad += 1
                print('SOAK seed=%d %s %s %s %s' % (seed, u, h['name'], h['status'], [f['desc'] for f in h.get('failed_checks', [])][:2]), (h.get('counterexample') or {}).get('vals'))
        if r.get('witness_note'):
            bad += 1
            print('SOAK seed=%d %s note: %s' % (seed, u, r['witness_note']))
    print('seed %d done' % seed, flush=True)
print('SOAK finished: %d problems' % bad)
