#![cfg(feature = "repository")]
use std::str::FromStr;
use rpki::repository::resources::{Ipv6Blocks, ResourceSet};
#[test]
fn v4_mapped_v6_blocks_round_trip() {
    for txt in ["::ffff:0:0/96", "::ffff:c000:201", "::fffe:0:0-::ffff:1:2", "2001:db8::/32"] {
        let b = Ipv6Blocks::from_str(txt).unwrap();
        let back = Ipv6Blocks::from_str(&b.to_string());
        assert!(matches!(back, Ok(ref x) if *x == b), "{} displayed as {} does not parse back: {:?}", txt, b, back.is_ok());
    }
    let set = ResourceSet::from_strs("", "", "::ffff:0:0/96").unwrap();
    let json = serde_json::to_string(&set).unwrap();
    let back: ResourceSet = serde_json::from_str(&json).unwrap();
    assert_eq!(set, back);
}
