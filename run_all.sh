#!/bin/sh
# maintenance: run every registered quick check on the unchanged tree (regenerates evidence/)
cd "$(dirname "$0")"
rc=0
for p in $(python3 -c "import json; print(' '.join(c['property_id'] for c in json.load(open('MANIFEST.json'))['checks']))"); do
  ./check $p --tier ${1:-quick} 2>/dev/null | tail -1 || rc=1
done
exit $rc
