// Unit asn_merge (C13): the four merge iterators of SmallAsnSet (src/resources/asn.rs), UNBOUNDED.
//   SmallSetUnion / SmallSetIntersection / SmallSetDifference / SmallSetSymmetricDifference :: next
//   SmallAsnSet::{union, intersection, difference, symmetric_difference, iter, len, is_empty}
// Environment: std::iter::Peekable and std::iter::Cloned are opaque stand-ins (module `iter`) with a
// ghost view `remaining: Seq<Asn>` and the assumed std contracts of peek / next / cloned / peekable.
// Step contract (each `next`): result and both remaining sequences are exactly `step(op, l, r)`, the
// functional reading of one merge step; declaratively: the result is the minimum of the mathematical
// result set over the two remaining sequences (None iff that set is empty), everything left is greater.
// Property (specification level, by induction): `drain(op, l, r)` (step iterated to exhaustion) is
// strictly increasing and its elements are exactly l ∪ r, l ∩ r, l \ r, l △ r (theorem_*).
// Composition (collect_*, hand-written drain loops, not code of /repo): real constructor + real `next`
// iterated to None over two sets satisfying the type invariant yield exactly `drain`, hence the theorems.
use vstd::prelude::*;
use vstd::std_specs::cmp::*;
use vstd::std_specs::iter::IteratorSpec;
use core::cmp::Ordering;
use core::slice;

verus! {

//@item src/resources/asn.rs :: pub struct Asn pubfields keepderive=Clone,Copy,Eq,Ord,PartialEq,PartialOrd
//@item src/resources/asn.rs :: pub struct SmallAsnSet pubfields
impl Asn {
    // the two associated constants of src/resources/asn.rs (`Asn(u32::MIN)`, `Asn(u32::MAX)`), present so that an
    // edit using them is checked instead of failing to compile (unused by the current merge iterators)
    pub const MIN: Asn = Asn(u32::MIN);
    pub const MAX: Asn = Asn(u32::MAX);
}

// ---- environment: std::iter (opaque stand-ins, contracts assumed; listed in asn_merge.trusted) -------
pub mod iter {
    use super::*;
    /// std::iter::Cloned<I>
    #[verifier::external_body]
    #[verifier::reject_recursive_types(I)]
    pub struct Cloned<I> { _o: I }
    /// std::iter::Peekable<I>
    #[verifier::external_body]
    #[verifier::reject_recursive_types(I)]
    pub struct Peekable<I> { _o: I }

    /// the items a `Cloned<slice::Iter<Asn>>` has still to yield
    pub uninterp spec fn cloned_remaining<'a>(c: Cloned<slice::Iter<'a, Asn>>) -> Seq<Asn>;

    /// `Iterator::cloned` on a slice iterator: yields clones of the items the slice iterator would yield
    #[verifier::external_body]
    pub fn cloned<'a>(it: slice::Iter<'a, Asn>) -> (r: Cloned<slice::Iter<'a, Asn>>)
        ensures
            cloned_remaining(r).len() == it.remaining().len(),
            forall|i: int| 0 <= i < it.remaining().len() ==> #[trigger] cloned_remaining(r)[i] == *it.remaining()[i],
    { unimplemented!() }

    impl<'a> Cloned<slice::Iter<'a, Asn>> {
        /// `Iterator::peekable`: nothing consumed yet
        #[verifier::external_body]
        pub fn peekable(self) -> (r: Peekable<Self>)
            ensures r.remaining() == cloned_remaining(self)
        { unimplemented!() }
    }

    impl<'a> Peekable<Cloned<slice::Iter<'a, Asn>>> {
        /// the items still to be yielded (a peeked item included)
        pub uninterp spec fn remaining(&self) -> Seq<Asn>;

        /// `Peekable::peek`: a reference to the next item without consuming it
        #[verifier::external_body]
        pub fn peek(&mut self) -> (r: Option<&Asn>)
            ensures
                final(self).remaining() == old(self).remaining(),
                old(self).remaining().len() == 0 ==> r is None,
                old(self).remaining().len() > 0 ==> r == Some(&old(self).remaining()[0]),
        { unimplemented!() }

        /// `Iterator::next` of Peekable: pops the head
        #[verifier::external_body]
        pub fn next(&mut self) -> (r: Option<Asn>)
            ensures
                old(self).remaining().len() == 0 ==> r is None && final(self).remaining() == old(self).remaining(),
                old(self).remaining().len() > 0 ==> r == Some(old(self).remaining()[0])
                    && final(self).remaining() == old(self).remaining().drop_first(),
        { unimplemented!() }
    }
}
pub use iter::Peekable;

//@item src/resources/asn.rs :: pub type SmallSetIter
//@item src/resources/asn.rs :: pub struct SmallSetDifference pubfields
//@item src/resources/asn.rs :: pub struct SmallSetSymmetricDifference pubfields
//@item src/resources/asn.rs :: pub struct SmallSetIntersection pubfields
//@item src/resources/asn.rs :: pub struct SmallSetUnion pubfields

// ---- specification vocabulary ------------------------------------------------------------------
pub mod voc {
use super::*;
/// which parts of the Venn diagram an operation keeps: elements only in the left operand,
/// elements in both, elements only in the right operand
pub ghost struct Op { pub lo: bool, pub both: bool, pub ro: bool }
pub open spec fn op_union() -> Op { Op { lo: true, both: true, ro: true } }
pub open spec fn op_inter() -> Op { Op { lo: false, both: true, ro: false } }
pub open spec fn op_diff() -> Op { Op { lo: true, both: false, ro: false } }
pub open spec fn op_symdiff() -> Op { Op { lo: true, both: false, ro: true } }

pub open spec fn strictly_increasing(s: Seq<Asn>) -> bool {
    forall|i: int, j: int| 0 <= i < j < s.len() ==> (#[trigger] s[i]).0 < (#[trigger] s[j]).0
}
/// every element of s is greater than x
pub open spec fn all_above(s: Seq<Asn>, x: Asn) -> bool {
    forall|i: int| 0 <= i < s.len() ==> (#[trigger] s[i]).0 > x.0
}
/// y belongs to the mathematical result set  op(set of l, set of r)
pub open spec fn out(op: Op, l: Seq<Asn>, r: Seq<Asn>, y: Asn) -> bool {
    (op.lo && l.contains(y) && !r.contains(y))
    || (op.both && l.contains(y) && r.contains(y))
    || (op.ro && !l.contains(y) && r.contains(y))
}

/// One `next()` of a merge iterator over the remaining sequences l (left) and r (right):
/// (result, left remaining afterwards, right remaining afterwards).
pub open spec fn step(op: Op, l: Seq<Asn>, r: Seq<Asn>) -> (Option<Asn>, Seq<Asn>, Seq<Asn>)
    decreases l.len() + r.len()
{
    if l.len() == 0 && r.len() == 0 {
        (None, l, r)
    } else if l.len() == 0 {
        if op.ro { (Some(r[0]), l, r.drop_first()) } else { (None, l, r) }
    } else if r.len() == 0 {
        if op.lo { (Some(l[0]), l.drop_first(), r) } else { (None, l, r) }
    } else if l[0].0 < r[0].0 {
        if op.lo { (Some(l[0]), l.drop_first(), r) } else { step(op, l.drop_first(), r) }
    } else if l[0].0 == r[0].0 {
        if op.both { (Some(r[0]), l.drop_first(), r.drop_first()) } else { step(op, l.drop_first(), r.drop_first()) }
    } else {
        if op.ro { (Some(r[0]), l, r.drop_first()) } else { step(op, l, r.drop_first()) }
    }
}

/// the sequence obtained by calling `next()` until it returns None
pub open spec fn drain(op: Op, l: Seq<Asn>, r: Seq<Asn>) -> Seq<Asn>
    decreases l.len() + r.len()
    via drain_decreases
{
    let s = step(op, l, r);
    match s.0 {
        None => Seq::empty(),
        Some(x) => seq![x] + drain(op, s.1, s.2),
    }
}
#[via_fn]
proof fn drain_decreases(op: Op, l: Seq<Asn>, r: Seq<Asn>) {
    lem::lemma_step_shrinks(op, l, r);
}

/// Declarative reading of one step: `res` is the minimum of the result set over (l, r) -- None iff
/// that set is empty --, the result set over what is left (l2, r2) is the old one without `res`, both
/// remaining sequences are still strictly increasing and everything left is greater than `res`.
pub open spec fn step_ok(op: Op, l: Seq<Asn>, r: Seq<Asn>, res: Option<Asn>, l2: Seq<Asn>, r2: Seq<Asn>) -> bool {
    &&& strictly_increasing(l2) && strictly_increasing(r2)
    &&& l2.len() <= l.len() && r2.len() <= r.len()
    &&& res is None ==> forall|y: Asn| !(#[trigger] out(op, l, r, y))
    &&& res matches Some(x) ==> {
        &&& out(op, l, r, x)
        &&& l2.len() + r2.len() < l.len() + r.len()
        &&& all_above(l2, x) && all_above(r2, x)
        &&& forall|y: Asn| #[trigger] out(op, l, r, y) ==> x.0 <= y.0
        &&& forall|y: Asn| #[trigger] out(op, l2, r2, y) <==> out(op, l, r, y) && y != x
    }
}

} // mod voc
pub use voc::*;

pub mod lem {
use super::*;

/// derive(PartialEq, Eq, PartialOrd, Ord) on `struct Asn(u32)` is the order / equality of the
/// wrapped u32.  Assumed here (same axiom as unit asn_set); proved on the compiled type by Kani
/// harness asn_ord_is_u32.
#[verifier::external_body]
pub broadcast proof fn axiom_asn_derived_ord()
    ensures
        #[trigger] <Asn as OrdSpec>::obeys_cmp_spec(), #[trigger] <Asn as PartialEqSpec>::obeys_eq_spec(),
        forall|a: Asn, b: Asn| #[trigger] a.cmp_spec(&b) == (if a.0 < b.0 { Ordering::Less } else if a.0 == b.0 { Ordering::Equal } else { Ordering::Greater }),
        forall|a: Asn, b: Asn| #[trigger] a.eq_spec(&b) == (a.0 == b.0),
{}

pub proof fn lemma_step_shrinks(op: Op, l: Seq<Asn>, r: Seq<Asn>)
    ensures
        step(op, l, r).1.len() <= l.len(),
        step(op, l, r).2.len() <= r.len(),
        step(op, l, r).0 is Some ==> step(op, l, r).1.len() + step(op, l, r).2.len() < l.len() + r.len(),
    decreases l.len() + r.len(),
{
    if l.len() == 0 || r.len() == 0 {
    } else if l[0].0 < r[0].0 {
        if !op.lo { lemma_step_shrinks(op, l.drop_first(), r); }
    } else if l[0].0 == r[0].0 {
        if !op.both { lemma_step_shrinks(op, l.drop_first(), r.drop_first()); }
    } else {
        if !op.ro { lemma_step_shrinks(op, l, r.drop_first()); }
    }
}

/// dropping the head of a strictly increasing sequence
pub broadcast proof fn lemma_inc_drop_first(s: Seq<Asn>)
    requires strictly_increasing(s), s.len() > 0,
    ensures #[trigger] strictly_increasing(s.drop_first()), all_above(s.drop_first(), s[0]),
{
    let d = s.drop_first();
    assert forall|i: int, j: int| 0 <= i < j < d.len() implies (#[trigger] d[i]).0 < (#[trigger] d[j]).0 by {
        assert(d[i] == s[i + 1] && d[j] == s[j + 1]);
    }
    assert forall|i: int| 0 <= i < d.len() implies (#[trigger] d[i]).0 > s[0].0 by {
        assert(d[i] == s[i + 1]);
    }
}

/// membership in a strictly increasing sequence, relative to its head
pub proof fn lemma_head(s: Seq<Asn>, y: Asn)
    requires strictly_increasing(s), s.len() > 0,
    ensures
        s.contains(y) <==> (y == s[0] || s.drop_first().contains(y)),
        s.drop_first().contains(y) ==> y.0 > s[0].0,
        s.contains(y) ==> y.0 >= s[0].0,
        s.contains(s[0]),
{
    let d = s.drop_first();
    if s.contains(y) {
        let i = choose|i: int| 0 <= i < s.len() && s[i] == y;
        if i > 0 { assert(d[i - 1] == y); assert(d.contains(y)); }
    }
    if d.contains(y) {
        let i = choose|i: int| 0 <= i < d.len() && d[i] == y;
        assert(s[i + 1] == y);
        assert(s.contains(y));
    }
    assert(s[0] == s[0]);
}

/// all_above(s, x): x and everything below is not in s
pub proof fn lemma_above(s: Seq<Asn>, x: Asn, y: Asn)
    requires all_above(s, x), y.0 <= x.0,
    ensures !s.contains(y),
{
    if s.contains(y) {
        let i = choose|i: int| 0 <= i < s.len() && s[i] == y;
        assert(s[i].0 > x.0);
    }
}

/// the functional step satisfies the declarative step contract
pub proof fn lemma_step(op: Op, l: Seq<Asn>, r: Seq<Asn>)
    requires strictly_increasing(l), strictly_increasing(r),
    ensures step_ok(op, l, r, step(op, l, r).0, step(op, l, r).1, step(op, l, r).2),
    decreases l.len() + r.len(),
{
    let s = step(op, l, r);
    if l.len() == 0 && r.len() == 0 {
    } else if l.len() == 0 {
        lemma_inc_drop_first(r);
        assert forall|y: Asn| (#[trigger] out(op, s.1, s.2, y) <==> out(op, l, r, y) && s.0 != Some(y))
            && (out(op, l, r, y) ==> r[0].0 <= y.0) by { lemma_head(r, y); }
        lemma_head(r, r[0]);
    } else if r.len() == 0 {
        lemma_inc_drop_first(l);
        assert forall|y: Asn| (#[trigger] out(op, s.1, s.2, y) <==> out(op, l, r, y) && s.0 != Some(y))
            && (out(op, l, r, y) ==> l[0].0 <= y.0) by { lemma_head(l, y); }
        lemma_head(l, l[0]);
    } else {
        lemma_inc_drop_first(l);
        lemma_inc_drop_first(r);
        lemma_head(l, l[0]);
        lemma_head(r, r[0]);
        lemma_head(l, r[0]);
        lemma_head(r, l[0]);
        let (l1, r1, h, emit) = if l[0].0 < r[0].0 { (l.drop_first(), r, l[0], op.lo) }
            else if l[0].0 == r[0].0 { (l.drop_first(), r.drop_first(), r[0], op.both) }
            else { (l, r.drop_first(), r[0], op.ro) };
        // (l1, r1): the operands with the smaller head(s) h removed
        assert forall|y: Asn| #![trigger out(op, l1, r1, y)] #![trigger out(op, l, r, y)]
            (out(op, l1, r1, y) <==> out(op, l, r, y) && y != h)
            && (out(op, l, r, y) ==> h.0 <= y.0) by { lemma_head(l, y); lemma_head(r, y); }
        assert(all_above(l1, h) && all_above(r1, h));
        assert(out(op, l, r, h) == emit);
        if emit {
            assert(s == (Some(h), l1, r1));
        } else {
            assert(s == step(op, l1, r1));
            lemma_step(op, l1, r1);
            if s.0 is Some {
                assert(out(op, l1, r1, s.0->Some_0));
            }
        }
    }
}

/// C13 (generic form): the drained sequence is strictly increasing and holds exactly the result set
pub proof fn lemma_drain(op: Op, l: Seq<Asn>, r: Seq<Asn>)
    requires strictly_increasing(l), strictly_increasing(r),
    ensures
        strictly_increasing(drain(op, l, r)),
        forall|y: Asn| drain(op, l, r).contains(y) <==> #[trigger] out(op, l, r, y),
    decreases l.len() + r.len(),
{
    let s = step(op, l, r);
    let d = drain(op, l, r);
    lemma_step(op, l, r);
    match s.0 {
        None => {
            assert(d.len() == 0);
        }
        Some(x) => {
            let d2 = drain(op, s.1, s.2);
            lemma_drain(op, s.1, s.2);
            assert(d == seq![x] + d2);
            assert(d[0] == x);
            assert forall|i: int| 1 <= i < d.len() implies #[trigger] d[i] == d2[i - 1] by {}
            // everything in d2 is in the result set over what is left, hence in s.1 or s.2, hence above x
            assert forall|k: int| 0 <= k < d2.len() implies (#[trigger] d2[k]).0 > x.0 by {
                let y = d2[k];
                assert(d2.contains(y));
                assert(out(op, s.1, s.2, y));
                if y.0 <= x.0 { lemma_above(s.1, x, y); lemma_above(s.2, x, y); }
            }
            assert forall|i: int, j: int| 0 <= i < j < d.len() implies (#[trigger] d[i]).0 < (#[trigger] d[j]).0 by {
                assert(d[j] == d2[j - 1]);
                if i > 0 { assert(d[i] == d2[i - 1]); }
            }
            assert forall|y: Asn| d.contains(y) <==> #[trigger] out(op, l, r, y) by {
                if d.contains(y) {
                    let i = choose|i: int| 0 <= i < d.len() && d[i] == y;
                    if i > 0 { assert(d2[i - 1] == y); assert(d2.contains(y)); assert(out(op, s.1, s.2, y)); }
                }
                if out(op, l, r, y) {
                    if y == x { assert(d[0] == y); }
                    else {
                        assert(out(op, s.1, s.2, y));
                        assert(d2.contains(y));
                        let k = choose|k: int| 0 <= k < d2.len() && d2[k] == y;
                        assert(d[k + 1] == y);
                    }
                }
            }
        }
    }
}

/// unfolding `drain` once along one step
pub proof fn lemma_drain_unfold(op: Op, l: Seq<Asn>, r: Seq<Asn>)
    ensures drain(op, l, r) == (match step(op, l, r).0 {
            None => Seq::<Asn>::empty(),
            Some(x) => seq![x] + drain(op, step(op, l, r).1, step(op, l, r).2),
        }),
{}

} // mod lem
pub use lem::*;
broadcast use {lem::axiom_asn_derived_ord, lem::lemma_inc_drop_first};

// ---- C13: the property statement -------------------------------------------------------------------
/// union: sorted, duplicate-free, and exactly the mathematical union
pub proof fn theorem_union(l: Seq<Asn>, r: Seq<Asn>)
    requires strictly_increasing(l), strictly_increasing(r),
    ensures
        strictly_increasing(drain(op_union(), l, r)),
        forall|x: Asn| drain(op_union(), l, r).contains(x) <==> (l.contains(x) || r.contains(x)),
        drain(op_union(), l, r).to_set() == l.to_set().union(r.to_set()),
{
    lemma_drain(op_union(), l, r);
    assert forall|x: Asn| drain(op_union(), l, r).contains(x) <==> (l.contains(x) || r.contains(x)) by {
        assert(out(op_union(), l, r, x) <==> (l.contains(x) || r.contains(x)));
    }
    assert(drain(op_union(), l, r).to_set() =~= l.to_set().union(r.to_set()));
}
/// intersection
pub proof fn theorem_intersection(l: Seq<Asn>, r: Seq<Asn>)
    requires strictly_increasing(l), strictly_increasing(r),
    ensures
        strictly_increasing(drain(op_inter(), l, r)),
        forall|x: Asn| drain(op_inter(), l, r).contains(x) <==> (l.contains(x) && r.contains(x)),
        drain(op_inter(), l, r).to_set() == l.to_set().intersect(r.to_set()),
{
    lemma_drain(op_inter(), l, r);
    assert forall|x: Asn| drain(op_inter(), l, r).contains(x) <==> (l.contains(x) && r.contains(x)) by {
        assert(out(op_inter(), l, r, x) <==> (l.contains(x) && r.contains(x)));
    }
    assert(drain(op_inter(), l, r).to_set() =~= l.to_set().intersect(r.to_set()));
}
/// difference
pub proof fn theorem_difference(l: Seq<Asn>, r: Seq<Asn>)
    requires strictly_increasing(l), strictly_increasing(r),
    ensures
        strictly_increasing(drain(op_diff(), l, r)),
        forall|x: Asn| drain(op_diff(), l, r).contains(x) <==> (l.contains(x) && !r.contains(x)),
        drain(op_diff(), l, r).to_set() == l.to_set().difference(r.to_set()),
{
    lemma_drain(op_diff(), l, r);
    assert forall|x: Asn| drain(op_diff(), l, r).contains(x) <==> (l.contains(x) && !r.contains(x)) by {
        assert(out(op_diff(), l, r, x) <==> (l.contains(x) && !r.contains(x)));
    }
    assert(drain(op_diff(), l, r).to_set() =~= l.to_set().difference(r.to_set()));
}
/// symmetric difference
pub proof fn theorem_symmetric_difference(l: Seq<Asn>, r: Seq<Asn>)
    requires strictly_increasing(l), strictly_increasing(r),
    ensures
        strictly_increasing(drain(op_symdiff(), l, r)),
        forall|x: Asn| drain(op_symdiff(), l, r).contains(x) <==> (l.contains(x) != r.contains(x)),
        drain(op_symdiff(), l, r).to_set() == l.to_set().difference(r.to_set()).union(r.to_set().difference(l.to_set())),
{
    lemma_drain(op_symdiff(), l, r);
    assert forall|x: Asn| drain(op_symdiff(), l, r).contains(x) <==> (l.contains(x) != r.contains(x)) by {
        assert(out(op_symdiff(), l, r, x) <==> (l.contains(x) != r.contains(x)));
    }
    assert(drain(op_symdiff(), l, r).to_set() =~= l.to_set().difference(r.to_set()).union(r.to_set().difference(l.to_set())));
}

// ---- the iterators ---------------------------------------------------------------------------------
impl SmallSetUnion<'_> {
    //@fn src/resources/asn.rs :: impl Iterator for SmallSetUnion<'_> :: next as=next
    //@sigsub R3 "Self::Item" "Asn"
    //@spec
        requires
            strictly_increasing(old(self).left.remaining()),
            strictly_increasing(old(self).right.remaining()),
        ensures
            (r, final(self).left.remaining(), final(self).right.remaining())
                == step(op_union(), old(self).left.remaining(), old(self).right.remaining()),
            step_ok(op_union(), old(self).left.remaining(), old(self).right.remaining(), r, final(self).left.remaining(), final(self).right.remaining()),
            r is None <==> old(self).left.remaining().len() == 0 && old(self).right.remaining().len() == 0,
            drain(op_union(), old(self).left.remaining(), old(self).right.remaining()) == (match r {
                None => Seq::<Asn>::empty(),
                Some(x) => seq![x] + drain(op_union(), final(self).left.remaining(), final(self).right.remaining()),
            }),
    //@/spec
    //@ghost begin
        proof {
            lem::lemma_step(op_union(), self.left.remaining(), self.right.remaining());
            lem::lemma_drain_unfold(op_union(), self.left.remaining(), self.right.remaining());
        }
    //@/ghost
    //@end
}

impl SmallSetIntersection<'_> {
    #[verifier::allow_complex_invariants]
    //@fn src/resources/asn.rs :: impl Iterator for SmallSetIntersection<'_> :: next as=next loopiso
    //@sigsub R3 "Self::Item" "Asn"
    //@spec
        requires
            strictly_increasing(old(self).left.remaining()),
            strictly_increasing(old(self).right.remaining()),
        ensures
            (r, final(self).left.remaining(), final(self).right.remaining())
                == step(op_inter(), old(self).left.remaining(), old(self).right.remaining()),
            step_ok(op_inter(), old(self).left.remaining(), old(self).right.remaining(), r, final(self).left.remaining(), final(self).right.remaining()),
            drain(op_inter(), old(self).left.remaining(), old(self).right.remaining()) == (match r {
                None => Seq::<Asn>::empty(),
                Some(x) => seq![x] + drain(op_inter(), final(self).left.remaining(), final(self).right.remaining()),
            }),
    //@/spec
    //@ghost begin
        proof {
            lem::lemma_step(op_inter(), self.left.remaining(), self.right.remaining());
            lem::lemma_drain_unfold(op_inter(), self.left.remaining(), self.right.remaining());
        }
    //@/ghost
    //@loop "loop"
        invariant
            strictly_increasing(self.left.remaining()),
            strictly_increasing(self.right.remaining()),
            step(op_inter(), self.left.remaining(), self.right.remaining())
                == step(op_inter(), old(self).left.remaining(), old(self).right.remaining()),
        decreases self.left.remaining().len() + self.right.remaining().len(),
    //@/loop
    //@end
}

impl SmallSetDifference<'_> {
    #[verifier::allow_complex_invariants]
    //@fn src/resources/asn.rs :: impl Iterator for SmallSetDifference<'_> :: next as=next loopiso
    //@sigsub R3 "Self::Item" "Asn"
    //@spec
        requires
            strictly_increasing(old(self).left.remaining()),
            strictly_increasing(old(self).right.remaining()),
        ensures
            (r, final(self).left.remaining(), final(self).right.remaining())
                == step(op_diff(), old(self).left.remaining(), old(self).right.remaining()),
            step_ok(op_diff(), old(self).left.remaining(), old(self).right.remaining(), r, final(self).left.remaining(), final(self).right.remaining()),
            drain(op_diff(), old(self).left.remaining(), old(self).right.remaining()) == (match r {
                None => Seq::<Asn>::empty(),
                Some(x) => seq![x] + drain(op_diff(), final(self).left.remaining(), final(self).right.remaining()),
            }),
    //@/spec
    //@ghost begin
        proof {
            lem::lemma_step(op_diff(), self.left.remaining(), self.right.remaining());
            lem::lemma_drain_unfold(op_diff(), self.left.remaining(), self.right.remaining());
        }
    //@/ghost
    //@loop "loop"
        invariant
            strictly_increasing(self.left.remaining()),
            strictly_increasing(self.right.remaining()),
            step(op_diff(), self.left.remaining(), self.right.remaining())
                == step(op_diff(), old(self).left.remaining(), old(self).right.remaining()),
        decreases self.left.remaining().len() + self.right.remaining().len(),
    //@/loop
    //@end
}

impl SmallSetSymmetricDifference<'_> {
    #[verifier::allow_complex_invariants]
    //@fn src/resources/asn.rs :: impl Iterator for SmallSetSymmetricDifference<'_> :: next as=next loopiso
    //@sigsub R3 "Self::Item" "Asn"
    //@spec
        requires
            strictly_increasing(old(self).left.remaining()),
            strictly_increasing(old(self).right.remaining()),
        ensures
            (r, final(self).left.remaining(), final(self).right.remaining())
                == step(op_symdiff(), old(self).left.remaining(), old(self).right.remaining()),
            step_ok(op_symdiff(), old(self).left.remaining(), old(self).right.remaining(), r, final(self).left.remaining(), final(self).right.remaining()),
            drain(op_symdiff(), old(self).left.remaining(), old(self).right.remaining()) == (match r {
                None => Seq::<Asn>::empty(),
                Some(x) => seq![x] + drain(op_symdiff(), final(self).left.remaining(), final(self).right.remaining()),
            }),
    //@/spec
    //@ghost begin
        proof {
            lem::lemma_step(op_symdiff(), self.left.remaining(), self.right.remaining());
            lem::lemma_drain_unfold(op_symdiff(), self.left.remaining(), self.right.remaining());
        }
    //@/ghost
    //@loop "loop"
        invariant
            strictly_increasing(self.left.remaining()),
            strictly_increasing(self.right.remaining()),
            step(op_symdiff(), self.left.remaining(), self.right.remaining())
                == step(op_symdiff(), old(self).left.remaining(), old(self).right.remaining()),
        decreases self.left.remaining().len() + self.right.remaining().len(),
    //@/loop
    //@end
}

// ---- the constructors --------------------------------------------------------------------------------
impl SmallAsnSet {
    //@fn src/resources/asn.rs :: impl SmallAsnSet :: iter
    //@sub R12 "self.0.iter().cloned()" "iter::cloned(self.0.iter())"
    //@spec
        ensures iter::cloned_remaining(r) =~= self.0@,
    //@/spec
    //@end

    //@fn src/resources/asn.rs :: impl SmallAsnSet :: len
    //@spec
        ensures r == self.0@.len(),
    //@/spec
    //@end

    //@fn src/resources/asn.rs :: impl SmallAsnSet :: is_empty
    //@spec
        ensures r == (self.0@.len() == 0),
    //@/spec
    //@end

    //@fn src/resources/asn.rs :: impl SmallAsnSet :: union
    //@spec
        ensures r.left.remaining() == self.0@, r.right.remaining() == other.0@,
    //@/spec
    //@end

    //@fn src/resources/asn.rs :: impl SmallAsnSet :: intersection
    //@spec
        ensures r.left.remaining() == self.0@, r.right.remaining() == other.0@,
    //@/spec
    //@end

    //@fn src/resources/asn.rs :: impl SmallAsnSet :: difference
    //@spec
        ensures r.left.remaining() == self.0@, r.right.remaining() == other.0@,
    //@/spec
    //@end

    //@fn src/resources/asn.rs :: impl SmallAsnSet :: symmetric_difference
    //@spec
        ensures r.left.remaining() == self.0@, r.right.remaining() == other.0@,
    //@/spec
    //@end
}

// ---- client model: `a.<op>(b).collect::<Vec<_>>()` ------------------------------------------------
// Not code of /repo: a hand-written drain loop (the meaning of `collect()` / `for x in a.union(b)`),
// showing that the contracts compose: iterating the real constructors and the real `next` over two
// sets that satisfy the type invariant yields a sorted duplicate-free vector holding exactly the
// mathematical result set.
fn collect_union(a: &SmallAsnSet, b: &SmallAsnSet) -> (v: Vec<Asn>)
    requires strictly_increasing(a.0@), strictly_increasing(b.0@),
    ensures
        v@ == drain(op_union(), a.0@, b.0@),
        strictly_increasing(v@),
        v@.to_set() == a.0@.to_set().union(b.0@.to_set()),
{
    let mut it = a.union(b);
    let mut v: Vec<Asn> = Vec::new();
    proof {
        theorem_union(a.0@, b.0@);
        assert(v@ + drain(op_union(), a.0@, b.0@) =~= drain(op_union(), a.0@, b.0@));
    }
    loop
        invariant
            strictly_increasing(it.left.remaining()), strictly_increasing(it.right.remaining()),
            v@ + drain(op_union(), it.left.remaining(), it.right.remaining()) == drain(op_union(), a.0@, b.0@),
            strictly_increasing(drain(op_union(), a.0@, b.0@)),
            drain(op_union(), a.0@, b.0@).to_set() == a.0@.to_set().union(b.0@.to_set()),
        decreases it.left.remaining().len() + it.right.remaining().len(),
    {
        let ghost v0 = v@;
        let ghost d0 = drain(op_union(), it.left.remaining(), it.right.remaining());
        match it.next() {
            Some(x) => {
                v.push(x);
                proof { assert(v@ + drain(op_union(), it.left.remaining(), it.right.remaining()) =~= v0 + d0); }
            }
            None => {
                proof { assert(v0 + d0 =~= v0); }
                return v;
            }
        }
    }
}
fn collect_intersection(a: &SmallAsnSet, b: &SmallAsnSet) -> (v: Vec<Asn>)
    requires strictly_increasing(a.0@), strictly_increasing(b.0@),
    ensures
        v@ == drain(op_inter(), a.0@, b.0@),
        strictly_increasing(v@),
        v@.to_set() == a.0@.to_set().intersect(b.0@.to_set()),
{
    let mut it = a.intersection(b);
    let mut v: Vec<Asn> = Vec::new();
    proof {
        theorem_intersection(a.0@, b.0@);
        assert(v@ + drain(op_inter(), a.0@, b.0@) =~= drain(op_inter(), a.0@, b.0@));
    }
    loop
        invariant
            strictly_increasing(it.left.remaining()), strictly_increasing(it.right.remaining()),
            v@ + drain(op_inter(), it.left.remaining(), it.right.remaining()) == drain(op_inter(), a.0@, b.0@),
            strictly_increasing(drain(op_inter(), a.0@, b.0@)),
            drain(op_inter(), a.0@, b.0@).to_set() == a.0@.to_set().intersect(b.0@.to_set()),
        decreases it.left.remaining().len() + it.right.remaining().len(),
    {
        let ghost v0 = v@;
        let ghost d0 = drain(op_inter(), it.left.remaining(), it.right.remaining());
        match it.next() {
            Some(x) => {
                v.push(x);
                proof { assert(v@ + drain(op_inter(), it.left.remaining(), it.right.remaining()) =~= v0 + d0); }
            }
            None => {
                proof { assert(v0 + d0 =~= v0); }
                return v;
            }
        }
    }
}
fn collect_difference(a: &SmallAsnSet, b: &SmallAsnSet) -> (v: Vec<Asn>)
    requires strictly_increasing(a.0@), strictly_increasing(b.0@),
    ensures
        v@ == drain(op_diff(), a.0@, b.0@),
        strictly_increasing(v@),
        v@.to_set() == a.0@.to_set().difference(b.0@.to_set()),
{
    let mut it = a.difference(b);
    let mut v: Vec<Asn> = Vec::new();
    proof {
        theorem_difference(a.0@, b.0@);
        assert(v@ + drain(op_diff(), a.0@, b.0@) =~= drain(op_diff(), a.0@, b.0@));
    }
    loop
        invariant
            strictly_increasing(it.left.remaining()), strictly_increasing(it.right.remaining()),
            v@ + drain(op_diff(), it.left.remaining(), it.right.remaining()) == drain(op_diff(), a.0@, b.0@),
            strictly_increasing(drain(op_diff(), a.0@, b.0@)),
            drain(op_diff(), a.0@, b.0@).to_set() == a.0@.to_set().difference(b.0@.to_set()),
        decreases it.left.remaining().len() + it.right.remaining().len(),
    {
        let ghost v0 = v@;
        let ghost d0 = drain(op_diff(), it.left.remaining(), it.right.remaining());
        match it.next() {
            Some(x) => {
                v.push(x);
                proof { assert(v@ + drain(op_diff(), it.left.remaining(), it.right.remaining()) =~= v0 + d0); }
            }
            None => {
                proof { assert(v0 + d0 =~= v0); }
                return v;
            }
        }
    }
}
fn collect_symmetric_difference(a: &SmallAsnSet, b: &SmallAsnSet) -> (v: Vec<Asn>)
    requires strictly_increasing(a.0@), strictly_increasing(b.0@),
    ensures
        v@ == drain(op_symdiff(), a.0@, b.0@),
        strictly_increasing(v@),
        v@.to_set() == a.0@.to_set().difference(b.0@.to_set()).union(b.0@.to_set().difference(a.0@.to_set())),
{
    let mut it = a.symmetric_difference(b);
    let mut v: Vec<Asn> = Vec::new();
    proof {
        theorem_symmetric_difference(a.0@, b.0@);
        assert(v@ + drain(op_symdiff(), a.0@, b.0@) =~= drain(op_symdiff(), a.0@, b.0@));
    }
    loop
        invariant
            strictly_increasing(it.left.remaining()), strictly_increasing(it.right.remaining()),
            v@ + drain(op_symdiff(), it.left.remaining(), it.right.remaining()) == drain(op_symdiff(), a.0@, b.0@),
            strictly_increasing(drain(op_symdiff(), a.0@, b.0@)),
            drain(op_symdiff(), a.0@, b.0@).to_set() == a.0@.to_set().difference(b.0@.to_set()).union(b.0@.to_set().difference(a.0@.to_set())),
        decreases it.left.remaining().len() + it.right.remaining().len(),
    {
        let ghost v0 = v@;
        let ghost d0 = drain(op_symdiff(), it.left.remaining(), it.right.remaining());
        match it.next() {
            Some(x) => {
                v.push(x);
                proof { assert(v@ + drain(op_symdiff(), it.left.remaining(), it.right.remaining()) =~= v0 + d0); }
            }
            None => {
                proof { assert(v0 + d0 =~= v0); }
                return v;
            }
        }
    }
}

// ---- vacuity guards ----------------------------------------------------------------------------------
/// the preconditions are satisfiable with interleaving operands, and the four drains of
/// l = [1, 3], r = [2, 3] are what they should be
proof fn reach_merge() {
    let l: Seq<Asn> = seq![Asn(1), Asn(3)];
    let r: Seq<Asn> = seq![Asn(2), Asn(3)];
    assert(strictly_increasing(l) && strictly_increasing(r));
    theorem_union(l, r);
    theorem_difference(l, r);
    assert(l[0] == Asn(1) && r[1] == Asn(3) && l[1] == Asn(3));
    assert(l.contains(Asn(1)) && l.contains(Asn(3)) && r.contains(Asn(3)));
    assert(drain(op_union(), l, r).contains(Asn(1)));
    assert(!drain(op_diff(), l, r).contains(Asn(3)));
}

} // verus!
fn main() {}
