#![feature(allocator_api)]
// Unit rtr_exchange (C06, exploratory): ONE data exchange between the RTR client (src/rtr/client.rs) and the
// RTR server (src/rtr/server.rs), async-erased (R6), stated as contracts over ghost byte streams:
//   * server write side  (`Connection::reset` / `Connection::serial`): the octets handed to the socket are
//     cache response ++ one payload PDU per item the version carries, in source order ++ end of data
//     (or exactly a cache reset when the source has no diff);
//   * client read side   (`Client::reset` / `Client::serial`): whenever the call returns Ok, the octets taken
//     from the socket parse (spec function `run`) as cache response ++ payload PDUs ++ end of data of ONE
//     version, the `push_update` calls made on the update are exactly the items of those PDUs in order, the
//     stored state is the state named in the end of data, the timing values are those of the end of data
//     (version 0: unchanged); cache reset (serial only): state None, Ok(None); everything else: Err with state
//     and timing untouched;
//   * composition (spec level): `run` applied to the server's octets yields the source's item sequence
//     restricted to the payload types the version carries (ASPA withdrawals keyed by customer AS).
// The per-PDU facts come from unit pdu_read through contract links (//@stub) and from the Kani unit pdu_layout
// (axioms in `xax`, each cross-referenced).
use vstd::prelude::*;
use vstd::std_specs::cmp::*;
use std::{cmp, mem, slice};

/// `log::debug!`: no effect on the program state (the arguments are not evaluated here)
macro_rules! debug { ($($t:tt)*) => { () } }

verus! {

//@include shared/rtr_wire.v.rs

use env::*;

// =====================================================================================================
// additional environment of this unit
// =====================================================================================================
pub mod xenv {
    use super::*; use super::env::*;
    impl io::Error {
        /// std: `io::Error::other(message)`; the message is irrelevant here
        #[verifier::external_body]
        pub fn other(msg: &'static str) -> (r: io::Error) { unimplemented!() }
    }
    /// stands for `format!(..)` producing the message of an `io::Error` (R12): the text is irrelevant
    #[verifier::external_body]
    pub fn fmt_static(msg: &'static str) -> (r: &'static str) { unimplemented!() }
    /// tokio `time::timeout(IO_TIMEOUT, fut).await` around an operation on the socket, one future polled to
    /// completion (R6): either the operation's result or a time-out error
    #[verifier::external_body]
    pub fn io_timeout<T>(res: Result<T, io::Error>) -> (r: Result<T, io::Error>)
        ensures r is Ok ==> r == res,
    { unimplemented!() }
    /// opaque stand-in for tokio::time::Instant
    #[verifier::external_body]
    pub struct Instant { _o: u8 }
    /// opaque stand-in for the tokio broadcast receiver wrapper of server.rs
    #[verifier::external_body]
    pub struct NotifyReceiver { _o: u8 }

    // the socket is also written to (`Sock: AsyncRead + AsyncWrite + Unpin`, server: `Sock: Socket`)
    impl Sock {
        /// every octet this side has handed to the socket so far (the reader contracts do not mention it: it
        /// is only used where nothing is read in between, i.e. on the server's sending side)
        pub uninterp spec fn written(&self) -> Seq<u8>;
        /// tokio `AsyncWriteExt::write_all`: on success the whole buffer was appended; the incoming stream is
        /// a different direction and is not touched
        #[verifier::external_body]
        pub fn write_all(&mut self, buf: &[u8]) -> (r: Result<(), io::Error>)
            ensures
                advanced(*old(self), *final(self), 0),
                r.is_ok() ==> final(self).written() == old(self).written() + buf@,
        { unimplemented!() }
        /// tokio `AsyncWriteExt::flush`
        #[verifier::external_body]
        pub fn flush(&mut self) -> (r: Result<(), io::Error>)
            ensures
                advanced(*old(self), *final(self), 0),
                final(self).written() == old(self).written(),
        { unimplemented!() }
        /// `Socket::update` (server.rs): a hook of the socket type, default implementation empty
        #[verifier::external_body]
        pub fn update(&self, state: state::State, reset: bool) { unimplemented!() }
    }
}
use xenv::*;

// =====================================================================================================
// src/rtr/state.rs
// =====================================================================================================
pub mod state {
    use super::*; use super::env::*;
    //@item src/rtr/state.rs :: pub struct Serial keepderive=Clone,Copy
    //@item src/rtr/state.rs :: pub struct State pubfields keepderive=Clone,Copy
    impl Serial {
        //@fn src/rtr/state.rs :: impl Serial :: from_be
        //@spec
            ensures r.0 as int == be32(mem32(value)),
        //@/spec
        //@end
        //@fn src/rtr/state.rs :: impl Serial :: to_be
        //@spec
            ensures be32(mem32(r)) == self.0 as int,
        //@/spec
        //@end
    }
    impl State {
        //@fn src/rtr/state.rs :: impl State :: from_parts
        //@spec
            ensures r.session == session, r.serial == serial,
        //@/spec
        //@end
        //@fn src/rtr/state.rs :: impl State :: session
        //@spec
            ensures r == self.session,
        //@/spec
        //@end
        //@fn src/rtr/state.rs :: impl State :: serial
        //@spec
            ensures r == self.serial,
        //@/spec
        //@end
    }
}
use state::{Serial, State};

// =====================================================================================================
// src/rtr/payload.rs: the items (real item texts; MaxLenPrefix opaque) and their content view
// =====================================================================================================
/// the content of a payload item, compared by value (Bytes by their octets; a route origin by address,
/// prefix length and resolved maximum length, as `RouteOrigin::eq` does)
pub enum ItemView {
    Origin { prefix: (int, int, int), asn: u32 },
    RouterKey { ki: Seq<u8>, asn: u32, info: Seq<u8> },
    Aspa { customer: u32, providers: Seq<u8> },
}
pub type Item = (payload::Action, ItemView);

pub mod payload {
    use super::*; use super::env::*;
    /// opaque stand-in for resources::addr::MaxLenPrefix (its own contracts are in the Kani unit addr_prefix)
    #[verifier::external_body]
    #[derive(Clone, Copy)]
    pub struct MaxLenPrefix { _o: u8 }
    /// (address bits with family, prefix length, resolved maximum length)
    pub uninterp spec fn mlp_view(p: MaxLenPrefix) -> (int, int, int);
    //@item src/crypto/keys.rs :: pub struct KeyIdentifier pubfields keepderive=Clone,Copy
    //@item src/rtr/payload.rs :: pub struct RouteOrigin pubfields keepderive=Clone,Copy
    //@item src/rtr/payload.rs :: pub struct RouterKey pubfields
    //@item src/rtr/payload.rs :: pub struct Aspa pubfields
    //@item src/rtr/payload.rs :: pub enum Payload
    //@item src/rtr/payload.rs :: pub enum PayloadRef<'a> keepderive=Clone,Copy
    //@item src/rtr/payload.rs :: pub enum Action keepderive=Clone,Copy
    //@item src/rtr/payload.rs :: pub struct Timing pubfields keepderive=Clone,Copy

    pub open spec fn origin_view(o: RouteOrigin) -> ItemView { ItemView::Origin { prefix: mlp_view(o.prefix), asn: o.asn.0 } }
    pub open spec fn router_key_view(k: RouterKey) -> ItemView { ItemView::RouterKey { ki: k.key_identifier.0@, asn: k.asn.0, info: k.key_info.0@ } }
    pub open spec fn aspa_view(a: Aspa) -> ItemView { ItemView::Aspa { customer: a.customer.0, providers: a.providers.0@ } }
    impl View for Payload {
        type V = ItemView;
        open spec fn view(&self) -> ItemView {
            match *self {
                Payload::Origin(o) => origin_view(o),
                Payload::RouterKey(k) => router_key_view(k),
                Payload::Aspa(a) => aspa_view(a),
            }
        }
    }
    pub open spec fn ref_view(p: PayloadRef) -> ItemView {
        match p {
            PayloadRef::Origin(o) => origin_view(o),
            PayloadRef::RouterKey(k) => router_key_view(*k),
            PayloadRef::Aspa(a) => aspa_view(*a),
        }
    }
    pub open spec fn flags_of(a: Action) -> u8 { match a { Action::Announce => 1, Action::Withdraw => 0 } }

    impl Action {
        //@fn src/rtr/payload.rs :: impl Action :: into_flags
        //@spec
            ensures r == flags_of(self),
        //@/spec
        //@end
    }
}
use payload::Action;

// =====================================================================================================
// src/rtr/pdu.rs: the PDU types that unit pdu_read does not need, and the readers/writers/constructors used by
// client and server.  Proved in pdu_read: linked (//@stub).  Not proved there: extracted and verified here.
// =====================================================================================================
//@item src/rtr/pdu.rs :: pub struct SerialQueryPayload pubfields keepderive=Clone,Copy,Default
//@item src/rtr/pdu.rs :: pub struct SerialQuery pubfields keepderive=Clone,Copy,Default
//@item src/rtr/pdu.rs :: pub struct ResetQuery pubfields keepderive=Clone,Copy,Default
//@item src/rtr/pdu.rs :: pub struct CacheReset pubfields keepderive=Clone,Copy,Default
//@item src/rtr/pdu.rs :: pub struct Error pubfields
//@item src/rtr/pdu.rs :: pub struct ErrorCode pubfields keepderive=Clone,Copy

pub mod pdu {
    pub use super::env::*;
    pub use super::{SerialQueryPayload, SerialQuery, ResetQuery, CacheReset, Error, ErrorCode};
}

pub open spec fn wire_cache_reset(x: CacheReset) -> Seq<u8> { hwire(x.header) }
pub open spec fn wire_reset_query(x: ResetQuery) -> Seq<u8> { hwire(x.header) }
pub open spec fn wire_serial_query(x: SerialQuery) -> Seq<u8> { hwire(x.header) + mem32(x.payload.serial) }

// ---- spec vocabulary of the exchange ------------------------------------------------------------------
/// the item a payload PDU stands for, as a function of its octets (`Payload::to_payload`); None: not acceptable
pub uninterp spec fn item_of_wire(w: Seq<u8>) -> Option<Item>;
/// the octets of the payload PDU `Payload::new(version, flags, item)` builds
pub uninterp spec fn new_wire(version: u8, flags: u8, item: ItemView) -> Seq<u8>;

/// length of the end-of-data PDU of a version
pub open spec fn eod_len(v: u8) -> int { if v == 0 { 12 } else { 24 } }
/// session id and serial number in the octets of an end-of-data PDU
pub open spec fn wire_state(e: Seq<u8>) -> State {
    State { session: be16(e.subrange(2, 4)) as u16, serial: Serial(be32(e.subrange(8, 12)) as u32) }
}
/// refresh, retry, expire in the octets of an end-of-data PDU of version 1 or 2
pub open spec fn wire_timing(e: Seq<u8>) -> payload::Timing {
    payload::Timing {
        refresh: be32(e.subrange(12, 16)) as u32, retry: be32(e.subrange(16, 20)) as u32, expire: be32(e.subrange(20, 24)) as u32,
    }
}
pub open spec fn eod_version(e: EndOfData) -> u8 { match e { EndOfData::V0(_) => 0, EndOfData::V1(x) => x.header.version } }
pub open spec fn eod_state(e: EndOfData) -> State {
    match e {
        EndOfData::V0(x) => State { session: be16(mem16(x.header.session)) as u16, serial: Serial(be32(mem32(x.serial)) as u32) },
        EndOfData::V1(x) => State { session: be16(mem16(x.header.session)) as u16, serial: Serial(be32(mem32(x.serial)) as u32) },
    }
}
pub open spec fn eod_timing(e: EndOfData) -> Option<payload::Timing> {
    match e {
        EndOfData::V0(_) => None,
        EndOfData::V1(x) => Some(payload::Timing {
            refresh: be32(mem32(x.refresh)) as u32, retry: be32(mem32(x.retry)) as u32, expire: be32(mem32(x.expire)) as u32 }),
    }
}

/// The client's payload loop as a function of the octets still to come: `acc` = items handed over so far,
/// `k` = octets read so far.  Some((items, k')): after k' octets an end-of-data PDU of version `v` was complete
/// and `items` were handed over; None: the loop cannot complete (wrong version, wrong type, wrong length,
/// unacceptable item, stream too short).
pub open spec fn run(s: Seq<u8>, v: u8, acc: Seq<Item>, k: int) -> Option<(Seq<Item>, int)>
    decreases s.len()
{
    if s.len() < 8 { None }
    else {
        let n = wire_len(s.take(8));
        if s[0] != v || !payload_header_ok(s[1], s[0], n) || s.len() < n { None }
        else if s[1] == 7 { Some((acc, k + n)) }
        else {
            match item_of_wire(s.take(n)) {
                None => None,
                Some(x) => run(s.skip(n), v, acc.push(x), k + n),
            }
        }
    }
}

/// octets of a leading "unsupported protocol version" error PDU that the negotiation loop skips
pub open spec fn skip_len(s0: Seq<u8>) -> int { if s0.len() >= 8 && s0[1] == 10 { wire_len(s0.take(8)) } else { 0 } }

/// how the version `v` of the exchange relates to the version stored before (None: not negotiated yet)
pub open spec fn negotiated(s0: Seq<u8>, ver0: Option<u8>, v: u8) -> bool {
    if skip_len(s0) == 0 {
        // the first reply is the cache response: a stored version must be confirmed, otherwise any version up
        // to 2 is taken from the server
        match ver0 { Some(x) => x == v, None => v <= 2 }
    } else {
        // downgrade: an error PDU with code 4 and a lower version, answered by a second query
        ver0 is None && s0.len() >= 8 && s0[0] == v && v < 2 && be16(s0.subrange(2, 4)) == 4 && skip_len(s0) >= 8
    }
}

/// A completed data exchange as the client sees it: `s0` = octets to come when the call starts, `n` = octets
/// taken, `log` = the (action, item) pairs handed to the update, `st` = stored state afterwards.
pub open spec fn exchange_ok(s0: Seq<u8>, ver0: Option<u8>, ver1: Option<u8>, n: int, log: Seq<Item>,
                             st: Option<State>, tm0: payload::Timing, tm1: payload::Timing) -> bool {
    let off = skip_len(s0);
    let s1 = s0.skip(off);
    &&& 0 <= off && off + 8 <= s0.len()
    &&& match ver1 {
        None => false,
        Some(v) => {
            &&& negotiated(s0, ver0, v)
            // cache response of version v
            &&& s1[0] == v && s1[1] == 3 && wire_len(s1.take(8)) == 8
            // payload PDUs of version v up to the end of data
            &&& match run(s1.skip(8), v, Seq::<Item>::empty(), 0) {
                None => false,
                Some((items, k)) => {
                    let e = s1.skip(8).subrange(k - eod_len(v), k);
                    &&& items == log
                    &&& n == off + 8 + k
                    &&& k >= eod_len(v)
                    &&& st == Some(wire_state(e))
                    &&& (v == 0 ==> tm1 == tm0)
                    &&& (v >= 1 ==> tm1 == wire_timing(e))
                }
            }
        }
    }
}


/// state of the negotiation loop after `k` octets: nothing happened yet, or one "unsupported protocol
/// version" error PDU (code 4) with a version below 2 was skipped and its version stored
pub open spec fn nego_inv(s0: Seq<u8>, ver0: Option<u8>, ver: Option<u8>, k: int) -> bool {
    (k == 0 && ver == ver0)
    || (ver0 is None && s0.len() >= 8 && s0[1] == 10 && be16(s0.subrange(2, 4)) == 4 && s0[0] < 2
        && wire_len(s0.take(8)) >= 8 && k == wire_len(s0.take(8)) && ver == Some(s0[0]))
}
/// the negotiation loop has ended with a cache response whose version field is `sv`
pub open spec fn resp_read(s0: Seq<u8>, ver0: Option<u8>, ver: Option<u8>, n: int, sv: u8) -> bool {
    let off = skip_len(s0);
    let s1 = s0.skip(off);
    nego_inv(s0, ver0, ver, off) && 0 <= off && off + 8 <= s0.len() && n == off + 8
    && s1[1] == 3 && wire_len(s1.take(8)) == 8 && sv == s1[0]
}
/// the payload loop has ended: `k` octets of `s` were read, the last of them an end-of-data PDU
pub open spec fn payload_done(s: Seq<u8>, v: u8, k: int, log: Seq<Item>, st: Option<State>,
                              tm0: payload::Timing, tm1: payload::Timing) -> bool {
    &&& run(s, v, Seq::<Item>::empty(), 0) == Some((log, k))
    &&& eod_len(v) <= k <= s.len()
    &&& st == Some(wire_state(s.subrange(k - eod_len(v), k)))
    &&& (v == 0 ==> tm1 == tm0)
    &&& (v >= 1 ==> tm1 == wire_timing(s.subrange(k - eod_len(v), k)))
}

/// the serial query was answered by a cache reset
pub open spec fn reset_reply(s0: Seq<u8>, n: int) -> bool {
    let off = skip_len(s0);
    let s1 = s0.skip(off);
    0 <= off && off + 8 <= s0.len() && s1[1] == 8 && wire_len(s1.take(8)) == 8 && n == off + 8
}

// =====================================================================================================
// axioms and lemmas of this unit
// =====================================================================================================
pub mod xax {
    use super::*; use super::env::*;
    /// `mem::size_of` of the header-only / query PDU structs (Kani pdu_layout: pdu_cache_reset_layout,
    /// pdu_reset_query_layout, pdu_serial_query_layout assert `size()` and `as_ref().len()`)
    #[verifier::external_body]
    pub broadcast proof fn axiom_size_of_more_pdus()
        ensures
            #[trigger] vstd::layout::size_of::<CacheReset>() == 8,
            #[trigger] vstd::layout::size_of::<ResetQuery>() == 8,
            #[trigger] vstd::layout::size_of::<SerialQuery>() == 12,
    {}
}

pub mod xlem {
    use super::*; use super::env::*;
    pub broadcast proof fn lemma_wire_cache_reset(x: CacheReset)
        ensures (#[trigger] wire_cache_reset(x)).len() == 8, wire_cache_reset(x).take(8) == hwire(x.header),
    {
        broadcast use {super::ax::axiom_mem16_len, super::ax::axiom_mem32_len};
        assert(wire_cache_reset(x).take(8) =~= hwire(x.header));
    }
    /// the fields of an end-of-data value as seen in its octets
    pub proof fn lemma_eod_wire(e: EndOfData)
        ensures
            wire_end_of_data(e).len() == (if e is V0 { 12int } else { 24int }),
            wire_end_of_data(e)[1] == (match e { EndOfData::V0(x) => x.header.pdu, EndOfData::V1(x) => x.header.pdu }),
            wire_end_of_data(e)[0] == (match e { EndOfData::V0(x) => x.header.version, EndOfData::V1(x) => x.header.version }),
            wire_state(wire_end_of_data(e)) == eod_state(e),
            e is V1 ==> Some(wire_timing(wire_end_of_data(e))) == eod_timing(e),
    {
        broadcast use {super::ax::axiom_mem16_len, super::ax::axiom_mem32_len, super::lem::lemma_hwire_fields};
        let w = wire_end_of_data(e);
        match e {
            EndOfData::V0(x) => {
                assert(w.subrange(2, 4) =~= hwire(x.header).subrange(2, 4));
                assert(w.subrange(8, 12) =~= mem32(x.serial));
            }
            EndOfData::V1(x) => {
                assert(w.subrange(2, 4) =~= hwire(x.header).subrange(2, 4));
                assert(w.subrange(8, 12) =~= mem32(x.serial));
                assert(w.subrange(12, 16) =~= mem32(x.refresh));
                assert(w.subrange(16, 20) =~= mem32(x.retry));
                assert(w.subrange(20, 24) =~= mem32(x.expire));
            }
        }
    }
}

// =====================================================================================================
// pdu.rs functions
// =====================================================================================================
pub mod pduf {
use super::*; use super::env::*;
broadcast use {ax::axiom_mem16_len, ax::axiom_mem32_len, ax::axiom_mem128_len, ax::axiom_size_of_pdus, lem::lemma_advanced_trans, lem::lemma_advanced_refl, lem::lemma_take_take, lem::lemma_hwire_fields, lem::lemma_hwire_inj, lem::lemma_wire_ipv4_prefix, lem::lemma_wire_router_key_fixed, lem::lemma_wire_aspa_fixed, lem::lemma_wire_ipv6_prefix, lem::lemma_wire_end_of_data_v0, lem::lemma_wire_end_of_data_v1, lem::lemma_wire_cache_response, xax::axiom_size_of_more_pdus, xlem::lemma_wire_cache_reset};
impl Header {
    //@stub pdu_read :: impl Header :: version
    pub fn version(self) -> (r: u8)
    //@end
    //@stub pdu_read :: impl Header :: pdu
    pub fn pdu(self) -> (r: u8)
    //@end
    //@stub pdu_read :: impl Header :: session
    pub fn session(self) -> (r: u16)
    //@end
    //@stub pdu_read :: impl Header :: length
    pub fn length(self) -> (r: u32)
    //@end
    //@stub pdu_read :: impl Header :: new
    pub fn new(version: u8, pdu: u8, session: u16, length: u32) -> (r: Self)
    //@end
    //@stub pdu_read :: impl Header :: read
    pub fn read(sock: &mut Sock) -> (r: Result<Self, io::Error>)
    //@end
}
impl Error {
    //@item src/rtr/pdu.rs :: const PDU: u8 = 10 pubfields
    //@stub pdu_read :: impl Error :: skip_payload
    pub fn skip_payload(header: Header, sock: &mut Sock) -> (r: Result<(), io::Error>)
    //@end
    /// rpki-rs `Error::new` (generic over `impl AsRef<[u8]>`): builds the octets of an error PDU.  Not under
    /// contract here: the value is only written out on paths that end the exchange with an error.
    #[verifier::external_body]
    pub fn new<P, T>(version: u8, error_code: u16, pdu: P, text: T) -> (r: Self) { unimplemented!() }
    //@fn src/rtr/pdu.rs :: impl AsRef<[u8]> for Error :: as_ref
    //@sub R12 "self.octets.as_ref()" "self.octets.as_slice()"
    //@spec
        ensures r@ == self.octets@,
    //@/spec
    //@end
    //@fn src/rtr/pdu.rs :: impl Error :: write
    //@sigsub R6 "<A: AsyncWrite + Unpin>" ""
    //@sigsub R6 "a: &mut A" "a: &mut Sock"
    //@spec
        ensures
            advanced(*old(a), *final(a), 0),
            r.is_ok() ==> final(a).written() == old(a).written() + self.octets@,
    //@/spec
    //@end
}
impl ErrorCode {
    //@item src/rtr/pdu.rs :: const UNSUPPORTED_PROTOCOL_VERSION: Self = Self(4) pubfields
}

impl CacheResponse {
    //@item src/rtr/pdu.rs :: const PDU: u8 = 3 pubfields
    //@fn src/rtr/pdu.rs :: impl AsMut<[u8]> for $type :: as_mut external_body
    //@spec
        ensures r@ == wire_cache_response(*old(self)), final(r)@ == wire_cache_response(*final(self)),
    //@/spec
    //@end
    //@fn src/rtr/pdu.rs :: impl $type :: version
    //@spec
        ensures r == self.header.version,
    //@/spec
    //@end
    //@fn src/rtr/pdu.rs :: impl $type :: read_payload
    //@sigsub R6 "<Sock: AsyncRead + Unpin>" ""
    //@sub R11 "$type" "CacheResponse"
    //@sub R12 "Header::LEN" "mem::size_of::<Header>()"
    //@spec
        ensures
            advanced(*old(sock), *final(sock), taken(*old(sock), *final(sock))),
            taken(*old(sock), *final(sock)) == 0,
            r matches Ok(x) ==> hlen(header) == 8 && x.header == header,
            hlen(header) != 8 ==> r.is_err(),
    //@/spec
    //@end
}
impl CacheReset {
    //@item src/rtr/pdu.rs :: const PDU: u8 = 8 pubfields
    //@fn src/rtr/pdu.rs :: impl AsMut<[u8]> for $type :: as_mut external_body
    //@spec
        ensures r@ == wire_cache_reset(*old(self)), final(r)@ == wire_cache_reset(*final(self)),
    //@/spec
    //@end
    //@fn src/rtr/pdu.rs :: impl $type :: read_payload
    //@sigsub R6 "<Sock: AsyncRead + Unpin>" ""
    //@sub R11 "$type" "CacheReset"
    //@sub R12 "Header::LEN" "mem::size_of::<Header>()"
    //@spec
        ensures
            advanced(*old(sock), *final(sock), taken(*old(sock), *final(sock))),
            taken(*old(sock), *final(sock)) == 0,
            r matches Ok(x) ==> hlen(header) == 8 && x.header == header,
            hlen(header) != 8 ==> r.is_err(),
    //@/spec
    //@end
}


// ---- queries (client -> server): constructors and writers -------------------------------------------------
impl SerialQueryPayload {
    //@fn src/rtr/pdu.rs :: impl SerialQueryPayload :: new
    //@spec
        ensures be32(mem32(r.serial)) == serial.0 as int,
    //@/spec
    //@end
}
impl SerialQuery {
    //@item src/rtr/pdu.rs :: const PDU: u8 = 1 pubfields
    //@fn src/rtr/pdu.rs :: impl AsRef<[u8]> for $type :: as_ref external_body
    //@spec
        ensures r@ == wire_serial_query(*self),
    //@/spec
    //@end
    //@fn src/rtr/pdu.rs :: impl $type :: size
    //@spec
        ensures r == 12,
    //@/spec
    //@end
    //@fn src/rtr/pdu.rs :: impl SerialQuery :: new
    //@spec
        ensures r.header.version == version, r.header.pdu == 1, be16(mem16(r.header.session)) == state.session as int,
            hlen(r.header) == 12, be32(mem32(r.payload.serial)) == state.serial.0 as int,
    //@/spec
    //@end
    //@fn src/rtr/pdu.rs :: impl $type :: write nth=0
    //@sigsub R6 "<A: AsyncWrite + Unpin>" ""
    //@sigsub R6 "a: &mut A" "a: &mut Sock"
    //@spec
        ensures
            advanced(*old(a), *final(a), 0),
            r.is_ok() ==> final(a).written() == old(a).written() + wire_serial_query(*self),
    //@/spec
    //@end
}
impl ResetQuery {
    //@item src/rtr/pdu.rs :: const PDU: u8 = 2 pubfields
    //@fn src/rtr/pdu.rs :: impl AsRef<[u8]> for $type :: as_ref external_body
    //@spec
        ensures r@ == wire_reset_query(*self),
    //@/spec
    //@end
    //@fn src/rtr/pdu.rs :: impl ResetQuery :: new
    //@spec
        ensures r.header.version == version, r.header.pdu == 2, be16(mem16(r.header.session)) == 0, hlen(r.header) == 8,
    //@/spec
    //@end
    //@fn src/rtr/pdu.rs :: impl $type :: write nth=0
    //@sigsub R6 "<A: AsyncWrite + Unpin>" ""
    //@sigsub R6 "a: &mut A" "a: &mut Sock"
    //@spec
        ensures
            advanced(*old(a), *final(a), 0),
            r.is_ok() ==> final(a).written() == old(a).written() + wire_reset_query(*self),
    //@/spec
    //@end
}

// ---- payload PDUs: version accessors, the reader (linked), conversion to an item (assumed) ----------------
impl Ipv4Prefix {
    //@fn src/rtr/pdu.rs :: impl AsRef<[u8]> for $type :: as_ref external_body
    //@spec
        ensures r@ == wire_ipv4_prefix(*self),
    //@/spec
    //@end
    //@fn src/rtr/pdu.rs :: impl $type :: version
    //@spec
        ensures r == self.header.version,
    //@/spec
    //@end
}
impl Ipv6Prefix {
    //@fn src/rtr/pdu.rs :: impl AsRef<[u8]> for $type :: as_ref external_body
    //@spec
        ensures r@ == wire_ipv6_prefix(*self),
    //@/spec
    //@end
    //@fn src/rtr/pdu.rs :: impl $type :: version
    //@spec
        ensures r == self.header.version,
    //@/spec
    //@end
}
impl RouterKeyFixed {
    //@fn src/rtr/pdu.rs :: impl AsRef<[u8]> for RouterKeyFixed :: as_ref external_body
    //@spec
        ensures r@ == wire_router_key_fixed(*self),
    //@/spec
    //@end
}
impl AspaFixed {
    //@fn src/rtr/pdu.rs :: impl AsRef<[u8]> for AspaFixed :: as_ref external_body
    //@spec
        ensures r@ == wire_aspa_fixed(*self),
    //@/spec
    //@end
}
impl RouterKey {
    //@item src/rtr/pdu.rs :: const PDU: u8 = 9 pubfields
    //@fn src/rtr/pdu.rs :: impl RouterKey :: version
    //@spec
        ensures r == self.fixed.header.version,
    //@/spec
    //@end
}
impl Aspa {
    //@item src/rtr/pdu.rs :: const PDU: u8 = 11 pubfields
    //@fn src/rtr/pdu.rs :: impl Aspa :: version
    //@spec
        ensures r == self.fixed.header.version,
    //@/spec
    //@end
}
impl Payload {
    //@stub pdu_read :: impl Payload :: read
    pub fn read(sock: &mut Sock) -> (r: Result<Result<Option<Self>, EndOfData>, io::Error>)
    //@end
    //@fn src/rtr/pdu.rs :: impl Payload :: version
    //@spec
        ensures r == wire_payload(*self)[0],
    //@/spec
    //@end
    //@fn src/rtr/pdu.rs :: impl Payload :: as_partial_slice
    //@end
    /// rpki-rs `Payload::to_payload` (Kani unit pdu_layout: pdu_to_payload_v4/_v6/_error_pdu and the round-trip
    /// harnesses).  Not verified here; assumed: the outcome is a function of the PDU's octets.
    #[verifier::external_body]
    pub fn to_payload(&self) -> (r: Result<(payload::Action, payload::Payload), Error>)
        ensures
            r matches Ok(x) ==> item_of_wire(wire_payload(*self)) == Some((x.0, x.1@)),
            r is Err ==> item_of_wire(wire_payload(*self)) is None,
    { unimplemented!() }
}

// ---- end of data: accessors ----------------------------------------------------------------------------
impl EndOfDataV0 {
    //@fn src/rtr/pdu.rs :: impl $type :: session
    //@spec
        ensures r as int == be16(mem16(self.header.session)),
    //@/spec
    //@end
    //@fn src/rtr/pdu.rs :: impl EndOfDataV0 :: serial
    //@spec
        ensures r.0 as int == be32(mem32(self.serial)),
    //@/spec
    //@end
}
impl EndOfDataV1 {
    //@fn src/rtr/pdu.rs :: impl $type :: session
    //@spec
        ensures r as int == be16(mem16(self.header.session)),
    //@/spec
    //@end
    //@fn src/rtr/pdu.rs :: impl EndOfDataV1 :: serial
    //@spec
        ensures r.0 as int == be32(mem32(self.serial)),
    //@/spec
    //@end
    //@fn src/rtr/pdu.rs :: impl EndOfDataV1 :: timing
    //@spec
        ensures Some(r) == eod_timing(EndOfData::V1(*self)),
    //@/spec
    //@end
}
impl EndOfData {
    //@fn src/rtr/pdu.rs :: impl EndOfData :: version
    //@spec
        ensures r == eod_version(*self),
    //@/spec
    //@end
    //@fn src/rtr/pdu.rs :: impl EndOfData :: session
    //@spec
        ensures r == eod_state(*self).session,
    //@/spec
    //@end
    //@fn src/rtr/pdu.rs :: impl EndOfData :: serial
    //@spec
        ensures r == eod_state(*self).serial,
    //@/spec
    //@end
    //@fn src/rtr/pdu.rs :: impl EndOfData :: state
    //@spec
        ensures r == eod_state(*self),
    //@/spec
    //@end
    //@fn src/rtr/pdu.rs :: impl EndOfData :: timing
    //@spec
        ensures r == eod_timing(*self),
    //@/spec
    //@end
}
} // mod pduf


// =====================================================================================================
// src/rtr/client.rs
// =====================================================================================================
pub mod client {
use super::*; use super::env::*;
use super::payload::{Action, Payload, Timing};
use super::pdu;
use super::state::State;
broadcast use {ax::axiom_mem16_len, ax::axiom_mem32_len, lem::lemma_advanced_trans, lem::lemma_advanced_refl, lem::lemma_hwire_fields, lem::lemma_wire_cache_response, xlem::lemma_wire_cache_reset};

//@item src/rtr/client.rs :: const INITIAL_VERSION: u8 = 2
//@item src/rtr/client.rs :: pub enum PayloadError keepderive=Clone,Copy
//@item src/rtr/client.rs :: pub struct Client<Sock, Target> pubfields
//@item src/rtr/client.rs :: enum FirstSerialReply
//@item src/rtr/client.rs :: enum FirstResetReply

/// `PayloadUpdate` (user code behind a trait): modelled by the ghost sequence of all `push_update` calls made
/// on the value, in order, whatever their outcome
pub trait PayloadUpdate: Sized {
    spec fn log(&self) -> Seq<Item>;
    fn push_update(&mut self, action: Action, payload: Payload) -> (r: Result<(), PayloadError>)
        ensures final(self).log() == old(self).log().push((action, payload@));
}
/// `PayloadTarget` (user code behind a trait): a fresh update has received nothing yet
pub trait PayloadTarget: Sized {
    type Update: PayloadUpdate;
    fn start(&mut self, reset: bool) -> (r: Self::Update)
        ensures r.log() == Seq::<Item>::empty();
    fn apply(&mut self, update: Self::Update, timing: Timing) -> (r: Result<(), PayloadError>);
}

/// everything but the negotiated version is untouched
pub open spec fn same_but_version<T>(a: Client<Sock, T>, b: Client<Sock, T>) -> bool {
    a.sock == b.sock && a.target == b.target && a.state == b.state && a.initial_version == b.initial_version
    && a.timing == b.timing && a.next_update == b.next_update
}

impl PayloadError {
    //@fn src/rtr/client.rs :: impl PayloadError :: error_code
    //@end
    //@fn src/rtr/client.rs :: impl PayloadError :: send
    //@sigsub R6 "sock: &mut (impl AsyncWrite + Unpin)" "sock: &mut Sock"
    //@spec
        ensures advanced(*old(sock), *final(sock), 0),
    //@/spec
    //@end
}

impl FirstResetReply {
    //@fn src/rtr/client.rs :: impl FirstResetReply :: read
    //@sigsub R6 "<Sock: AsyncRead + Unpin>" ""
    //@sub R12 ".map(Self::Response)" ".map(|x| -> (b: Self) ensures b == FirstResetReply::Response(x) { Self::Response(x) })"
    //@sub R12 "pdu::Error::PDU\n                if header.session()" "pdu::Error::PDU =>\n                if header.session()"
    //@sub R12 "== pdu::ErrorCode::UNSUPPORTED_PROTOCOL_VERSION\n            => {" "== pdu::ErrorCode::UNSUPPORTED_PROTOCOL_VERSION.0\n             {"
    //@sub R12 "}\n            pdu::Error::PDU => {" "}\n            else {"
    //@sub R12 "format!(\"server reported error {}\", header.session())" "fmt_static(\"server reported error {}\"                  )"
    //@sub R12 "format!(\"unexpected PDU {pdu}\")" "fmt_static(\"unexpected PDU {pdu}\")"
    //@spec
        ensures
            advanced(*old(sock), *final(sock), taken(*old(sock), *final(sock))),
            old(sock).stream().len() < 8 ==> r is Err,
            // a cache response: exactly the eight octets of its header
            r matches Ok(FirstResetReply::Response(cr)) ==> old(sock).stream().len() >= 8 && old(sock).stream()[1] == 3
                && wire_len(old(sock).stream().take(8)) == 8 && taken(*old(sock), *final(sock)) == 8
                && cr.header.version == old(sock).stream()[0],
            // an error PDU with code 4: skipped entirely, the version field is reported
            r matches Ok(FirstResetReply::VersionError(v)) ==> old(sock).stream().len() >= 8 && old(sock).stream()[1] == 10
                && be16(old(sock).stream().subrange(2, 4)) == 4 && v == old(sock).stream()[0]
                && wire_len(old(sock).stream().take(8)) >= 8
                && taken(*old(sock), *final(sock)) == wire_len(old(sock).stream().take(8)),
    //@/spec
    //@ghost after "let header = pdu::Header::read(sock).await?;"
        proof { assert(hwire(header).subrange(2, 4) == old(sock).stream().take(8).subrange(2, 4));
                assert(old(sock).stream().take(8).subrange(2, 4) =~= old(sock).stream().subrange(2, 4)); }
    //@/ghost
    //@end
}

impl FirstSerialReply {
    //@fn src/rtr/client.rs :: impl FirstSerialReply :: read
    //@sigsub R6 "<Sock: AsyncRead + Unpin>" ""
    //@sub R12 ".map(FirstSerialReply::Response)" ".map(|x| -> (b: Self) ensures b == FirstSerialReply::Response(x) { FirstSerialReply::Response(x) })"
    //@sub R12 ".map(|_| FirstSerialReply::Reset)" ".map(|_x| -> (b: Self) ensures b == FirstSerialReply::Reset { FirstSerialReply::Reset })"
    //@sub R12 "pdu::Error::PDU\n                if header.session()" "pdu::Error::PDU =>\n                if header.session()"
    //@sub R12 "== pdu::ErrorCode::UNSUPPORTED_PROTOCOL_VERSION\n            => {" "== pdu::ErrorCode::UNSUPPORTED_PROTOCOL_VERSION.0\n             {"
    //@sub R12 "}\n            pdu::Error::PDU => {" "}\n            else {"
    //@sub R12 "format!(\"server reported error {}\", header.session())" "fmt_static(\"server reported error {}\"                  )"
    //@sub R12 "format!(\"unexpected PDU {pdu}\")" "fmt_static(\"unexpected PDU {pdu}\")"
    //@spec
        ensures
            advanced(*old(sock), *final(sock), taken(*old(sock), *final(sock))),
            old(sock).stream().len() < 8 ==> r is Err,
            r matches Ok(FirstSerialReply::Response(cr)) ==> old(sock).stream().len() >= 8 && old(sock).stream()[1] == 3
                && wire_len(old(sock).stream().take(8)) == 8 && taken(*old(sock), *final(sock)) == 8
                && cr.header.version == old(sock).stream()[0],
            // a cache reset: exactly the eight octets of its header
            r matches Ok(FirstSerialReply::Reset) ==> old(sock).stream().len() >= 8 && old(sock).stream()[1] == 8
                && wire_len(old(sock).stream().take(8)) == 8 && taken(*old(sock), *final(sock)) == 8,
            r matches Ok(FirstSerialReply::VersionError(v)) ==> old(sock).stream().len() >= 8 && old(sock).stream()[1] == 10
                && be16(old(sock).stream().subrange(2, 4)) == 4 && v == old(sock).stream()[0]
                && wire_len(old(sock).stream().take(8)) >= 8
                && taken(*old(sock), *final(sock)) == wire_len(old(sock).stream().take(8)),
    //@/spec
    //@ghost after "let header = pdu::Header::read(sock).await?;"
        proof { assert(hwire(header).subrange(2, 4) == old(sock).stream().take(8).subrange(2, 4));
                assert(old(sock).stream().take(8).subrange(2, 4) =~= old(sock).stream().subrange(2, 4)); }
    //@/ghost
    //@end
}

impl<Target: PayloadTarget> Client<Sock, Target> {
    //@fn src/rtr/client.rs :: impl<Sock, Target> Client<Sock, Target> :: version
    //@spec
        ensures r == (match self.version { Some(v) => v, None => self.initial_version }),
    //@/spec
    //@end

    //@fn src/rtr/client.rs :: impl<Sock, Target> Client<Sock, Target> :: check_version
    //@sub R12 "format!(" "fmt_static("
    //@spec
        ensures
            same_but_version(*old(self), *final(self)),
            r is Ok <==> (match old(self).version { Some(sv) => version == sv, None => version <= 2 }),
            r is Ok ==> final(self).version == Some(version),
            r is Err ==> final(self).version == old(self).version,
    //@/spec
    //@end

    //@fn src/rtr/client.rs :: impl<Sock, Target> Client<Sock, Target> :: reset
    //@sub R12 "let start = loop {" "let start: pdu::CacheResponse; loop {"
    //@sub R12 "FirstResetReply::Response(start) => break start," "FirstResetReply::Response(start_) => { start = start_; break }"
    //@sub R12 "self.try_io(FirstResetReply::read)" "io_timeout(FirstResetReply::read(&mut self.sock))"
    //@spec
        ensures
            advanced(old(self).sock, final(self).sock, taken(old(self).sock, final(self).sock)),
            final(self).initial_version == old(self).initial_version,
            r matches Ok(upd) ==> exchange_ok(old(self).sock.stream(), old(self).version, final(self).version,
                taken(old(self).sock, final(self).sock), upd.log(), final(self).state, old(self).timing, final(self).timing),
            r is Err ==> final(self).state == old(self).state && final(self).timing == old(self).timing,
    //@/spec
    //@loop "loop" nth=0
            invariant_except_break
                nego_inv(old(self).sock.stream(), old(self).version, self.version, taken(old(self).sock, self.sock)),
            invariant
                advanced(old(self).sock, self.sock, taken(old(self).sock, self.sock)),
                self.state == old(self).state, self.timing == old(self).timing, self.initial_version == old(self).initial_version,
            ensures
                resp_read(old(self).sock.stream(), old(self).version, self.version, taken(old(self).sock, self.sock), start.header.version),
            decreases (if self.version is Some { 0int } else { 1int }),
    //@/loop
    //@ghost before "let mut target = self.target.start(true);"
        let ghost v = start.header.version;
        let ghost pre = self.sock;
        proof {
            assert(pre.stream() =~= old(self).sock.stream().skip(skip_len(old(self).sock.stream())).skip(8));
        }
    //@/ghost
    //@loop "loop" nth=1
            invariant_except_break
                self.state == old(self).state, self.timing == old(self).timing,
                run(pre.stream(), v, Seq::<Item>::empty(), 0) == run(self.sock.stream(), v, target.log(), taken(pre, self.sock)),
            invariant
                self.version == Some(v), self.initial_version == old(self).initial_version,
                advanced(old(self).sock, pre, taken(old(self).sock, pre)),
                advanced(pre, self.sock, taken(pre, self.sock)),
            ensures
                payload_done(pre.stream(), v, taken(pre, self.sock), target.log(), self.state, old(self).timing, self.timing),
            decreases self.sock.stream().len(),
    //@/loop
    //@ghost after "loop {" nth=1
            let ghost c = self.sock;
    //@/ghost
    //@ghost before "self.state = Some(end.state());"
                    proof {
                        xlem::lemma_eod_wire(end);
                        let k = taken(pre, c); let n = wire_len(c.stream().take(8));
                        assert(pre.stream().subrange(k, k + n) =~= c.stream().take(n));
                    }
    //@/ghost
    //@end

    //@fn src/rtr/client.rs :: impl<Sock, Target> Client<Sock, Target> :: serial
    //@sub R12 "let start = loop {" "let start: pdu::CacheResponse; loop {"
    //@sub R12 "FirstSerialReply::Response(start) => break start," "FirstSerialReply::Response(start_) => { start = start_; break }"
    //@sub R12 "self.try_io(FirstSerialReply::read)" "io_timeout(FirstSerialReply::read(&mut self.sock))"
    //@spec
        ensures
            advanced(old(self).sock, final(self).sock, taken(old(self).sock, final(self).sock)),
            final(self).initial_version == old(self).initial_version,
            r matches Ok(Some(upd)) ==> exchange_ok(old(self).sock.stream(), old(self).version, final(self).version,
                taken(old(self).sock, final(self).sock), upd.log(), final(self).state, old(self).timing, final(self).timing),
            r matches Ok(None) ==> reset_reply(old(self).sock.stream(), taken(old(self).sock, final(self).sock))
                && final(self).state is None && final(self).timing == old(self).timing
                && nego_inv(old(self).sock.stream(), old(self).version, final(self).version, skip_len(old(self).sock.stream())),
            r is Err ==> final(self).state == old(self).state && final(self).timing == old(self).timing,
    //@/spec
    //@loop "loop" nth=0
            invariant_except_break
                nego_inv(old(self).sock.stream(), old(self).version, self.version, taken(old(self).sock, self.sock)),
            invariant
                advanced(old(self).sock, self.sock, taken(old(self).sock, self.sock)),
                self.state == old(self).state, self.timing == old(self).timing, self.initial_version == old(self).initial_version,
            ensures
                resp_read(old(self).sock.stream(), old(self).version, self.version, taken(old(self).sock, self.sock), start.header.version),
            decreases (if self.version is Some { 0int } else { 1int }),
    //@/loop
    //@ghost before "let mut target = self.target.start(false);"
        let ghost v = start.header.version;
        let ghost pre = self.sock;
        proof {
            assert(pre.stream() =~= old(self).sock.stream().skip(skip_len(old(self).sock.stream())).skip(8));
        }
    //@/ghost
    //@loop "loop" nth=1
            invariant_except_break
                self.state == old(self).state, self.timing == old(self).timing,
                run(pre.stream(), v, Seq::<Item>::empty(), 0) == run(self.sock.stream(), v, target.log(), taken(pre, self.sock)),
            invariant
                self.version == Some(v), self.initial_version == old(self).initial_version,
                advanced(old(self).sock, pre, taken(old(self).sock, pre)),
                advanced(pre, self.sock, taken(pre, self.sock)),
            ensures
                payload_done(pre.stream(), v, taken(pre, self.sock), target.log(), self.state, old(self).timing, self.timing),
            decreases self.sock.stream().len(),
    //@/loop
    //@ghost after "loop {" nth=1
            let ghost c = self.sock;
    //@/ghost
    //@ghost before "self.state = Some(end.state());"
                    proof {
                        xlem::lemma_eod_wire(end);
                        let k = taken(pre, c); let n = wire_len(c.stream().take(8));
                        assert(pre.stream().subrange(k, k + n) =~= c.stream().take(n));
                    }
    //@/ghost
    //@end
}
} // mod client

} // verus!
fn main() {}
