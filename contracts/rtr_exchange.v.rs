#![feature(allocator_api)]
// Unit rtr_exchange (C06, exploratory): ONE synchronisation step between the RTR client (src/rtr/client.rs) and
// the RTR server (src/rtr/server.rs), async-erased (R6), stated as contracts over ghost byte streams.
//
//   server, sending side   Connection::reset / Connection::serial (+ version, check_version): the octets handed to
//                          the socket in one call are `is_response`: cache response(version, state.session) ++ one
//                          payload PDU `Payload::new(version, flags(action), item)` per source item the version
//                          carries, in source order ++ end of data(version, state, timing); or exactly a cache reset
//                          when the source has no diff.  The source (`PayloadSource`/`PayloadSet`/`PayloadDiff`,
//                          user code behind traits) is a ghost model: ready flag, state, item sequence, timing.
//   client, receiving side Client::reset / Client::serial (+ version, check_version, FirstSerialReply::read,
//                          FirstResetReply::read, PayloadError::send): whenever the call returns Ok, the octets
//                          taken from the socket are (optionally one "unsupported version" error PDU, then) a cache
//                          response ++ payload PDUs ++ end of data, all of ONE version (spec function `run` =
//                          the payload loop as a function of the stream), the `push_update` calls made on the update
//                          are exactly `to_payload` of these PDUs in order, the stored state is the state named in
//                          the end of data, the timing values are those of the end of data (version 0: unchanged).
//                          Cache reset (serial only): state None, Ok(None).  Everything else: Err with state and
//                          timing untouched.  Both loops terminate (negotiation: at most one downgrade; payload
//                          loop: every PDU consumes octets of a finite stream).
//                          Client::update / apply / step: serial with fallback to reset, or reset (`step_ok`), and the
//                          update is handed to the target together with the stored timing values.
//   composition            (module `comp`, specification level) `run` over the server's octets yields the source's
//                          items restricted to the payload types the version carries, ASPA withdrawals compared by
//                          customer AS (lemma_composition, _step, _fallback, _downgrade, lemma_expected_full); and,
//                          reading payload sets as the property statement does (ASPA keyed by customer AS), applying
//                          these items to the restricted previous set gives the restricted new set whenever the
//                          source's sequence leads from the old set to the new one (lemma_restrict_apply).
//
// Per-PDU facts: unit pdu_read through contract links (//@stub: Header::{read,new,version,pdu,session,length},
// Payload::read, Error::skip_payload, SerialNotify::read) and the Kani unit pdu_layout (axioms in `xax`, each
// cross-referenced).  NOT covered here: Payload::new / Payload::to_payload / Error::new (stand-ins, see .trusted),
// Client::try_io (tokio time-out wrapper: environment), Client::run, Connection::recv / run (select!, channels), the
// content of the queries the client sends (the socket model of pdu_read does not frame `written` over reads), and
// everything that quantifies over histories (what applying a diff to the previous data yields).
//
// Language idioms Verus 0.2026.09.13 does not handle, substituted under R12 (logged, listed in .trusted):
// `let x = loop { .. break v .. }` (break with a value -> deferred initialisation + break), a match guard over two
// arms with the same pattern in a function with a `&mut` parameter (Verus loses the final value of the parameter;
// -> if/else inside one arm, same order of tests), `format!` for error texts, constructors as function values.
use vstd::prelude::*;
use vstd::std_specs::cmp::*;
use std::{cmp, mem, slice};

/// `log::debug!`: no effect on the program state (the arguments are not evaluated here)
macro_rules! debug { ($($t:tt)*) => { () } }

// `impl PartialEq for Serial` (src/rtr/state.rs: `self.0 == other.0`, PROVED in unit rtr_serial as Serial::eq): declared
// outside verus! so that `==` on serial numbers resolves in the extracted bodies; its meaning is axiom_serial_eq below
impl PartialEq for state::Serial { fn eq(&self, _other: &Self) -> bool { unimplemented!() } }

verus! {

//@include shared/rtr_wire.v.rs

use env::*;

// =====================================================================================================
// additional environment of this unit
// =====================================================================================================
pub mod xenv {
    use super::*; use super::env::*;
    impl io::Error {
        /// std: `io::Error::other(message)`; the message is irrelevant here
        #[verifier::external_body]
        pub fn other(msg: &'static str) -> (r: io::Error) { unimplemented!() }
    }
    /// stands for `format!(..)` producing the message of an `io::Error` (R12): the text is irrelevant
    #[verifier::external_body]
    pub fn fmt_static(msg: &'static str) -> (r: &'static str) { unimplemented!() }
    /// tokio `time::timeout(IO_TIMEOUT, fut).await` around an operation on the socket, one future polled to
    /// completion (R6): either the operation's result or a time-out error
    #[verifier::external_body]
    pub fn io_timeout<T>(res: Result<T, io::Error>) -> (r: Result<T, io::Error>)
        ensures r is Ok ==> r == res,
    { unimplemented!() }
    /// opaque stand-ins for tokio::time::Instant / std::time::Duration / tokio::time::error::Elapsed
    #[verifier::external_body]
    #[derive(Clone, Copy)]
    pub struct Instant { _o: u8 }
    #[verifier::external_body]
    #[derive(Clone, Copy)]
    pub struct Duration { _o: u8 }
    #[verifier::external_body]
    pub struct Elapsed { _o: u8 }
    impl Duration {
        /// std: `Duration::from_secs`
        #[verifier::external_body]
        pub fn from_secs(secs: u64) -> (r: Duration) { unimplemented!() }
    }
    impl Instant {
        /// tokio: `Instant::now`
        #[verifier::external_body]
        pub fn now() -> (r: Instant) { unimplemented!() }
    }
    impl vstd::std_specs::ops::AddSpecImpl<Duration> for Instant {
        open spec fn obeys_add_spec() -> bool { false }
        open spec fn add_req(self, rhs: Duration) -> bool { true }
        open spec fn add_spec(self, rhs: Duration) -> Instant { arbitrary() }
    }
    impl core::ops::Add<Duration> for Instant {
        type Output = Instant;
        /// tokio: `Instant + Duration` (saturating inside tokio; the value is only stored)
        #[verifier::external_body]
        fn add(self, d: Duration) -> (r: Instant) { unimplemented!() }
    }
    /// tokio `time::timeout_at(deadline, fut).await`, one future polled to completion (R6: the inner future has
    /// already run when this is evaluated): either its result or Elapsed
    #[verifier::external_body]
    pub fn timeout_at<T>(deadline: Instant, res: T) -> (r: Result<T, Elapsed>)
        ensures r matches Ok(x) ==> x == res,
    { unimplemented!() }
    /// opaque stand-in for the tokio broadcast receiver wrapper of server.rs
    #[verifier::external_body]
    pub struct NotifyReceiver { _o: u8 }

    // the socket is also written to (`Sock: AsyncRead + AsyncWrite + Unpin`, server: `Sock: Socket`)
    impl Sock {
        /// every octet this side has handed to the socket so far (the reader contracts do not mention it: it
        /// is only used where nothing is read in between, i.e. on the server's sending side)
        pub uninterp spec fn written(&self) -> Seq<u8>;
        /// tokio `AsyncWriteExt::write_all`: on success the whole buffer was appended; the incoming stream is
        /// a different direction and is not touched
        #[verifier::external_body]
        pub fn write_all(&mut self, buf: &[u8]) -> (r: Result<(), io::Error>)
            ensures
                advanced(*old(self), *final(self), 0),
                r.is_ok() ==> final(self).written() == old(self).written() + buf@,
        { unimplemented!() }
        /// tokio `AsyncWriteExt::flush`
        #[verifier::external_body]
        pub fn flush(&mut self) -> (r: Result<(), io::Error>)
            ensures
                advanced(*old(self), *final(self), 0),
                final(self).written() == old(self).written(),
        { unimplemented!() }
        /// `Socket::update` (server.rs): a hook of the socket type, default implementation empty
        #[verifier::external_body]
        pub fn update(&self, state: state::State, reset: bool) { unimplemented!() }
    }
}
use xenv::*;

// =====================================================================================================
// src/rtr/state.rs
// =====================================================================================================
pub mod state {
    use super::*; use super::env::*;
    //@item src/rtr/state.rs :: pub struct Serial keepderive=Clone,Copy
    //@item src/rtr/state.rs :: pub struct State pubfields keepderive=Clone,Copy
    impl Serial {
        //@fn src/rtr/state.rs :: impl Serial :: from_be
        //@spec
            ensures r.0 as int == be32(mem32(value)),
        //@/spec
        //@end
        //@fn src/rtr/state.rs :: impl Serial :: to_be
        //@spec
            ensures be32(mem32(r)) == self.0 as int,
        //@/spec
        //@end
    }
    impl State {
        //@fn src/rtr/state.rs :: impl State :: from_parts
        //@spec
            ensures r.session == session, r.serial == serial,
        //@/spec
        //@end
        //@fn src/rtr/state.rs :: impl State :: session
        //@spec
            ensures r == self.session,
        //@/spec
        //@end
        //@fn src/rtr/state.rs :: impl State :: serial
        //@spec
            ensures r == self.serial,
        //@/spec
        //@end
    }
}
use state::{Serial, State};
pub mod sax {
    use super::*;
    /// Serial::eq compares the wrapped numbers (contract proved on the real body in unit rtr_serial)
    #[verifier::external_body]
    pub broadcast proof fn axiom_serial_eq_obeys()
        ensures #[trigger] <Serial as PartialEqSpec>::obeys_eq_spec() {}
    #[verifier::external_body]
    pub broadcast proof fn axiom_serial_eq(a: Serial, b: Serial)
        ensures #[trigger] a.eq_spec(&b) == (a.0 == b.0) {}
}

// =====================================================================================================
// src/rtr/payload.rs: the items (real item texts; MaxLenPrefix opaque) and their content view
// =====================================================================================================
/// the content of a payload item, compared by value (Bytes by their octets; a route origin by address,
/// prefix length and resolved maximum length, as `RouteOrigin::eq` does)
pub enum ItemView {
    Origin { prefix: (int, int, int), asn: u32 },
    RouterKey { ki: Seq<u8>, asn: u32, info: Seq<u8> },
    Aspa { customer: u32, providers: Seq<u8> },
}
pub type Item = (payload::Action, ItemView);

pub mod payload {
    use super::*; use super::env::*;
    /// opaque stand-in for resources::addr::MaxLenPrefix (its own contracts are in the Kani unit addr_prefix)
    #[verifier::external_body]
    #[derive(Clone, Copy)]
    pub struct MaxLenPrefix { _o: u8 }
    /// (address bits with family, prefix length, resolved maximum length)
    pub uninterp spec fn mlp_view(p: MaxLenPrefix) -> (int, int, int);
    //@item src/crypto/keys.rs :: pub struct KeyIdentifier pubfields keepderive=Clone,Copy
    //@item src/rtr/payload.rs :: pub struct RouteOrigin pubfields keepderive=Clone,Copy
    //@item src/rtr/payload.rs :: pub struct RouterKey pubfields
    //@item src/rtr/payload.rs :: pub struct Aspa pubfields
    //@item src/rtr/payload.rs :: pub enum Payload
    //@item src/rtr/payload.rs :: pub enum PayloadRef<'a> keepderive=Clone,Copy
    //@item src/rtr/payload.rs :: pub enum Action keepderive=Clone,Copy
    //@item src/rtr/payload.rs :: pub struct Timing pubfields keepderive=Clone,Copy

    pub open spec fn origin_view(o: RouteOrigin) -> ItemView { ItemView::Origin { prefix: mlp_view(o.prefix), asn: o.asn.0 } }
    pub open spec fn router_key_view(k: RouterKey) -> ItemView { ItemView::RouterKey { ki: k.key_identifier.0@, asn: k.asn.0, info: k.key_info.0@ } }
    pub open spec fn aspa_view(a: Aspa) -> ItemView { ItemView::Aspa { customer: a.customer.0, providers: a.providers.0@ } }
    impl View for Payload {
        type V = ItemView;
        open spec fn view(&self) -> ItemView {
            match *self {
                Payload::Origin(o) => origin_view(o),
                Payload::RouterKey(k) => router_key_view(k),
                Payload::Aspa(a) => aspa_view(a),
            }
        }
    }
    pub open spec fn ref_view(p: PayloadRef) -> ItemView {
        match p {
            PayloadRef::Origin(o) => origin_view(o),
            PayloadRef::RouterKey(k) => router_key_view(*k),
            PayloadRef::Aspa(a) => aspa_view(*a),
        }
    }
    pub open spec fn flags_of(a: Action) -> u8 { match a { Action::Announce => 1, Action::Withdraw => 0 } }

    impl Timing {
        //@fn src/rtr/payload.rs :: impl Timing :: refresh_duration
        //@end
    }
    impl Action {
        //@fn src/rtr/payload.rs :: impl Action :: into_flags
        //@spec
            ensures r == flags_of(self),
        //@/spec
        //@end
    }
}
use payload::Action;

// =====================================================================================================
// src/rtr/pdu.rs: the PDU types that unit pdu_read does not need, and the readers/writers/constructors used by
// client and server.  Proved in pdu_read: linked (//@stub).  Not proved there: extracted and verified here.
// =====================================================================================================
//@item src/rtr/pdu.rs :: pub struct SerialQueryPayload pubfields keepderive=Clone,Copy,Default
//@item src/rtr/pdu.rs :: pub struct SerialQuery pubfields keepderive=Clone,Copy,Default
//@item src/rtr/pdu.rs :: pub struct ResetQuery pubfields keepderive=Clone,Copy,Default
//@item src/rtr/pdu.rs :: pub struct CacheReset pubfields keepderive=Clone,Copy,Default
//@item src/rtr/pdu.rs :: pub struct Error pubfields
//@item src/rtr/pdu.rs :: pub struct ErrorCode pubfields keepderive=Clone,Copy

pub mod pdu {
    pub use super::env::*;
    pub use super::{SerialQueryPayload, SerialQuery, ResetQuery, CacheReset, Error, ErrorCode};
}

pub open spec fn wire_cache_reset(x: CacheReset) -> Seq<u8> { hwire(x.header) }
pub open spec fn wire_reset_query(x: ResetQuery) -> Seq<u8> { hwire(x.header) }
pub open spec fn wire_serial_query(x: SerialQuery) -> Seq<u8> { hwire(x.header) + mem32(x.payload.serial) }

// ---- spec vocabulary of the exchange ------------------------------------------------------------------
/// the item a payload PDU stands for, as a function of its octets (`Payload::to_payload`); None: not acceptable
pub uninterp spec fn item_of_wire(w: Seq<u8>) -> Option<Item>;
/// the octets of the payload PDU `Payload::new(version, flags, item)` builds
pub uninterp spec fn new_wire(version: u8, flags: u8, item: ItemView) -> Seq<u8>;

/// length of the end-of-data PDU of a version
pub open spec fn eod_len(v: u8) -> int { if v == 0 { 12 } else { 24 } }
/// session id and serial number in the octets of an end-of-data PDU
pub open spec fn wire_state(e: Seq<u8>) -> State {
    State { session: be16(e.subrange(2, 4)) as u16, serial: Serial(be32(e.subrange(8, 12)) as u32) }
}
/// refresh, retry, expire in the octets of an end-of-data PDU of version 1 or 2
pub open spec fn wire_timing(e: Seq<u8>) -> payload::Timing {
    payload::Timing {
        refresh: be32(e.subrange(12, 16)) as u32, retry: be32(e.subrange(16, 20)) as u32, expire: be32(e.subrange(20, 24)) as u32,
    }
}
pub open spec fn eod_version(e: EndOfData) -> u8 { match e { EndOfData::V0(_) => 0, EndOfData::V1(x) => x.header.version } }
pub open spec fn eod_state(e: EndOfData) -> State {
    match e {
        EndOfData::V0(x) => State { session: be16(mem16(x.header.session)) as u16, serial: Serial(be32(mem32(x.serial)) as u32) },
        EndOfData::V1(x) => State { session: be16(mem16(x.header.session)) as u16, serial: Serial(be32(mem32(x.serial)) as u32) },
    }
}
pub open spec fn eod_timing(e: EndOfData) -> Option<payload::Timing> {
    match e {
        EndOfData::V0(_) => None,
        EndOfData::V1(x) => Some(payload::Timing {
            refresh: be32(mem32(x.refresh)) as u32, retry: be32(mem32(x.retry)) as u32, expire: be32(mem32(x.expire)) as u32 }),
    }
}

/// The client's payload loop as a function of the octets still to come: `acc` = items handed over so far,
/// `k` = octets read so far.  Some((items, k')): after k' octets an end-of-data PDU of version `v` was complete
/// and `items` were handed over; None: the loop cannot complete (wrong version, wrong type, wrong length,
/// unacceptable item, stream too short).
#[verifier::opaque]
pub open spec fn run(s: Seq<u8>, v: u8, acc: Seq<Item>, k: int) -> Option<(Seq<Item>, int)>
    decreases s.len()
{
    if s.len() < 8 { None }
    else {
        let n = wire_len(s.take(8));
        if s[0] != v || !payload_header_ok(s[1], s[0], n) || s.len() < n { None }
        else if s[1] == 7 { Some((acc, k + n)) }
        else {
            match item_of_wire(s.take(n)) {
                None => None,
                Some(x) => run(s.skip(n), v, acc.push(x), k + n),
            }
        }
    }
}

/// octets of a leading "unsupported protocol version" error PDU that the negotiation loop skips
pub open spec fn skip_len(s0: Seq<u8>) -> int { if s0.len() >= 8 && s0[1] == 10 { wire_len(s0.take(8)) } else { 0 } }

/// how the version `v` of the exchange relates to the version stored before (None: not negotiated yet)
pub open spec fn negotiated(s0: Seq<u8>, ver0: Option<u8>, v: u8) -> bool {
    if skip_len(s0) == 0 {
        // the first reply is the cache response: a stored version must be confirmed, otherwise any version up
        // to 2 is taken from the server
        match ver0 { Some(x) => x == v, None => v <= 2 }
    } else {
        // downgrade: an error PDU with code 4 and a lower version, answered by a second query
        ver0 is None && s0.len() >= 8 && s0[0] == v && v < 2 && be16(s0.subrange(2, 4)) == 4 && skip_len(s0) >= 8
    }
}

/// A completed data exchange as the client sees it: `s0` = octets to come when the call starts, `n` = octets
/// taken, `log` = the (action, item) pairs handed to the update, `st` = stored state afterwards.
#[verifier::opaque]
pub open spec fn exchange_ok(s0: Seq<u8>, ver0: Option<u8>, ver1: Option<u8>, n: int, log: Seq<Item>,
                             st: Option<State>, tm0: payload::Timing, tm1: payload::Timing) -> bool {
    let off = skip_len(s0);
    let s1 = s0.skip(off);
    &&& 0 <= off && off + 8 <= s0.len()
    &&& match ver1 {
        None => false,
        Some(v) => {
            &&& negotiated(s0, ver0, v)
            // cache response of version v
            &&& s1[0] == v && s1[1] == 3 && wire_len(s1.take(8)) == 8
            // payload PDUs of version v up to the end of data
            &&& match run(s1.skip(8), v, Seq::<Item>::empty(), 0) {
                None => false,
                Some((items, k)) => {
                    let e = s1.skip(8).subrange(k - eod_len(v), k);
                    &&& items == log
                    &&& n == off + 8 + k
                    &&& k >= eod_len(v)
                    &&& st == Some(wire_state(e))
                    &&& (v == 0 ==> tm1 == tm0)
                    &&& (v >= 1 ==> tm1 == wire_timing(e))
                }
            }
        }
    }
}


/// state of the negotiation loop after `k` octets: nothing happened yet, or one "unsupported protocol
/// version" error PDU (code 4) with a version below 2 was skipped and its version stored
pub open spec fn nego_inv(s0: Seq<u8>, ver0: Option<u8>, ver: Option<u8>, k: int) -> bool {
    (k == 0 && ver == ver0)
    || (ver0 is None && s0.len() >= 8 && s0[1] == 10 && be16(s0.subrange(2, 4)) == 4 && s0[0] < 2
        && wire_len(s0.take(8)) >= 8 && k == wire_len(s0.take(8)) && ver == Some(s0[0]))
}
/// the negotiation loop has ended with a cache response whose version field is `sv`
pub open spec fn resp_read(s0: Seq<u8>, ver0: Option<u8>, ver: Option<u8>, n: int, sv: u8) -> bool {
    let off = skip_len(s0);
    let s1 = s0.skip(off);
    nego_inv(s0, ver0, ver, off) && 0 <= off && off + 8 <= s0.len() && n == off + 8
    && s1[1] == 3 && wire_len(s1.take(8)) == 8 && sv == s1[0]
}
/// the payload loop has ended: `k` octets of `s` were read, the last of them an end-of-data PDU
pub open spec fn payload_done(s: Seq<u8>, v: u8, k: int, log: Seq<Item>, st: Option<State>,
                              tm0: payload::Timing, tm1: payload::Timing) -> bool {
    &&& run(s, v, Seq::<Item>::empty(), 0) == Some((log, k))
    &&& eod_len(v) <= k <= s.len()
    &&& st == Some(wire_state(s.subrange(k - eod_len(v), k)))
    &&& (v == 0 ==> tm1 == tm0)
    &&& (v >= 1 ==> tm1 == wire_timing(s.subrange(k - eod_len(v), k)))
}

/// A completed synchronisation step (`Client::update` once the wait for a notification is over), `s` = octets
/// to come: without a stored state a reset query answered with data; with a stored state a serial query answered
/// with data, or a serial query answered with a cache reset followed by a reset query answered with data.
/// `rs`: the update was started as a reset update (it replaces the target's data instead of amending it).
pub open spec fn step_ok(s: Seq<u8>, st0: Option<State>, ver0: Option<u8>, ver1: Option<u8>, n: int, log: Seq<Item>, rs: bool,
                         st1: Option<State>, tm0: payload::Timing, tm1: payload::Timing) -> bool {
    ||| (exchange_ok(s, ver0, ver1, n, log, st1, tm0, tm1) && rs == (st0 is None))
    ||| (st0 is Some && rs && {
            let n1 = skip_len(s) + 8;
            let verm = if skip_len(s) == 0 { ver0 } else { Some(s[0]) };
            reset_reply(s, n1) && nego_inv(s, ver0, verm, skip_len(s)) && n1 <= s.len()
            && exchange_ok(s.skip(n1), verm, ver1, n - n1, log, st1, tm0, tm1)
        })
}
/// `step_ok` after the wait for a notification has taken `k` <= 12 octets (at most one serial notify)
pub open spec fn update_ok(s0: Seq<u8>, st0: Option<State>, ver0: Option<u8>, ver1: Option<u8>, n: int, log: Seq<Item>, rs: bool,
                           st1: Option<State>, tm0: payload::Timing, tm1: payload::Timing) -> bool {
    exists|k: int| 0 <= k <= 12 && k <= s0.len() && #[trigger] step_ok(s0.skip(k), st0, ver0, ver1, n - k, log, rs, st1, tm0, tm1)
}
/// the serial query was answered by a cache reset
pub open spec fn reset_reply(s0: Seq<u8>, n: int) -> bool {
    let off = skip_len(s0);
    let s1 = s0.skip(off);
    0 <= off && off + 8 <= s0.len() && s1[1] == 8 && wire_len(s1.take(8)) == 8 && n == off + 8
}


// ---- spec vocabulary of the server's sending side ----------------------------------------------------------
/// which payload types a protocol version carries (`Payload::new_if_supported`)
pub open spec fn supported(v: u8, it: ItemView) -> bool {
    match it { ItemView::Origin { .. } => true, ItemView::RouterKey { .. } => v >= 1, ItemView::Aspa { .. } => v >= 2 }
}
/// the octets one source item contributes to a response of version `v`
pub open spec fn piece(v: u8, it: Item) -> Seq<u8> {
    if supported(v, it.1) { new_wire(v, payload::flags_of(it.0), it.1) } else { Seq::<u8>::empty() }
}
/// the payload section for a sequence of (action, item) pairs (a diff), in order
pub open spec fn payload_bytes(v: u8, items: Seq<Item>) -> Seq<u8>
    decreases items.len()
{
    if items.len() == 0 { Seq::<u8>::empty() } else { piece(v, items[0]) + payload_bytes(v, items.drop_first()) }
}
/// the payload section for a full data set: every item is announced
pub open spec fn payload_bytes_full(v: u8, items: Seq<ItemView>) -> Seq<u8>
    decreases items.len()
{
    if items.len() == 0 { Seq::<u8>::empty() } else { piece(v, (Action::Announce, items[0])) + payload_bytes_full(v, items.drop_first()) }
}
/// a full data set is a sequence of announcements
pub open spec fn announce_all(items: Seq<ItemView>) -> Seq<Item> {
    Seq::new(items.len(), |i: int| (Action::Announce, items[i]))
}
pub open spec fn is_cache_response(w: Seq<u8>, v: u8, session: u16) -> bool {
    w.len() == 8 && w[0] == v && w[1] == 3 && be16(w.subrange(2, 4)) == session as int && wire_len(w) == 8
}
pub open spec fn is_cache_reset(w: Seq<u8>, v: u8) -> bool {
    w.len() == 8 && w[0] == v && w[1] == 8 && be16(w.subrange(2, 4)) == 0 && wire_len(w) == 8
}
pub open spec fn is_end_of_data(w: Seq<u8>, v: u8, st: State, tm: payload::Timing) -> bool {
    &&& w.len() == eod_len(v) && w[0] == v && w[1] == 7 && wire_len(w.take(8)) == eod_len(v)
    &&& wire_state(w) == st
    &&& (v >= 1 ==> wire_timing(w) == tm)
}
/// the octets of a complete response: cache response ++ payload section ++ end of data
pub open spec fn is_response(w: Seq<u8>, v: u8, st: State, items: Seq<Item>, tm: payload::Timing) -> bool {
    let p = payload_bytes(v, items);
    &&& w.len() == 8 + p.len() + eod_len(v)
    &&& is_cache_response(w.take(8), v, st.session)
    &&& w.subrange(8, 8 + p.len() as int) == p
    &&& is_end_of_data(w.skip(8 + p.len() as int), v, st, tm)
}
pub open spec fn eod_header(e: EndOfData) -> Header { match e { EndOfData::V0(x) => x.header, EndOfData::V1(x) => x.header } }


/// type invariants of the Bytes-backed item parts (`ProviderAsns`: whole AS numbers, at most MAX_COUNT = 16380;
/// `RouterKeyInfo`: bounded by `max_key_info_size`; `KeyIdentifier`: 20 octets)
pub open spec fn wf_item(it: ItemView) -> bool {
    match it {
        ItemView::Origin { .. } => true,
        ItemView::RouterKey { ki, asn, info } => ki.len() == 20 && 32 + info.len() <= u32::MAX,
        ItemView::Aspa { customer, providers } => providers.len() % 4 == 0 && providers.len() <= 4 * 16380,
    }
}
/// ASPA records are keyed by customer AS: a withdrawal is compared without its provider list
pub open spec fn normal(x: Item) -> Item {
    match x {
        (Action::Withdraw, ItemView::Aspa { customer, providers }) => (Action::Withdraw, ItemView::Aspa { customer, providers: Seq::<u8>::empty() }),
        _ => x,
    }
}
/// what the client has to hand to its update for a source sequence: the items the version carries, in order
pub open spec fn expected(v: u8, items: Seq<Item>) -> Seq<Item>
    decreases items.len()
{
    if items.len() == 0 { Seq::<Item>::empty() }
    else { (if supported(v, items[0].1) { seq![normal(items[0])] } else { Seq::<Item>::empty() }) + expected(v, items.drop_first()) }
}
pub open spec fn all_wf(items: Seq<Item>) -> bool { forall|i: int| 0 <= i < items.len() ==> wf_item((#[trigger] items[i]).1) }

// =====================================================================================================
// axioms and lemmas of this unit
// =====================================================================================================
pub mod xax {
    use super::*; use super::env::*;
    /// `mem::size_of` of the header-only / query PDU structs (Kani pdu_layout: pdu_cache_reset_layout,
    /// pdu_reset_query_layout, pdu_serial_query_layout assert `size()` and `as_ref().len()`)
    #[verifier::external_body]
    pub broadcast proof fn axiom_size_of_more_pdus()
        ensures
            #[trigger] vstd::layout::size_of::<CacheReset>() == 8,
            #[trigger] vstd::layout::size_of::<ResetQuery>() == 8,
            #[trigger] vstd::layout::size_of::<SerialQuery>() == 12,
    {}

    /// Kani pdu_layout, (a)/(b) of every *_layout harness and pdu_payload_new_origin / pdu_router_key_new /
    /// pdu_aspa_new: the PDU `Payload::new(v, flags, item)` builds starts with a header that carries the version,
    /// a payload type (4/6 origin, 9 router key, 11 ASPA) and as length the number of octets `write` sends; that
    /// length is one `Payload::read` accepts for the type.  (Router keys / ASPA: proved there for sample sizes of
    /// the variable part only; `RouterKey::new` / `Aspa::new` length fields for all sizes are in unit pdu_read.)
    #[verifier::external_body]
    pub broadcast proof fn axiom_new_wire_header(v: u8, flags: u8, it: ItemView)
        requires wf_item(it),
        ensures ({
            let w = #[trigger] new_wire(v, flags, it);
            &&& w.len() >= 8 && w[0] == v && wire_len(w.take(8)) == w.len()
            &&& payload_header_ok(w[1], v, w.len() as int) && w[1] != 7
        }),
    {}
    /// Kani pdu_layout, per-PDU round trip `to_payload(new(v, flags(action), item)) == (action, item)`:
    /// origins for every field combination (chain N/T/A/G: pdu_payload_new_origin, pdu_to_payload_v4/_v6,
    /// pdu_action_flags, pdu_payload_origin_roundtrip_glue), router keys (pdu_payload_router_key_roundtrip, 4 key
    /// octets), ASPA announcements (pdu_payload_aspa_announce_roundtrip, 0 and 2 providers) and ASPA withdrawals
    /// with an empty provider list (pdu_payload_aspa_withdraw_empty_roundtrip).  KNOWN FINDING (C07,
    /// pdu_payload_aspa_withdraw_roundtrip): an ASPA withdrawal comes back with an EMPTY provider list; the axiom
    /// is therefore stated modulo `normal` (ASPA withdrawals are compared by customer AS only).
    #[verifier::external_body]
    pub broadcast proof fn axiom_roundtrip(v: u8, a: Action, it: ItemView)
        requires supported(v, it), wf_item(it),
        ensures item_of_wire(#[trigger] new_wire(v, payload::flags_of(a), it)) == Some(normal((a, it))),
    {}
}

pub mod xlem {
    use super::*; use super::env::*;
    pub broadcast proof fn lemma_wire_cache_reset(x: CacheReset)
        ensures (#[trigger] wire_cache_reset(x)).len() == 8, wire_cache_reset(x).take(8) == hwire(x.header),
    {
        broadcast use {super::ax::axiom_mem16_len, super::ax::axiom_mem32_len};
        assert(wire_cache_reset(x).take(8) =~= hwire(x.header));
    }
    /// the fields of an end-of-data value as seen in its octets
    pub broadcast proof fn lemma_eod_wire(e: EndOfData)
        ensures
            (#[trigger] wire_end_of_data(e)).len() == (if e is V0 { 12int } else { 24int }),
            wire_len(wire_end_of_data(e).take(8)) == hlen(eod_header(e)),
            wire_end_of_data(e)[1] == (match e { EndOfData::V0(x) => x.header.pdu, EndOfData::V1(x) => x.header.pdu }),
            wire_end_of_data(e)[0] == (match e { EndOfData::V0(x) => x.header.version, EndOfData::V1(x) => x.header.version }),
            wire_state(wire_end_of_data(e)) == eod_state(e),
            e is V1 ==> Some(wire_timing(wire_end_of_data(e))) == eod_timing(e),
    {
        broadcast use {super::ax::axiom_mem16_len, super::ax::axiom_mem32_len, super::lem::lemma_hwire_fields};
        let w = wire_end_of_data(e);
        assert(w.take(8) =~= hwire(eod_header(e)));
        match e {
            EndOfData::V0(x) => {
                assert(w.subrange(2, 4) =~= hwire(x.header).subrange(2, 4));
                assert(w.subrange(8, 12) =~= mem32(x.serial));
            }
            EndOfData::V1(x) => {
                assert(w.subrange(2, 4) =~= hwire(x.header).subrange(2, 4));
                assert(w.subrange(8, 12) =~= mem32(x.serial));
                assert(w.subrange(12, 16) =~= mem32(x.refresh));
                assert(w.subrange(16, 20) =~= mem32(x.retry));
                assert(w.subrange(20, 24) =~= mem32(x.expire));
            }
        }
    }

    /// one step of `run` over a payload PDU (`s` = octets to come, its first PDU has `n` octets and stands for `x`)
    pub proof fn lemma_run_payload(s: Seq<u8>, v: u8, acc: Seq<Item>, k: int, x: Item)
        requires
            s.len() >= 8, s[0] == v, s[1] != 7, payload_header_ok(s[1], s[0], wire_len(s.take(8))), wire_len(s.take(8)) <= s.len(),
            item_of_wire(s.take(wire_len(s.take(8)))) == Some(x),
        ensures run(s, v, acc, k) == run(s.skip(wire_len(s.take(8))), v, acc.push(x), k + wire_len(s.take(8))),
    {
        reveal(run);
    }
    /// the last step of `run`: an end-of-data PDU of the right version
    pub proof fn lemma_run_eod(s: Seq<u8>, v: u8, acc: Seq<Item>, k: int)
        requires s.len() >= 8, s[1] == 7, payload_header_ok(s[1], s[0], wire_len(s.take(8))), wire_len(s.take(8)) <= s.len(),
        ensures
            s[0] == v ==> run(s, v, acc, k) == Some((acc, k + wire_len(s.take(8)))) && wire_len(s.take(8)) == eod_len(v),
    {
        reveal(run);
    }
    pub proof fn lemma_update_ok(k: int, s0: Seq<u8>, st0: Option<State>, ver0: Option<u8>, ver1: Option<u8>, n: int, log: Seq<Item>, rs: bool,
                                 st1: Option<State>, tm0: payload::Timing, tm1: payload::Timing)
        requires 0 <= k <= 12, k <= s0.len(), step_ok(s0.skip(k), st0, ver0, ver1, n - k, log, rs, st1, tm0, tm1),
        ensures update_ok(s0, st0, ver0, ver1, n, log, rs, st1, tm0, tm1),
    {}
    /// a full data set written item by item is the diff that announces every item
    pub proof fn lemma_full_is_announce(v: u8, items: Seq<ItemView>)
        ensures payload_bytes_full(v, items) == payload_bytes(v, announce_all(items)),
        decreases items.len(),
    {
        if items.len() > 0 {
            lemma_full_is_announce(v, items.drop_first());
            assert(announce_all(items).drop_first() =~= announce_all(items.drop_first()));
        }
    }
    /// the pieces written one after the other form a response
    pub proof fn lemma_response_assemble(w: Seq<u8>, c: Seq<u8>, p: Seq<u8>, e: Seq<u8>, v: u8, st: State, items: Seq<Item>, tm: payload::Timing)
        requires w == c + p + e, is_cache_response(c, v, st.session), p == payload_bytes(v, items), is_end_of_data(e, v, st, tm),
        ensures is_response(w, v, st, items, tm),
    {
        assert(w.take(8) =~= c);
        assert(w.subrange(8, 8 + p.len() as int) =~= p);
        assert(w.skip(8 + p.len() as int) =~= e);
    }
}

// =====================================================================================================
// pdu.rs functions
// =====================================================================================================
pub mod pduf {
use super::*; use super::env::*;
broadcast use {sax::axiom_serial_eq_obeys, sax::axiom_serial_eq, ax::axiom_mem16_len, ax::axiom_mem32_len, ax::axiom_mem128_len, ax::axiom_size_of_pdus, lem::lemma_advanced_trans, lem::lemma_advanced_refl, lem::lemma_take_take, lem::lemma_hwire_fields, lem::lemma_hwire_inj, lem::lemma_wire_ipv4_prefix, lem::lemma_wire_router_key_fixed, lem::lemma_wire_aspa_fixed, lem::lemma_wire_ipv6_prefix, lem::lemma_wire_end_of_data_v0, lem::lemma_wire_end_of_data_v1, lem::lemma_wire_cache_response, xax::axiom_size_of_more_pdus, xlem::lemma_wire_cache_reset};
impl Header {
    //@stub pdu_read :: impl Header :: version
    pub fn version(self) -> (r: u8)
    //@end
    //@stub pdu_read :: impl Header :: pdu
    pub fn pdu(self) -> (r: u8)
    //@end
    //@stub pdu_read :: impl Header :: session
    pub fn session(self) -> (r: u16)
    //@end
    //@stub pdu_read :: impl Header :: length
    pub fn length(self) -> (r: u32)
    //@end
    //@stub pdu_read :: impl Header :: new
    pub fn new(version: u8, pdu: u8, session: u16, length: u32) -> (r: Self)
    //@end
    //@stub pdu_read :: impl Header :: read
    pub fn read(sock: &mut Sock) -> (r: Result<Self, io::Error>)
    //@end
}
impl Error {
    //@item src/rtr/pdu.rs :: const PDU: u8 = 10 pubfields
    //@stub pdu_read :: impl Error :: skip_payload
    pub fn skip_payload(header: Header, sock: &mut Sock) -> (r: Result<(), io::Error>)
    //@end
    /// rpki-rs `Error::new` (generic over `impl AsRef<[u8]>`): builds the octets of an error PDU.  Not under
    /// contract here: the value is only written out on paths that end the exchange with an error.
    #[verifier::external_body]
    pub fn new<P, T>(version: u8, error_code: u16, pdu: P, text: T) -> (r: Self) { unimplemented!() }
    //@fn src/rtr/pdu.rs :: impl AsRef<[u8]> for Error :: as_ref
    //@sub R12 "self.octets.as_ref()" "self.octets.as_slice()"
    //@spec
        ensures r@ == self.octets@,
    //@/spec
    //@end
    //@fn src/rtr/pdu.rs :: impl Error :: write
    //@sigsub R6 "<A: AsyncWrite + Unpin>" ""
    //@sigsub R6 "a: &mut A" "a: &mut Sock"
    //@spec
        ensures
            advanced(*old(a), *final(a), 0),
            r.is_ok() ==> final(a).written() == old(a).written() + self.octets@,
    //@/spec
    //@end
}
impl ErrorCode {
    //@item src/rtr/pdu.rs :: const UNSUPPORTED_PROTOCOL_VERSION: Self = Self(4) pubfields
}

impl CacheResponse {
    //@item src/rtr/pdu.rs :: const PDU: u8 = 3 pubfields
    //@fn src/rtr/pdu.rs :: impl AsMut<[u8]> for $type :: as_mut external_body
    //@spec
        ensures r@ == wire_cache_response(*old(self)), final(r)@ == wire_cache_response(*final(self)),
    //@/spec
    //@end
    //@fn src/rtr/pdu.rs :: impl $type :: version
    //@spec
        ensures r == self.header.version,
    //@/spec
    //@end
    //@fn src/rtr/pdu.rs :: impl $type :: read_payload
    //@sigsub R6 "<Sock: AsyncRead + Unpin>" ""
    //@sub R11 "$type" "CacheResponse"
    //@sub R12 "Header::LEN" "mem::size_of::<Header>()"
    //@spec
        ensures
            advanced(*old(sock), *final(sock), taken(*old(sock), *final(sock))),
            taken(*old(sock), *final(sock)) == 0,
            r matches Ok(x) ==> hlen(header) == 8 && x.header == header,
            hlen(header) != 8 ==> r.is_err(),
    //@/spec
    //@end
}
impl CacheReset {
    //@item src/rtr/pdu.rs :: const PDU: u8 = 8 pubfields
    //@fn src/rtr/pdu.rs :: impl AsMut<[u8]> for $type :: as_mut external_body
    //@spec
        ensures r@ == wire_cache_reset(*old(self)), final(r)@ == wire_cache_reset(*final(self)),
    //@/spec
    //@end
    //@fn src/rtr/pdu.rs :: impl $type :: read_payload
    //@sigsub R6 "<Sock: AsyncRead + Unpin>" ""
    //@sub R11 "$type" "CacheReset"
    //@sub R12 "Header::LEN" "mem::size_of::<Header>()"
    //@spec
        ensures
            advanced(*old(sock), *final(sock), taken(*old(sock), *final(sock))),
            taken(*old(sock), *final(sock)) == 0,
            r matches Ok(x) ==> hlen(header) == 8 && x.header == header,
            hlen(header) != 8 ==> r.is_err(),
    //@/spec
    //@end
}


// ---- queries (client -> server): constructors and writers -------------------------------------------------
impl SerialQueryPayload {
    //@fn src/rtr/pdu.rs :: impl SerialQueryPayload :: new
    //@spec
        ensures be32(mem32(r.serial)) == serial.0 as int,
    //@/spec
    //@end
}
impl SerialQuery {
    //@item src/rtr/pdu.rs :: const PDU: u8 = 1 pubfields
    //@fn src/rtr/pdu.rs :: impl AsRef<[u8]> for $type :: as_ref external_body
    //@spec
        ensures r@ == wire_serial_query(*self),
    //@/spec
    //@end
    //@fn src/rtr/pdu.rs :: impl $type :: size
    //@spec
        ensures r == 12,
    //@/spec
    //@end
    //@fn src/rtr/pdu.rs :: impl SerialQuery :: new
    //@spec
        ensures r.header.version == version, r.header.pdu == 1, be16(mem16(r.header.session)) == state.session as int,
            hlen(r.header) == 12, be32(mem32(r.payload.serial)) == state.serial.0 as int,
    //@/spec
    //@end
    //@fn src/rtr/pdu.rs :: impl $type :: write nth=0
    //@sigsub R6 "<A: AsyncWrite + Unpin>" ""
    //@sigsub R6 "a: &mut A" "a: &mut Sock"
    //@spec
        ensures
            advanced(*old(a), *final(a), 0),
            r.is_ok() ==> final(a).written() == old(a).written() + wire_serial_query(*self),
    //@/spec
    //@end
}
impl ResetQuery {
    //@item src/rtr/pdu.rs :: const PDU: u8 = 2 pubfields
    //@fn src/rtr/pdu.rs :: impl AsRef<[u8]> for $type :: as_ref external_body
    //@spec
        ensures r@ == wire_reset_query(*self),
    //@/spec
    //@end
    //@fn src/rtr/pdu.rs :: impl ResetQuery :: new
    //@spec
        ensures r.header.version == version, r.header.pdu == 2, be16(mem16(r.header.session)) == 0, hlen(r.header) == 8,
    //@/spec
    //@end
    //@fn src/rtr/pdu.rs :: impl $type :: write nth=0
    //@sigsub R6 "<A: AsyncWrite + Unpin>" ""
    //@sigsub R6 "a: &mut A" "a: &mut Sock"
    //@spec
        ensures
            advanced(*old(a), *final(a), 0),
            r.is_ok() ==> final(a).written() == old(a).written() + wire_reset_query(*self),
    //@/spec
    //@end
}

// ---- payload PDUs: version accessors, the reader (linked), conversion to an item (assumed) ----------------
impl Ipv4Prefix {
    //@fn src/rtr/pdu.rs :: impl AsRef<[u8]> for $type :: as_ref external_body
    //@spec
        ensures r@ == wire_ipv4_prefix(*self),
    //@/spec
    //@end
    //@fn src/rtr/pdu.rs :: impl $type :: version
    //@spec
        ensures r == self.header.version,
    //@/spec
    //@end
}
impl Ipv6Prefix {
    //@fn src/rtr/pdu.rs :: impl AsRef<[u8]> for $type :: as_ref external_body
    //@spec
        ensures r@ == wire_ipv6_prefix(*self),
    //@/spec
    //@end
    //@fn src/rtr/pdu.rs :: impl $type :: version
    //@spec
        ensures r == self.header.version,
    //@/spec
    //@end
}
impl RouterKeyFixed {
    //@fn src/rtr/pdu.rs :: impl AsRef<[u8]> for RouterKeyFixed :: as_ref external_body
    //@spec
        ensures r@ == wire_router_key_fixed(*self),
    //@/spec
    //@end
}
impl AspaFixed {
    //@fn src/rtr/pdu.rs :: impl AsRef<[u8]> for AspaFixed :: as_ref external_body
    //@spec
        ensures r@ == wire_aspa_fixed(*self),
    //@/spec
    //@end
}
impl RouterKey {
    //@item src/rtr/pdu.rs :: const PDU: u8 = 9 pubfields
    //@fn src/rtr/pdu.rs :: impl RouterKey :: version
    //@spec
        ensures r == self.fixed.header.version,
    //@/spec
    //@end
}
impl Aspa {
    //@item src/rtr/pdu.rs :: const PDU: u8 = 11 pubfields
    //@fn src/rtr/pdu.rs :: impl Aspa :: version
    //@spec
        ensures r == self.fixed.header.version,
    //@/spec
    //@end
}
impl SerialNotify {
    //@stub pdu_read :: impl $type :: read
    pub fn read(sock: &mut Sock) -> (r: Result<Self, io::Error>)
    //@end
}
impl Payload {
    //@stub pdu_read :: impl Payload :: read
    pub fn read(sock: &mut Sock) -> (r: Result<Result<Option<Self>, EndOfData>, io::Error>)
    //@end
    //@fn src/rtr/pdu.rs :: impl Payload :: version
    //@spec
        ensures r == wire_payload(*self)[0],
    //@/spec
    //@end
    //@fn src/rtr/pdu.rs :: impl Payload :: as_partial_slice
    //@end
    /// rpki-rs `Payload::to_payload` (Kani unit pdu_layout: pdu_to_payload_v4/_v6/_error_pdu and the round-trip
    /// harnesses).  Not verified here; assumed: the outcome is a function of the PDU's octets.
    #[verifier::external_body]
    pub fn to_payload(&self) -> (r: Result<(payload::Action, payload::Payload), Error>)
        ensures
            r matches Ok(x) ==> item_of_wire(wire_payload(*self)) == Some((x.0, x.1@)),
            r is Err ==> item_of_wire(wire_payload(*self)) is None,
    { unimplemented!() }
}

// ---- end of data: accessors ----------------------------------------------------------------------------
impl EndOfDataV0 {
    //@fn src/rtr/pdu.rs :: impl $type :: session
    //@spec
        ensures r as int == be16(mem16(self.header.session)),
    //@/spec
    //@end
    //@fn src/rtr/pdu.rs :: impl EndOfDataV0 :: serial
    //@spec
        ensures r.0 as int == be32(mem32(self.serial)),
    //@/spec
    //@end
}
impl EndOfDataV1 {
    //@fn src/rtr/pdu.rs :: impl $type :: session
    //@spec
        ensures r as int == be16(mem16(self.header.session)),
    //@/spec
    //@end
    //@fn src/rtr/pdu.rs :: impl EndOfDataV1 :: serial
    //@spec
        ensures r.0 as int == be32(mem32(self.serial)),
    //@/spec
    //@end
    //@fn src/rtr/pdu.rs :: impl EndOfDataV1 :: timing
    //@spec
        ensures Some(r) == eod_timing(EndOfData::V1(*self)),
    //@/spec
    //@end
}
impl EndOfData {
    //@fn src/rtr/pdu.rs :: impl EndOfData :: version
    //@spec
        ensures r == eod_version(*self),
    //@/spec
    //@end
    //@fn src/rtr/pdu.rs :: impl EndOfData :: session
    //@spec
        ensures r == eod_state(*self).session,
    //@/spec
    //@end
    //@fn src/rtr/pdu.rs :: impl EndOfData :: serial
    //@spec
        ensures r == eod_state(*self).serial,
    //@/spec
    //@end
    //@fn src/rtr/pdu.rs :: impl EndOfData :: state
    //@spec
        ensures r == eod_state(*self),
    //@/spec
    //@end
    //@fn src/rtr/pdu.rs :: impl EndOfData :: timing
    //@spec
        ensures r == eod_timing(*self),
    //@/spec
    //@end
}

// ---- write side: constructors and writers used by the server ---------------------------------------------
impl CacheResponse {
    //@fn src/rtr/pdu.rs :: impl AsRef<[u8]> for $type :: as_ref external_body
    //@spec
        ensures r@ == wire_cache_response(*self),
    //@/spec
    //@end
    //@fn src/rtr/pdu.rs :: impl CacheResponse :: new
    //@spec
        ensures r.header.version == version, r.header.pdu == 3, be16(mem16(r.header.session)) == state.session as int, hlen(r.header) == 8,
    //@/spec
    //@end
    //@fn src/rtr/pdu.rs :: impl $type :: write nth=0
    //@sigsub R6 "<A: AsyncWrite + Unpin>" ""
    //@sigsub R6 "a: &mut A" "a: &mut Sock"
    //@spec
        ensures
            advanced(*old(a), *final(a), 0),
            r.is_ok() ==> final(a).written() == old(a).written() + wire_cache_response(*self),
    //@/spec
    //@end
}
impl CacheReset {
    //@fn src/rtr/pdu.rs :: impl AsRef<[u8]> for $type :: as_ref external_body
    //@spec
        ensures r@ == wire_cache_reset(*self),
    //@/spec
    //@end
    //@fn src/rtr/pdu.rs :: impl CacheReset :: new
    //@spec
        ensures r.header.version == version, r.header.pdu == 8, be16(mem16(r.header.session)) == 0, hlen(r.header) == 8,
    //@/spec
    //@end
    //@fn src/rtr/pdu.rs :: impl $type :: write nth=0
    //@sigsub R6 "<A: AsyncWrite + Unpin>" ""
    //@sigsub R6 "a: &mut A" "a: &mut Sock"
    //@spec
        ensures
            advanced(*old(a), *final(a), 0),
            r.is_ok() ==> final(a).written() == old(a).written() + wire_cache_reset(*self),
            r.is_ok() ==> final(a).written().skip(old(a).written().len() as int) =~= wire_cache_reset(*self),
    //@/spec
    //@end
}
impl Ipv4Prefix {
    //@fn src/rtr/pdu.rs :: impl $type :: write nth=0
    //@sigsub R6 "<A: AsyncWrite + Unpin>" ""
    //@sigsub R6 "a: &mut A" "a: &mut Sock"
    //@spec
        ensures
            advanced(*old(a), *final(a), 0),
            r.is_ok() ==> final(a).written() == old(a).written() + wire_ipv4_prefix(*self),
    //@/spec
    //@end
}
impl Ipv6Prefix {
    //@fn src/rtr/pdu.rs :: impl $type :: write nth=0
    //@sigsub R6 "<A: AsyncWrite + Unpin>" ""
    //@sigsub R6 "a: &mut A" "a: &mut Sock"
    //@spec
        ensures
            advanced(*old(a), *final(a), 0),
            r.is_ok() ==> final(a).written() == old(a).written() + wire_ipv6_prefix(*self),
    //@/spec
    //@end
}
impl RouterKeyInfo {
    //@fn src/rtr/pdu.rs :: impl AsRef<[u8]> for RouterKeyInfo :: as_ref
    //@spec
        ensures r@ == self.0@,
    //@/spec
    //@end
}
impl ProviderAsns {
    //@fn src/rtr/pdu.rs :: impl AsRef<[u8]> for ProviderAsns :: as_ref
    //@spec
        ensures r@ == self.0@,
    //@/spec
    //@end
}
impl RouterKey {
    //@fn src/rtr/pdu.rs :: impl RouterKey :: write
    //@sigsub R6 "<A: AsyncWrite + Unpin>" ""
    //@sigsub R6 "a: &mut A" "a: &mut Sock"
    //@spec
        ensures
            advanced(*old(a), *final(a), 0),
            r.is_ok() ==> final(a).written() == old(a).written() + wire_router_key(*self),
    //@/spec
    //@end
}
impl Aspa {
    //@fn src/rtr/pdu.rs :: impl Aspa :: write
    //@sigsub R6 "<A: AsyncWrite + Unpin>" ""
    //@sigsub R6 "a: &mut A" "a: &mut Sock"
    //@spec
        ensures
            advanced(*old(a), *final(a), 0),
            r.is_ok() ==> final(a).written() == old(a).written() + wire_aspa(*self),
    //@/spec
    //@end
}
impl Payload {
    /// rpki-rs `Payload::new` (Kani unit pdu_layout: pdu_payload_new_origin, pdu_router_key_new, pdu_aspa_new and
    /// the *_layout harnesses).  Not verified here; assumed: the octets of the PDU are a function of version,
    /// flags and the content of the item.
    #[verifier::external_body]
    pub fn new(version: u8, flags: u8, payload: payload::PayloadRef) -> (r: Self)
        ensures wire_payload(r) == new_wire(version, flags, payload::ref_view(payload)),
    { unimplemented!() }
    //@fn src/rtr/pdu.rs :: impl Payload :: new_if_supported
    //@spec
        ensures
            match r {
                Some(p) => supported(version, payload::ref_view(payload)) && wire_payload(p) == new_wire(version, flags, payload::ref_view(payload)),
                None => !supported(version, payload::ref_view(payload)),
            },
    //@/spec
    //@end
    //@fn src/rtr/pdu.rs :: impl Payload :: write
    //@sigsub R6 "<A: AsyncWrite + Unpin>" ""
    //@sigsub R6 "a: &mut A" "a: &mut Sock"
    //@spec
        ensures
            advanced(*old(a), *final(a), 0),
            r.is_ok() ==> final(a).written() == old(a).written() + wire_payload(*self),
    //@/spec
    //@end
}
impl EndOfDataV0 {
    //@item src/rtr/pdu.rs :: const PDU: u8 = 7 pubfields
    //@fn src/rtr/pdu.rs :: impl AsRef<[u8]> for $type :: as_ref external_body
    //@spec
        ensures r@ == wire_end_of_data_v0(*self),
    //@/spec
    //@end
    //@fn src/rtr/pdu.rs :: impl EndOfDataV0 :: new
    //@spec
        ensures r.header.version == 0, r.header.pdu == 7, hlen(r.header) == 12,
            eod_state(EndOfData::V0(r)) == state,
    //@/spec
    //@end
}
impl EndOfDataV1 {
    //@item src/rtr/pdu.rs :: const PDU: u8 = 7 pubfields
    //@fn src/rtr/pdu.rs :: impl AsRef<[u8]> for $type :: as_ref external_body
    //@spec
        ensures r@ == wire_end_of_data_v1(*self),
    //@/spec
    //@end
    //@fn src/rtr/pdu.rs :: impl EndOfDataV1 :: new
    //@spec
        ensures r.header.version == version, r.header.pdu == 7, hlen(r.header) == 24,
            eod_state(EndOfData::V1(r)) == state, eod_timing(EndOfData::V1(r)) == Some(timing),
    //@/spec
    //@end
}
impl EndOfData {
    //@fn src/rtr/pdu.rs :: impl EndOfData :: new
    //@spec
        ensures
            eod_header(r).version == version, eod_header(r).pdu == 7, hlen(eod_header(r)) == eod_len(version),
            version == 0 <==> r is V0, eod_state(r) == state, version != 0 ==> eod_timing(r) == Some(timing),
    //@/spec
    //@end
    //@fn src/rtr/pdu.rs :: impl AsRef<[u8]> for EndOfData :: as_ref
    //@spec
        ensures r@ == wire_end_of_data(*self),
    //@/spec
    //@end
    //@fn src/rtr/pdu.rs :: impl EndOfData :: write
    //@sigsub R6 "<A: AsyncWrite + Unpin>" ""
    //@sigsub R6 "a: &mut A" "a: &mut Sock"
    //@spec
        ensures
            advanced(*old(a), *final(a), 0),
            r.is_ok() ==> final(a).written() == old(a).written() + wire_end_of_data(*self),
    //@/spec
    //@end
}
} // mod pduf


// =====================================================================================================
// src/rtr/client.rs
// =====================================================================================================
pub mod client {
use super::*; use super::env::*;
use super::payload::{Action, Payload, Timing};
use super::pdu;
use super::state::State;
broadcast use {sax::axiom_serial_eq_obeys, sax::axiom_serial_eq, ax::axiom_mem16_len, ax::axiom_mem32_len, lem::lemma_advanced_trans, lem::lemma_advanced_refl, lem::lemma_hwire_fields, lem::lemma_wire_cache_response, xlem::lemma_wire_cache_reset};

//@item src/rtr/client.rs :: const INITIAL_VERSION: u8 = 2
//@item src/rtr/client.rs :: pub enum PayloadError keepderive=Clone,Copy
//@item src/rtr/client.rs :: pub struct Client<Sock, Target> pubfields
//@item src/rtr/client.rs :: enum FirstSerialReply
//@item src/rtr/client.rs :: enum FirstResetReply

/// `PayloadUpdate` (user code behind a trait): modelled by the ghost sequence of all `push_update` calls made
/// on the value, in order, whatever their outcome, and by the `reset` flag it was started with
pub trait PayloadUpdate: Sized {
    spec fn log(&self) -> Seq<Item>;
    spec fn is_reset(&self) -> bool;
    fn push_update(&mut self, action: Action, payload: Payload) -> (r: Result<(), PayloadError>)
        ensures final(self).log() == old(self).log().push((action, payload@)), final(self).is_reset() == old(self).is_reset();
}
/// `PayloadTarget` (user code behind a trait): a fresh update has received nothing yet; the ghost sequence
/// `applied` records every (reset flag, update log, timing) handed to `apply`
pub trait PayloadTarget: Sized {
    type Update: PayloadUpdate;
    spec fn applied(&self) -> Seq<(bool, Seq<Item>, Timing)>;
    fn start(&mut self, reset: bool) -> (r: Self::Update)
        ensures r.log() == Seq::<Item>::empty(), r.is_reset() == reset, final(self).applied() == old(self).applied();
    fn apply(&mut self, update: Self::Update, timing: Timing) -> (r: Result<(), PayloadError>)
        ensures final(self).applied() == old(self).applied().push((update.is_reset(), update.log(), timing));
}

/// everything but the negotiated version is untouched
pub open spec fn same_but_version<T>(a: Client<Sock, T>, b: Client<Sock, T>) -> bool {
    a.sock == b.sock && a.target == b.target && a.state == b.state && a.initial_version == b.initial_version
    && a.timing == b.timing && a.next_update == b.next_update
}

impl PayloadError {
    //@fn src/rtr/client.rs :: impl PayloadError :: error_code
    //@end
    //@fn src/rtr/client.rs :: impl PayloadError :: send
    //@sigsub R6 "sock: &mut (impl AsyncWrite + Unpin)" "sock: &mut Sock"
    //@spec
        ensures advanced(*old(sock), *final(sock), 0),
    //@/spec
    //@end
}

impl FirstResetReply {
    //@fn src/rtr/client.rs :: impl FirstResetReply :: read
    //@sigsub R6 "<Sock: AsyncRead + Unpin>" ""
    //@sub R12 ".map(Self::Response)" ".map(|x| -> (b: Self) ensures b == FirstResetReply::Response(x) { Self::Response(x) })"
    //@sub R12 "pdu::Error::PDU\n                if header.session()" "pdu::Error::PDU =>\n                if header.session()"
    //@sub R12 "== pdu::ErrorCode::UNSUPPORTED_PROTOCOL_VERSION\n            => {" "== pdu::ErrorCode::UNSUPPORTED_PROTOCOL_VERSION.0\n             {"
    //@sub R12 "}\n            pdu::Error::PDU => {" "}\n            else {"
    //@sub R12 "format!(\"server reported error {}\", header.session())" "fmt_static(\"server reported error {}\"                  )"
    //@sub R12 "format!(\"unexpected PDU {pdu}\")" "fmt_static(\"unexpected PDU {pdu}\")"
    //@spec
        ensures
            advanced(*old(sock), *final(sock), taken(*old(sock), *final(sock))),
            old(sock).stream().len() < 8 ==> r is Err,
            // a cache response: exactly the eight octets of its header
            r matches Ok(FirstResetReply::Response(cr)) ==> old(sock).stream().len() >= 8 && old(sock).stream()[1] == 3
                && wire_len(old(sock).stream().take(8)) == 8 && taken(*old(sock), *final(sock)) == 8
                && cr.header.version == old(sock).stream()[0],
            // an error PDU with code 4: skipped entirely, the version field is reported
            r matches Ok(FirstResetReply::VersionError(v)) ==> old(sock).stream().len() >= 8 && old(sock).stream()[1] == 10
                && be16(old(sock).stream().subrange(2, 4)) == 4 && v == old(sock).stream()[0]
                && wire_len(old(sock).stream().take(8)) >= 8
                && taken(*old(sock), *final(sock)) == wire_len(old(sock).stream().take(8)),
    //@/spec
    //@ghost after "let header = pdu::Header::read(sock).await?;"
        proof { assert(hwire(header).subrange(2, 4) == old(sock).stream().take(8).subrange(2, 4));
                assert(old(sock).stream().take(8).subrange(2, 4) =~= old(sock).stream().subrange(2, 4)); }
    //@/ghost
    //@end
}

impl FirstSerialReply {
    //@fn src/rtr/client.rs :: impl FirstSerialReply :: read
    //@sigsub R6 "<Sock: AsyncRead + Unpin>" ""
    //@sub R12 ".map(FirstSerialReply::Response)" ".map(|x| -> (b: Self) ensures b == FirstSerialReply::Response(x) { FirstSerialReply::Response(x) })"
    //@sub R12 ".map(|_| FirstSerialReply::Reset)" ".map(|_x| -> (b: Self) ensures b == FirstSerialReply::Reset { FirstSerialReply::Reset })"
    //@sub R12 "pdu::Error::PDU\n                if header.session()" "pdu::Error::PDU =>\n                if header.session()"
    //@sub R12 "== pdu::ErrorCode::UNSUPPORTED_PROTOCOL_VERSION\n            => {" "== pdu::ErrorCode::UNSUPPORTED_PROTOCOL_VERSION.0\n             {"
    //@sub R12 "}\n            pdu::Error::PDU => {" "}\n            else {"
    //@sub R12 "format!(\"server reported error {}\", header.session())" "fmt_static(\"server reported error {}\"                  )"
    //@sub R12 "format!(\"unexpected PDU {pdu}\")" "fmt_static(\"unexpected PDU {pdu}\")"
    //@spec
        ensures
            advanced(*old(sock), *final(sock), taken(*old(sock), *final(sock))),
            old(sock).stream().len() < 8 ==> r is Err,
            r matches Ok(FirstSerialReply::Response(cr)) ==> old(sock).stream().len() >= 8 && old(sock).stream()[1] == 3
                && wire_len(old(sock).stream().take(8)) == 8 && taken(*old(sock), *final(sock)) == 8
                && cr.header.version == old(sock).stream()[0],
            // a cache reset: exactly the eight octets of its header
            r matches Ok(FirstSerialReply::Reset) ==> old(sock).stream().len() >= 8 && old(sock).stream()[1] == 8
                && wire_len(old(sock).stream().take(8)) == 8 && taken(*old(sock), *final(sock)) == 8,
            r matches Ok(FirstSerialReply::VersionError(v)) ==> old(sock).stream().len() >= 8 && old(sock).stream()[1] == 10
                && be16(old(sock).stream().subrange(2, 4)) == 4 && v == old(sock).stream()[0]
                && wire_len(old(sock).stream().take(8)) >= 8
                && taken(*old(sock), *final(sock)) == wire_len(old(sock).stream().take(8)),
    //@/spec
    //@ghost after "let header = pdu::Header::read(sock).await?;"
        proof { assert(hwire(header).subrange(2, 4) == old(sock).stream().take(8).subrange(2, 4));
                assert(old(sock).stream().take(8).subrange(2, 4) =~= old(sock).stream().subrange(2, 4)); }
    //@/ghost
    //@end
}

impl<Target: PayloadTarget> Client<Sock, Target> {
    //@fn src/rtr/client.rs :: impl<Sock, Target> Client<Sock, Target> :: version
    //@spec
        ensures r == (match self.version { Some(v) => v, None => self.initial_version }),
    //@/spec
    //@end

    //@fn src/rtr/client.rs :: impl<Sock, Target> Client<Sock, Target> :: check_version
    //@sub R12 "format!(" "fmt_static("
    //@spec
        ensures
            same_but_version(*old(self), *final(self)),
            r is Ok <==> (match old(self).version { Some(sv) => version == sv, None => version <= 2 }),
            r is Ok ==> final(self).version == Some(version),
            r is Err ==> final(self).version == old(self).version,
    //@/spec
    //@end

    //@fn src/rtr/client.rs :: impl<Sock, Target> Client<Sock, Target> :: reset
    //@sub R12 "let start = loop {" "let start: pdu::CacheResponse; loop {"
    //@sub R12 "FirstResetReply::Response(start) => break start," "FirstResetReply::Response(start_) => { start = start_; break }"
    //@sub R12 "self.try_io(FirstResetReply::read)" "io_timeout(FirstResetReply::read(&mut self.sock))"
    //@spec
        ensures
            advanced(old(self).sock, final(self).sock, taken(old(self).sock, final(self).sock)),
            final(self).initial_version == old(self).initial_version, final(self).target.applied() == old(self).target.applied(),
            r matches Ok(upd) ==> upd.is_reset() && exchange_ok(old(self).sock.stream(), old(self).version, final(self).version,
                taken(old(self).sock, final(self).sock), upd.log(), final(self).state, old(self).timing, final(self).timing),
            r is Err ==> final(self).state == old(self).state && final(self).timing == old(self).timing,
    //@/spec
    //@loop "loop" nth=0
            invariant_except_break
                nego_inv(old(self).sock.stream(), old(self).version, self.version, taken(old(self).sock, self.sock)),
            invariant
                advanced(old(self).sock, self.sock, taken(old(self).sock, self.sock)),
                self.state == old(self).state, self.timing == old(self).timing, self.initial_version == old(self).initial_version,
                self.target == old(self).target,
            ensures
                resp_read(old(self).sock.stream(), old(self).version, self.version, taken(old(self).sock, self.sock), start.header.version),
            decreases (if self.version is Some { 0int } else { 1int }),
    //@/loop
    //@ghost before "let mut target = self.target.start(true);"
        let ghost v = start.header.version;
        let ghost pre = self.sock;
        proof {
            assert(pre.stream() =~= old(self).sock.stream().skip(skip_len(old(self).sock.stream())).skip(8));
        }
    //@/ghost
    //@loop "loop" nth=1
            invariant_except_break
                self.state == old(self).state, self.timing == old(self).timing,
                run(pre.stream(), v, Seq::<Item>::empty(), 0) == run(self.sock.stream(), v, target.log(), taken(pre, self.sock)),
            invariant
                self.version == Some(v), self.initial_version == old(self).initial_version,
                self.target.applied() == old(self).target.applied(), target.is_reset() == true,
                advanced(old(self).sock, pre, taken(old(self).sock, pre)),
                advanced(pre, self.sock, taken(pre, self.sock)),
            ensures
                payload_done(pre.stream(), v, taken(pre, self.sock), target.log(), self.state, old(self).timing, self.timing),
            decreases self.sock.stream().len(),
    //@/loop
    //@ghost after "loop {" nth=1
            let ghost c = self.sock;
    //@/ghost
    //@ghost after "};" nth=1
                    proof { xlem::lemma_run_payload(c.stream(), v, target.log(), taken(pre, c), (action, payload@)); }
    //@/ghost
    //@ghost after "Err(end) => {"
                    proof {
                        xlem::lemma_eod_wire(end);
                        let k = taken(pre, c); let n = wire_len(c.stream().take(8));
                        assert(pre.stream().subrange(k, k + n) =~= c.stream().take(n));
                        xlem::lemma_run_eod(c.stream(), v, target.log(), k);
                    }
    //@/ghost
    //@ghost before "Ok(target)"
        proof {
            reveal(exchange_ok);
            assert(exchange_ok(old(self).sock.stream(), old(self).version, self.version,
                taken(old(self).sock, self.sock), target.log(), self.state, old(self).timing, self.timing));
        }
    //@/ghost
    //@end

    //@fn src/rtr/client.rs :: impl<Sock, Target> Client<Sock, Target> :: serial
    //@sub R12 "let start = loop {" "let start: pdu::CacheResponse; loop {"
    //@sub R12 "FirstSerialReply::Response(start) => break start," "FirstSerialReply::Response(start_) => { start = start_; break }"
    //@sub R12 "self.try_io(FirstSerialReply::read)" "io_timeout(FirstSerialReply::read(&mut self.sock))"
    //@spec
        ensures
            advanced(old(self).sock, final(self).sock, taken(old(self).sock, final(self).sock)),
            final(self).initial_version == old(self).initial_version, final(self).target.applied() == old(self).target.applied(),
            r matches Ok(Some(upd)) ==> !upd.is_reset() && exchange_ok(old(self).sock.stream(), old(self).version, final(self).version,
                taken(old(self).sock, final(self).sock), upd.log(), final(self).state, old(self).timing, final(self).timing),
            r matches Ok(None) ==> reset_reply(old(self).sock.stream(), taken(old(self).sock, final(self).sock))
                && final(self).state is None && final(self).timing == old(self).timing
                && nego_inv(old(self).sock.stream(), old(self).version, final(self).version, skip_len(old(self).sock.stream())),
            r is Err ==> final(self).state == old(self).state && final(self).timing == old(self).timing,
    //@/spec
    //@loop "loop" nth=0
            invariant_except_break
                nego_inv(old(self).sock.stream(), old(self).version, self.version, taken(old(self).sock, self.sock)),
            invariant
                advanced(old(self).sock, self.sock, taken(old(self).sock, self.sock)),
                self.state == old(self).state, self.timing == old(self).timing, self.initial_version == old(self).initial_version,
                self.target == old(self).target,
            ensures
                resp_read(old(self).sock.stream(), old(self).version, self.version, taken(old(self).sock, self.sock), start.header.version),
            decreases (if self.version is Some { 0int } else { 1int }),
    //@/loop
    //@ghost before "let mut target = self.target.start(false);"
        let ghost v = start.header.version;
        let ghost pre = self.sock;
        proof {
            assert(pre.stream() =~= old(self).sock.stream().skip(skip_len(old(self).sock.stream())).skip(8));
        }
    //@/ghost
    //@loop "loop" nth=1
            invariant_except_break
                self.state == old(self).state, self.timing == old(self).timing,
                run(pre.stream(), v, Seq::<Item>::empty(), 0) == run(self.sock.stream(), v, target.log(), taken(pre, self.sock)),
            invariant
                self.version == Some(v), self.initial_version == old(self).initial_version,
                self.target.applied() == old(self).target.applied(), target.is_reset() == false,
                advanced(old(self).sock, pre, taken(old(self).sock, pre)),
                advanced(pre, self.sock, taken(pre, self.sock)),
            ensures
                payload_done(pre.stream(), v, taken(pre, self.sock), target.log(), self.state, old(self).timing, self.timing),
            decreases self.sock.stream().len(),
    //@/loop
    //@ghost after "loop {" nth=1
            let ghost c = self.sock;
    //@/ghost
    //@ghost after "};" nth=1
                    proof { xlem::lemma_run_payload(c.stream(), v, target.log(), taken(pre, c), (action, payload@)); }
    //@/ghost
    //@ghost after "Err(end) => {"
                    proof {
                        xlem::lemma_eod_wire(end);
                        let k = taken(pre, c); let n = wire_len(c.stream().take(8));
                        assert(pre.stream().subrange(k, k + n) =~= c.stream().take(n));
                        xlem::lemma_run_eod(c.stream(), v, target.log(), k);
                    }
    //@/ghost
    //@ghost before "Ok(Some(target))"
        proof {
            reveal(exchange_ok);
            assert(exchange_ok(old(self).sock.stream(), old(self).version, self.version,
                taken(old(self).sock, self.sock), target.log(), self.state, old(self).timing, self.timing));
        }
    //@/ghost
    //@end

    //@fn src/rtr/client.rs :: impl<Sock, Target> Client<Sock, Target> :: send_error
    //@spec
        ensures
            advanced(old(self).sock, final(self).sock, 0),
            final(self).target == old(self).target, final(self).state == old(self).state, final(self).timing == old(self).timing,
            final(self).version == old(self).version, final(self).initial_version == old(self).initial_version,
    //@/spec
    //@end

    /// hands the update and the stored timing values to the target
    //@fn src/rtr/client.rs :: impl<Sock, Target> Client<Sock, Target> :: apply
    //@spec
        ensures
            advanced(old(self).sock, final(self).sock, 0),
            final(self).state == old(self).state, final(self).timing == old(self).timing,
            final(self).version == old(self).version, final(self).initial_version == old(self).initial_version,
            final(self).target.applied() == old(self).target.applied().push((update.is_reset(), update.log(), old(self).timing)),
    //@/spec
    //@end

    /// serial query with fallback to reset, or reset.  The wait for a serial notify in front of it is a matter of
    /// time (tokio `timeout_at`); under R6 it may have taken up to one serial notify (12 octets) from the stream.
    //@fn src/rtr/client.rs :: impl<Sock, Target> Client<Sock, Target> :: update
    //@spec
        ensures
            advanced(old(self).sock, final(self).sock, taken(old(self).sock, final(self).sock)),
            final(self).initial_version == old(self).initial_version, final(self).target.applied() == old(self).target.applied(),
            r matches Ok(upd) ==> update_ok(old(self).sock.stream(), old(self).state, old(self).version, final(self).version,
                    taken(old(self).sock, final(self).sock), upd.log(), upd.is_reset(), final(self).state, old(self).timing, final(self).timing),
    //@/spec
    //@ghost before "if let Some(state) = self.state {"
        let ghost s_n = self.sock;
        let ghost k = taken(old(self).sock, s_n);
        proof { assert(s_n.stream() == old(self).sock.stream().skip(k)); assert(0 <= k <= 12 && k <= old(self).sock.stream().len()); }
    //@/ghost
    //@ghost before "return Ok(update)"
                proof {
                    xlem::lemma_update_ok(k, old(self).sock.stream(), old(self).state, old(self).version, self.version,
                        taken(old(self).sock, self.sock), update.log(), update.is_reset(), self.state, old(self).timing, self.timing);
                }
    //@/ghost
    //@ghost before "let res = self.reset().await;"
        let ghost s_m = self.sock;
        let ghost verm = self.version;
    //@/ghost
    //@ghost before "res\n"
        proof {
            if let Ok(ref u) = res {
                let s = old(self).sock.stream().skip(k);
                let n = taken(old(self).sock, self.sock) - k;
                if old(self).state is Some {
                    let n1 = taken(s_n, s_m);
                    assert(s_m.stream() == s.skip(n1));
                    assert(n - n1 == taken(s_m, self.sock));
                }
                xlem::lemma_update_ok(k, old(self).sock.stream(), old(self).state, old(self).version, self.version,
                    taken(old(self).sock, self.sock), u.log(), u.is_reset(), self.state, old(self).timing, self.timing);
            }
        }
    //@/ghost
    //@end

    /// one synchronisation step: what `update` obtained is handed to the target together with the timing values
    //@fn src/rtr/client.rs :: impl<Sock, Target> Client<Sock, Target> :: step
    //@spec
        ensures
            advanced(old(self).sock, final(self).sock, taken(old(self).sock, final(self).sock)),
            r is Ok ==> final(self).target.applied().len() == old(self).target.applied().len() + 1
                && final(self).target.applied().drop_last() == old(self).target.applied()
                && final(self).target.applied().last().2 == final(self).timing
                && update_ok(old(self).sock.stream(), old(self).state, old(self).version, final(self).version,
                    taken(old(self).sock, final(self).sock), final(self).target.applied().last().1, final(self).target.applied().last().0,
                    final(self).state, old(self).timing, final(self).timing),
    //@/spec
    //@end
}
} // mod client


// =====================================================================================================
// src/rtr/server.rs
// =====================================================================================================
pub mod server {
use super::*; use super::env::*;
use super::payload::{Action, PayloadRef, Timing};
use super::pdu;
use super::state::State;
broadcast use {sax::axiom_serial_eq_obeys, sax::axiom_serial_eq, ax::axiom_mem16_len, ax::axiom_mem32_len, lem::lemma_advanced_trans, lem::lemma_advanced_refl, lem::lemma_hwire_fields, lem::lemma_wire_cache_response, xlem::lemma_wire_cache_reset, xlem::lemma_eod_wire};

//@item src/rtr/server.rs :: pub const MAX_VERSION: u8 = 2
//@item src/rtr/server.rs :: const MAX_VERSION_ERROR: &str sub "&str" "&'static str"
//@item src/rtr/server.rs :: struct Connection<Sock, Source> pubfields
//@item src/rtr/server.rs :: enum Query

/// `PayloadSet` (user code behind a trait): an iterator over a full data set, modelled by the ghost sequence
/// of the items it still yields
pub trait PayloadSet: Sized {
    spec fn remaining(&self) -> Seq<ItemView>;
    fn next(&mut self) -> (r: Option<PayloadRef<'_>>)
        ensures
            match r {
                Some(p) => old(self).remaining().len() > 0 && payload::ref_view(p) == old(self).remaining()[0]
                    && final(self).remaining() == old(self).remaining().drop_first(),
                None => old(self).remaining().len() == 0 && final(self).remaining() == old(self).remaining(),
            };
}
/// `PayloadDiff` (user code behind a trait): an iterator over a diff, same model with actions
pub trait PayloadDiff: Sized {
    spec fn remaining(&self) -> Seq<Item>;
    fn next(&mut self) -> (r: Option<(PayloadRef<'_>, Action)>)
        ensures
            match r {
                Some(p) => old(self).remaining().len() > 0 && (p.1, payload::ref_view(p.0)) == old(self).remaining()[0]
                    && final(self).remaining() == old(self).remaining().drop_first(),
                None => old(self).remaining().len() == 0 && final(self).remaining() == old(self).remaining(),
            };
}
/// `PayloadSource` (user code behind a trait): what the source reports, as ghost values
pub trait PayloadSource: Sized {
    type Set: PayloadSet;
    type Diff: PayloadDiff;
    spec fn spec_ready(&self) -> bool;
    spec fn spec_full(&self) -> (State, Seq<ItemView>);
    spec fn spec_diff(&self, state: State) -> Option<(State, Seq<Item>)>;
    spec fn spec_timing(&self) -> Timing;
    spec fn spec_notify(&self) -> State;
    fn ready(&self) -> (r: bool) ensures r == self.spec_ready();
    /// the state the source currently announces (trait method `notify`; unused by reset/serial today)
    fn notify(&self) -> (r: State) ensures r == self.spec_notify();
    fn full(&self) -> (r: (State, Self::Set))
        ensures r.0 == self.spec_full().0, r.1.remaining() == self.spec_full().1;
    fn diff(&self, state: State) -> (r: Option<(State, Self::Diff)>)
        ensures
            match r {
                Some(d) => self.spec_diff(state) == Some((d.0, d.1.remaining())),
                None => self.spec_diff(state) is None,
            };
    fn timing(&self) -> (r: Timing) ensures r == self.spec_timing();
}

/// the version a connection answers with
pub open spec fn conn_version(v: Option<u8>) -> u8 { match v { Some(x) => x, None => 0 } }

impl<Source: PayloadSource> Connection<Sock, Source> {
    //@fn src/rtr/server.rs :: impl<Sock, Source> Connection<Sock, Source> :: version
    //@spec
        ensures r == conn_version(self.version),
    //@/spec
    //@end

    //@fn src/rtr/server.rs :: impl<Sock, Source> Connection<Sock, Source> :: check_version
    //@spec
        ensures
            final(self).sock == old(self).sock, final(self).source == old(self).source,
            r is Ok <==> (match old(self).version { Some(c) => c == header.version, None => header.version <= 2 }),
            r is Ok ==> final(self).version == Some(header.version),
            r is Err ==> final(self).version == old(self).version,
    //@/spec
    //@end

    //@fn src/rtr/server.rs :: impl<Sock: Socket, Source: PayloadSource> Connection<Sock, Source> :: reset
    //@spec
        ensures
            final(self).version == old(self).version, final(self).source == old(self).source,
            advanced(old(self).sock, final(self).sock, 0),
            // what was handed to the socket in this call is one complete response for the full data set
            old(self).source.spec_ready() && r is Ok ==> {
                let w = final(self).sock.written().skip(old(self).sock.written().len() as int);
                &&& final(self).sock.written() =~= old(self).sock.written() + w
                &&& is_response(w, conn_version(old(self).version), old(self).source.spec_full().0,
                                announce_all(old(self).source.spec_full().1), old(self).source.spec_timing())
            },
    //@/spec
    //@ghost before "while let Some(payload) = iter.next() {"
        let ghost v = conn_version(self.version);
        let ghost w0 = old(self).sock.written();
        let ghost crw = self.sock.written().skip(w0.len() as int);
        let ghost allv = self.source.spec_full().1;
        proof { assert(self.sock.written() =~= w0 + crw); }
    //@/ghost
    //@loop "while let Some(payload) = iter.next()"
            invariant
                self.version == old(self).version, self.source == old(self).source, v == conn_version(self.version),
                advanced(old(self).sock, self.sock, 0),
                self.sock.written() + payload_bytes_full(v, iter.remaining()) =~= w0 + crw + payload_bytes_full(v, allv),
            ensures
                iter.remaining().len() == 0,
            decreases iter.remaining().len(),
    //@/loop
    //@ghost before "let timing = self.source.timing();"
        let ghost wp = self.sock.written();
    //@/ghost
    //@ghost before "Ok(())"
        proof {
            let p = payload_bytes_full(v, allv);
            let eodw = self.sock.written().skip(wp.len() as int);
            xlem::lemma_full_is_announce(v, allv);
            assert(wp =~= w0 + crw + p);
            xlem::lemma_response_assemble(crw + p + eodw, crw, p, eodw, v, state, announce_all(allv), timing);
            assert(self.sock.written() =~= w0 + (crw + p + eodw));
            assert(self.sock.written().skip(w0.len() as int) =~= crw + p + eodw);
        }
    //@/ghost
    //@end

    //@fn src/rtr/server.rs :: impl<Sock: Socket, Source: PayloadSource> Connection<Sock, Source> :: serial
    //@spec
        ensures
            final(self).version == old(self).version, final(self).source == old(self).source,
            advanced(old(self).sock, final(self).sock, 0),
            // what was handed to the socket in this call is one complete response for the diff the source
            // reports for the client's state, or exactly a cache reset when it has none
            old(self).source.spec_ready() && r is Ok ==> {
                let w = final(self).sock.written().skip(old(self).sock.written().len() as int);
                &&& final(self).sock.written() =~= old(self).sock.written() + w
                &&& match old(self).source.spec_diff(state) {
                        Some(d) => is_response(w, conn_version(old(self).version), d.0, d.1, old(self).source.spec_timing()),
                        None => is_cache_reset(w, conn_version(old(self).version)),
                    }
            },
    //@/spec
    //@ghost before "while let Some((payload, action)) = diff.next() {"
                let ghost v = conn_version(self.version);
                let ghost w0 = old(self).sock.written();
                let ghost crw = self.sock.written().skip(w0.len() as int);
                let ghost alld = diff.remaining();
                proof { assert(self.sock.written() =~= w0 + crw); }
    //@/ghost
    //@loop "while let Some((payload, action)) = diff.next()"
                    invariant
                        self.version == old(self).version, self.source == old(self).source, v == conn_version(self.version),
                        advanced(old(self).sock, self.sock, 0),
                        self.sock.written() + payload_bytes(v, diff.remaining()) =~= w0 + crw + payload_bytes(v, alld),
                    ensures
                        diff.remaining().len() == 0,
                    decreases diff.remaining().len(),
    //@/loop
    //@ghost before "let timing = self.source.timing();"
                let ghost wp = self.sock.written();
    //@/ghost
    //@ghost before "Ok(())"
                proof {
                    let p = payload_bytes(v, alld);
                    let eodw = self.sock.written().skip(wp.len() as int);
                    assert(wp =~= w0 + crw + p);
                    xlem::lemma_response_assemble(crw + p + eodw, crw, p, eodw, v, state, alld, timing);
                    assert(self.sock.written() =~= w0 + (crw + p + eodw));
                    assert(self.sock.written().skip(w0.len() as int) =~= crw + p + eodw);
                }
    //@/ghost
    //@end
}
} // mod server


// =====================================================================================================
// composition (specification level): the client's reading of the server's octets
// =====================================================================================================
pub mod comp {
use super::*; use super::env::*;
use super::payload::Timing;

/// the client's payload loop over the server's payload section: exactly the items the version carries
pub proof fn lemma_run_payload_bytes(v: u8, items: Seq<Item>, tail: Seq<u8>, acc: Seq<Item>, k: int)
    requires all_wf(items),
    ensures run(payload_bytes(v, items) + tail, v, acc, k) == run(tail, v, acc + expected(v, items), k + payload_bytes(v, items).len()),
    decreases items.len(),
{
    if items.len() == 0 {
        assert(payload_bytes(v, items) + tail =~= tail);
        assert(acc + expected(v, items) =~= acc);
    } else {
        let x = items[0]; let rest = items.drop_first();
        assert(all_wf(rest)) by { assert forall|i: int| 0 <= i < rest.len() implies wf_item((#[trigger] rest[i]).1) by { assert(rest[i] == items[i + 1]); } }
        let pr = payload_bytes(v, rest);
        if !supported(v, x.1) {
            assert(payload_bytes(v, items) =~= pr);
            assert(expected(v, items) =~= expected(v, rest));
            lemma_run_payload_bytes(v, rest, tail, acc, k);
        } else {
            let w = new_wire(v, payload::flags_of(x.0), x.1);
            xax::axiom_new_wire_header(v, payload::flags_of(x.0), x.1);
            xax::axiom_roundtrip(v, x.0, x.1);
            let s = payload_bytes(v, items) + tail;
            let n = w.len() as int;
            assert(payload_bytes(v, items) == w + pr);
            assert(s =~= w + (pr + tail));
            assert(s.take(8) =~= w.take(8));
            assert(wire_len(s.take(8)) == n);
            assert(s.take(n) =~= w);
            assert(s.skip(n) =~= pr + tail);
            assert(s[0] == w[0] && s[1] == w[1]);
            xlem::lemma_run_payload(s, v, acc, k, normal(x));
            lemma_run_payload_bytes(v, rest, tail, acc.push(normal(x)), k + n);
            assert(expected(v, items) == seq![normal(x)] + expected(v, rest));
            assert(acc.push(normal(x)) + expected(v, rest) =~= acc + expected(v, items));
            assert(payload_bytes(v, items).len() == n + pr.len());
        }
    }
}

/// the client's loop function over a stream that begins with a server response: it completes exactly at the end
/// of the response, with the source's items restricted to the version, and the end-of-data octets carry the
/// source's state and timing
pub proof fn lemma_response_run(s1: Seq<u8>, w: Seq<u8>, rest: Seq<u8>, v: u8, st: State, items: Seq<Item>, tm: Timing)
    requires s1 == w + rest, is_response(w, v, st, items, tm), v <= 2, all_wf(items),
    ensures ({
        let k = w.len() - 8;
        let e = s1.skip(8).subrange(k - eod_len(v), k);
        &&& s1.len() >= 8 && s1[0] == v && s1[1] == 3 && wire_len(s1.take(8)) == 8
        &&& run(s1.skip(8), v, Seq::<Item>::empty(), 0) == Some((expected(v, items), k))
        &&& k >= eod_len(v) && wire_state(e) == st && (v >= 1 ==> wire_timing(e) == tm)
    }),
{
    let p = payload_bytes(v, items);
    let e = w.skip(8 + p.len() as int);
    assert(s1[1] == w[1] && s1[0] == w[0]);
    assert(w.take(8)[1] == w[1] && w.take(8)[0] == w[0]);
    assert(s1.take(8) =~= w.take(8));
    assert(s1.skip(8) =~= p + (e + rest)) by {
        assert(w =~= w.take(8) + w.subrange(8, 8 + p.len() as int) + e);
    }
    lemma_run_payload_bytes(v, items, e + rest, Seq::<Item>::empty(), 0);
    assert(Seq::<Item>::empty() + expected(v, items) =~= expected(v, items));
    let t = e + rest;
    assert(t.take(8) =~= e.take(8));
    assert(t[0] == e[0] && t[1] == e[1]);
    let k = p.len() as int + eod_len(v);
    assert(wire_len(t.take(8)) == eod_len(v));
    xlem::lemma_run_eod(t, v, expected(v, items), p.len() as int);
    assert(run(t, v, expected(v, items), p.len() as int) == Some((expected(v, items), k)));
    assert(s1.skip(8).subrange(k - eod_len(v), k) =~= e);
}

/// COMPOSITION.  If the octets the client reads begin with a response `w` the server wrote for state `st`,
/// items `items` and timing `tm` at version `v` (server contract `is_response`), then the client's contract for a
/// completed exchange (`exchange_ok`) pins everything down: the version is `v`, exactly `w` was consumed, the
/// update received the source's items restricted to the types `v` carries (ASPA withdrawals by customer AS),
/// the stored state is `st`, and from version 1 on the timing values are the source's.
pub proof fn lemma_composition(s0: Seq<u8>, w: Seq<u8>, rest: Seq<u8>, v: u8, st: State, items: Seq<Item>, tm: Timing,
                               ver0: Option<u8>, ver1: Option<u8>, n: int, log: Seq<Item>, st1: Option<State>, tm0: Timing, tm1: Timing)
    requires
        s0 == w + rest, is_response(w, v, st, items, tm), v <= 2, all_wf(items),
        exchange_ok(s0, ver0, ver1, n, log, st1, tm0, tm1),
    ensures
        ver1 == Some(v), n == w.len(), log == expected(v, items), st1 == Some(st),
        v >= 1 ==> tm1 == tm, v == 0 ==> tm1 == tm0,
        ver0 matches Some(x) ==> x == v,
{
    reveal(exchange_ok);
    assert(s0[1] == w[1] && w.take(8)[1] == w[1]);
    assert(skip_len(s0) == 0);
    assert(s0.skip(0) =~= s0);
    lemma_response_run(s0, w, rest, v, st, items, tm);
}

/// DOWNGRADE.  The first query is answered by an "unsupported protocol version" error PDU `ep`, the repeated
/// query by a response `w` at version `v`: a completed exchange then means that no version was stored before,
/// that the error PDU named exactly the version `v` (< 2) of the response, and the conclusions of
/// `lemma_composition` hold at that lower version.
pub proof fn lemma_composition_downgrade(s0: Seq<u8>, ep: Seq<u8>, w: Seq<u8>, rest: Seq<u8>, v: u8, st: State, items: Seq<Item>, tm: Timing,
                                         ver0: Option<u8>, ver1: Option<u8>, n: int, log: Seq<Item>, st1: Option<State>, tm0: Timing, tm1: Timing)
    requires
        s0 == ep + (w + rest), ep.len() >= 8, ep[1] == 10, wire_len(ep.take(8)) == ep.len(),
        is_response(w, v, st, items, tm), v <= 2, all_wf(items),
        exchange_ok(s0, ver0, ver1, n, log, st1, tm0, tm1),
    ensures
        ver0 is None, ep[0] == v, v < 2, be16(ep.subrange(2, 4)) == 4,
        ver1 == Some(v), n == ep.len() + w.len(), log == expected(v, items), st1 == Some(st),
        v >= 1 ==> tm1 == tm, v == 0 ==> tm1 == tm0,
{
    reveal(exchange_ok);
    assert(s0.take(8) =~= ep.take(8));
    assert(s0[1] == ep[1] && s0[0] == ep[0]);
    assert(skip_len(s0) == ep.len());
    assert(s0.skip(ep.len() as int) =~= w + rest);
    assert(s0.subrange(2, 4) =~= ep.subrange(2, 4));
    lemma_response_run(w + rest, w, rest, v, st, items, tm);
}

/// a cache reset is never taken for a completed exchange, and it is consumed entirely
pub proof fn lemma_composition_reset(s0: Seq<u8>, w: Seq<u8>, rest: Seq<u8>, v: u8, n: int)
    requires s0 == w + rest, is_cache_reset(w, v),
    ensures
        reset_reply(s0, n) ==> n == 8,
        forall|ver0: Option<u8>, ver1: Option<u8>, m: int, log: Seq<Item>, st1: Option<State>, tm0: Timing, tm1: Timing|
            !exchange_ok(s0, ver0, ver1, m, log, st1, tm0, tm1),
{
    reveal(exchange_ok);
    assert(s0[1] == w[1]);
    assert(skip_len(s0) == 0);
    assert(s0.skip(0) =~= s0);
}

/// a synchronisation step that starts directly with a response: same conclusions, and the update is a reset
/// update exactly when the client had no state
pub proof fn lemma_composition_step(s: Seq<u8>, w: Seq<u8>, rest: Seq<u8>, v: u8, st: State, items: Seq<Item>, tm: Timing,
                                    st0: Option<State>, ver0: Option<u8>, ver1: Option<u8>, n: int, log: Seq<Item>, rs: bool,
                                    st1: Option<State>, tm0: Timing, tm1: Timing)
    requires
        s == w + rest, is_response(w, v, st, items, tm), v <= 2, all_wf(items),
        step_ok(s, st0, ver0, ver1, n, log, rs, st1, tm0, tm1),
    ensures
        ver1 == Some(v), n == w.len(), log == expected(v, items), st1 == Some(st), rs == (st0 is None),
        v >= 1 ==> tm1 == tm, v == 0 ==> tm1 == tm0,
{
    assert(s[1] == w[1] && w.take(8)[1] == w[1]);
    assert(skip_len(s) == 0);
    assert(s.skip(0) =~= s);
    assert(!reset_reply(s, 8));
    lemma_composition(s, w, rest, v, st, items, tm, ver0, ver1, n, log, st1, tm0, tm1);
}

/// FALLBACK.  The server answers the serial query with a cache reset `cr` (no diff for the client's state) and the
/// following reset query with a response `w` for the full data set: the step ends with a reset update that
/// received the full set's items restricted to the version, the state and the timing of that response.
pub proof fn lemma_composition_fallback(s: Seq<u8>, cr: Seq<u8>, w: Seq<u8>, rest: Seq<u8>, v: u8, st: State, items: Seq<Item>, tm: Timing,
                                        st0: Option<State>, ver0: Option<u8>, ver1: Option<u8>, n: int, log: Seq<Item>, rs: bool,
                                        st1: Option<State>, tm0: Timing, tm1: Timing)
    requires
        s == cr + (w + rest), is_cache_reset(cr, v), is_response(w, v, st, items, tm), v <= 2, all_wf(items),
        step_ok(s, st0, ver0, ver1, n, log, rs, st1, tm0, tm1),
    ensures
        st0 is Some, rs, ver1 == Some(v), n == 8 + w.len(), log == expected(v, items), st1 == Some(st),
        v >= 1 ==> tm1 == tm, v == 0 ==> tm1 == tm0,
{
    lemma_composition_reset(s, cr, w + rest, v, 8);
    assert(s[1] == cr[1]);
    assert(skip_len(s) == 0);
    assert(s.skip(8) =~= w + rest);
    lemma_composition(s.skip(8), w, rest, v, st, items, tm, ver0, ver1, n - 8, log, st1, tm0, tm1);
}

/// the items of a full data set that a version carries, in order
pub open spec fn supported_items(v: u8, xs: Seq<ItemView>) -> Seq<ItemView>
    decreases xs.len()
{
    if xs.len() == 0 { Seq::<ItemView>::empty() }
    else { (if supported(v, xs[0]) { seq![xs[0]] } else { Seq::<ItemView>::empty() }) + supported_items(v, xs.drop_first()) }
}
/// for a full data set nothing is normalised: the client is handed exactly the announcements of the items the
/// version carries
pub proof fn lemma_expected_full(v: u8, xs: Seq<ItemView>)
    ensures expected(v, announce_all(xs)) == announce_all(supported_items(v, xs)),
    decreases xs.len(),
{
    if xs.len() == 0 {
        assert(expected(v, announce_all(xs)) =~= announce_all(supported_items(v, xs)));
    } else {
        lemma_expected_full(v, xs.drop_first());
        assert(announce_all(xs).drop_first() =~= announce_all(xs.drop_first()));
        assert(announce_all(xs)[0] == (Action::Announce, xs[0]));
        assert(expected(v, announce_all(xs)) =~= announce_all(supported_items(v, xs)));
    }
}

// ---- the data-set reading of the property statement (specification only, no code) ------------------------------
/// a payload set: route origins and router keys are sets, ASPA records are keyed by customer AS
pub struct Data {
    pub origins: Set<((int, int, int), u32)>,
    pub keys: Set<(Seq<u8>, u32, Seq<u8>)>,
    pub aspas: Map<u32, Seq<u8>>,
}
/// applying one announcement / withdrawal, as the property statement reads it
pub open spec fn apply_item(d: Data, x: Item) -> Data {
    match x {
        (Action::Announce, ItemView::Origin { prefix, asn }) => Data { origins: d.origins.insert((prefix, asn)), ..d },
        (Action::Withdraw, ItemView::Origin { prefix, asn }) => Data { origins: d.origins.remove((prefix, asn)), ..d },
        (Action::Announce, ItemView::RouterKey { ki, asn, info }) => Data { keys: d.keys.insert((ki, asn, info)), ..d },
        (Action::Withdraw, ItemView::RouterKey { ki, asn, info }) => Data { keys: d.keys.remove((ki, asn, info)), ..d },
        (Action::Announce, ItemView::Aspa { customer, providers }) => Data { aspas: d.aspas.insert(customer, providers), ..d },
        (Action::Withdraw, ItemView::Aspa { customer, providers }) => Data { aspas: d.aspas.remove(customer), ..d },
    }
}
pub open spec fn apply_seq(d: Data, items: Seq<Item>) -> Data
    decreases items.len()
{
    if items.len() == 0 { d } else { apply_seq(apply_item(d, items[0]), items.drop_first()) }
}
/// a payload set restricted to the payload types a version carries
pub open spec fn restrict(v: u8, d: Data) -> Data {
    Data {
        origins: d.origins,
        keys: if v >= 1 { d.keys } else { Set::<(Seq<u8>, u32, Seq<u8>)>::empty() },
        aspas: if v >= 2 { d.aspas } else { Map::<u32, Seq<u8>>::empty() },
    }
}
pub open spec fn data_eq(a: Data, b: Data) -> bool { a.origins =~= b.origins && a.keys =~= b.keys && a.aspas =~= b.aspas }
proof fn lemma_restrict_item(v: u8, d: Data, x: Item)
    ensures data_eq(restrict(v, apply_item(d, x)), if supported(v, x.1) { apply_item(restrict(v, d), normal(x)) } else { restrict(v, d) }),
{}
proof fn lemma_apply_seq_eq(a: Data, b: Data, items: Seq<Item>)
    requires data_eq(a, b),
    ensures a == b, apply_seq(a, items) == apply_seq(b, items),
{}
/// DATA SETS.  What the client hands to its update (`expected`), applied in order to the restriction of a payload
/// set, is the restriction of what the source's full sequence yields on the unrestricted set: if the target held the
/// source's set for the client's state (restricted to the version) and the source's diff leads to the set of the
/// new state, the target holds the new set (restricted) afterwards; with `d` empty and a full data set this is the
/// reset case.  ASPA withdrawals carry no providers on the client side, which does not matter under customer keys.
pub proof fn lemma_restrict_apply(v: u8, d: Data, items: Seq<Item>)
    ensures data_eq(restrict(v, apply_seq(d, items)), apply_seq(restrict(v, d), expected(v, items))),
    decreases items.len(),
{
    if items.len() > 0 {
        let x = items[0]; let rest = items.drop_first();
        lemma_restrict_item(v, d, x);
        lemma_restrict_apply(v, apply_item(d, x), rest);
        if supported(v, x.1) {
            let e = expected(v, items);
            assert(e[0] == normal(x));
            assert(e.drop_first() =~= expected(v, rest));
            lemma_apply_seq_eq(restrict(v, apply_item(d, x)), apply_item(restrict(v, d), normal(x)), expected(v, rest));
        } else {
            assert(expected(v, items) =~= expected(v, rest));
            lemma_apply_seq_eq(restrict(v, apply_item(d, x)), restrict(v, d), expected(v, rest));
        }
    } else {
        assert(expected(v, items) =~= Seq::<Item>::empty());
    }
}

// ---- HISTORIES: the induction over completed synchronisation steps ------------------------------------------------
/// One completed synchronisation step, as the per-step lemmas above describe it (lemma_composition_step /
/// lemma_composition_fallback / lemma_composition_downgrade conclude exactly these facts about a step):
/// `rs`: the update handed to the target was a reset update; `items`: the item sequence the server wrote
/// (full data set after a reset query, diff after a serial query); `st`: the state named in the End of Data.
pub struct Round { pub rs: bool, pub items: Seq<Item>, pub st: State }
pub open spec fn empty_data() -> Data {
    Data { origins: Set::empty(), keys: Set::empty(), aspas: Map::empty() }
}
/// what the target holds after the first k rounds of history h at negotiated version v: it was handed
/// `expected(v, items)` each time (conclusion `log == expected(v, items)` of the per-step lemmas), a reset
/// update replaces its data, any other update is applied in order to what it held before
pub open spec fn client_data(v: u8, h: Seq<Round>, k: int) -> Data
    decreases k
{
    if k <= 0 { empty_data() }
    else {
        let r = h[k - 1];
        apply_seq(if r.rs { empty_data() } else { client_data(v, h, k - 1) }, expected(v, r.items))
    }
}
/// The contract ASSUMED of the data source (user code behind PayloadSource), over a history: `src(i)` is the payload
/// set the source reports for the state named in round i's End of Data; a full data set builds it from nothing,
/// a diff leads from the set of the state the client held (round i-1) to it.  The first round is a reset
/// (the client has no state: `rs == (st0 is None)` in lemma_composition_step).
pub open spec fn source_ok(h: Seq<Round>, src: spec_fn(int) -> Data) -> bool {
    &&& h.len() > 0 ==> h[0].rs
    &&& forall|i: int| 0 <= i < h.len() ==>
            data_eq(#[trigger] src(i), apply_seq(if h[i].rs { empty_data() } else { src(i - 1) }, h[i].items))
}
/// WHOLE HISTORIES.  After any number k >= 1 of completed synchronisation steps (serial with fallback to reset, or
/// reset, in any mixture; every protocol version), the announcements and withdrawals handed to the target,
/// applied in order to its previous data, yield exactly the payload set the source reported for the state named
/// in the last End of Data, restricted to the payload types the negotiated version carries.
pub proof fn lemma_history(v: u8, h: Seq<Round>, src: spec_fn(int) -> Data, k: int)
    requires source_ok(h, src), 1 <= k <= h.len(),
    ensures data_eq(client_data(v, h, k), restrict(v, src(k - 1))),
    decreases k,
{
    let r = h[k - 1];
    let e = empty_data();
    assert(data_eq(restrict(v, e), e));
    assert(data_eq(src(k - 1), apply_seq(if r.rs { e } else { src(k - 2) }, r.items)));
    if r.rs {
        lemma_restrict_apply(v, e, r.items);
        lemma_apply_seq_eq(restrict(v, e), e, expected(v, r.items));
        lemma_apply_seq_eq(src(k - 1), apply_seq(e, r.items), Seq::<Item>::empty());
    } else {
        assert(k >= 2);
        lemma_history(v, h, src, k - 1);
        lemma_restrict_apply(v, src(k - 2), r.items);
        lemma_apply_seq_eq(client_data(v, h, k - 1), restrict(v, src(k - 2)), expected(v, r.items));
        lemma_apply_seq_eq(src(k - 1), apply_seq(src(k - 2), r.items), Seq::<Item>::empty());
    }
}
/// vacuity guard: a one-round history (reset with an empty data set) satisfies the source contract
pub proof fn reach_history()
    ensures ({
        let h = seq![Round { rs: true, items: Seq::<Item>::empty(), st: State { session: 1, serial: Serial(5) } }];
        source_ok(h, |i: int| empty_data())
    }),
{
    let h = seq![Round { rs: true, items: Seq::<Item>::empty(), st: State { session: 1, serial: Serial(5) } }];
    assert(apply_seq(empty_data(), h[0].items) == empty_data());
}

// ---- vacuity guards ------------------------------------------------------------------------------------------
/// a concrete version-0 exchange without items: cache response (session 1) ++ end of data (session 1, serial 5).
/// It is a response in the sense of the server contract, the client's loop function completes on it, and the
/// client's postcondition for a completed exchange is satisfiable on it.
pub proof fn reach_exchange(tm: Timing)
    ensures ({
        let c = seq![0u8, 3, 0, 1, 0, 0, 0, 8];
        let e = seq![0u8, 7, 0, 1, 0, 0, 0, 12, 0, 0, 0, 5];
        let st = State { session: 1, serial: Serial(5) };
        &&& is_response(c + e, 0, st, Seq::<Item>::empty(), tm)
        &&& run(e, 0, Seq::<Item>::empty(), 0) == Some((Seq::<Item>::empty(), 12int))
        &&& exchange_ok(c + e, None, Some(0u8), 20, Seq::<Item>::empty(), Some(st), tm, tm)
    }),
{
    reveal(exchange_ok);
    let c = seq![0u8, 3, 0, 1, 0, 0, 0, 8];
    let e = seq![0u8, 7, 0, 1, 0, 0, 0, 12, 0, 0, 0, 5];
    let w = c + e;
    assert(w.take(8) =~= c);
    assert(c.subrange(2, 4) =~= seq![0u8, 1]);
    assert(c.subrange(4, 8) =~= seq![0u8, 0, 0, 8]);
    assert(e.take(8).subrange(4, 8) =~= seq![0u8, 0, 0, 12]);
    assert(e.subrange(2, 4) =~= seq![0u8, 1]);
    assert(e.subrange(8, 12) =~= seq![0u8, 0, 0, 5]);
    assert(payload_bytes(0, Seq::<Item>::empty()) =~= Seq::<u8>::empty());
    assert(w.skip(8) =~= e);
    assert(w.subrange(8, 8) =~= Seq::<u8>::empty());
    assert(w.skip(0) =~= w);
    assert(w.skip(0).skip(8) =~= e);
    assert(e.subrange(0, 12) =~= e);
    assert(w.skip(0).take(8) =~= c);
    assert(skip_len(w) == 0);
    assert(wire_len(e.take(8)) == 12);
    xlem::lemma_run_eod(e, 0, Seq::<Item>::empty(), 0);
}
/// the negotiation predicate is satisfiable both ways: confirmation of a stored version and downgrade
pub proof fn reach_negotiated()
    ensures
        negotiated(seq![1u8, 3, 0, 1, 0, 0, 0, 8], Some(1u8), 1),
        negotiated(seq![1u8, 10, 0, 4, 0, 0, 0, 16], None, 1),
{
    let a = seq![1u8, 3, 0, 1, 0, 0, 0, 8];
    let b = seq![1u8, 10, 0, 4, 0, 0, 0, 16];
    assert(b.take(8).subrange(4, 8) =~= seq![0u8, 0, 0, 16]);
    assert(b.subrange(2, 4) =~= seq![0u8, 4]);
}
} // mod comp

} // verus!
fn main() {}
