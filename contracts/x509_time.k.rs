// Unit x509_time (C17): X.509 time decoding and construction, src/repository/x509.rs, on the
// compiled crate.  Time strings are fixed-size (13 / 15 octets), so harnesses over fully symbolic
// octets are complete proofs of the decoder, bcder primitive handling included.
//@features ca,rtr,slurm

//@append src/repository/x509.rs
#[cfg(any(kani, verif_replay))]
#[allow(dead_code, unused)]
mod verif_x509_time {
    use super::*;
    use crate::verif_support::{assume, reach};

    // ---- independent calendar specification ----
    pub fn is_leap(y: u32) -> bool { (y % 4 == 0 && y % 100 != 0) || y % 400 == 0 }
    pub fn days_in_month(y: u32, m: u32) -> u32 {
        match m { 1 | 3 | 5 | 7 | 8 | 10 | 12 => 31, 4 | 6 | 9 | 11 => 30, 2 => if is_leap(y) { 29 } else { 28 }, _ => 0 }
    }
    pub fn valid_date_time(y: u32, mo: u32, d: u32, h: u32, mi: u32, s: u32) -> bool {
        mo >= 1 && mo <= 12 && d >= 1 && d <= days_in_month(y, mo) && h < 24 && mi < 60 && s < 60
    }
    fn dig(b: u8) -> Option<u32> { if b >= b'0' && b <= b'9' { Some((b - b'0') as u32) } else { None } }
    fn two(a: u8, b: u8) -> Option<u32> { Some(dig(a)? * 10 + dig(b)?) }
    fn four(a: u8, b: u8, c: u8, d: u8) -> Option<u32> { Some(two(a, b)? * 100 + two(c, d)?) }

    /// what a time string means according to RFC 5280 / the property statement
    fn spec_utc(b: &[u8; 13]) -> Option<(u32, u32, u32, u32, u32, u32)> {
        let yy = two(b[0], b[1])?;
        let y = if yy >= 50 { 1900 + yy } else { 2000 + yy };
        let r = (y, two(b[2], b[3])?, two(b[4], b[5])?, two(b[6], b[7])?, two(b[8], b[9])?, two(b[10], b[11])?);
        if b[12] != b'Z' || !valid_date_time(r.0, r.1, r.2, r.3, r.4, r.5) { return None }
        Some(r)
    }
    fn spec_gen(b: &[u8; 15]) -> Option<(u32, u32, u32, u32, u32, u32)> {
        let r = (four(b[0], b[1], b[2], b[3])?, two(b[4], b[5])?, two(b[6], b[7])?, two(b[8], b[9])?, two(b[10], b[11])?, two(b[12], b[13])?);
        if b[14] != b'Z' || !valid_date_time(r.0, r.1, r.2, r.3, r.4, r.5) { return None }
        Some(r)
    }
    fn fields(t: &Time) -> (u32, u32, u32, u32, u32, u32) {
        (t.year() as u32, t.month(), t.day(), t.hour(), t.minute(), t.second())
    }

    //@harness time_from_parts K fn=Time::from_parts
    verif_harness!{ time_from_parts; |y: u32, mo: u32, d: u32, h: u32, mi: u32, s: u32| {
        assume(y <= 9999);
        let r = Time::from_parts((y as i32, mo, d, h, mi, s));
        assert!(r.is_ok() == valid_date_time(y, mo, d, h, mi, s), "from_parts accepts exactly real calendar dates and times");
        if let Ok(t) = r { assert!(fields(&t) == (y, mo, d, h, mi, s), "from_parts keeps the fields"); }
    }}

    //@harness time_read_two_char K fn=read_two_char
    verif_harness!{ #[kani::unwind(6)] time_read_two_char; |a: u8, b: u8| {
        let buf = [a, b];
        let mut src = bcder::decode::SliceSource::new(&buf[..]);
        let r = read_two_char(&mut src);
        assert!(r.is_ok() == two(a, b).is_some(), "read_two_char accepts exactly two ASCII digits");
        if let Ok(v) = r { assert!(Some(v) == two(a, b), "decimal value"); }
    }}

    //@harness time_read_four_char K fn=read_four_char
    verif_harness!{ #[kani::unwind(8)] time_read_four_char; |a: u8, b: u8, c: u8, d: u8| {
        let buf = [a, b, c, d];
        let mut src = bcder::decode::SliceSource::new(&buf[..]);
        let r = read_four_char(&mut src);
        assert!(r.is_ok() == four(a, b, c, d).is_some(), "read_four_char accepts exactly four ASCII digits");
        if let Ok(v) = r { assert!(Some(v) == four(a, b, c, d), "decimal value"); }
    }}

    // ---- whole decoder on fixed-size inputs: tag + length + every content octet symbolic ----
    fn utc_der(b: &[u8; 13]) -> [u8; 15] { [0x17, 13, b[0], b[1], b[2], b[3], b[4], b[5], b[6], b[7], b[8], b[9], b[10], b[11], b[12]] }
    fn gen_der(b: &[u8; 15]) -> [u8; 17] { [0x18, 15, b[0], b[1], b[2], b[3], b[4], b[5], b[6], b[7], b[8], b[9], b[10], b[11], b[12], b[13], b[14]] }

    //@harness time_take_from_utc K fn=Time::take_from timeout=1500
    verif_harness!{ #[kani::unwind(7)] time_take_from_utc; |b: [u8; 13]| {
        let d = utc_der(&b);
        let r = Mode::Der.decode(&d[..], Time::take_from);
        assert!(r.is_ok() == spec_utc(&b).is_some(), "UTCTime: accepted exactly when all-digit, Z-terminated, real date");
        if let Ok(t) = r { assert!(Some(fields(&t)) == spec_utc(&b), "UTCTime: decoded instant, pivot at 50"); }
    }}
    //@harness time_take_from_gen K fn=Time::take_from timeout=1500
    verif_harness!{ #[kani::unwind(7)] time_take_from_gen; |b: [u8; 15]| {
        let d = gen_der(&b);
        let r = Mode::Der.decode(&d[..], Time::take_from);
        assert!(r.is_ok() == spec_gen(&b).is_some(), "GeneralizedTime: accepted exactly when all-digit, Z-terminated, real date");
        if let Ok(t) = r { assert!(Some(fields(&t)) == spec_gen(&b), "GeneralizedTime: decoded instant"); }
    }}
    //@harness time_take_opt_from_gen K fn=Time::take_opt_from timeout=2400 thorough
    verif_harness!{ #[kani::unwind(7)] time_take_opt_from_gen; |b: [u8; 15]| {
        let d = gen_der(&b);
        let r = Mode::Der.decode(&d[..], Time::take_opt_from);
        assert!(r.is_ok() == spec_gen(&b).is_some(), "optional GeneralizedTime: accepted exactly when valid");
        if let Ok(t) = r { assert!(t.map(|t| fields(&t)) == spec_gen(&b), "optional GeneralizedTime: decoded instant"); }
    }}

    /// fixed-size io::Write sink (no allocation, write_all overridden so that no std loop is involved)
    pub struct Sink { pub b: [u8; 20], pub n: usize, pub bad: bool }
    impl io::Write for Sink {
        fn write(&mut self, buf: &[u8]) -> io::Result<usize> { self.write_all(buf)?; Ok(buf.len()) }
        fn write_all(&mut self, buf: &[u8]) -> io::Result<()> {
            let mut i = 0;
            while i < buf.len() { if self.n < 20 { self.b[self.n] = buf[i]; self.n += 1; } else { self.bad = true; } i += 1; }
            Ok(())
        }
        fn flush(&mut self) -> io::Result<()> { Ok(()) }
    }
    //@harness time_encode_utc K fn=UtcTime::write_encoded timeout=2400 thorough
    verif_harness!{ #[kani::unwind(22)] time_encode_utc; |y: u32, mo: u32, d: u32, h: u32, mi: u32, sec: u32| {
        // every calendar second of 1950..=2049: the written UTCTime names the same instant and decodes back
        assume(y >= 1950 && y <= 2049 && valid_date_time(y, mo, d, h, mi, sec));
        let t = Time::from_parts((y as i32, mo, d, h, mi, sec)).unwrap();
        let mut w = Sink { b: [0; 20], n: 0, bad: false };
        UtcTime(t).write_encoded(Mode::Der, &mut w).unwrap();
        assert!(w.n == 13 && !w.bad && UtcTime(t).encoded_len(Mode::Der) == 13, "UTCTime content is 13 octets");
        let b = [w.b[0], w.b[1], w.b[2], w.b[3], w.b[4], w.b[5], w.b[6], w.b[7], w.b[8], w.b[9], w.b[10], w.b[11], w.b[12]];
        assert!(spec_utc(&b) == Some((y, mo, d, h, mi, sec)), "UTCTime octets denote the same instant (fixed width, all digits, Z)");
        // (decoding these octets back is harness time_take_from_utc: it returns from_parts(spec_utc(b)) == t)
    }}
    //@harness time_encode_gen K fn=GeneralizedTime::write_encoded timeout=2400 thorough
    verif_harness!{ #[kani::unwind(22)] time_encode_gen; |y: u32, mo: u32, d: u32, h: u32, mi: u32, sec: u32| {
        // every calendar second of the years 0..=9999
        assume(y <= 9999 && valid_date_time(y, mo, d, h, mi, sec));
        let t = Time::from_parts((y as i32, mo, d, h, mi, sec)).unwrap();
        let mut w = Sink { b: [0; 20], n: 0, bad: false };
        GeneralizedTime(t).write_encoded(Mode::Der, &mut w).unwrap();
        assert!(w.n == 15 && !w.bad && GeneralizedTime(t).encoded_len(Mode::Der) == 15, "GeneralizedTime content is 15 octets");
        let b = [w.b[0], w.b[1], w.b[2], w.b[3], w.b[4], w.b[5], w.b[6], w.b[7], w.b[8], w.b[9], w.b[10], w.b[11], w.b[12], w.b[13], w.b[14]];
        assert!(spec_gen(&b) == Some((y, mo, d, h, mi, sec)), "GeneralizedTime octets denote the same instant");
        // (decoding these octets back is harness time_take_from_gen: it returns from_parts(spec_gen(b)) == t)
    }}
    //@harness time_encode_varied_len K fn=Time::encode_varied timeout=1200
    verif_harness!{ #[kani::unwind(24)] time_encode_varied_len; |y: u32, mo: u32, d: u32, h: u32, mi: u32, sec: u32| {
        // the choice alone (no octets written, so std::fmt is not executed): every calendar second of 0..=9999
        use bcder::encode::Values;
        assume(y <= 9999 && valid_date_time(y, mo, d, h, mi, sec));
        let t = Time::from_parts((y as i32, mo, d, h, mi, sec)).unwrap();
        let utc = y >= 1950 && y <= 2049;
        let v = t.encode_varied();
        assert!(v.encoded_len(Mode::Der) == (if utc { 15 } else { 17 }), "UTCTime (13 content octets) for 1950..=2049, GeneralizedTime (15) otherwise");
    }}
    //@harness time_encode_varied_choice K fn=Time::encode_varied timeout=2400 thorough
    verif_harness!{ #[kani::unwind(24)] time_encode_varied_choice; |y: u32, mo: u32, d: u32, h: u32, mi: u32, sec: u32| {
        use bcder::encode::Values;
        assume(y <= 9999 && valid_date_time(y, mo, d, h, mi, sec));
        let t = Time::from_parts((y as i32, mo, d, h, mi, sec)).unwrap();
        let utc = y >= 1950 && y <= 2049;
        let v = t.encode_varied();
        assert!(v.encoded_len(Mode::Der) == (if utc { 15 } else { 17 }), "UTCTime for 1950..=2049, GeneralizedTime otherwise (tag + length + content)");
        let mut w = Sink { b: [0; 20], n: 0, bad: false };
        v.write_encoded(Mode::Der, &mut w).unwrap();
        assert!(!w.bad && w.b[0] == (if utc { 0x17 } else { 0x18 }) && w.b[1] == (if utc { 13 } else { 15 }) && w.n == (if utc { 15 } else { 17 }), "tag and length octets");
    }}

    // ---- certificate serial numbers (20 octets, left padded) ----
    /// minimal non-negative two's-complement start index, specified independently
    fn spec_start(a: &[u8; 20]) -> usize {
        let mut i = 0;
        // skip leading zero octets while the next octet keeps the number non-negative
        while i < 19 && a[i] == 0 && a[i + 1] & 0x80 == 0 { i += 1; }
        i
    }
    //@harness serial_from_array K fn=Serial::from_array
    verif_harness!{ #[kani::unwind(22)] serial_from_array; |a: [u8; 20]| {
        let r = Serial::from_array(a);
        assert!(r.is_ok() == (a[0] & 0x80 == 0), "from_array rejects exactly a set sign bit");
        if let Ok(s) = r { assert!(s.into_array() == a, "from_array keeps the octets"); }
    }}
    //@harness serial_from_slice K fn=Serial::from_slice
    verif_harness!{ #[kani::unwind(24)] serial_from_slice; |b: [u8; 22], len: usize| {
        assume(len <= 22);
        let r = Serial::from_slice(&b[..len]);
        let ok = len >= 1 && len <= 20 && (len < 20 || b[0] & 0x80 == 0);
        assert!(r.is_ok() == ok, "from_slice: 1..=20 octets, non-negative as a 20-octet value");
        if let Ok(s) = r {
            let a = s.into_array();
            let mut i = 0;
            while i < 20 {
                if i < 20 - len { assert!(a[i] == 0, "left padded with zeros"); }
                else { assert!(a[i] == b[i - (20 - len)], "octets kept in order"); }
                i += 1;
            }
        }
    }}
    //@harness serial_start_minimal K fn=Serial::start
    verif_harness!{ #[kani::unwind(22)] serial_start_minimal; |a: [u8; 20]| {
        assume(a[0] & 0x80 == 0);
        let s = Serial(a);
        let st = s.start();
        assert!(st == spec_start(&a), "start() is the minimal DER INTEGER start");
        assert!(st <= 19 && a[st] & 0x80 == 0, "encoding is non-negative and non-empty");
        assert!(s.encoded_len(Mode::Der) == 20 - st, "encoded_len");
        // re-reading the minimal encoding gives the same serial
        let back = Serial::from_slice(&a[st..]);
        assert!(matches!(back, Ok(x) if x == s), "minimal DER octets decode back to the same serial");
    }}
    //@harness serial_ord_numeric K fn=derive(Ord)(Serial)
    verif_harness!{ #[kani::unwind(22)] serial_ord_numeric; |hi_a: u32, lo_a: u128, hi_b: u32, lo_b: u128| {
        // numeric value = hi * 2^128 + lo (160 bits); derived Ord on the 20 big-endian octets is numeric order
        assume(hi_a & 0x8000_0000 == 0 && hi_b & 0x8000_0000 == 0);
        let mk = |h: u32, l: u128| { let mut a = [0u8; 20]; a[..4].copy_from_slice(&h.to_be_bytes()); a[4..].copy_from_slice(&l.to_be_bytes()); Serial(a) };
        let (a, b) = (mk(hi_a, lo_a), mk(hi_b, lo_b));
        assert!(a.cmp(&b) == (hi_a, lo_a).cmp(&(hi_b, lo_b)), "derived order is numeric order");
        assert!((a == b) == ((hi_a, lo_a) == (hi_b, lo_b)), "derived equality is numeric equality");
    }}

    //@harness serial_dec_roundtrip_kb Kb fn=Serial::encode_dec,Serial::from_str bound="serials below 2^16 (top 18 octets zero)" timeout=1500 thorough
    verif_harness!{ #[kani::unwind(52)] serial_dec_roundtrip_kb; |v: u16| {
        let mut a = [0u8; 20];
        a[18] = (v >> 8) as u8; a[19] = v as u8;
        let s = Serial(a);
        let mut buf = [0u8; 49];
        let txt = s.encode_dec(&mut buf);
        // decimal text of the value: at most 5 digits, no leading zero, value preserved
        assert!(txt.len() <= 5, "at most five digits");
        let back = Serial::from_str(txt);
        assert!(matches!(back, Ok(x) if x == s), "decimal text parses back to the same serial");
    }}
}
//@end
