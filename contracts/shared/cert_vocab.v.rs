// ---- shared certificate-validation vocabulary (spliced by //@include) -----------------------------
// Vocabulary of the contracts of Cert::validate_*_at / verify_*_at (property C01).  Included by the unit
// that PROVES them (cert_compose) and by the units that ASSUME one of them through
// `//@stub cert_compose :: ...` or that pass its result on (sigobj_compose, roa_aspa_verify), so that the
// linked requires/ensures text reads the same on both sides.
//
// The including unit provides
//   * the real items `Cert`, `TbsCert`, `ResourceCert` (//@item src/repository/cert.rs, pubfields);
//   * `pub spec fn issued_resources(rc: ResourceCert, c: Cert, issuer: ResourceCert) -> bool`:
//     "the three resource sets attached to rc are the ones c validly receives from issuer" --
//     defined in unit cert_compose over the set view of IpBlocks / AsBlocks, declared uninterpreted in the
//     assuming units (they only pass it on);
//   * `pub spec fn ip_wf(b: IpBlocks) -> bool`, `pub spec fn as_wf(b: AsBlocks) -> bool`: the resource chain is
//     in canonical form (shared/resview_vocab.v.rs; uninterpreted outside unit res_sets).

/// the validated result carries the certificate, the issuer's TAL and the issued resources
pub open spec fn issued_result(rc: ResourceCert, c: Cert, issuer: ResourceCert) -> bool {
    rc.cert == c
    && rc.tal == issuer.tal
    && issued_resources(rc, c, issuer)
}

/// the resource sets of a validated certificate are in canonical form.  Preserved along the validation
/// chain: holds for a validated trust anchor whose decoded resources are canonical, and for every
/// certificate validated under an issuer for which it holds.
pub open spec fn rc_wf(rc: ResourceCert) -> bool {
    ip_wf(rc.v4_resources) && ip_wf(rc.v6_resources) && as_wf(rc.as_resources)
}
