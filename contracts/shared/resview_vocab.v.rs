// ---- shared resource-set vocabulary (spliced by //@include) ----------------------------------------
// Set-level vocabulary of the contracts of IpBlocks / AsBlocks (empty, is_empty, verify_issued,
// contains_roa, contains_asn).  Included by the unit that PROVES them (res_sets) and by the units that
// ASSUME one of them through `//@stub res_sets :: ...` (cert_compose, roa_aspa_verify), so that the linked
// requires/ensures text reads the same on both sides.
//
// The including unit provides
//   * the types `IpBlocks`, `AsBlocks` (res_sets: the real structs over SharedChain<IpBlock / AsBlock>;
//     assuming units: opaque stand-ins, see shared/resview_abstract.v.rs) and the real items `IpResources`,
//     `AsResources`, `ResourcesChoice<T>`, `Overclaim`;
//   * the view functions -- res_sets defines them from the block sequence of the chain, the assuming
//     units declare them uninterpreted:
//       ip_set(b: IpBlocks) -> ISet<int>, as_set(b: AsBlocks) -> ISet<int>   the addresses / AS numbers denoted
//       ip_wf(b: IpBlocks) -> bool,      as_wf(b: AsBlocks) -> bool        the chain is in canonical form
//                                                                          (what from_iter / decoding establish)
//       ip_len(b: IpBlocks) -> nat,      as_len(b: AsBlocks) -> nat        number of blocks of the chain
//       ip_covers_range(b: IpBlocks, lo: int, hi: int) -> bool             one block covers [lo, hi]

/// the claimed blocks inside IP resources are in canonical form
pub open spec fn ip_res_wf(res: IpResources) -> bool {
    match res.0 { ResourcesChoice::Blocks(b) => ip_wf(b), _ => true }
}
/// the claimed blocks inside AS resources are in canonical form
pub open spec fn as_res_wf(res: AsResources) -> bool {
    match res.0 { ResourcesChoice::Blocks(b) => as_wf(b), _ => true }
}

/// The resources a certificate validly receives from an issuer holding `issuer`:
///   missing => nothing; inherit => the issuer's own; claimed blocks under the no-overclaim policy
///   => exactly the claim if covered, else failure; under the trimming policy => the intersection.
pub open spec fn ip_issued(issuer: ISet<int>, res: IpResources, mode: Overclaim) -> Option<ISet<int>> {
    match res.0 {
        ResourcesChoice::Missing => Some(ISet::empty()),
        ResourcesChoice::Inherit => Some(issuer),
        ResourcesChoice::Blocks(c) => match mode {
            Overclaim::Refuse => if ip_set(c).subset_of(issuer) { Some(ip_set(c)) } else { None },
            Overclaim::Trim => Some(ip_set(c).intersect(issuer)),
        },
    }
}
pub open spec fn as_issued(issuer: ISet<int>, res: AsResources, mode: Overclaim) -> Option<ISet<int>> {
    match res.0 {
        ResourcesChoice::Missing => Some(ISet::empty()),
        ResourcesChoice::Inherit => Some(issuer),
        ResourcesChoice::Blocks(c) => match mode {
            Overclaim::Refuse => if as_set(c).subset_of(issuer) { Some(as_set(c)) } else { None },
            Overclaim::Trim => Some(as_set(c).intersect(issuer)),
        },
    }
}
