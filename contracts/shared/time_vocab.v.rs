// ---- shared time vocabulary (spliced by //@include) --------------------------------------------
// Vocabulary of the contracts of x509::Time / x509::Validity.  Included by the unit that PROVES them
// (validity) and by every unit that ASSUMES one of them through `//@stub validity :: ...`
// (cert_compose, sigmsg_compose), so that the linked requires/ensures text reads the same on both sides.
//
// The including unit provides
//   * the type `Time` and `pub spec fn tat(t: Time) -> int`, the instant (nanoseconds on the UTC time
//     line) a Time denotes: unit validity defines it as `at(t.0)` over the real newtype
//     `Time(DateTime<Utc>)`; the assuming units keep Time opaque and declare `tat` uninterpreted;
//   * the real items `Validity` and `ValidityPeriodError` (//@item src/repository/x509.rs, pubfields).

/// "a validity window accepts an evaluation time exactly when not-before <= time <= not-after"
pub open spec fn in_window(v: Validity, t: int) -> bool {
    tat(v.not_before) <= t <= tat(v.not_after)
}
