// ---- shared CMS signed-attributes vocabulary (spliced by //@include) -------------------------------
// Vocabulary of the contract of sigobj::SignedAttrs::encode_verify.  Included by the unit that PROVES it
// (sigattrs) and by the units that ASSUME it through `//@stub sigattrs :: ...` (sigmsg_compose,
// sigobj_compose), so that the linked requires/ensures text reads the same on both sides.
//
// The including unit provides the struct `SignedAttrs(pub Captured)` (real item of
// src/repository/sigobj.rs) and the accessors of the stand-in `Captured` it calls (`impl Captured`).

/// opaque stand-in for bcder::Captured (a `bytes::Bytes` with a decoding mode)
#[verifier::external_body]
pub struct Captured { _o: u8 }
/// the captured octets
pub uninterp spec fn captured_view(c: Captured) -> Seq<u8>;

/// minimal DER definite-length octets for a length n <= 0xFFFF (X.690 8.1.3 with 10.1)
pub open spec fn der_len(n: int) -> Seq<u8> {
    if n < 128 {
        seq![n as u8]
    } else if n < 256 {
        seq![0x81u8, n as u8]
    } else {
        seq![0x82u8, (n / 256) as u8, (n % 256) as u8]
    }
}
/// the signature input: DER encoding of the signed attributes as a SET OF -- tag, minimal length, content
pub open spec fn set_of_encoding(attrs: Seq<u8>) -> Seq<u8> {
    seq![0x31u8] + der_len(attrs.len() as int) + attrs
}

impl SignedAttrs {
    /// the captured content octets of the signed attributes
    pub open spec fn view(&self) -> Seq<u8> { captured_view(self.0) }
}
