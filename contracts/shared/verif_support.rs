#![allow(unexpected_cfgs)]

// ---------------------------------------------------------------------------
// Appended by /verif (scratch copy only).  Symbolic-or-replayed inputs so the
// same harness text runs under Kani (kani::any) and natively (values decoded
// from Kani's concrete playback) for counterexample replay on the real code.
#[cfg(any(kani, verif_replay))]
#[allow(dead_code, unused)]
pub mod verif_support {
    pub trait Sym: Sized {
        fn sym() -> Self;
    }
    #[cfg(kani)]
    macro_rules! sym_int { ($($t:ty),*) => { $( impl Sym for $t { fn sym() -> Self { kani::any() } } )* } }
    #[cfg(not(kani))]
    macro_rules! sym_int { ($($t:ty),*) => { $( impl Sym for $t {
        fn sym() -> Self {
            let b = next_bytes();
            let mut a = [0u8; core::mem::size_of::<$t>()];
            assert_eq!(a.len(), b.len(), "replay value width mismatch");
            a.copy_from_slice(&b);
            <$t>::from_le_bytes(a)
        } } )* } }
    sym_int!(u8, u16, u32, u64, u128, usize, i8, i16, i32, i64, i128, isize);
    impl Sym for bool {
        #[cfg(kani)]
        fn sym() -> Self { kani::any() }
        #[cfg(not(kani))]
        fn sym() -> Self { next_bytes()[0] != 0 }
    }
    impl<const N: usize> Sym for [u8; N] {
        #[cfg(kani)]
        fn sym() -> Self { kani::any() }
        #[cfg(not(kani))]
        fn sym() -> Self {
            let mut a = [0u8; N];
            let mut i = 0;
            while i < N { a[i] = u8::sym(); i += 1; }
            a
        }
    }
    pub fn any<T: Sym>() -> T { T::sym() }

    /// reachability marker (vacuity guard): Kani must report this cover SATISFIED
    pub fn reach() { #[cfg(kani)] kani::cover!(true, "verif reach"); }

    #[cfg(kani)]
    pub fn assume(c: bool) { kani::assume(c) }
    #[cfg(not(kani))]
    pub fn assume(c: bool) { if !c { panic!("REPLAY-ASSUMPTION-FALSE") } }

    #[cfg(not(kani))]
    thread_local! { static VALS: std::cell::RefCell<(Vec<Vec<u8>>, usize)> = std::cell::RefCell::new((Vec::new(), 0)); }
    #[cfg(not(kani))]
    fn next_bytes() -> Vec<u8> {
        VALS.with(|v| {
            let mut v = v.borrow_mut();
            let i = v.1;
            v.1 += 1;
            v.0.get(i).cloned().expect("replay ran out of values")
        })
    }
    /// load values from env VERIF_REPLAY_VALS = "1,2,3;4;5,6" (bytes per any())
    #[cfg(not(kani))]
    pub fn load_vals() {
        let s = std::env::var("VERIF_REPLAY_VALS").expect("VERIF_REPLAY_VALS");
        let vals: Vec<Vec<u8>> = s.split(';').filter(|x| !x.is_empty())
            .map(|x| x.split(',').map(|b| b.trim().parse().unwrap()).collect()).collect();
        VALS.with(|v| *v.borrow_mut() = (vals, 0));
    }
}

/// `verif_harness!{ name [for path::to::fn]; |a: T, b: U| assume(<pre>); { <body with assert!> } }`
/// Under Kani: a proof (or proof_for_contract) harness over symbolic a, b.
/// Under cfg(verif_replay): a #[test] replaying concrete values natively.
#[cfg(any(kani, verif_replay))]
#[allow(unused_macros)]
macro_rules! verif_harness {
    ($(#[$m:meta])* $name:ident ; |$($v:ident : $t:ty),*| $body:block) => {
        #[cfg(kani)]
        #[kani::proof]
        $(#[$m])*
        fn $name() {
            $( let $v: $t = crate::verif_support::any(); )*
            $body;
            crate::verif_support::reach();
        }
        #[cfg(verif_replay)]
        #[test]
        fn $name() {
            crate::verif_support::load_vals();
            $( let $v: $t = crate::verif_support::any(); )*
            println!("REPLAY-INPUTS {}", stringify!($name));
            $( println!("  {} = {:?}", stringify!($v), $v); )*
            $body;
            println!("REPLAY-PASSED {}", stringify!($name));
        }
    };
    ($(#[$m:meta])* $name:ident for $target:path ; |$($v:ident : $t:ty),*| $body:block) => {
        #[cfg(kani)]
        #[kani::proof_for_contract($target)]
        $(#[$m])*
        fn $name() {
            $( let $v: $t = crate::verif_support::any(); )*
            $body;
            crate::verif_support::reach();
        }
        #[cfg(verif_replay)]
        #[test]
        fn $name() {
            crate::verif_support::load_vals();
            $( let $v: $t = crate::verif_support::any(); )*
            println!("REPLAY-INPUTS {}", stringify!($name));
            $( println!("  {} = {:?}", stringify!($v), $v); )*
            $body;
            println!("REPLAY-PASSED {}", stringify!($name));
        }
    };
}
