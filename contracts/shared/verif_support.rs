#![allow(unexpected_cfgs)]

// ---------------------------------------------------------------------------
// Appended by /verif (scratch copy only).  Symbolic-or-replayed inputs so the
// same harness text runs under Kani (kani::any) and natively (values decoded
// from Kani's concrete playback) for counterexample replay on the real code.
#[cfg(any(kani, verif_replay))]
#[allow(dead_code, unused)]
pub mod verif_support {
    pub trait Sym: Sized {
        fn sym() -> Self;
    }
    #[cfg(kani)]
    macro_rules! sym_int { ($($t:ty),*) => { $( impl Sym for $t { fn sym() -> Self { kani::any() } } )* } }
    #[cfg(not(kani))]
    macro_rules! sym_int { ($($t:ty),*) => { $( impl Sym for $t {
        fn sym() -> Self {
            let b = next_bytes(core::mem::size_of::<$t>());
            let mut a = [0u8; core::mem::size_of::<$t>()];
            assert_eq!(a.len(), b.len(), "replay value width mismatch");
            a.copy_from_slice(&b);
            <$t>::from_le_bytes(a)
        } } )* } }
    sym_int!(u8, u16, u32, u64, u128, usize, i8, i16, i32, i64, i128, isize);
    impl Sym for bool {
        #[cfg(kani)]
        fn sym() -> Self { kani::any() }
        #[cfg(not(kani))]
        fn sym() -> Self { next_bytes(1)[0] & 1 != 0 }
    }
    impl<const N: usize> Sym for [u8; N] {
        #[cfg(kani)]
        fn sym() -> Self { kani::any() }
        #[cfg(not(kani))]
        fn sym() -> Self {
            let mut a = [0u8; N];
            let mut i = 0;
            while i < N { a[i] = u8::sym(); i += 1; }
            a
        }
    }
    pub fn any<T: Sym>() -> T { T::sym() }

    /// reachability marker (vacuity guard): Kani must report this cover SATISFIED
    pub fn reach() { #[cfg(kani)] kani::cover!(true, "verif reach"); }

    #[cfg(kani)]
    pub fn assume(c: bool) { kani::assume(c) }
    #[cfg(not(kani))]
    pub fn assume(c: bool) { if !c { panic!("REPLAY-ASSUMPTION-FALSE") } }

    #[cfg(not(kani))]
    thread_local! { static VALS: std::cell::RefCell<(Vec<Vec<u8>>, usize)> = std::cell::RefCell::new((Vec::new(), 0)); }
    /// witness-search mode (native only): PRNG state; 0 = replay mode
    #[cfg(not(kani))]
    thread_local! { static RNG: std::cell::Cell<u64> = std::cell::Cell::new(0); }
    #[cfg(not(kani))]
    fn rnd() -> u64 {
        RNG.with(|r| {
            // splitmix64
            let mut z = r.get().wrapping_add(0x9E3779B97F4A7C15);
            r.set(z);
            z = (z ^ (z >> 30)).wrapping_mul(0xBF58476D1CE4E5B9);
            z = (z ^ (z >> 27)).wrapping_mul(0x94D049BB133111EB);
            z ^ (z >> 31)
        })
    }
    #[cfg(not(kani))]
    const BYTES: &[u8] = b"/.aAzZ09-_:@ %~gmx\x00\x7f\x80\xff+,;=!$&'()*";
    /// a biased random value of `w` octets (little endian): boundary values, small values, powers of two
    /// and their neighbours, earlier values of the same width and their neighbours, uniform values
    #[cfg(not(kani))]
    fn random_bytes(w: usize) -> Vec<u8> {
        let bits = (w * 8) as u32;
        let mask: u128 = if bits >= 128 { u128::MAX } else { (1u128 << bits) - 1 };
        let uni = ((rnd() as u128) << 64 | rnd() as u128) & mask;
        let prev: Option<u128> = VALS.with(|v| {
            let v = v.borrow();
            let same: Vec<&Vec<u8>> = v.0.iter().filter(|x| x.len() == w).collect();
            if same.is_empty() { None } else {
                let x = same[(rnd() % same.len() as u64) as usize];
                let mut a = [0u8; 16];
                a[..w].copy_from_slice(x);
                Some(u128::from_le_bytes(a))
            }
        });
        let k = (rnd() % bits as u64) as u32;
        let val: u128 = if w == 1 && rnd() % 3 != 0 {
            BYTES[(rnd() % BYTES.len() as u64) as usize] as u128
        } else {
            match rnd() % 20 {
                0 => 0,
                1 => 1,
                2 => mask,
                3 => mask - 1,
                4 | 5 | 6 => (rnd() % 16) as u128,
                7 => 1u128 << k,
                8 => (1u128 << k).wrapping_sub(1),
                9 => (1u128 << k).wrapping_add(1),
                10 | 11 => prev.unwrap_or(uni),
                12 => prev.unwrap_or(uni).wrapping_add(1),
                13 => prev.unwrap_or(uni).wrapping_sub(1),
                14 => (rnd() % 300) as u128,
                15 => uni >> k,
                16 => mask ^ (uni >> k),
                _ => uni,
            }
        } & mask;
        val.to_le_bytes()[..w].to_vec()
    }
    #[cfg(not(kani))]
    fn next_bytes(w: usize) -> Vec<u8> {
        if RNG.with(|r| r.get()) != 0 {
            let b = random_bytes(w);
            VALS.with(|v| v.borrow_mut().0.push(b.clone()));
            return b;
        }
        VALS.with(|v| {
            let mut v = v.borrow_mut();
            let i = v.1;
            v.1 += 1;
            v.0.get(i).cloned().expect("replay ran out of values")
        })
    }
    /// Some(n) when the native run is a witness search over n random inputs (env VERIF_SEARCH_N)
    #[cfg(not(kani))]
    pub fn search_n() -> Option<u64> {
        std::env::var("VERIF_SEARCH_N").ok().and_then(|s| s.parse().ok())
    }
    /// witness search: run `f` on `n` biased random inputs; report the first input on which it panics
    /// for a reason other than a false assumption (in the VERIF_REPLAY_VALS format, for exact replay)
    #[cfg(not(kani))]
    pub fn search(name: &str, n: u64, f: fn()) {
        let seed: u64 = std::env::var("VERIF_SEARCH_SEED").ok().and_then(|s| s.parse().ok()).unwrap_or(1);
        let hook = std::panic::take_hook();
        std::panic::set_hook(Box::new(|_| {}));
        let (mut accepted, mut found) = (0u64, None);
        for i in 0..n {
            RNG.with(|r| r.set((seed.wrapping_mul(0x2545F4914F6CDD1D) ^ (i + 1).wrapping_mul(0x9E3779B97F4A7C15)) | 1));
            VALS.with(|v| *v.borrow_mut() = (Vec::new(), 0));
            match std::panic::catch_unwind(f) {
                Ok(()) => accepted += 1,
                Err(e) => {
                    let msg = e.downcast_ref::<String>().cloned()
                        .or_else(|| e.downcast_ref::<&str>().map(|s| s.to_string())).unwrap_or_default();
                    if msg.contains("REPLAY-ASSUMPTION-FALSE") { continue }
                    let vals = VALS.with(|v| v.borrow().0.iter()
                        .map(|x| x.iter().map(|b| b.to_string()).collect::<Vec<_>>().join(","))
                        .collect::<Vec<_>>().join(";"));
                    found = Some((vals, msg));
                    break;
                }
            }
        }
        RNG.with(|r| r.set(0));
        std::panic::set_hook(hook);
        match found {
            Some((vals, msg)) => println!("SEARCH-FOUND {} vals={} msg={}", name, vals, msg.replace('\n', " ")),
            None => println!("SEARCH-DONE {} tried={} accepted={}", name, n, accepted),
        }
    }
    /// load values from env VERIF_REPLAY_VALS = "1,2,3;4;5,6" (bytes per any())
    #[cfg(not(kani))]
    pub fn load_vals() {
        let s = std::env::var("VERIF_REPLAY_VALS").expect("VERIF_REPLAY_VALS");
        let vals: Vec<Vec<u8>> = s.split(';').filter(|x| !x.is_empty())
            .map(|x| x.split(',').map(|b| b.trim().parse().unwrap()).collect()).collect();
        VALS.with(|v| *v.borrow_mut() = (vals, 0));
    }
}

/// `verif_harness!{ name [for path::to::fn]; |a: T, b: U| assume(<pre>); { <body with assert!> } }`
/// Under Kani: a proof (or proof_for_contract) harness over symbolic a, b.
/// Under cfg(verif_replay): a #[test] replaying concrete values natively.
#[cfg(any(kani, verif_replay))]
#[allow(unused_macros)]
macro_rules! verif_harness {
    ($(#[$m:meta])* $name:ident ; |$($v:ident : $t:ty),*| $body:block) => {
        #[cfg(kani)]
        #[kani::proof]
        $(#[$m])*
        fn $name() {
            $( let $v: $t = crate::verif_support::any(); )*
            $body;
            crate::verif_support::reach();
        }
        #[cfg(verif_replay)]
        #[test]
        fn $name() {
            if let Some(n) = crate::verif_support::search_n() {
                fn one() { $( let $v: $t = crate::verif_support::any(); )* $body; }
                crate::verif_support::search(stringify!($name), n, one);
                return;
            }
            crate::verif_support::load_vals();
            $( let $v: $t = crate::verif_support::any(); )*
            println!("REPLAY-INPUTS {}", stringify!($name));
            $( println!("  {} = {:?}", stringify!($v), $v); )*
            $body;
            println!("REPLAY-PASSED {}", stringify!($name));
        }
    };
    ($(#[$m:meta])* $name:ident for $target:path ; |$($v:ident : $t:ty),*| $body:block) => {
        #[cfg(kani)]
        #[kani::proof_for_contract($target)]
        $(#[$m])*
        fn $name() {
            $( let $v: $t = crate::verif_support::any(); )*
            $body;
            crate::verif_support::reach();
        }
        #[cfg(verif_replay)]
        #[test]
        fn $name() {
            if let Some(n) = crate::verif_support::search_n() {
                fn one() { $( let $v: $t = crate::verif_support::any(); )* $body; }
                crate::verif_support::search(stringify!($name), n, one);
                return;
            }
            crate::verif_support::load_vals();
            $( let $v: $t = crate::verif_support::any(); )*
            println!("REPLAY-INPUTS {}", stringify!($name));
            $( println!("  {} = {:?}", stringify!($v), $v); )*
            $body;
            println!("REPLAY-PASSED {}", stringify!($name));
        }
    };
}

/// `verif_search!{ name; |a: T, ..| { body } }`: native witness search / replay only (no Kani proof):
/// for code CBMC cannot carry (Bytes, String, async).  Never counted as proved; used to attach a
/// concrete failing input of the real code to an obligation.
#[cfg(any(kani, verif_replay))]
#[allow(unused_macros)]
macro_rules! verif_search {
    ($name:ident ; |$($v:ident : $t:ty),*| $body:block) => {
        #[cfg(verif_replay)]
        #[test]
        fn $name() {
            if let Some(n) = crate::verif_support::search_n() {
                fn one() { $( let $v: $t = crate::verif_support::any(); )* $body; }
                crate::verif_support::search(stringify!($name), n, one);
                return;
            }
            crate::verif_support::load_vals();
            $( let $v: $t = crate::verif_support::any(); )*
            println!("REPLAY-INPUTS {}", stringify!($name));
            $( println!("  {} = {:?}", stringify!($v), $v); )*
            $body;
            println!("REPLAY-PASSED {}", stringify!($name));
        }
    };
}
