// ---- shared vocabulary of RFC 9286 4.2.2 manifest file names (spliced by //@include) ----------------
// Used by unit mft_name (which PROVES FileAndHash::validate_file_name == valid_mft_name) and by unit
// uri_algebra (lemma_mft_name_joins: a valid name satisfies the Ok-condition of the proved Rsync::join contract).
pub open spec fn is_alpha(c: u8) -> bool { (0x41 <= c <= 0x5a) || (0x61 <= c <= 0x7a) }
pub open spec fn is_alnum(c: u8) -> bool { is_alpha(c) || (0x30 <= c <= 0x39) }
pub open spec fn stem_char(c: u8) -> bool { c == 0x2d || c == 0x5f || is_alnum(c) }


/// shape of an RFC 9286 4.2.2 name except for the letters of the extension:
/// k >= 1 stem characters, a dot at k, exactly three more bytes
pub open spec fn shape(s: Seq<u8>, k: int) -> bool {
    1 <= k && s.len() == k + 4 && s[k] == 0x2e
    && forall|i: int| 0 <= i < k ==> stem_char(#[trigger] s[i])
}
/// the full predicate of the property statement
pub open spec fn valid_mft_name(s: Seq<u8>) -> bool {
    exists|k: int| shape(s, k) && is_alpha(s[k + 1]) && is_alpha(s[k + 2]) && is_alpha(s[k + 3])
}

