// ---- shared environment of the chain units (spliced by //@include) -------------------------
// Specification vocabulary (DESIGN.md §4) and the Block trait with its assumed leaf contract.
// The default methods of Block and everything of Chain/OwnedChain is extracted from
// src/repository/resources/chain.rs by the including unit.

pub open spec fn int_cmp(a: int, b: int) -> Ordering {
    if a < b { Ordering::Less } else if a == b { Ordering::Equal } else { Ordering::Greater }
}

pub assume_specification<T: Ord> [ core::cmp::min::<T> ] (a: T, b: T) -> (r: T)
    ensures T::obeys_cmp_spec() ==> r == (if a.cmp_spec(&b) == Ordering::Greater { b } else { a });
pub assume_specification<T: Ord> [ core::cmp::max::<T> ] (a: T, b: T) -> (r: T)
    ensures T::obeys_cmp_spec() ==> r == (if a.cmp_spec(&b) == Ordering::Greater { a } else { b });

pub trait Block: Clone + Sized {
    type Item: Copy + Eq + Ord;

    // ---- specification-only members (erased) ----
    /// order embedding of items into the integers
    spec fn val(item: Self::Item) -> int;
    spec fn lo(&self) -> int;
    spec fn hi(&self) -> int;
    spec fn item_min() -> int;
    spec fn item_max() -> int;

    /// Assumption every implementor owes (proved by Kani unit block_leaves for the instantiations
    /// Asn/u32 and Addr/u128): Ord/Eq of Item is the integer order of `val`; clone preserves bounds.
    proof fn ord_law()
        ensures
            <Self::Item as PartialEqSpec>::obeys_eq_spec(),
            <Self::Item as PartialOrdSpec>::obeys_partial_cmp_spec(),
            <Self::Item as OrdSpec>::obeys_cmp_spec(),
            <Option<Self::Item> as PartialEqSpec>::obeys_eq_spec(),
            forall|a: Self::Item, b: Self::Item| #[trigger] a.eq_spec(&b) == (Self::val(a) == Self::val(b)),
            forall|a: Self::Item, b: Self::Item| #![trigger Self::val(a), Self::val(b)] (Self::val(a) == Self::val(b)) ==> a == b,
            forall|a: Self::Item, b: Self::Item| #[trigger] a.partial_cmp_spec(&b) == Some(int_cmp(Self::val(a), Self::val(b))),
            forall|a: Self::Item, b: Self::Item| #[trigger] a.cmp_spec(&b) == int_cmp(Self::val(a), Self::val(b)),
            forall|a: Self::Item| Self::item_min() <= #[trigger] Self::val(a) <= Self::item_max(),
            forall|a: Self, b: Self| #[trigger] cloned(a, b) ==> a.lo() == b.lo() && a.hi() == b.hi(),
    ;

    // ---- required methods: the Block leaf contract (assumed here, proved by Kani for AsBlock,
    //      AsRange, IpBlock, AddressRange) ----
    fn new(min: Self::Item, max: Self::Item) -> (r: Self)
        ensures r.lo() == Self::val(min), r.hi() == Self::val(max);
    fn min(&self) -> (r: Self::Item)
        ensures Self::val(r) == self.lo();
    fn max(&self) -> (r: Self::Item)
        ensures Self::val(r) == self.hi();
    fn next(item: Self::Item) -> (r: Option<Self::Item>)
        ensures match r { Some(n) => Self::val(n) == Self::val(item) + 1, None => Self::val(item) == Self::item_max() };
    fn previous(item: Self::Item) -> (r: Option<Self::Item>)
        ensures match r { Some(n) => Self::val(n) == Self::val(item) - 1, None => Self::val(item) == Self::item_min() };

    // ---- default methods: real bodies from chain.rs ----
    //@fn src/repository/resources/chain.rs :: pub trait Block: Clone :: bounds
    //@spec
        ensures Self::val(r.0) == self.lo(), Self::val(r.1) == self.hi(),
    //@/spec
    //@end

    //@fn src/repository/resources/chain.rs :: pub trait Block: Clone :: contains
    //@spec
        ensures r == (self.lo() <= Self::val(item) <= self.hi()),
    //@/spec
    //@ghost begin
        proof { Self::ord_law(); }
    //@/ghost
    //@end

    //@fn src/repository/resources/chain.rs :: pub trait Block: Clone :: intersects
    //@spec
        ensures r == (self.lo() <= other.hi() && self.hi() >= other.lo()),
    //@/spec
    //@ghost begin
        proof { Self::ord_law(); }
    //@/ghost
    //@end

    //@fn src/repository/resources/chain.rs :: pub trait Block: Clone :: is_encompassed
    //@spec
        ensures r == (other.lo() <= self.lo() && other.hi() >= self.hi()),
    //@/spec
    //@ghost begin
        proof { Self::ord_law(); }
    //@/ghost
    //@end

    //@fn src/repository/resources/chain.rs :: pub trait Block: Clone :: sum
    //@spec
        requires self.lo() <= self.hi(), other.lo() <= other.hi(),
        ensures
            // Some exactly when the two intervals overlap or are adjacent; then the hull
            r.is_some() == (self.lo() <= other.hi() + 1 && other.lo() <= self.hi() + 1),
            r.is_some() ==> r.unwrap().lo() == (if self.lo() <= other.lo() { self.lo() } else { other.lo() })
                         && r.unwrap().hi() == (if self.hi() >= other.hi() { self.hi() } else { other.hi() }),
    //@/spec
    //@ghost begin
        proof { Self::ord_law(); }
    //@/ghost
    //@end

    //@fn src/repository/resources/chain.rs :: pub trait Block: Clone :: is_equivalent
    //@spec
        ensures r == (self.lo() == other.lo() && self.hi() == other.hi()),
    //@/spec
    //@ghost begin
        proof { Self::ord_law(); }
    //@/ghost
    //@end
}

//@item src/repository/resources/chain.rs :: pub struct Chain<T: Block> pubfields
//@item src/repository/resources/chain.rs :: pub struct OwnedChain<T: Block> pubfields

/// x is a member of the set denoted by the block sequence s
pub open spec fn in_view<T: Block>(s: Seq<T>, x: int) -> bool {
    exists|i: int| 0 <= i < s.len() && (#[trigger] s[i]).lo() <= x <= s[i].hi()
}
/// the chain invariant: lo <= hi per block; ascending, disjoint and non-adjacent
pub open spec fn canonical<T: Block>(s: Seq<T>) -> bool {
    &&& forall|i: int| 0 <= i < s.len() ==> (#[trigger] s[i]).lo() <= s[i].hi()
    &&& forall|i: int, j: int| 0 <= i < j < s.len() ==> (#[trigger] s[i]).hi() + 1 < (#[trigger] s[j]).lo()
}
/// every block has lo <= hi (precondition on raw input)
pub open spec fn blocks_ok<T: Block>(s: Seq<T>) -> bool {
    forall|i: int| 0 <= i < s.len() ==> (#[trigger] s[i]).lo() <= s[i].hi()
}
pub open spec fn view_subset<T: Block>(a: Seq<T>, b: Seq<T>) -> bool {
    forall|x: int| in_view(a, x) ==> in_view(b, x)
}
pub open spec fn view_eq<T: Block>(a: Seq<T>, b: Seq<T>) -> bool {
    forall|x: int| in_view(a, x) <==> in_view(b, x)
}
