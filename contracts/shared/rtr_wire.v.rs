// Shared RTR wire vocabulary (units pdu_read, rtr_exchange): environment stand-ins (std io, bytes, the tokio
// socket/writer with ghost byte streams), the real `#[repr(C, packed)]` PDU struct items of src/rtr/pdu.rs with
// their spec-level byte views (`wire_*`), the layout axioms (`ax`, backed by the Kani unit pdu_layout) and the
// byte-view lemmas (`lem`).  Moved verbatim out of pdu_read.v.rs; spliced with //@include inside `verus! { }`.
pub mod env {
use super::*;
pub assume_specification<T: Ord> [ core::cmp::min::<T> ] (a: T, b: T) -> (r: T)
    ensures T::obeys_cmp_spec() ==> r == (if a.cmp_spec(&b) == core::cmp::Ordering::Greater { b } else { a });
pub assume_specification<T, A: core::alloc::Allocator> [ <Vec<T, A> as AsMut<[T]>>::as_mut ] (v: &mut Vec<T, A>) -> (r: &mut [T])
    ensures r@ == old(v)@, final(v)@ == final(r)@;

/// in-memory octets of an integer (native byte order; never inspected directly)
pub uninterp spec fn mem16(v: u16) -> Seq<u8>;
pub uninterp spec fn mem32(v: u32) -> Seq<u8>;
pub uninterp spec fn mem128(v: u128) -> Seq<u8>;
/// big-endian value of two / four octets
pub open spec fn be16(s: Seq<u8>) -> int { s[0] as int * 0x100 + s[1] as int }
pub open spec fn be32(s: Seq<u8>) -> int { s[0] as int * 0x100_0000 + s[1] as int * 0x1_0000 + s[2] as int * 0x100 + s[3] as int }
/// `from_be` reads the memory octets of its argument as a big-endian number, `to_be` is its inverse
pub assume_specification [ u16::from_be ] (x: u16) -> (r: u16) ensures r as int == be16(mem16(x));
pub assume_specification [ u32::from_be ] (x: u32) -> (r: u32) ensures r as int == be32(mem32(x));
pub assume_specification [ u16::to_be ] (x: u16) -> (r: u16) ensures be16(mem16(r)) == x as int;
pub assume_specification [ u32::to_be ] (x: u32) -> (r: u32) ensures be32(mem32(r)) == x as int;

// ---- std::io -----------------------------------------------------------------------------------------
pub mod io {
    use super::*;
    #[verifier::external_body]
    pub struct Error { _o: u8 }
    #[derive(Clone, Copy, PartialEq, Eq)]
    pub enum ErrorKind { InvalidData, UnexpectedEof }
    impl Error {
        pub uninterp spec fn kind(&self) -> ErrorKind;
        /// std: `io::Error::new(kind, message)`; the message is irrelevant here
        #[verifier::external_body]
        pub fn new(kind: ErrorKind, msg: &'static str) -> (r: Error) ensures r.kind() == kind { unimplemented!() }
    }
}


// ---- bytes::Bytes ----------------------------------------------------------------------------------------
#[verifier::external_body]
pub struct Bytes { _o: u8 }
impl View for Bytes {
    type V = Seq<u8>;
    uninterp spec fn view(&self) -> Seq<u8>;
}
impl vstd::std_specs::convert::FromSpecImpl<Vec<u8>> for Bytes {
    open spec fn obeys_from_spec() -> bool { false }
    open spec fn from_spec(v: Vec<u8>) -> Self { arbitrary() }
}
impl From<Vec<u8>> for Bytes {
    /// bytes: `Bytes::from(Vec<u8>)` keeps the octets
    #[verifier::external_body]
    fn from(v: Vec<u8>) -> (r: Bytes) ensures r@ == v@ { unimplemented!() }
}
impl Bytes {
    /// bytes: `Bytes::new` is empty
    #[verifier::external_body]
    pub fn new() -> (r: Bytes) ensures r@ == Seq::<u8>::empty() { unimplemented!() }
    /// bytes: `Bytes::len`
    #[verifier::external_body]
    pub fn len(&self) -> (r: usize) ensures r == self@.len() { unimplemented!() }
    /// bytes: `<Bytes as AsRef<[u8]>>::as_ref`
    #[verifier::external_body]
    pub fn as_ref(&self) -> (r: &[u8]) ensures r@ == self@ { unimplemented!() }
}

// ---- tokio: the socket ---------------------------------------------------------------------------------
/// opaque stand-in for `Sock: AsyncRead + Unpin`, one future polled to completion (R6)
#[verifier::external_body]
pub struct Sock { _o: u8 }
impl Sock {
    /// octets the peer still delivers before the stream ends
    pub uninterp spec fn stream(&self) -> Seq<u8>;
    /// number of octets taken from the stream so far
    pub uninterp spec fn consumed(&self) -> nat;
}
/// `b` is `a` after exactly `k` more octets were taken from the stream
pub open spec fn advanced(a: Sock, b: Sock, k: int) -> bool {
    0 <= k <= a.stream().len() && b.consumed() == a.consumed() + k && b.stream() == a.stream().skip(k)
}
/// number of octets taken between two socket states
pub open spec fn taken(a: Sock, b: Sock) -> int { b.consumed() - a.consumed() }

impl Sock {
    /// tokio `AsyncReadExt::read_exact`: fills the whole buffer with the next octets or fails; a stream
    /// that ends early is an error; on error at most `buf.len()` octets are gone
    #[verifier::external_body]
    pub fn read_exact(&mut self, buf: &mut [u8]) -> (r: Result<usize, io::Error>)
        ensures
            final(buf)@.len() == old(buf)@.len(),
            advanced(*old(self), *final(self), taken(*old(self), *final(self))),
            taken(*old(self), *final(self)) <= old(buf)@.len(),
            r matches Ok(n) ==> n == old(buf)@.len() && taken(*old(self), *final(self)) == old(buf)@.len()
                && final(buf)@ == old(self).stream().take(old(buf)@.len() as int),
    { unimplemented!() }
    /// tokio `AsyncReadExt::read`: some prefix of the buffer is filled; 0 only for an empty buffer or
    /// at the end of the stream
    #[verifier::external_body]
    pub fn read(&mut self, buf: &mut [u8]) -> (r: Result<usize, io::Error>)
        ensures
            final(buf)@.len() == old(buf)@.len(),
            advanced(*old(self), *final(self), taken(*old(self), *final(self))),
            taken(*old(self), *final(self)) <= old(buf)@.len(),
            r matches Ok(n) ==> n == taken(*old(self), *final(self))
                && final(buf)@.take(n as int) == old(self).stream().take(n as int)
                && (n == 0 ==> old(buf)@.len() == 0 || old(self).stream().len() == 0),
    { unimplemented!() }
}


// ---- tokio: the writer -------------------------------------------------------------------------------------
/// opaque stand-in for `A: AsyncWrite + Unpin`
#[verifier::external_body]
pub struct Sink { _o: u8 }
impl Sink {
    /// every octet accepted so far
    pub uninterp spec fn written(&self) -> Seq<u8>;
    /// tokio `AsyncWriteExt::write_all`: on success the whole buffer was appended
    #[verifier::external_body]
    pub fn write_all(&mut self, buf: &[u8]) -> (r: Result<(), io::Error>)
        ensures
            r.is_ok() ==> final(self).written() == old(self).written() + buf@,
            final(self).written().len() <= old(self).written().len() + buf@.len(),
    { unimplemented!() }
}

//@item src/resources/asn.rs :: pub struct Asn pubfields keepderive=Clone,Copy
// =====================================================================================================
// the PDU structs (real item texts) and their byte view
// =====================================================================================================
//@item src/rtr/pdu.rs :: pub struct Header pubfields keepderive=Clone,Copy,Default
//@item src/rtr/pdu.rs :: pub struct SerialNotify pubfields keepderive=Clone,Copy,Default
//@item src/rtr/pdu.rs :: pub struct Ipv4Prefix pubfields keepderive=Clone,Copy,Default
//@item src/rtr/pdu.rs :: pub struct CacheResponse pubfields keepderive=Clone,Copy,Default
//@item src/rtr/pdu.rs :: pub struct Ipv6Prefix pubfields keepderive=Clone,Copy,Default
//@item src/rtr/pdu.rs :: pub struct EndOfDataV0 pubfields keepderive=Clone,Copy,Default
//@item src/rtr/pdu.rs :: pub struct EndOfDataV1 pubfields keepderive=Clone,Copy,Default
//@item src/rtr/pdu.rs :: pub enum EndOfData keepderive=Clone,Copy
//@item src/rtr/pdu.rs :: pub enum Payload
//@item src/rtr/pdu.rs :: struct RouterKeyFixed pubfields keepderive=Clone,Copy,Default
//@item src/rtr/pdu.rs :: pub struct RouterKeyInfo pubfields
//@item src/rtr/pdu.rs :: pub struct RouterKey pubfields
//@item src/rtr/pdu.rs :: struct AspaFixed pubfields keepderive=Clone,Copy,Default
//@item src/rtr/pdu.rs :: pub struct ProviderAsns pubfields
//@item src/rtr/pdu.rs :: pub struct Aspa pubfields

/// the 8 header octets as they lie in memory / on the wire
pub open spec fn hwire(h: Header) -> Seq<u8> { seq![h.version, h.pdu] + mem16(h.session) + mem32(h.length) }
/// the length field as a number
pub open spec fn hlen(h: Header) -> int { be32(mem32(h.length)) }
/// the length field announced by eight wire octets
pub open spec fn wire_len(s: Seq<u8>) -> int { be32(s.subrange(4, 8)) }

pub open spec fn wire_serial_notify(x: SerialNotify) -> Seq<u8> { hwire(x.header) + mem32(x.serial) }
pub open spec fn wire_ipv4_prefix(x: Ipv4Prefix) -> Seq<u8> {
    hwire(x.header) + seq![x.flags, x.prefix_len, x.max_len, x.zero] + mem32(x.prefix) + mem32(x.asn)
}
pub open spec fn wire_cache_response(x: CacheResponse) -> Seq<u8> { hwire(x.header) }

pub open spec fn wire_ipv6_prefix(x: Ipv6Prefix) -> Seq<u8> {
    hwire(x.header) + seq![x.flags, x.prefix_len, x.max_len, x.zero] + mem128(x.prefix) + mem32(x.asn)
}
pub open spec fn wire_end_of_data_v0(x: EndOfDataV0) -> Seq<u8> { hwire(x.header) + mem32(x.serial) }
pub open spec fn wire_end_of_data_v1(x: EndOfDataV1) -> Seq<u8> {
    hwire(x.header) + mem32(x.serial) + mem32(x.refresh) + mem32(x.retry) + mem32(x.expire)
}
pub open spec fn wire_end_of_data(x: EndOfData) -> Seq<u8> {
    match x { EndOfData::V0(v) => wire_end_of_data_v0(v), EndOfData::V1(v) => wire_end_of_data_v1(v) }
}
/// which (type, version, length) triples `Payload::read` accepts in a payload sequence
pub open spec fn payload_header_ok(ty: u8, version: u8, len: int) -> bool {
    if ty == 4 { len == 20 }
    else if ty == 6 { len == 32 }
    else if ty == 9 { len >= 32 }
    else if ty == 11 { len >= 12 && (len - 12) % 4 == 0 }
    else if ty == 7 { (version == 0 && len == 12) || ((version == 1 || version == 2) && len == 24) }
    else { false }
}
pub open spec fn wire_payload(p: Payload) -> Seq<u8> {
    match p {
        Payload::V4(x) => wire_ipv4_prefix(x),
        Payload::V6(x) => wire_ipv6_prefix(x),
        Payload::RouterKey(x) => wire_router_key(x),
        Payload::Aspa(x) => wire_aspa(x),
    }
}
pub open spec fn payload_type(p: Payload) -> u8 {
    match p { Payload::V4(_) => 4, Payload::V6(_) => 6, Payload::RouterKey(_) => 9, Payload::Aspa(_) => 11 }
}
pub open spec fn wire_router_key_fixed(x: RouterKeyFixed) -> Seq<u8> { hwire(x.header) + x.key_identifier@ + mem32(x.asn) }
pub open spec fn wire_aspa_fixed(x: AspaFixed) -> Seq<u8> { hwire(x.header) + mem32(x.customer) }
/// all octets of a router key / ASPA PDU: what `write` sends
pub open spec fn wire_router_key(x: RouterKey) -> Seq<u8> { wire_router_key_fixed(x.fixed) + x.key_info.0@ }
pub open spec fn wire_aspa(x: Aspa) -> Seq<u8> { wire_aspa_fixed(x.fixed) + x.providers.0@ }
} // mod env

pub mod ax {
    use super::*; use super::env::*;
    /// an integer of n bits occupies n/8 octets
    #[verifier::external_body]
    pub broadcast proof fn axiom_mem16_len(a: u16) ensures (#[trigger] mem16(a)).len() == 2 {}
    #[verifier::external_body]
    pub broadcast proof fn axiom_mem32_len(a: u32) ensures (#[trigger] mem32(a)).len() == 4 {}
    #[verifier::external_body]
    pub broadcast proof fn axiom_mem128_len(a: u128) ensures (#[trigger] mem128(a)).len() == 16 {}
    /// the memory octets determine the integer
    #[verifier::external_body]
    pub proof fn axiom_mem16_inj(a: u16, b: u16) requires mem16(a) == mem16(b) ensures a == b {}
    #[verifier::external_body]
    pub proof fn axiom_mem32_inj(a: u32, b: u32) requires mem32(a) == mem32(b) ensures a == b {}
    /// `mem::size_of_val(&buf)` of the 1 KiB scratch buffer in `Error::skip_payload`
    #[verifier::external_body]
    pub broadcast proof fn axiom_size_of_val_buf(b: &[u8; 1024])
        ensures #[trigger] vstd::layout::spec_size_of_val::<[u8; 1024]>(b) == 1024 {}
    /// sizes of the packed structs (Kani unit pdu_layout asserts `mem::size_of::<T>()` for each of them)
    #[verifier::external_body]
    pub broadcast proof fn axiom_size_of_pdus()
        ensures
            #[trigger] vstd::layout::size_of::<Header>() == 8,
            #[trigger] vstd::layout::size_of::<SerialNotify>() == 12,
            #[trigger] vstd::layout::size_of::<Ipv4Prefix>() == 20,
            #[trigger] vstd::layout::size_of::<CacheResponse>() == 8,
            #[trigger] vstd::layout::size_of::<Ipv6Prefix>() == 32,
            #[trigger] vstd::layout::size_of::<EndOfDataV0>() == 12,
            #[trigger] vstd::layout::size_of::<EndOfDataV1>() == 24,
            #[trigger] vstd::layout::size_of::<RouterKeyFixed>() == 32,
            #[trigger] vstd::layout::size_of::<AspaFixed>() == 12,
    {}
}

pub mod lem {
    use super::*; use super::env::*;
    pub broadcast proof fn lemma_advanced_trans(a: Sock, b: Sock, c: Sock, k1: int, k2: int)
        requires #[trigger] advanced(a, b, k1), #[trigger] advanced(b, c, k2),
        ensures advanced(a, c, k1 + k2)
    {
        assert(a.stream().skip(k1).skip(k2) =~= a.stream().skip(k1 + k2));
    }
    pub broadcast proof fn lemma_advanced_refl(a: Sock)
        ensures #[trigger] advanced(a, a, 0)
    {
        assert(a.stream().skip(0) =~= a.stream());
    }
    /// the header fields as seen in the eight wire octets
    pub broadcast proof fn lemma_hwire_fields(h: Header)
        ensures
            (#[trigger] hwire(h)).len() == 8, hwire(h)[0] == h.version, hwire(h)[1] == h.pdu,
            hwire(h).subrange(2, 4) == mem16(h.session), hwire(h).subrange(4, 8) == mem32(h.length),
            wire_len(hwire(h)) == hlen(h),
    {
        broadcast use {super::ax::axiom_mem16_len, super::ax::axiom_mem32_len};
        assert(hwire(h).subrange(2, 4) =~= mem16(h.session));
        assert(hwire(h).subrange(4, 8) =~= mem32(h.length));
    }
    /// the eight wire octets determine the header
    pub broadcast proof fn lemma_hwire_inj(h1: Header, h2: Header)
        requires #[trigger] hwire(h1) == #[trigger] hwire(h2),
        ensures h1 == h2,
    {
        lemma_hwire_fields(h1); lemma_hwire_fields(h2);
        super::ax::axiom_mem16_inj(h1.session, h2.session);
        super::ax::axiom_mem32_inj(h1.length, h2.length);
    }
    pub broadcast proof fn lemma_wire_serial_notify(x: SerialNotify)
        ensures (#[trigger] wire_serial_notify(x)).len() == 12, wire_serial_notify(x).take(8) == hwire(x.header),
            wire_serial_notify(x).skip(8) == mem32(x.serial),
    {
        broadcast use {super::ax::axiom_mem16_len, super::ax::axiom_mem32_len};
        assert(wire_serial_notify(x).take(8) =~= hwire(x.header));
        assert(wire_serial_notify(x).skip(8) =~= mem32(x.serial));
    }
    pub broadcast proof fn lemma_wire_ipv4_prefix(x: Ipv4Prefix)
        ensures (#[trigger] wire_ipv4_prefix(x)).len() == 20, wire_ipv4_prefix(x).take(8) == hwire(x.header),
    {
        broadcast use {super::ax::axiom_mem16_len, super::ax::axiom_mem32_len};
        assert(wire_ipv4_prefix(x).take(8) =~= hwire(x.header));
    }
    pub broadcast proof fn lemma_wire_router_key_fixed(x: RouterKeyFixed)
        ensures (#[trigger] wire_router_key_fixed(x)).len() == 32, wire_router_key_fixed(x).take(8) == hwire(x.header),
    {
        broadcast use {super::ax::axiom_mem16_len, super::ax::axiom_mem32_len};
        assert(wire_router_key_fixed(x).take(8) =~= hwire(x.header));
    }
    pub broadcast proof fn lemma_wire_aspa_fixed(x: AspaFixed)
        ensures (#[trigger] wire_aspa_fixed(x)).len() == 12, wire_aspa_fixed(x).take(8) == hwire(x.header),
    {
        broadcast use {super::ax::axiom_mem16_len, super::ax::axiom_mem32_len};
        assert(wire_aspa_fixed(x).take(8) =~= hwire(x.header));
    }
    /// three consecutive pieces of a stream are one piece
    pub proof fn lemma_three_pieces(s: Seq<u8>, h: Seq<u8>, a: int, b: int)
        requires 0 <= a, 0 <= b, a + b <= s.len(),
        ensures (h + s.take(a)) + s.skip(a).take(b) =~= h + s.take(a + b)
    {}
    pub broadcast proof fn lemma_wire_cache_response(x: CacheResponse)
        ensures (#[trigger] wire_cache_response(x)).len() == 8, wire_cache_response(x).take(8) == hwire(x.header),
    {
        broadcast use {super::ax::axiom_mem16_len, super::ax::axiom_mem32_len};
        assert(wire_cache_response(x).take(8) =~= hwire(x.header));
    }
    pub broadcast proof fn lemma_wire_ipv6_prefix(x: Ipv6Prefix)
        ensures (#[trigger] wire_ipv6_prefix(x)).len() == 32, wire_ipv6_prefix(x).take(8) == hwire(x.header),
    {
        broadcast use {super::ax::axiom_mem16_len, super::ax::axiom_mem32_len, super::ax::axiom_mem128_len};
        assert(wire_ipv6_prefix(x).take(8) =~= hwire(x.header));
    }
    pub broadcast proof fn lemma_wire_end_of_data_v0(x: EndOfDataV0)
        ensures (#[trigger] wire_end_of_data_v0(x)).len() == 12, wire_end_of_data_v0(x).take(8) == hwire(x.header),
    {
        broadcast use {super::ax::axiom_mem16_len, super::ax::axiom_mem32_len, super::ax::axiom_mem128_len};
        assert(wire_end_of_data_v0(x).take(8) =~= hwire(x.header));
    }
    pub broadcast proof fn lemma_wire_end_of_data_v1(x: EndOfDataV1)
        ensures (#[trigger] wire_end_of_data_v1(x)).len() == 24, wire_end_of_data_v1(x).take(8) == hwire(x.header),
    {
        broadcast use {super::ax::axiom_mem16_len, super::ax::axiom_mem32_len, super::ax::axiom_mem128_len};
        assert(wire_end_of_data_v1(x).take(8) =~= hwire(x.header));
    }
    /// two consecutive takes are one take
    pub broadcast proof fn lemma_take_take(s: Seq<u8>, a: int, b: int)
        requires 0 <= a, 0 <= b, a + b <= s.len(),
        ensures #[trigger] (s.take(a) + s.skip(a).take(b)) == s.take(a + b)
    {
        assert(s.take(a) + s.skip(a).take(b) =~= s.take(a + b));
    }
}
broadcast use {ax::axiom_mem16_len, ax::axiom_mem32_len, ax::axiom_mem128_len, ax::axiom_size_of_val_buf, ax::axiom_size_of_pdus, lem::lemma_advanced_trans, lem::lemma_advanced_refl, lem::lemma_take_take, lem::lemma_hwire_fields, lem::lemma_hwire_inj, lem::lemma_wire_serial_notify, lem::lemma_wire_ipv4_prefix, lem::lemma_wire_router_key_fixed, lem::lemma_wire_aspa_fixed, lem::lemma_wire_ipv6_prefix, lem::lemma_wire_end_of_data_v0, lem::lemma_wire_end_of_data_v1, lem::lemma_wire_cache_response};
