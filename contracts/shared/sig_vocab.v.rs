// ---- abstract side of the shared signature-verification vocabulary (spliced by //@include) ---------
// Vocabulary of the contracts of crypto::keys::PublicKey::verify and x509::SignedData::verify_signature.
// For the units that ASSUME one of them through `//@stub key_verify :: ...` (cert_compose, sigobj_compose,
// sigmsg_compose): the predicate is uninterpreted.  Unit key_verify, which proves the contracts, DEFINES the
// same function (same name, same signature) as
//     the public key format declared by the signature's algorithm identifier == the key's format
//     && the aws-lc primitive for the key's format accepts (key bits, msg, signature value)
// over the real definitions of PublicKey / Signature and the real trait SignatureAlgorithm.
//
// The including unit provides
//   * the types `PublicKey` (real item or opaque stand-in) and `Signature<Alg>` (real item of
//     src/crypto/signature.rs);
//   * `impl SignatureAlgorithm for ..` for the algorithm-identifier types it uses (RpkiSignatureAlgorithm).

/// crypto::signature::SignatureAlgorithm as a marker: the assuming units only use it as a bound (its
/// members are the subject of unit key_verify)
pub trait SignatureAlgorithm: Sized { }

/// the signature `sig` (algorithm identifier and value) over the octets `msg` verifies under `key`,
/// including the check that the declared algorithm goes with the key's type
pub uninterp spec fn sig_ok<Alg: SignatureAlgorithm>(key: PublicKey, msg: Seq<u8>, sig: Signature<Alg>) -> bool;
