// ---- shared URI vocabulary (spliced by //@include) ---------------------------------------------
// Vocabulary of the contracts of src/uri.rs (property C12).  Included by the unit that PROVES the
// parsers and the character / segment checks (uri_parse) and by the unit that ASSUMES two of them
// through `//@stub uri_parse :: ...` and proves the path algebra over the invariant the parsers
// establish (uri_algebra), so that the linked requires/ensures text reads the same on both sides.
// Pure `open spec fn`s over `Seq<u8>` only: nothing here is an assumption.  The text of the definitions
// was moved unchanged out of uri_algebra.v.rs; only `empty_seg_at` / `dot_seg_first` at the end are new
// (they say WHICH error `Rsync::check_path` reports).

pub open spec fn lower(c: u8) -> u8 { if 0x41 <= c <= 0x5a { (c + 0x20) as u8 } else { c } }
/// ASCII-case-insensitive equality of two octet strings
pub open spec fn eq_ic(a: Seq<u8>, b: Seq<u8>) -> bool {
    a.len() == b.len() && forall|i: int| #![trigger a[i]] #![trigger b[i]] 0 <= i < a.len() ==> lower(a[i]) == lower(b[i])
}
/// the permitted URI characters: ! $..; = A..Z _ a..z ~
pub open spec fn permitted(c: u8) -> bool {
    c == 0x21 || (0x24 <= c <= 0x3b) || c == 0x3d || (0x41 <= c <= 0x5a) || c == 0x5f || (0x61 <= c <= 0x7a) || c == 0x7e
}
pub open spec fn all_permitted(s: Seq<u8>) -> bool { forall|i: int| 0 <= i < s.len() ==> permitted(#[trigger] s[i]) }
pub open spec fn rsync_scheme() -> Seq<u8> { seq![0x72u8, 0x73, 0x79, 0x6e, 0x63, 0x3a, 0x2f, 0x2f] }
pub open spec fn https_scheme() -> Seq<u8> { seq![0x68u8, 0x74, 0x74, 0x70, 0x73, 0x3a, 0x2f, 0x2f] }

/// a segment of `b[s..]` starts at i / ends just before j
pub open spec fn seg_start(b: Seq<u8>, s: int, i: int) -> bool { i == s || b[i - 1] == 0x2f }
pub open spec fn seg_end(b: Seq<u8>, j: int) -> bool { j == b.len() || b[j] == 0x2f }
/// `b[s..]` split at '/' has no empty segment except possibly the last one
pub open spec fn no_empty_seg(b: Seq<u8>, s: int) -> bool {
    forall|i: int| s <= i < b.len() && #[trigger] b[i] == 0x2f ==> i > s && b[i - 1] != 0x2f
}
/// a "." or ".." segment of `b[s..]` starts at i
pub open spec fn dot_seg_at(b: Seq<u8>, s: int, i: int) -> bool {
    seg_start(b, s, i) && b[i] == 0x2e
    && (seg_end(b, i + 1) || (i + 1 < b.len() && b[i + 1] == 0x2e && seg_end(b, i + 2)))
}
pub open spec fn no_dot_seg(b: Seq<u8>, s: int) -> bool {
    forall|i: int| s <= i < b.len() ==> !#[trigger] dot_seg_at(b, s, i)
}
/// what `Rsync::check_path(&b[s..])` accepts
pub open spec fn path_ok_from(b: Seq<u8>, s: int) -> bool { no_empty_seg(b, s) && no_dot_seg(b, s) }
pub open spec fn path_ok(p: Seq<u8>) -> bool { path_ok_from(p, 0) }

/// The invariant established by `Rsync::from_bytes`: permitted characters only, "rsync://" in any
/// case, `check_path(&bytes[8..])` accepted, a non-empty authority up to the first '/', a non-empty
/// module name up to the second '/', the cached offsets point just behind these two slashes.
pub open spec fn wf_rsync(b: Seq<u8>, ms: int, ps: int) -> bool {
    &&& 10 <= ms && ms + 2 <= ps && ps <= b.len()
    &&& eq_ic(b.subrange(0, 8), rsync_scheme())
    &&& all_permitted(b)
    &&& b[ms - 1] == 0x2f && b[ps - 1] == 0x2f
    &&& forall|i: int| 8 <= i < ps - 1 && i != ms - 1 ==> #[trigger] b[i] != 0x2f
    &&& path_ok_from(b, 8)
}
/// The invariant established by `Https::from_bytes`: permitted characters only, "https://" in any
/// case, `path_idx` is the index of the first '/' at or behind index 8, or the length if there is none.
pub open spec fn wf_https(b: Seq<u8>, pi: int) -> bool {
    &&& 8 <= pi <= b.len()
    &&& eq_ic(b.subrange(0, 8), https_scheme())
    &&& all_permitted(b)
    &&& forall|i: int| 8 <= i < pi ==> #[trigger] b[i] != 0x2f
    &&& (pi < b.len() ==> b[pi] == 0x2f)
}

/// an empty segment of `p` that is not the trailing one starts at i (the '/' at i ends it at once)
pub open spec fn empty_seg_at(p: Seq<u8>, i: int) -> bool { 0 <= i < p.len() && p[i] == 0x2f && (i == 0 || p[i - 1] == 0x2f) }
/// the first offending segment of `p` (in text order) is a "." / ".." segment, not an empty one:
/// `Rsync::check_path` walks the segments in order and reports the first offence it meets
pub open spec fn dot_seg_first(p: Seq<u8>) -> bool {
    exists|i: int| 0 <= i < p.len() && #[trigger] dot_seg_at(p, 0, i) && forall|j: int| 0 <= j < i ==> !#[trigger] empty_seg_at(p, j)
}
