// ---- abstract side of the shared key-identifier vocabulary (spliced by //@include) -----------------
// Vocabulary of the contract of crypto::keys::PublicKey::key_identifier.  For the units that ASSUME it
// through `//@stub key_verify :: impl PublicKey :: key_identifier` (cert_compose, sigmsg_compose): the function
// is uninterpreted.  Unit key_verify, which proves the contract, DEFINES the same function as the
// KeyIdentifier whose 20 octets are the SHA-1 hash (aws-lc) of the key's bits.
//
// The including unit provides the types `PublicKey` and `KeyIdentifier` (real item of src/crypto/keys.rs).

/// the SHA-1 key identifier of a public key
pub uninterp spec fn ski_of(key: PublicKey) -> KeyIdentifier;
