// ---- shared signed-object vocabulary (spliced by //@include) --------------------------------------
// Vocabulary of the contracts of sigobj::SignedObject::validate_at / validate (property C02).  Included by
// the unit that PROVES them (sigobj_compose) and by the unit that ASSUMES SignedObject::validate through
// `//@stub sigobj_compose :: ...` (roa_aspa_verify), so that the linked requires/ensures text reads the
// same on both sides.  Needs shared/cert_vocab.v.rs (issued_result, rc_wf).
//
// The including unit provides
//   * the type `SignedObject` (real item in sigobj_compose, opaque stand-in in roa_aspa_verify) and
//     `ResourceCert`, `Cert`, `ValidationError`;
//   * `pub spec fn ee_cert_of(o: SignedObject) -> Cert`: the EE certificate carried by the object
//     (`o.cert` in sigobj_compose, uninterpreted in roa_aspa_verify);
//   * `pub spec fn accepted(o: SignedObject, issuer: ResourceCert, strict: bool, now: Time) -> bool`:
//     the acceptance predicate of the property statement (defined in sigobj_compose: sid == SKI,
//     digest == SHA-256(content), signature over the SET OF encoding verifies, EE certificate valid under
//     the issuer at `now`; uninterpreted in roa_aspa_verify);
//   * `pub spec fn wf(o: SignedObject) -> bool`: what decoding establishes about the object (signed
//     attributes of at most 65535 octets, canonical resource extensions of the EE certificate).

/// `r` is the outcome prescribed by the acceptance verdict `acc`: Ok exactly when accepted, and then
/// the result is the EE certificate of the object validated under the issuer (C01: issued_result), with
/// resource chains in canonical form (rc_wf)
pub open spec fn outcome_is(r: Result<ResourceCert, ValidationError>, acc: bool, o: SignedObject, issuer: ResourceCert) -> bool {
    (r is Ok <==> acc)
    && (r matches Ok(rc) ==> issued_result(rc, ee_cert_of(o), issuer) && rc_wf(rc))
}
