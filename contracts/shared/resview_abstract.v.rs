// ---- abstract side of the shared resource-set vocabulary (spliced by //@include) -------------------
// For the units that ASSUME contracts of IpBlocks / AsBlocks through `//@stub res_sets :: ...`
// (cert_compose, roa_aspa_verify): the two types are opaque and the view functions of
// shared/resview_vocab.v.rs are uninterpreted.  Unit res_sets, which proves the contracts, defines the
// same functions (same names, same signatures) from the block sequence of the real chain.

/// opaque stand-in for IpBlocks (a SharedChain<IpBlock>; its chain representation is the subject of
/// units chain_* / res_sets)
#[verifier::external_body]
pub struct IpBlocks { _o: u8 }
/// opaque stand-in for AsBlocks (a SharedChain<AsBlock>)
#[verifier::external_body]
pub struct AsBlocks { _o: u8 }
/// the set of addresses / AS numbers denoted
pub uninterp spec fn ip_set(b: IpBlocks) -> ISet<int>;
pub uninterp spec fn as_set(b: AsBlocks) -> ISet<int>;
/// the chain is in canonical form (established by FromIterator, hence by decoding; preserved by every operation)
pub uninterp spec fn ip_wf(b: IpBlocks) -> bool;
pub uninterp spec fn as_wf(b: AsBlocks) -> bool;
/// number of blocks of the chain
pub uninterp spec fn ip_len(b: IpBlocks) -> nat;
pub uninterp spec fn as_len(b: AsBlocks) -> nat;
