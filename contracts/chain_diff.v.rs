// Unit chain_diff (C03): Chain::difference of src/repository/resources/chain.rs against the
// mathematical view of a chain: the result denotes exactly self \ other and is canonical.
use vstd::prelude::*;
use vstd::std_specs::cmp::*;
use vstd::std_specs::iter::IteratorSpec;
use core::cmp::Ordering;
use core::cmp::{min, max};

verus! {

//@include shared/chain_env.v.rs


// ---- specification vocabulary of this unit ---------------------------------------------------
/// r denotes (s \ o) restricted to the numbers below the frontier f
pub open spec fn diff_below<T: Block>(r: Seq<T>, s: Seq<T>, o: Seq<T>, f: int) -> bool {
    forall|x: int| in_view(r, x) <==> (in_view(s, x) && !in_view(o, x) && x < f)
}
/// r denotes s \ o
pub open spec fn diff_all<T: Block>(r: Seq<T>, s: Seq<T>, o: Seq<T>) -> bool {
    forall|x: int| in_view(r, x) <==> (in_view(s, x) && !in_view(o, x))
}
/// every block of r ends below f
pub open spec fn all_hi_below<T: Block>(r: Seq<T>, f: int) -> bool {
    forall|i: int| 0 <= i < r.len() ==> (#[trigger] r[i]).hi() < f
}
/// the first n blocks of o end below f
pub open spec fn prefix_hi_below<T: Block>(o: Seq<T>, n: int, f: int) -> bool {
    forall|k: int| 0 <= k < n ==> (#[trigger] o[k]).hi() < f
}
/// ghost state of a `slice::Iter` over s (vstd models it by the sequence of references still to be
/// yielded): the remaining references are the tail of s
pub open spec fn iter_at<T>(rem: Seq<&T>, s: Seq<T>) -> bool {
    rem.len() <= s.len()
    && forall|i: int| 0 <= i < rem.len() ==> *(#[trigger] rem[i]) == s[s.len() - rem.len() + i]
}
/// number of elements already yielded
pub open spec fn ipos<T>(rem: Seq<&T>, s: Seq<T>) -> int { s.len() - rem.len() }

/// relation between the `Option<&T>` held by the loop and the ghost position of the iterator:
/// `Some(e)`: e is the block before the iterator position; `None`: the iterator is exhausted
pub open spec fn cur_other<T: Block>(it: Option<&T>, oj: int, o: Seq<T>) -> bool {
    match it {
        Some(e) => 1 <= oj <= o.len() && *e == o[oj - 1],
        None => oj == o.len(),
    }
}
/// index of the current block of other (== o.len() when exhausted)
pub open spec fn oidx<T: Block>(it: Option<&T>, oj: int) -> int {
    if it.is_some() { oj - 1 } else { oj }
}

// ---- lemmas ------------------------------------------------------------------------------------
proof fn lemma_push_view<T: Block>(r: Seq<T>, b: T, x: int)
    ensures in_view(r.push(b), x) <==> (in_view(r, x) || b.lo() <= x <= b.hi()),
{
    let r2 = r.push(b);
    if in_view(r, x) {
        let i = choose|i: int| 0 <= i < r.len() && (#[trigger] r[i]).lo() <= x <= r[i].hi();
        assert(r2[i] == r[i]);
    }
    if b.lo() <= x <= b.hi() {
        assert(r2[r.len() as int] == b);
    }
    if in_view(r2, x) {
        let i = choose|i: int| 0 <= i < r2.len() && (#[trigger] r2[i]).lo() <= x <= r2[i].hi();
        if i < r.len() { assert(r2[i] == r[i]); } else { assert(r2[i] == b); }
    }
}

/// membership in o of a number x at or above lo, when the blocks of o before oi end below lo
proof fn lemma_other_mem<T: Block>(o: Seq<T>, oi: int, lo: int, x: int)
    requires canonical(o), 0 <= oi <= o.len(), prefix_hi_below(o, oi, lo), x >= lo,
    ensures
        oi == o.len() ==> !in_view(o, x),
        oi < o.len() ==> (x < o[oi].lo() ==> !in_view(o, x)),
        oi < o.len() ==> (o[oi].lo() <= x <= o[oi].hi() ==> in_view(o, x)),
{
    if in_view(o, x) {
        let j = choose|j: int| 0 <= j < o.len() && (#[trigger] o[j]).lo() <= x <= o[j].hi();
        if j < oi { assert(o[j].hi() < lo); }
        if oi < o.len() && j > oi { assert(o[oi].hi() + 1 < o[j].lo()); assert(o[oi].lo() <= o[oi].hi()); }
    }
}

/// One round of the loop of `difference`, seen abstractly: the current self block s[si] has been
/// handled from lo up to (excluding) the new frontier f; `pushed` says whether one block
/// [lo, e] was appended to the result.  g (= e + 1 or lo) .. f - 1 must lie inside o[oi].
proof fn lemma_step<T: Block>(s: Seq<T>, o: Seq<T>, r: Seq<T>, r2: Seq<T>, si: int, oi: int, lo: int, f: int, pushed: bool)
    requires
        canonical(s), canonical(o), canonical(r),
        0 <= si < s.len(), 0 <= oi <= o.len(),
        s[si].lo() <= lo <= s[si].hi(), lo <= f <= s[si].hi() + 1,
        prefix_hi_below(o, oi, lo),
        all_hi_below(r, lo - 1),
        diff_below(r, s, o, lo),
        oi < o.len() ==> (f == lo || f <= o[oi].hi() + 1),
        !pushed ==> r2 == r,
        pushed ==> r2.len() > 0 && r2 == r.push(r2.last()) && r2.last().lo() == lo && lo <= r2.last().hi() < f
            && (oi < o.len() ==> r2.last().hi() < o[oi].lo()),
        ({ let g = if pushed { r2.last().hi() + 1 } else { lo }; g < f ==> oi < o.len() && o[oi].lo() <= g }),
    ensures
        canonical(r2),
        diff_below(r2, s, o, f),
        all_hi_below(r2, f),
        (!pushed || r2.last().hi() + 1 < f) ==> all_hi_below(r2, f - 1),
{
    let b = r2.last();
    if pushed {
        assert forall|i: int| 0 <= i < r2.len() implies (#[trigger] r2[i]).lo() <= r2[i].hi() by {
            if i < r.len() { assert(r2[i] == r[i]); }
        }
        assert forall|i: int, j: int| 0 <= i < j < r2.len() implies (#[trigger] r2[i]).hi() + 1 < (#[trigger] r2[j]).lo() by {
            assert(r2[i] == r[i]);
            if j < r.len() { assert(r2[j] == r[j]); }
        }
        assert forall|i: int| 0 <= i < r2.len() implies (#[trigger] r2[i]).hi() < f by {
            if i < r.len() { assert(r2[i] == r[i]); }
        }
    }
    let e = b.hi();
    assert forall|x: int| in_view(r2, x) <==> (in_view(s, x) && !in_view(o, x) && x < f) by {
        if pushed { lemma_push_view(r, b, x); }
        if x < lo {
        } else if x < f {
            assert(s[si].lo() <= x <= s[si].hi());
            assert(in_view(s, x));
            lemma_other_mem(o, oi, lo, x);
            assert(!in_view(r, x));
            if pushed && x <= e {
                assert(!in_view(o, x));
            } else {
                assert(in_view(o, x));
            }
        } else {
        }
    }
    if !pushed || b.hi() + 1 < f {
        assert forall|i: int| 0 <= i < r2.len() implies (#[trigger] r2[i]).hi() < f - 1 by {
            if pushed && i < r.len() { assert(r2[i] == r[i]); }
        }
    }
}

/// after s[si] is completely handled (frontier s[si].hi + 1) the frontier may move to the start of
/// the next block of s, or - if there is none - the result is complete
proof fn lemma_advance_self<T: Block>(s: Seq<T>, o: Seq<T>, r: Seq<T>, si: int, f: int)
    requires
        canonical(s), 0 <= si < s.len(), f == s[si].hi() + 1,
        diff_below(r, s, o, f), all_hi_below(r, f),
    ensures
        si + 1 < s.len() ==> diff_below(r, s, o, s[si + 1].lo()) && all_hi_below(r, s[si + 1].lo() - 1),
        si + 1 == s.len() ==> diff_all(r, s, o),
{
    assert forall|x: int| x >= f && in_view(s, x) implies si + 1 < s.len() && x >= s[si + 1].lo() by {
        let j = choose|j: int| 0 <= j < s.len() && (#[trigger] s[j]).lo() <= x <= s[j].hi();
        if j < si { assert(s[j].hi() + 1 < s[si].lo()); assert(s[si].lo() <= s[si].hi()); }
        if j > si + 1 { assert(s[si + 1].hi() + 1 < s[j].lo()); assert(s[si + 1].lo() <= s[si + 1].hi()); }
    }
    if si + 1 < s.len() {
        assert(s[si].hi() + 1 < s[si + 1].lo());
    }
}

/// vacuity guard: the precondition of `difference` is satisfiable - by two empty chains and by
/// any two single-block chains (which may overlap arbitrarily)
proof fn reach_difference<T: Block>(a: T, b: T)
    requires a.lo() <= a.hi(), b.lo() <= b.hi(),
    ensures
        canonical(Seq::<T>::empty()) && canonical(Seq::<T>::empty()),
        canonical(seq![a]) && canonical(seq![b]),
{
}

impl<T: Block> OwnedChain<T> {
    //@fn src/repository/resources/chain.rs :: impl<T: Block> OwnedChain<T> :: from_vec_unchecked
    //@spec
        ensures r.0@ == vec@,
    //@/spec
    //@end

    //@fn src/repository/resources/chain.rs :: impl<T: Block> OwnedChain<T> :: empty
    //@spec
        ensures r.0@.len() == 0,
    //@/spec
    //@end
}

impl<T: Block> Chain<T> {
    //@fn src/repository/resources/chain.rs :: impl<T: Block> Chain<T> :: as_slice
    //@spec
        ensures r@ == self.0@,
    //@/spec
    //@end

    //@fn src/repository/resources/chain.rs :: impl<T: Block> Chain<T> :: difference
    //@sigsub R4 "<C: AsRef<Chain<T>>>" ""
    //@sigsub R4 "other: &C" "other: &Chain<T>"
    //@sub R4 "let other = other.as_ref();" "let other = other;"
    //@spec
        requires canonical(self.0@), canonical(other.0@),
        ensures
            canonical(r.0@),
            forall|x: int| in_view(r.0@, x) <==> (in_view(self.0@, x) && !in_view(other.0@, x)),
    //@/spec
    //@ghost begin
        proof { T::ord_law(); }
    //@/ghost
    // closure contract (R2) written as a //@sub because Verus only parses `|x| -> (b: T) ensures ..`
    // when the closure body is a block: the body expression is wrapped in `{ }`, text unchanged
    //@sub R2 "|item| (item.min(), item.max())" "|item| -> (b: (T::Item, T::Item)) ensures T::val(b.0) == item.lo(), T::val(b.1) == item.hi() { (item.min(), item.max()) }"
    //@loop "loop"
            invariant_except_break
                canonical(self.0@), canonical(other.0@),
                self_iter.obeys_prophetic_iter_laws(), other_iter.obeys_prophetic_iter_laws(),
                self_iter.decrease() is Some, other_iter.decrease() is Some,
                iter_at(self_iter.remaining(), self.0@), 1 <= ipos(self_iter.remaining(), self.0@),
                iter_at(other_iter.remaining(), other.0@),
                cur_other(other_item, ipos(other_iter.remaining(), other.0@), other.0@),
                self.0@[ipos(self_iter.remaining(), self.0@) - 1].lo() <= T::val(self_item.0) <= T::val(self_item.1),
                T::val(self_item.1) == self.0@[ipos(self_iter.remaining(), self.0@) - 1].hi(),
                prefix_hi_below(other.0@, oidx(other_item, ipos(other_iter.remaining(), other.0@)), T::val(self_item.0)),
                canonical(res@),
                all_hi_below(res@, T::val(self_item.0) - 1),
                diff_below(res@, self.0@, other.0@, T::val(self_item.0)),
            ensures
                canonical(res@),
                diff_all(res@, self.0@, other.0@),
            decreases
                self_iter.decrease().unwrap(),
                (if other_item.is_some() { other_iter.decrease().unwrap() + 1 } else { 0 }),
                T::val(self_item.1) - T::val(self_item.0),
    //@/loop
    // no loopiso: `invariant_except_break`/`ensures` are rejected under loop_isolation(false), so the
    // facts needed inside the loop are restated in the invariant and ord_law is re-called in the body
    //@ghost after "let mut take_next_other = false;"
            let ghost res0 = res@;
            proof { T::ord_law(); }
    //@/ghost
    //@ghost before "if take_next_other {"
            proof {
                let s = self.0@;
                let o = other.0@;
                let si = ipos(self_iter.remaining(), s) - 1;
                let oi = oidx(other_item, ipos(other_iter.remaining(), o));
                let lo = T::val(self_min);
                let f = if take_next_self { T::val(self_max) + 1 } else { T::val(self_item.0) };
                let pushed = res@.len() != res0.len();
                lemma_step(s, o, res0, res@, si, oi, lo, f, pushed);
                if take_next_self { lemma_advance_self(s, o, res@, si, f); }
                assert(take_next_other ==> oi < o.len() && o[oi].hi() < f);
            }
    //@/ghost
    //@end
}

impl<T: Block> core::ops::Deref for Chain<T> {
    type Target = [T];
    //@fn src/repository/resources/chain.rs :: impl<T: Block> ops::Deref for Chain<T> :: deref
    //@spec
        ensures r@ == self.0@,
    //@/spec
    //@end
}

} // verus!
fn main() {}
