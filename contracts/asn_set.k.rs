// Unit asn_set (C13), Kani side: derived order of Asn is the u32 order (complete);
// merge iterators of SmallAsnSet against the mathematical set operations (BOUNDED:
// both operands at most 3 elements, element values fully symbolic).
//@features ca,rtr,slurm

//@append src/resources/asn.rs
#[cfg(any(kani, verif_replay))]
#[allow(dead_code, unused)]
mod verif_asn_set {
    use super::*;
    use crate::verif_support::{assume, reach};

    //@harness asn_ord_is_u32 K fn=derive(Ord,Eq)(Asn)
    verif_harness!{ asn_ord_is_u32; |a: u32, b: u32| {
        let (x, y) = (Asn::from_u32(a), Asn::from_u32(b));
        assert!(x.cmp(&y) == a.cmp(&b), "derived Ord on Asn is numeric order");
        assert!(x.partial_cmp(&y) == Some(a.cmp(&b)), "derived PartialOrd agrees");
        assert!((x == y) == (a == b), "derived PartialEq is numeric equality");
        assert!(x.into_u32() == a, "from_u32/into_u32 round trip");
        assert!(x.to_raw() == a.to_be_bytes(), "to_raw is big-endian");
    }}

    /// a strictly increasing set of n <= 3 symbolic elements
    fn mkset(n: u8, a: u32, b: u32, c: u32) -> (SmallAsnSet, [u32; 3], usize) {
        assume(n <= 3);
        if n >= 2 { assume(a < b); }
        if n >= 3 { assume(b < c); }
        let arr = [a, b, c];
        let mut v = Vec::new();
        let mut i = 0;
        while i < n as usize { v.push(Asn::from_u32(arr[i])); i += 1; }
        (SmallAsnSet(v), arr, n as usize)
    }
    fn has(arr: &[u32; 3], n: usize, x: u32) -> bool {
        (n > 0 && arr[0] == x) || (n > 1 && arr[1] == x) || (n > 2 && arr[2] == x)
    }
    /// drain an iterator (at most 6 items + end), checking strict increase
    fn drain<I: Iterator<Item = Asn>>(mut it: I) -> ([u32; 6], usize) {
        let mut out = [0u32; 6];
        let mut k = 0;
        while k < 7 {
            match it.next() {
                None => break,
                Some(x) => {
                    assert!(k < 6, "iterator yields more than |left|+|right| items");
                    if k > 0 { assert!(out[k - 1] < x.into_u32(), "output strictly increasing"); }
                    out[k] = x.into_u32();
                    k += 1;
                }
            }
        }
        assert!(it.next().is_none(), "iterator stays exhausted");
        (out, k)
    }
    fn out_has(out: &[u32; 6], k: usize, x: u32) -> bool {
        let mut i = 0;
        let mut r = false;
        while i < 6 { if i < k && out[i] == x { r = true; } i += 1; }
        r
    }

    macro_rules! op_harness { ($name:ident, $bound:expr, $op:ident, $law:expr) => {
        verif_harness!{ #[kani::unwind(8)] $name; |n: u8, a: u32, b: u32, c: u32, m: u8, d: u32, e: u32, f: u32, probe: u32| {
            assume(n <= $bound && m <= $bound);
            let (l, la, ln) = mkset(n, a, b, c);
            let (r, ra, rn) = mkset(m, d, e, f);
            let inl = has(&la, ln, probe); let inr = has(&ra, rn, probe);
            let (o, k) = drain(l.$op(&r));
            let law: fn(bool, bool) -> bool = $law;
            assert!(out_has(&o, k, probe) == law(inl, inr), stringify!($op));
            assert!(l.len() == ln && l.is_empty() == (ln == 0), "len/is_empty");
        }}
    }}
    //@harness asn_union_kb_n2 Kb fn=SmallSetUnion::next bound="both operands <= 2 elements, values symbolic" timeout=900 thorough
    op_harness!(asn_union_kb_n2, 2, union, |l, r| l || r);
    //@harness asn_intersection_kb_n2 Kb fn=SmallSetIntersection::next bound="both operands <= 2 elements, values symbolic" timeout=900 thorough
    op_harness!(asn_intersection_kb_n2, 2, intersection, |l, r| l && r);
    //@harness asn_difference_kb_n2 Kb fn=SmallSetDifference::next bound="both operands <= 2 elements, values symbolic" timeout=900 thorough
    op_harness!(asn_difference_kb_n2, 2, difference, |l, r| l && !r);
    //@harness asn_symdiff_kb_n2 Kb fn=SmallSetSymmetricDifference::next bound="both operands <= 2 elements, values symbolic" timeout=900 thorough
    op_harness!(asn_symdiff_kb_n2, 2, symmetric_difference, |l, r| l != r);
}
//@end
