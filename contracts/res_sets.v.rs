// Unit res_sets (C03, C01): the thin wrappers around `Chain` --
//   SharedChain::{from_owned, empty, as_chain, deref, from_iter (R3), eq (R3)}            (chain.rs)
//   AsBlocks / IpBlocks::{empty, is_empty, from_iter (R3), from_resources, verify_issued, verify_covered,
//       contains, intersection, intersection_assign, difference, union}, AsBlocks::contains_asn,
//       IpBlocks::{contains_roa, contains_block, intersects_block},
//       AsResources / IpResources::{inherit, missing, blocks}                               (asres.rs, ipres.rs)
//   ResourceSet::{new, asn, ipv4, ipv6, is_empty, contains, contains_roa_address, union, intersection,
//       difference}, Deref / From<IpBlocks> for Ipv4Blocks, Ipv6Blocks                      (set.rs, ipres.rs)
//   RequestResourceLimit::{is_empty, apply_to}                                              (ca/provisioning.rs)
// against the mathematical view (`in_view`) of the chain they wrap: v(x) = `sv` / `as_v` / `ip_v`.
// The contracts that other units assume through contract links (//@stub res_sets :: ...: AsBlocks /
// IpBlocks::{empty, verify_issued}, IpBlocks::{is_empty, contains_roa}, AsBlocks::contains_asn) are stated
// in the set-level vocabulary of shared/resview_vocab.v.rs (`as_set` / `ip_set`, `as_wf` / `ip_wf`, ...),
// which this unit defines from the block sequences.
// The chain operations themselves (is_encompassed, trim, difference, contains_item, eq, from_iter) are
// used through the contracts proved in units chain_query / chain_trim / chain_diff / chain_build
// (modularity; see res_sets.trusted).  C01 clauses: AsBlocks/IpBlocks::verify_issued, verify_covered.
use vstd::prelude::*;
use vstd::std_specs::cmp::*;
use core::cmp::Ordering;
use core::cmp::{min, max};
use core::ops;
use core::mem;
use std::sync::Arc;

verus! {

//@include shared/chain_env.v.rs

// ---- set-level vocabulary of this unit -------------------------------------------------------
/// r denotes a ∩ b
pub open spec fn view_inter<T: Block>(r: Seq<T>, a: Seq<T>, b: Seq<T>) -> bool {
    forall|x: int| #![trigger in_view(r, x)] #![trigger in_view(a, x)] #![trigger in_view(b, x)]
        in_view(r, x) <==> (in_view(a, x) && in_view(b, x))
}
/// r denotes a \ b
pub open spec fn view_diff<T: Block>(r: Seq<T>, a: Seq<T>, b: Seq<T>) -> bool {
    forall|x: int| #![trigger in_view(r, x)] #![trigger in_view(a, x)] #![trigger in_view(b, x)]
        in_view(r, x) <==> (in_view(a, x) && !in_view(b, x))
}
/// r denotes a ∪ b
pub open spec fn view_union<T: Block>(r: Seq<T>, a: Seq<T>, b: Seq<T>) -> bool {
    forall|x: int| #![trigger in_view(r, x)] #![trigger in_view(a, x)] #![trigger in_view(b, x)]
        in_view(r, x) <==> (in_view(a, x) || in_view(b, x))
}
/// the set of integers denoted by a block sequence
pub open spec fn set_of<T: Block>(s: Seq<T>) -> ISet<int> {
    ISet::new(|x: int| in_view(s, x))
}
/// the closed interval [lo, hi] lies inside one block of s
pub open spec fn one_block_covers<T: Block>(s: Seq<T>, lo: int, hi: int) -> bool {
    exists|i: int| 0 <= i < s.len() && (#[trigger] s[i]).lo() <= lo && hi <= s[i].hi()
}
/// the closed interval [lo, hi] meets one block of s
pub open spec fn one_block_meets<T: Block>(s: Seq<T>, lo: int, hi: int) -> bool {
    exists|i: int| 0 <= i < s.len() && (#[trigger] s[i]).lo() <= hi && s[i].hi() >= lo
}

pub mod lem {
use super::*;

/// a sequence of well-formed blocks denotes the empty set exactly when it has no block
pub proof fn lemma_empty_view<T: Block>(s: Seq<T>)
    requires blocks_ok(s),
    ensures (s.len() == 0) == (forall|x: int| !in_view(s, x)),
{
    if s.len() > 0 { assert(in_view(s, s[0].lo())); }
}

/// the denoted set of a sequence without blocks is empty
pub broadcast proof fn lemma_set_empty<T: Block>(a: Seq<T>)
    requires a.len() == 0,
    ensures #[trigger] set_of(a) == ISet::<int>::empty(),
{
    assert(set_of(a) =~= ISet::<int>::empty());
}
/// view_subset is the subset relation of the denoted sets
pub broadcast proof fn lemma_set_subset<T: Block>(a: Seq<T>, b: Seq<T>)
    ensures #![trigger view_subset(a, b)] #![trigger set_of(a).subset_of(set_of(b))]
        view_subset(a, b) == set_of(a).subset_of(set_of(b)),
{
    if view_subset(a, b) {
        assert forall|x: int| set_of(a).contains(x) implies set_of(b).contains(x) by { assert(in_view(a, x)); }
    }
    if set_of(a).subset_of(set_of(b)) {
        assert forall|x: int| in_view(a, x) implies in_view(b, x) by {
            assert(set_of(a).contains(x));
            assert(set_of(b).contains(x));
        }
    }
}
/// view_inter is intersection of the denoted sets
pub broadcast proof fn lemma_set_inter<T: Block>(r: Seq<T>, a: Seq<T>, b: Seq<T>)
    requires #[trigger] view_inter(r, a, b),
    ensures set_of(r) == set_of(a).intersect(set_of(b)),
{
    assert(set_of(r) =~= set_of(a).intersect(set_of(b)));
}

/// v is the concatenation of element-wise clones of a and b
pub open spec fn cloned_concat<T: Clone>(a: Seq<T>, b: Seq<T>, v: Seq<T>) -> bool {
    &&& v.len() == a.len() + b.len()
    &&& forall|i: int| 0 <= i < a.len() ==> cloned(#[trigger] a[i], v[i])
    &&& forall|i: int| 0 <= i < b.len() ==> cloned(#[trigger] b[i], v[a.len() + i])
}

/// clones keep their bounds: the concatenation is a well-formed block list denoting a ∪ b
pub proof fn lemma_cloned_concat<T: Block>(a: Seq<T>, b: Seq<T>, v: Seq<T>)
    requires cloned_concat(a, b, v), blocks_ok(a), blocks_ok(b),
    ensures blocks_ok(v), view_union(v, a, b),
{
    T::ord_law();
    let n = a.len() as int;
    assert forall|i: int| 0 <= i < v.len() implies
        (#[trigger] v[i]).lo() == (if i < n { a[i].lo() } else { b[i - n].lo() })
        && v[i].hi() == (if i < n { a[i].hi() } else { b[i - n].hi() }) by {
        if i < n { assert(cloned(a[i], v[i])); } else { assert(cloned(b[i - n], v[n + (i - n)])); }
    }
    assert forall|x: int| #![trigger in_view(v, x)] #![trigger in_view(a, x)] #![trigger in_view(b, x)]
        in_view(v, x) <==> (in_view(a, x) || in_view(b, x)) by {
        if in_view(v, x) {
            let i = choose|i: int| 0 <= i < v.len() && (#[trigger] v[i]).lo() <= x <= v[i].hi();
            if i < n { assert(a[i].lo() <= x <= a[i].hi()); } else { assert(b[i - n].lo() <= x <= b[i - n].hi()); }
        }
        if in_view(a, x) {
            let i = choose|i: int| 0 <= i < a.len() && (#[trigger] a[i]).lo() <= x <= a[i].hi();
            assert(v[i].lo() <= x <= v[i].hi());
        }
        if in_view(b, x) {
            let i = choose|i: int| 0 <= i < b.len() && (#[trigger] b[i]).lo() <= x <= b[i].hi();
            assert(v[n + i].lo() <= x <= v[n + i].hi());
        }
    }
}

/// in a canonical chain a non-empty interval lies in the set exactly when one block covers it
/// (neighbouring blocks are separated by a gap)
pub proof fn lemma_interval_covered<T: Block>(s: Seq<T>, lo: int, hi: int)
    requires canonical(s), lo <= hi,
    ensures one_block_covers(s, lo, hi) == (forall|x: int| lo <= x <= hi ==> in_view(s, x)),
{
    if one_block_covers(s, lo, hi) {
        let i = choose|i: int| 0 <= i < s.len() && (#[trigger] s[i]).lo() <= lo && hi <= s[i].hi();
        assert forall|x: int| lo <= x <= hi implies in_view(s, x) by {
            assert(s[i].lo() <= x <= s[i].hi());
        }
    }
    if forall|x: int| lo <= x <= hi ==> in_view(s, x) {
        assert(in_view(s, lo));
        let j = choose|j: int| 0 <= j < s.len() && (#[trigger] s[j]).lo() <= lo <= s[j].hi();
        if hi > s[j].hi() {
            let x = s[j].hi() + 1;
            assert(in_view(s, x));
            let k = choose|k: int| 0 <= k < s.len() && (#[trigger] s[k]).lo() <= x <= s[k].hi();
            if k < j { assert(s[k].hi() + 1 < s[j].lo()); }
            if k > j { assert(s[j].hi() + 1 < s[k].lo()); }
            assert(false);
        }
        assert(s[j].lo() <= lo && hi <= s[j].hi());
    }
}

/// a non-empty interval meets the set exactly when it meets one block
pub proof fn lemma_interval_meets<T: Block>(s: Seq<T>, lo: int, hi: int)
    requires blocks_ok(s), lo <= hi,
    ensures one_block_meets(s, lo, hi) == (exists|x: int| lo <= x <= hi && in_view(s, x)),
{
    if one_block_meets(s, lo, hi) {
        let i = choose|i: int| 0 <= i < s.len() && (#[trigger] s[i]).lo() <= hi && s[i].hi() >= lo;
        let x = if s[i].lo() >= lo { s[i].lo() } else { lo };
        assert(s[i].lo() <= x <= s[i].hi());
        assert(lo <= x <= hi && in_view(s, x));
    }
    if exists|x: int| lo <= x <= hi && in_view(s, x) {
        let x = choose|x: int| lo <= x <= hi && in_view(s, x);
        let i = choose|i: int| 0 <= i < s.len() && (#[trigger] s[i]).lo() <= x <= s[i].hi();
        assert(s[i].lo() <= hi && s[i].hi() >= lo);
    }
}

} // mod lem

// ---- the chain operations, through the contracts proved in the chain units -------------------
impl<T: Block> Chain<T> {
    //@fn src/repository/resources/chain.rs :: impl<T: Block> Chain<T> :: as_slice
    //@spec
        ensures r@ == self.0@,
    //@/spec
    //@end

    // R9: `unsafe { mem::transmute::<&[T], _>(&[]) }` -- the empty slice seen as a chain
    //@fn src/repository/resources/chain.rs :: impl<T: Block> Chain<T> :: empty external_body
    //@spec
        ensures r.0@.len() == 0,
    //@/spec
    //@end

    /// proved in unit chain_query (Chain::contains_item)
    //@stub chain_query :: contains_item
    pub fn contains_item(&self, item: T::Item) -> (r: bool)
    //@end

    /// proved in unit chain_query (Chain::is_encompassed, R4)
    //@stub chain_query :: Chain<T> :: is_encompassed
    pub fn is_encompassed(&self, other: &Chain<T>) -> (r: bool)
    //@end

    /// proved in unit chain_query (PartialEq for Chain<T> :: eq, emitted there as eq_impl)
    //@stub chain_query :: eq_impl
    pub fn eq_impl(&self, other: &Chain<T>) -> (r: bool)
    //@end

    /// proved in unit chain_trim (Chain::trim, R4)
    //@stub chain_trim :: trim
    pub fn trim(&self, other: &Chain<T>) -> (r: Result<(), OwnedChain<T>>)
    //@end

    /// proved in unit chain_diff (Chain::difference, R4)
    //@stub chain_diff :: difference
    pub fn difference(&self, other: &Chain<T>) -> (r: OwnedChain<T>)
    //@end
}

impl<T: Block> ops::Deref for Chain<T> {
    type Target = [T];
    //@fn src/repository/resources/chain.rs :: impl<T: Block> ops::Deref for Chain<T> :: deref
    //@spec
        ensures r@ == self.0@,
    //@/spec
    //@end
}

impl<T: Block> OwnedChain<T> {
    // R9: `unsafe { mem::transmute(self.0.as_slice()) }` -- the vector's slice seen as a chain
    //@fn src/repository/resources/chain.rs :: impl<T: Block> OwnedChain<T> :: as_chain external_body
    //@spec
        ensures r.0@ == self.0@,
    //@/spec
    //@end

    /// proved in unit chain_build (iter::FromIterator<T> for OwnedChain<T> :: from_iter, emitted there
    /// as from_iter_impl with the R12 call shape `iter: Vec<T>`)
    //@stub chain_build :: from_iter_impl
    pub fn from_iter(iter: Vec<T>) -> (r: Self)
    //@end
}

impl<T: Block> ops::Deref for OwnedChain<T> {
    type Target = Chain<T>;
    //@fn src/repository/resources/chain.rs :: impl<T: Block> ops::Deref for OwnedChain<T> :: deref
    //@spec
        ensures r.0@ == self.0@,
    //@/spec
    //@end
}

// ---- SharedChain --------------------------------------------------------------------------------
//@item src/repository/resources/chain.rs :: pub struct SharedChain<T: Block + 'static> pubfields

/// the block sequence held by a shared chain (`None` is the empty chain)
pub open spec fn sv<T: Block>(s: SharedChain<T>) -> Seq<T> {
    match s.0 { Some(a) => a.0@, None => Seq::empty() }
}

impl<T: Block + 'static> SharedChain<T> {
    //@fn src/repository/resources/chain.rs :: impl<T: Block + 'static> SharedChain<T> :: from_owned
    //@spec
        ensures sv(r) == owned.0@,
    //@/spec
    //@end

    //@fn src/repository/resources/chain.rs :: impl<T: Block + 'static> SharedChain<T> :: empty
    //@spec
        ensures sv(r) == Seq::<T>::empty(),
    //@/spec
    //@end

    //@fn src/repository/resources/chain.rs :: impl<T: Block + 'static> SharedChain<T> :: as_chain
    //@spec
        ensures r.0@ == sv(*self),
    //@/spec
    //@end
}

impl<T: Block + 'static> SharedChain<T> {
    // R3: iter::FromIterator<T> for SharedChain<T> :: from_iter as an inherent fn; R12: the generic
    // `I: IntoIterator<Item=T>` is given the call shape `Vec<T>` under which OwnedChain::from_iter
    // is proved (chain_build), and `.into()` (From<F> for SharedChain<T> with F = OwnedChain<T>:
    // `Self::from_owned(OwnedChain::from(f))`, core's reflexive From being the identity) is `from_owned`
    //@fn src/repository/resources/chain.rs :: impl<T: Block + 'static> iter::FromIterator<T> for SharedChain<T> :: from_iter as=from_iter_impl
    //@sigsub R12 "<I>(iter: I)" "(iter: Vec<T>)"
    //@sigsub R12 "where I: IntoIterator<Item=T>" ""
    //@sub R12 "OwnedChain::from_iter(iter).into()" "SharedChain::from_owned(OwnedChain::from_iter(iter))"
    //@spec
        requires blocks_ok(iter@),
        ensures
            canonical(sv(r)),
            forall|x: int| #![trigger in_view(sv(r), x)] #![trigger in_view(iter@, x)] in_view(sv(r), x) <==> in_view(iter@, x),
    //@/spec
    //@end
}

impl<T: Block + 'static> SharedChain<T> {
    // R3: PartialEq<Other> for SharedChain<T> :: eq as an inherent fn (and Chain's PartialEq::eq under
    // the name eq_impl it has in unit chain_query); R4: `Other: AsRef<Chain<T>>` specialised to
    // &Chain<T>.  `==` on AsBlocks / IpBlocks (derive(PartialEq)) is this function with
    // Other = SharedChain<T>, whose as_ref() is as_chain().
    //@fn src/repository/resources/chain.rs :: impl<T: Block, Other: AsRef<Chain<T>>> PartialEq<Other> for SharedChain<T> :: eq as=eq_impl
    //@sigsub R4 "other: &Other" "other: &Chain<T>"
    //@sub R4 "self.as_chain().eq(other.as_ref())" "self.as_chain().eq_impl(other)"
    //@spec
        requires canonical(sv(*self)), canonical(other.0@),
        ensures r == view_eq(sv(*self), other.0@),
    //@/spec
    //@end
}

/// std: the items yielded by `a.iter().cloned().chain(b.iter().cloned())`, as a Vec -- clones of
/// the blocks of a followed by clones of the blocks of b (iterator adapters have no Verus model)
#[verifier::external_body]
pub fn cloned_chain<T: Block>(a: &Chain<T>, b: &Chain<T>) -> (r: Vec<T>)
    ensures lem::cloned_concat(a.0@, b.0@, r@),
{ a.iter().cloned().chain(b.iter().cloned()).collect() }

impl<T: Block + 'static> ops::Deref for SharedChain<T> {
    type Target = Chain<T>;
    //@fn src/repository/resources/chain.rs :: impl<T: Block + 'static> ops::Deref for SharedChain<T> :: deref
    //@spec
        ensures r.0@ == sv(*self),
    //@/spec
    //@end
}

impl<T: Block + 'static> Clone for SharedChain<T> {
    /// `#[derive(Clone)]` on SharedChain: `Option<Arc<_>>::clone` shares the same OwnedChain
    /// (assumed: vstd has no contract for Arc::clone / Option<Arc<_>>::clone)
    #[verifier::external_body]
    fn clone(&self) -> (r: Self)
        ensures sv(r) == sv(*self),
    { SharedChain(self.0.clone()) }
}

// ---- items and blocks: Asn / Addr are the real newtypes; AsBlock / IpBlock are opaque stand-ins ----
//@item src/resources/asn.rs :: pub struct Asn pubfields keepderive=Clone,Copy,Eq,Ord,PartialEq,PartialOrd
//@item src/repository/resources/ipres.rs :: pub struct Addr pubfields keepderive=Clone,Copy,Eq,Ord,PartialEq,PartialOrd

/// opaque stand-in for asres::AsBlock (enum Id(Asn) | Range(AsRange)); its `Block` leaf contract
/// (new/min/max/next/previous, ord_law) is proved on the real type by Kani unit block_leaves
#[verifier::external_body]
#[derive(Clone, Copy)]
pub struct AsBlock { _o: u8 }
pub uninterp spec fn as_block_lo(b: AsBlock) -> int;
pub uninterp spec fn as_block_hi(b: AsBlock) -> int;

impl Block for AsBlock {
    type Item = Asn;
    open spec fn val(item: Asn) -> int { item.0 as int }
    open spec fn lo(&self) -> int { as_block_lo(*self) }
    open spec fn hi(&self) -> int { as_block_hi(*self) }
    open spec fn item_min() -> int { 0 }
    open spec fn item_max() -> int { u32::MAX as int }
    #[verifier::external_body]
    proof fn ord_law() {}
    #[verifier::external_body]
    fn new(min: Asn, max: Asn) -> Self { unimplemented!() }
    #[verifier::external_body]
    fn min(&self) -> Asn { unimplemented!() }
    #[verifier::external_body]
    fn max(&self) -> Asn { unimplemented!() }
    #[verifier::external_body]
    fn next(item: Asn) -> Option<Asn> { unimplemented!() }
    #[verifier::external_body]
    fn previous(item: Asn) -> Option<Asn> { unimplemented!() }
}

/// opaque stand-in for ipres::IpBlock (enum Prefix(Prefix) | Range(AddressRange)); leaf contract
/// proved on the real type by Kani unit block_leaves
#[verifier::external_body]
#[derive(Clone, Copy)]
pub struct IpBlock { _o: u8 }
pub uninterp spec fn ip_block_lo(b: IpBlock) -> int;
pub uninterp spec fn ip_block_hi(b: IpBlock) -> int;

impl Block for IpBlock {
    type Item = Addr;
    open spec fn val(item: Addr) -> int { item.0 as int }
    open spec fn lo(&self) -> int { ip_block_lo(*self) }
    open spec fn hi(&self) -> int { ip_block_hi(*self) }
    open spec fn item_min() -> int { 0 }
    open spec fn item_max() -> int { u128::MAX as int }
    #[verifier::external_body]
    proof fn ord_law() {}
    #[verifier::external_body]
    fn new(min: Addr, max: Addr) -> Self { unimplemented!() }
    #[verifier::external_body]
    fn min(&self) -> Addr { unimplemented!() }
    #[verifier::external_body]
    fn max(&self) -> Addr { unimplemented!() }
    #[verifier::external_body]
    fn next(item: Addr) -> Option<Addr> { unimplemented!() }
    #[verifier::external_body]
    fn previous(item: Addr) -> Option<Addr> { unimplemented!() }
}

// ---- resource choice, overclaim mode ------------------------------------------------------------
//@item src/repository/resources/choice.rs :: pub enum ResourcesChoice<T>
//@item src/repository/cert.rs :: pub enum Overclaim keepderive=Clone,Copy

// ---- AS resources ---------------------------------------------------------------------------------
//@item src/repository/resources/asres.rs :: pub struct AsBlocks pubfields
//@item src/repository/resources/asres.rs :: pub struct AsResources pubfields
//@item src/repository/resources/asres.rs :: pub struct OverclaimedAsResources pubfields

/// the block sequence of an AsBlocks value
pub open spec fn as_v(b: AsBlocks) -> Seq<AsBlock> { sv(b.0) }
// ---- set-level vocabulary of the linked contracts (shared/resview_vocab.v.rs), defined from as_v ----
/// the set of AS numbers denoted
pub open spec fn as_set(b: AsBlocks) -> ISet<int> { set_of(as_v(b)) }
/// the chain is in canonical form
pub open spec fn as_wf(b: AsBlocks) -> bool { canonical(as_v(b)) }
/// number of blocks of the chain
pub open spec fn as_len(b: AsBlocks) -> nat { as_v(b).len() }
/// block-level refinement of the verify_issued contract (the assuming units keep it abstract): which
/// block sequence is returned, not only which set
pub open spec fn as_issued_blocks(issuer: AsBlocks, res: AsResources, mode: Overclaim, r: Result<AsBlocks, OverclaimedAsResources>) -> bool {
    &&& match res.0 {
            ResourcesChoice::Missing => r matches Ok(b) && as_v(b).len() == 0,
            ResourcesChoice::Inherit => r matches Ok(b) && as_v(b) == as_v(issuer),
            ResourcesChoice::Blocks(claim) => match mode {
                Overclaim::Refuse => r.is_ok() == view_subset(as_v(claim), as_v(issuer))
                    && (r matches Ok(b) ==> as_v(b) == as_v(claim)),
                Overclaim::Trim => r matches Ok(b) && view_inter(as_v(b), as_v(claim), as_v(issuer)),
            },
        }
    &&& (r matches Ok(b) ==> canonical(as_v(b)) && view_subset(as_v(b), as_v(issuer)))
}
// `as_res_wf` / `ip_res_wf` (the claimed blocks inside resources are canonical), `as_issued` / `ip_issued`
// (the set a certificate validly receives from its issuer): shared with the assuming units
//@include shared/resview_vocab.v.rs

impl Clone for AsBlocks {
    /// rustc's expansion of `#[derive(Clone)]` on AsBlocks, written out (Verus attaches no
    /// specification to a derived Clone that is not Copy); checked against SharedChain::clone
    fn clone(&self) -> (r: Self)
        ensures as_v(r) == as_v(*self),
    { AsBlocks(self.0.clone()) }
}

impl OverclaimedAsResources {
    //@fn src/repository/resources/asres.rs :: impl OverclaimedAsResources :: new
    //@end
}

//@item src/repository/resources/asres.rs :: pub struct InheritedAsResources pubfields

impl AsResources {
    //@fn src/repository/resources/asres.rs :: impl AsResources :: inherit
    //@spec
        ensures r.0 == ResourcesChoice::<AsBlocks>::Inherit,
    //@/spec
    //@end

    //@fn src/repository/resources/asres.rs :: impl AsResources :: missing
    //@spec
        ensures r.0 == ResourcesChoice::<AsBlocks>::Missing,
    //@/spec
    //@end

    //@fn src/repository/resources/asres.rs :: impl AsResources :: blocks
    //@spec
        ensures
            r.0 == (if as_v(blocks).len() == 0 { ResourcesChoice::Missing } else { ResourcesChoice::Blocks(blocks) }),
            canonical(as_v(blocks)) ==> as_res_wf(r),
    //@/spec
    //@end
}

impl AsBlocks {
    // R3: FromIterator<AsBlock> for AsBlocks :: from_iter as an inherent fn calling SharedChain's
    // (from_iter_impl above); R12: call shape `iter: Vec<AsBlock>` as there
    //@fn src/repository/resources/asres.rs :: impl FromIterator<AsBlock> for AsBlocks :: from_iter as=from_iter_impl
    //@sigsub R12 "<I: IntoIterator<Item = AsBlock>>(iter: I)" "(iter: Vec<AsBlock>)"
    //@sub R3 "SharedChain::from_iter(iter)" "SharedChain::from_iter_impl(iter)"
    //@spec
        requires blocks_ok(iter@),
        ensures
            canonical(as_v(r)),
            forall|x: int| #![trigger in_view(as_v(r), x)] #![trigger in_view(iter@, x)] in_view(as_v(r), x) <==> in_view(iter@, x),
    //@/spec
    //@end

    //@fn src/repository/resources/asres.rs :: impl AsBlocks :: from_resources
    //@spec
        ensures
            match res.0 {
                ResourcesChoice::Missing => r matches Ok(b) && as_v(b).len() == 0,
                ResourcesChoice::Inherit => r.is_err(),
                ResourcesChoice::Blocks(some) => r matches Ok(b) && b == some,
            },
    //@/spec
    //@end

    //@fn src/repository/resources/asres.rs :: impl AsBlocks :: empty
    //@spec
        ensures as_len(r) == 0, as_wf(r), as_set(r) == ISet::<int>::empty(),
    //@/spec
    //@ghost begin
        broadcast use lem::lemma_set_empty;
    //@/ghost
    //@end

    //@fn src/repository/resources/asres.rs :: impl AsBlocks :: is_empty
    //@spec
        ensures
            r == (as_v(*self).len() == 0),
            blocks_ok(as_v(*self)) ==> r == (forall|x: int| !in_view(as_v(*self), x)),
    //@/spec
    //@ghost begin
        proof { if blocks_ok(as_v(*self)) { lem::lemma_empty_view(as_v(*self)); } }
    //@/ghost
    //@end

    //@fn src/repository/resources/asres.rs :: impl AsBlocks :: verify_issued
    //@spec
        requires as_wf(*self), as_res_wf(*res),
        ensures
            // set level: exactly the resources `as_issued` prescribes (missing / inherit / refuse / trim)
            r.is_ok() <==> as_issued(as_set(*self), *res, mode).is_some(),
            r matches Ok(b) ==> as_wf(b) && Some(as_set(b)) == as_issued(as_set(*self), *res, mode),
            // block level: which block sequence is returned
            as_issued_blocks(*self, *res, mode, r),
    //@/spec
    //@sub R12 "AsBlocks(new.into())" "AsBlocks(SharedChain::from_owned(new))"
    //@ghost begin
        broadcast use {lem::lemma_set_empty, lem::lemma_set_subset, lem::lemma_set_inter};
    //@/ghost
    //@end

    //@fn src/repository/resources/asres.rs :: impl AsBlocks :: verify_covered
    //@spec
        requires canonical(as_v(*self)), as_res_wf(*issuer),
        ensures
            r.is_ok() == match issuer.0 {
                ResourcesChoice::Missing => forall|x: int| !in_view(as_v(*self), x),
                ResourcesChoice::Inherit => true,
                ResourcesChoice::Blocks(b) => view_subset(as_v(*self), as_v(b)),
            },
    //@/spec
    //@ghost begin
        proof { lem::lemma_empty_view(as_v(*self)); }
    //@/ghost
    //@end

    //@fn src/repository/resources/asres.rs :: impl AsBlocks :: contains_asn
    //@spec
        requires as_wf(*self),
        ensures r == as_set(*self).contains(asn.0 as int),
    //@/spec
    //@end

    //@fn src/repository/resources/asres.rs :: impl AsBlocks :: contains
    //@spec
        requires canonical(as_v(*self)), canonical(as_v(*other)),
        ensures r == view_subset(as_v(*other), as_v(*self)),
    //@/spec
    //@end

    //@fn src/repository/resources/asres.rs :: impl AsBlocks :: intersection
    //@spec
        requires canonical(as_v(*self)), canonical(as_v(*other)),
        ensures canonical(as_v(r)), view_inter(as_v(r), as_v(*self), as_v(*other)),
    //@/spec
    //@end

    //@fn src/repository/resources/asres.rs :: impl AsBlocks :: intersection_assign
    //@spec
        requires canonical(as_v(*old(self))), canonical(as_v(*other)),
        ensures canonical(as_v(*final(self))), view_inter(as_v(*final(self)), as_v(*old(self)), as_v(*other)),
    //@/spec
    //@end

    //@fn src/repository/resources/asres.rs :: impl AsBlocks :: difference
    //@spec
        requires canonical(as_v(*self)), canonical(as_v(*other)),
        ensures canonical(as_v(r)), view_diff(as_v(r), as_v(*self), as_v(*other)),
    //@/spec
    //@end

    // R12: `a.iter().cloned().chain(b.iter().cloned())` is represented by the Vec of the items it
    // yields (cloned_chain) and `.collect()` by the FromIterator impl it dispatches to
    //@fn src/repository/resources/asres.rs :: impl AsBlocks :: union
    //@sub R12 "self.0.iter().cloned().chain(other.0.iter().cloned()).collect()" "SharedChain::from_iter_impl(cloned_chain(&self.0, &other.0))"
    //@spec
        requires canonical(as_v(*self)), canonical(as_v(*other)),
        ensures canonical(as_v(r)), view_union(as_v(r), as_v(*self), as_v(*other)),
    //@/spec
    //@ghost begin
        proof {
            assert forall|v: Seq<AsBlock>| #[trigger] lem::cloned_concat(as_v(*self), as_v(*other), v) implies
                blocks_ok(v) && view_union(v, as_v(*self), as_v(*other))
            by { lem::lemma_cloned_concat(as_v(*self), as_v(*other), v); }
        }
    //@/ghost
    //@end
}

// ---- IP resources ---------------------------------------------------------------------------------
//@item src/repository/resources/ipres.rs :: pub struct IpBlocks pubfields
//@item src/repository/resources/ipres.rs :: pub struct IpResources pubfields
//@item src/repository/resources/ipres.rs :: pub struct OverclaimedIpResources pubfields

/// the block sequence of an IpBlocks value
pub open spec fn ip_v(b: IpBlocks) -> Seq<IpBlock> { sv(b.0) }
// ---- set-level vocabulary of the linked contracts (shared/resview_vocab.v.rs), defined from ip_v ----
/// the set of addresses denoted
pub open spec fn ip_set(b: IpBlocks) -> ISet<int> { set_of(ip_v(b)) }
/// the chain is in canonical form
pub open spec fn ip_wf(b: IpBlocks) -> bool { canonical(ip_v(b)) }
/// number of blocks of the chain
pub open spec fn ip_len(b: IpBlocks) -> nat { ip_v(b).len() }
/// one block of the chain covers the closed interval [lo, hi]
pub open spec fn ip_covers_range(b: IpBlocks, lo: int, hi: int) -> bool { one_block_covers(ip_v(b), lo, hi) }
/// block-level refinement of the verify_issued contract (see as_issued_blocks)
pub open spec fn ip_issued_blocks(issuer: IpBlocks, res: IpResources, mode: Overclaim, r: Result<IpBlocks, OverclaimedIpResources>) -> bool {
    &&& match res.0 {
            ResourcesChoice::Missing => r matches Ok(b) && ip_v(b).len() == 0,
            ResourcesChoice::Inherit => r matches Ok(b) && ip_v(b) == ip_v(issuer),
            ResourcesChoice::Blocks(claim) => match mode {
                Overclaim::Refuse => r.is_ok() == view_subset(ip_v(claim), ip_v(issuer))
                    && (r matches Ok(b) ==> ip_v(b) == ip_v(claim)),
                Overclaim::Trim => r matches Ok(b) && view_inter(ip_v(b), ip_v(claim), ip_v(issuer)),
            },
        }
    &&& (r matches Ok(b) ==> canonical(ip_v(b)) && view_subset(ip_v(b), ip_v(issuer)))
}

impl Clone for IpBlocks {
    /// rustc's expansion of `#[derive(Clone)]` on IpBlocks, written out (see AsBlocks)
    fn clone(&self) -> (r: Self)
        ensures ip_v(r) == ip_v(*self),
    { IpBlocks(self.0.clone()) }
}

impl OverclaimedIpResources {
    //@fn src/repository/resources/ipres.rs :: impl OverclaimedIpResources :: new
    //@end
}

/// opaque stand-in for roa::RoaIpAddress { prefix, max_length }
#[verifier::external_body]
#[derive(Clone, Copy)]
pub struct RoaIpAddress { _o: u8 }
pub uninterp spec fn roa_min(a: RoaIpAddress) -> int;
pub uninterp spec fn roa_max(a: RoaIpAddress) -> int;
impl RoaIpAddress {
    /// the address range of the ROA prefix (roa.rs: `self.prefix.range()`; the prefix range is the
    /// subject of Kani unit addr_prefix)
    #[verifier::external_body]
    pub fn range(self) -> (r: (Addr, Addr))
        ensures r.0.0 as int == roa_min(self), r.1.0 as int == roa_max(self),
    { unimplemented!() }
}

//@item src/repository/resources/ipres.rs :: pub struct InheritedIpResources pubfields

impl IpResources {
    //@fn src/repository/resources/ipres.rs :: impl IpResources :: inherit
    //@spec
        ensures r.0 == ResourcesChoice::<IpBlocks>::Inherit,
    //@/spec
    //@end

    //@fn src/repository/resources/ipres.rs :: impl IpResources :: missing
    //@spec
        ensures r.0 == ResourcesChoice::<IpBlocks>::Missing,
    //@/spec
    //@end

    //@fn src/repository/resources/ipres.rs :: impl IpResources :: blocks
    //@spec
        ensures
            r.0 == (if ip_v(blocks).len() == 0 { ResourcesChoice::Missing } else { ResourcesChoice::Blocks(blocks) }),
            canonical(ip_v(blocks)) ==> ip_res_wf(r),
    //@/spec
    //@end
}

impl IpBlocks {
    // R3 / R12 as for AsBlocks::from_iter
    //@fn src/repository/resources/ipres.rs :: impl FromIterator<IpBlock> for IpBlocks :: from_iter as=from_iter_impl
    //@sigsub R12 "<I: IntoIterator<Item = IpBlock>>(iter: I)" "(iter: Vec<IpBlock>)"
    //@sub R3 "SharedChain::from_iter(iter)" "SharedChain::from_iter_impl(iter)"
    //@spec
        requires blocks_ok(iter@),
        ensures
            canonical(ip_v(r)),
            forall|x: int| #![trigger in_view(ip_v(r), x)] #![trigger in_view(iter@, x)] in_view(ip_v(r), x) <==> in_view(iter@, x),
    //@/spec
    //@end

    //@fn src/repository/resources/ipres.rs :: impl IpBlocks :: from_resources
    //@spec
        ensures
            match res.0 {
                ResourcesChoice::Missing => r matches Ok(b) && ip_v(b).len() == 0,
                ResourcesChoice::Inherit => r.is_err(),
                ResourcesChoice::Blocks(some) => r matches Ok(b) && b == some,
            },
    //@/spec
    //@end

    //@fn src/repository/resources/ipres.rs :: impl IpBlocks :: empty
    //@spec
        ensures ip_len(r) == 0, ip_wf(r), ip_set(r) == ISet::<int>::empty(),
    //@/spec
    //@ghost begin
        broadcast use lem::lemma_set_empty;
    //@/ghost
    //@end

    //@fn src/repository/resources/ipres.rs :: impl IpBlocks :: is_empty
    //@spec
        ensures
            r == (ip_len(*self) == 0),
            // consequences of the first clause (lem::lemma_empty_view, a pure fact about block sequences;
            // stated here because the assuming units keep the vocabulary abstract): a chain without blocks
            // denotes and covers nothing, a canonical chain with a block denotes something
            ip_wf(*self) ==> r == (forall|x: int| !ip_set(*self).contains(x)),
            r ==> forall|lo: int, hi: int| !#[trigger] ip_covers_range(*self, lo, hi),
    //@/spec
    //@ghost begin
        proof {
            if blocks_ok(ip_v(*self)) { lem::lemma_empty_view(ip_v(*self)); }
            assert(forall|x: int| #![trigger ip_set(*self).contains(x)] #![trigger in_view(ip_v(*self), x)]
                ip_set(*self).contains(x) == in_view(ip_v(*self), x));
        }
    //@/ghost
    //@end

    //@fn src/repository/resources/ipres.rs :: impl IpBlocks :: verify_issued
    //@spec
        requires ip_wf(*self), ip_res_wf(*res),
        ensures
            // set level: exactly the resources `ip_issued` prescribes (missing / inherit / refuse / trim)
            r.is_ok() <==> ip_issued(ip_set(*self), *res, mode).is_some(),
            r matches Ok(b) ==> ip_wf(b) && Some(ip_set(b)) == ip_issued(ip_set(*self), *res, mode),
            // block level: which block sequence is returned
            ip_issued_blocks(*self, *res, mode, r),
    //@/spec
    //@ghost begin
        broadcast use {lem::lemma_set_empty, lem::lemma_set_subset, lem::lemma_set_inter};
    //@/ghost
    //@end

    //@fn src/repository/resources/ipres.rs :: impl IpBlocks :: verify_covered
    //@spec
        requires canonical(ip_v(*self)), ip_res_wf(*issuer),
        ensures
            r.is_ok() == match issuer.0 {
                ResourcesChoice::Missing => forall|x: int| !in_view(ip_v(*self), x),
                ResourcesChoice::Inherit => true,
                ResourcesChoice::Blocks(b) => view_subset(ip_v(*self), ip_v(b)),
            },
    //@/spec
    //@ghost begin
        proof { lem::lemma_empty_view(ip_v(*self)); }
    //@/ghost
    //@end

    //@fn src/repository/resources/ipres.rs :: impl IpBlocks :: contains
    //@spec
        requires canonical(ip_v(*self)), canonical(ip_v(*other)),
        ensures r == view_subset(ip_v(*other), ip_v(*self)),
    //@/spec
    //@end

    //@fn src/repository/resources/ipres.rs :: impl IpBlocks :: intersection
    //@spec
        requires canonical(ip_v(*self)), canonical(ip_v(*other)),
        ensures canonical(ip_v(r)), view_inter(ip_v(r), ip_v(*self), ip_v(*other)),
    //@/spec
    //@end

    //@fn src/repository/resources/ipres.rs :: impl IpBlocks :: intersection_assign
    //@spec
        requires canonical(ip_v(*old(self))), canonical(ip_v(*other)),
        ensures canonical(ip_v(*final(self))), view_inter(ip_v(*final(self)), ip_v(*old(self)), ip_v(*other)),
    //@/spec
    //@end

    //@fn src/repository/resources/ipres.rs :: impl IpBlocks :: difference
    //@spec
        requires canonical(ip_v(*self)), canonical(ip_v(*other)),
        ensures canonical(ip_v(r)), view_diff(ip_v(r), ip_v(*self), ip_v(*other)),
    //@/spec
    //@end

    // R12: `self.iter()` is `self.0.iter().copied()` (an `impl Iterator` adapter without Verus model);
    // the loop runs over the slice iterator itself (`range: &IpBlock` instead of a copy)
    //@fn src/repository/resources/ipres.rs :: impl IpBlocks :: contains_roa loopiso
    //@sub R12 "in self.iter()" "in self.0.iter()"
    //@spec
        ensures
            r == ip_covers_range(*self, roa_min(*addr), roa_max(*addr)),
            ip_wf(*self) && roa_min(*addr) <= roa_max(*addr) ==>
                r == (forall|x: int| roa_min(*addr) <= x <= roa_max(*addr) ==> ip_set(*self).contains(x)),
    //@/spec
    //@ghost begin
        proof {
            IpBlock::ord_law();
            if canonical(ip_v(*self)) && roa_min(*addr) <= roa_max(*addr) {
                lem::lemma_interval_covered(ip_v(*self), roa_min(*addr), roa_max(*addr));
            }
            assert(forall|x: int| #![trigger ip_set(*self).contains(x)] #![trigger in_view(ip_v(*self), x)]
                ip_set(*self).contains(x) == in_view(ip_v(*self), x));
        }
    //@/ghost
    //@loop "in self.0.iter()" iter=it
            invariant
                it.seq().len() == ip_v(*self).len(),
                forall|i: int| 0 <= i < ip_v(*self).len() ==> *(#[trigger] it.seq()[i]) == ip_v(*self)[i],
                forall|i: int| 0 <= i < it.index@ ==> !((#[trigger] ip_v(*self)[i]).lo() <= roa_min(*addr) && roa_max(*addr) <= ip_v(*self)[i].hi()),
    //@/loop
    //@end

    // R12: `impl Into<IpBlock>` is given the call shape IpBlock (core's reflexive From/Into is the
    // identity); `self.iter()` as in contains_roa
    //@fn src/repository/resources/ipres.rs :: impl IpBlocks :: contains_block loopiso
    //@sigsub R12 "block: impl Into<IpBlock>" "block: IpBlock"
    //@sub R12 "let block = block.into();" "let block = block;"
    //@sub R12 "for range in self.iter()" "for range in self.0.iter()"
    //@spec
        ensures
            r == one_block_covers(ip_v(*self), block.lo(), block.hi()),
            canonical(ip_v(*self)) && block.lo() <= block.hi() ==>
                r == (forall|x: int| block.lo() <= x <= block.hi() ==> in_view(ip_v(*self), x)),
    //@/spec
    //@ghost begin
        proof {
            IpBlock::ord_law();
            if canonical(ip_v(*self)) && block.lo() <= block.hi() {
                lem::lemma_interval_covered(ip_v(*self), block.lo(), block.hi());
            }
        }
    //@/ghost
    //@loop "for range in self.0.iter()" iter=it
            invariant
                it.seq().len() == ip_v(*self).len(),
                forall|i: int| 0 <= i < ip_v(*self).len() ==> *(#[trigger] it.seq()[i]) == ip_v(*self)[i],
                forall|i: int| 0 <= i < it.index@ ==> !((#[trigger] ip_v(*self)[i]).lo() <= min.0 as int && max.0 as int <= ip_v(*self)[i].hi()),
    //@/loop
    //@end

    //@fn src/repository/resources/ipres.rs :: impl IpBlocks :: intersects_block loopiso
    //@sigsub R12 "block: impl Into<IpBlock>" "block: IpBlock"
    //@sub R12 "let block = block.into();" "let block = block;"
    //@sub R12 "for range in self.iter()" "for range in self.0.iter()"
    //@spec
        ensures
            r == one_block_meets(ip_v(*self), block.lo(), block.hi()),
            blocks_ok(ip_v(*self)) && block.lo() <= block.hi() ==>
                r == (exists|x: int| block.lo() <= x <= block.hi() && in_view(ip_v(*self), x)),
    //@/spec
    //@ghost begin
        proof {
            if blocks_ok(ip_v(*self)) && block.lo() <= block.hi() {
                lem::lemma_interval_meets(ip_v(*self), block.lo(), block.hi());
            }
        }
    //@/ghost
    //@loop "for range in self.0.iter()" iter=it
            invariant
                it.seq().len() == ip_v(*self).len(),
                forall|i: int| 0 <= i < ip_v(*self).len() ==> *(#[trigger] it.seq()[i]) == ip_v(*self)[i],
                forall|i: int| 0 <= i < it.index@ ==> !((#[trigger] ip_v(*self)[i]).lo() <= block.hi() && ip_v(*self)[i].hi() >= block.lo()),
    //@/loop
    //@end

    // R12 as in AsBlocks::union
    //@fn src/repository/resources/ipres.rs :: impl IpBlocks :: union
    //@sub R12 "self.0.iter().cloned().chain(other.0.iter().cloned()).collect()" "SharedChain::from_iter_impl(cloned_chain(&self.0, &other.0))"
    //@spec
        requires canonical(ip_v(*self)), canonical(ip_v(*other)),
        ensures canonical(ip_v(r)), view_union(ip_v(r), ip_v(*self), ip_v(*other)),
    //@/spec
    //@ghost begin
        proof {
            assert forall|v: Seq<IpBlock>| #[trigger] lem::cloned_concat(ip_v(*self), ip_v(*other), v) implies
                blocks_ok(v) && view_union(v, ip_v(*self), ip_v(*other))
            by { lem::lemma_cloned_concat(ip_v(*self), ip_v(*other), v); }
        }
    //@/ghost
    //@end
}

// ---- Ipv4Blocks / Ipv6Blocks, ResourceSet ---------------------------------------------------------
//@item src/repository/resources/ipres.rs :: pub struct Ipv4Blocks pubfields
//@item src/repository/resources/ipres.rs :: pub struct Ipv6Blocks pubfields
//@item src/repository/resources/set.rs :: pub struct ResourceSet pubfields
//@item src/repository/resources/set.rs :: pub struct ResourceDiff pubfields

impl ops::Deref for Ipv4Blocks {
    type Target = IpBlocks;
    //@fn src/repository/resources/ipres.rs :: impl std::ops::Deref for Ipv4Blocks :: deref
    //@spec
        ensures *r == self.0,
    //@/spec
    //@end
}
impl ops::Deref for Ipv6Blocks {
    type Target = IpBlocks;
    //@fn src/repository/resources/ipres.rs :: impl std::ops::Deref for Ipv6Blocks :: deref
    //@spec
        ensures *r == self.0,
    //@/spec
    //@end
}
/// contract vocabulary vstd attaches to `From::from` / `.into()`
impl vstd::std_specs::convert::FromSpecImpl<IpBlocks> for Ipv4Blocks {
    open spec fn obeys_from_spec() -> bool { true }
    open spec fn from_spec(v: IpBlocks) -> Self { Ipv4Blocks(v) }
}
impl vstd::std_specs::convert::FromSpecImpl<IpBlocks> for Ipv6Blocks {
    open spec fn obeys_from_spec() -> bool { true }
    open spec fn from_spec(v: IpBlocks) -> Self { Ipv6Blocks(v) }
}
impl From<IpBlocks> for Ipv4Blocks {
    //@fn src/repository/resources/ipres.rs :: impl From<IpBlocks> for Ipv4Blocks :: from
    //@end
}
impl From<IpBlocks> for Ipv6Blocks {
    //@fn src/repository/resources/ipres.rs :: impl From<IpBlocks> for Ipv6Blocks :: from
    //@end
}
impl Clone for Ipv4Blocks {
    /// rustc's expansion of `#[derive(Clone)]`, written out (see AsBlocks)
    fn clone(&self) -> (r: Self)
        ensures ip_v(r.0) == ip_v(self.0),
    { Ipv4Blocks(self.0.clone()) }
}
impl Clone for Ipv6Blocks {
    /// rustc's expansion of `#[derive(Clone)]`, written out (see AsBlocks)
    fn clone(&self) -> (r: Self)
        ensures ip_v(r.0) == ip_v(self.0),
    { Ipv6Blocks(self.0.clone()) }
}
impl Clone for ResourceSet {
    /// rustc's expansion of `#[derive(Clone)]`, written out (see AsBlocks)
    fn clone(&self) -> (r: Self)
        ensures rs_same(r, *self),
    { ResourceSet { asn: self.asn.clone(), ipv4: self.ipv4.clone(), ipv6: self.ipv6.clone() } }
}

/// all three families are in canonical form
pub open spec fn rs_wf(s: ResourceSet) -> bool {
    canonical(as_v(s.asn)) && canonical(ip_v(s.ipv4.0)) && canonical(ip_v(s.ipv6.0))
}
/// the same block sequences in all three families
pub open spec fn rs_same(a: ResourceSet, b: ResourceSet) -> bool {
    as_v(a.asn) == as_v(b.asn) && ip_v(a.ipv4.0) == ip_v(b.ipv4.0) && ip_v(a.ipv6.0) == ip_v(b.ipv6.0)
}
pub open spec fn rs_subset(a: ResourceSet, b: ResourceSet) -> bool {
    view_subset(as_v(a.asn), as_v(b.asn)) && view_subset(ip_v(a.ipv4.0), ip_v(b.ipv4.0)) && view_subset(ip_v(a.ipv6.0), ip_v(b.ipv6.0))
}
pub open spec fn rs_union(r: ResourceSet, a: ResourceSet, b: ResourceSet) -> bool {
    view_union(as_v(r.asn), as_v(a.asn), as_v(b.asn)) && view_union(ip_v(r.ipv4.0), ip_v(a.ipv4.0), ip_v(b.ipv4.0))
    && view_union(ip_v(r.ipv6.0), ip_v(a.ipv6.0), ip_v(b.ipv6.0))
}
pub open spec fn rs_inter(r: ResourceSet, a: ResourceSet, b: ResourceSet) -> bool {
    view_inter(as_v(r.asn), as_v(a.asn), as_v(b.asn)) && view_inter(ip_v(r.ipv4.0), ip_v(a.ipv4.0), ip_v(b.ipv4.0))
    && view_inter(ip_v(r.ipv6.0), ip_v(a.ipv6.0), ip_v(b.ipv6.0))
}
pub open spec fn rs_diff(r: ResourceSet, a: ResourceSet, b: ResourceSet) -> bool {
    view_diff(as_v(r.asn), as_v(a.asn), as_v(b.asn)) && view_diff(ip_v(r.ipv4.0), ip_v(a.ipv4.0), ip_v(b.ipv4.0))
    && view_diff(ip_v(r.ipv6.0), ip_v(a.ipv6.0), ip_v(b.ipv6.0))
}

impl ResourceSet {
    //@fn src/repository/resources/set.rs :: impl ResourceSet :: new
    //@spec
        ensures r.asn == asn, r.ipv4 == ipv4, r.ipv6 == ipv6,
    //@/spec
    //@end

    //@fn src/repository/resources/set.rs :: impl ResourceSet :: asn
    //@spec
        ensures *r == self.asn,
    //@/spec
    //@end

    //@fn src/repository/resources/set.rs :: impl ResourceSet :: ipv4
    //@spec
        ensures *r == self.ipv4,
    //@/spec
    //@end

    //@fn src/repository/resources/set.rs :: impl ResourceSet :: ipv6
    //@spec
        ensures *r == self.ipv6,
    //@/spec
    //@end

    //@fn src/repository/resources/set.rs :: impl ResourceSet :: is_empty
    //@spec
        requires rs_wf(*self),
        ensures
            r == ((forall|x: int| !in_view(as_v(self.asn), x)) && (forall|x: int| !in_view(ip_v(self.ipv4.0), x))
                  && (forall|x: int| !in_view(ip_v(self.ipv6.0), x))),
    //@/spec
    //@ghost begin
        proof {
            lem::lemma_empty_view(as_v(self.asn));
            lem::lemma_empty_view(ip_v(self.ipv4.0));
            lem::lemma_empty_view(ip_v(self.ipv6.0));
        }
    //@/ghost
    //@end

    //@fn src/repository/resources/set.rs :: impl ResourceSet :: contains
    //@spec
        requires rs_wf(*self), rs_wf(*other),
        ensures r == rs_subset(*other, *self),
    //@/spec
    //@end

    // NB (reported): RoaIpAddress carries no address family and v4 addresses live in the upper 32 bits
    // of the same 128-bit space, so this is "one v4 block or one v6 block covers the 128-bit range":
    // the v4 prefix 10.0.0.0/8 is reported as contained in a set holding only the v6 prefix a00::/8.
    //@fn src/repository/resources/set.rs :: impl ResourceSet :: contains_roa_address
    //@spec
        ensures
            r == (one_block_covers(ip_v(self.ipv4.0), roa_min(*roa_address), roa_max(*roa_address))
                  || one_block_covers(ip_v(self.ipv6.0), roa_min(*roa_address), roa_max(*roa_address))),
    //@/spec
    //@end

    //@fn src/repository/resources/set.rs :: impl ResourceSet :: union
    //@spec
        requires rs_wf(*self), rs_wf(*other),
        ensures rs_wf(r), rs_union(r, *self, *other),
    //@/spec
    //@end

    //@fn src/repository/resources/set.rs :: impl ResourceSet :: intersection
    //@spec
        requires rs_wf(*self), rs_wf(*other),
        ensures rs_wf(r), rs_inter(r, *self, *other),
    //@/spec
    //@end

    //@fn src/repository/resources/set.rs :: impl ResourceSet :: difference
    //@spec
        requires rs_wf(*self), rs_wf(*other),
        ensures
            rs_wf(r.added), rs_diff(r.added, *self, *other),
            rs_wf(r.removed), rs_diff(r.removed, *other, *self),
    //@/spec
    //@end
}

// ---- RequestResourceLimit (ca/provisioning.rs) --------------------------------------------------------
pub mod provisioning {
use super::*;

//@item src/ca/provisioning.rs :: pub struct RequestResourceLimit pubfields

/// opaque stand-in for provisioning::Error (only `Error::limit` is used; its payload is irrelevant here)
#[verifier::external_body]
pub struct Error { _o: u8 }
impl Error {
    #[verifier::external_body]
    pub fn limit(set: &ResourceSet, limit: &RequestResourceLimit) -> Self { unimplemented!() }
}

/// every limit that is present is in canonical form
pub open spec fn limit_wf(l: RequestResourceLimit) -> bool {
    &&& (l.asn matches Some(b) ==> canonical(as_v(b)))
    &&& (l.ipv4 matches Some(b) ==> canonical(ip_v(b.0)))
    &&& (l.ipv6 matches Some(b) ==> canonical(ip_v(b.0)))
}
/// a present limit lies within the entitlement
pub open spec fn limit_within<T: Block>(l: Option<Seq<T>>, s: Seq<T>) -> bool {
    match l { Some(b) => view_subset(b, s), None => true }
}
/// the result for one family: the limit if present, otherwise the entitlement -- in both cases the
/// intersection of the entitlement with the limit (no limit = everything)
pub open spec fn limited<T: Block>(o: Seq<T>, l: Option<Seq<T>>, s: Seq<T>) -> bool {
    match l { Some(b) => o == b && view_inter(o, s, b), None => o == s }
}
pub open spec fn lim_as(l: RequestResourceLimit) -> Option<Seq<AsBlock>> {
    match l.asn { Some(b) => Some(as_v(b)), None => None }
}
pub open spec fn lim_v4(l: RequestResourceLimit) -> Option<Seq<IpBlock>> {
    match l.ipv4 { Some(b) => Some(ip_v(b.0)), None => None }
}
pub open spec fn lim_v6(l: RequestResourceLimit) -> Option<Seq<IpBlock>> {
    match l.ipv6 { Some(b) => Some(ip_v(b.0)), None => None }
}

impl RequestResourceLimit {
    //@fn src/ca/provisioning.rs :: impl RequestResourceLimit :: is_empty
    //@spec
        ensures r == (self.asn.is_none() && self.ipv4.is_none() && self.ipv6.is_none()),
    //@/spec
    //@end

    //@fn src/ca/provisioning.rs :: impl RequestResourceLimit :: apply_to
    //@spec
        requires rs_wf(*set), limit_wf(*self),
        ensures
            // an error exactly when a present limit exceeds the entitlement
            r.is_ok() == (limit_within(lim_as(*self), as_v(set.asn)) && limit_within(lim_v4(*self), ip_v(set.ipv4.0))
                          && limit_within(lim_v6(*self), ip_v(set.ipv6.0))),
            r matches Ok(o) ==> rs_wf(o) && rs_subset(o, *set)
                && limited(as_v(o.asn), lim_as(*self), as_v(set.asn))
                && limited(ip_v(o.ipv4.0), lim_v4(*self), ip_v(set.ipv4.0))
                && limited(ip_v(o.ipv6.0), lim_v6(*self), ip_v(set.ipv6.0)),
    //@/spec
    //@end
}

} // mod provisioning

// ---- vacuity guards --------------------------------------------------------------------------------
/// A concrete Block (closed u8 intervals): the assumed leaf contract incl. `ord_law` is satisfiable.
#[derive(Clone, Copy)]
pub struct WBlock { pub lo: u8, pub hi: u8 }

impl Block for WBlock {
    type Item = u8;
    open spec fn val(item: u8) -> int { item as int }
    open spec fn lo(&self) -> int { self.lo as int }
    open spec fn hi(&self) -> int { self.hi as int }
    open spec fn item_min() -> int { 0 }
    open spec fn item_max() -> int { 255 }
    proof fn ord_law() {}
    fn new(min: u8, max: u8) -> Self { WBlock { lo: min, hi: max } }
    fn min(&self) -> u8 { self.lo }
    fn max(&self) -> u8 { self.hi }
    fn next(item: u8) -> Option<u8> { if item == 255 { None } else { Some(item + 1) } }
    fn previous(item: u8) -> Option<u8> { if item == 0 { None } else { Some(item - 1) } }
}

/// witnesses for the set vocabulary over a concrete block type
proof fn reach_sets()
{
    let b = WBlock { lo: 1, hi: 3 };
    let c = WBlock { lo: 5, hi: 9 };
    let bc = seq![b, c];
    let cc = seq![c];
    assert(canonical(bc) && canonical(cc) && canonical(sv(SharedChain::<WBlock>(None))));
    assert(bc[1].lo() <= 5 && 9 <= bc[1].hi());
    assert(one_block_covers(bc, 5, 9) && one_block_meets(bc, 5, 9));
    assert forall|x: int| #![trigger in_view(cc, x)] #![trigger in_view(bc, x)] in_view(cc, x) <==> (in_view(bc, x) && in_view(cc, x)) by {
        if in_view(cc, x) { assert(bc[1].lo() <= x <= bc[1].hi()); }
    }
    assert(view_inter(cc, bc, cc));
}

/// witnesses for the preconditions of the wrappers: the empty collections in every position
proof fn reach_wrappers()
{
    let e = AsBlocks(SharedChain(None));
    let ie = IpBlocks(SharedChain(None));
    assert(canonical(as_v(e)) && canonical(ip_v(ie)));
    assert(as_res_wf(AsResources(ResourcesChoice::Blocks(e))) && as_res_wf(AsResources(ResourcesChoice::Inherit)));
    assert(ip_res_wf(IpResources(ResourcesChoice::Blocks(ie))) && ip_res_wf(IpResources(ResourcesChoice::Missing)));
    let rs = ResourceSet { asn: e, ipv4: Ipv4Blocks(ie), ipv6: Ipv6Blocks(ie) };
    assert(rs_wf(rs));
    let l = provisioning::RequestResourceLimit { asn: Some(e), ipv4: None, ipv6: Some(Ipv6Blocks(ie)) };
    assert(provisioning::limit_wf(l));
}

/// ... and non-empty ones: any canonical vectors of blocks give well-formed AsBlocks / IpBlocks /
/// ResourceSet values, on which the wrappers can be called (both policies)
fn reach_nonempty(a: Vec<AsBlock>, a2: Vec<AsBlock>, v4: Vec<IpBlock>, v6: Vec<IpBlock>)
    requires canonical(a@), canonical(a2@), canonical(v4@), canonical(v6@), a@.len() > 0,
{
    let issuer = AsBlocks(SharedChain::from_owned(OwnedChain(a)));
    let claim = AsBlocks(SharedChain::from_owned(OwnedChain(a2)));
    assert(as_v(issuer).len() > 0);
    let res = AsResources(ResourcesChoice::Blocks(claim));
    let r1 = issuer.verify_issued(&res, Overclaim::Refuse);
    let r2 = issuer.verify_issued(&res, Overclaim::Trim);
    assert(r2.is_ok());
    let set = ResourceSet::new(issuer, Ipv4Blocks(IpBlocks(SharedChain::from_owned(OwnedChain(v4)))),
        Ipv6Blocks(IpBlocks(SharedChain::from_owned(OwnedChain(v6)))));
    assert(rs_wf(set));
    let lim = provisioning::RequestResourceLimit { asn: None, ipv4: None, ipv6: None };
    let r3 = lim.apply_to(&set);
    assert(r3.is_ok());
}

} // verus!
fn main() {}
