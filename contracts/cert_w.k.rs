// Unit cert_w (C01): WITNESS SEARCH ONLY (kind W) - proves nothing, never counted.
// Only public entry points are called (Cert::validate_{ta,ca,ee,router}_at, verify_ta_ref_at, verify_signature,
// PublicKey::verify); private FIELDS of Cert / TbsCert / ResourceCert are used to tamper.
// The Verus unit cert_compose proves "accepted exactly when every listed check holds, result resources as
// specified" with the cryptography and the chain operations abstract; a restructured body makes it come back
// undecided.  This unit is the anchor-free last line: it decodes the repository's own fixtures with the
// COMPILED decoder (ta.cer; ca1.cer and the EE certificate of ta.mft issued by it; the EE certificate of
// ca1.mft issued by ca1.cer; router.cer and the EE certificate of example-ripe.roa whose issuers are not among
// the fixtures; the ECDSA-signed router-csr.der), changes ONE decoded field at a time (evaluation time around
// both window ends with sub-second parts, the validity field itself, authority / subject key identifier,
// subject key, signature octets, a bit of the signed octets, the issuer certificate, the issuer's key or key
// identifier, inherited resources on a trust anchor) and requires rejection for every non-conforming change
// and acceptance for conforming ones.  The resource clause is checked with random block sets (arbitrary
// blocks in any order, at the bottom and at the top of the number space, claims placed inside / across /
// beyond issuer blocks) for the claim and for the issuer's validated resources, both overclaim policies on
// subject AND issuer, against an independent computation on integer interval lists.
// The validation code checks the decoded fields while the signature covers the captured octets, so a changed
// field leaves the signature check untouched: that is what makes single-field tampering observable.
// The router path has no fixture with a known issuer: its positive cases use the decoded fields of router.cer
// carried by signed octets that verify under ta.cer (a composed value); they are only evaluated if that
// composed certificate validates as it is, so they can never raise an alarm on their own.
//@features ca,rtr,slurm

//@append src/repository/cert.rs
#[cfg(any(kani, verif_replay))]
#[allow(dead_code, unused)]
mod verif_cert_w {
    use super::*;
    use crate::verif_support::{assume, reach};
    use crate::crypto::{BgpsecSignatureAlgorithm, PublicKeyFormat, Signature};
    use crate::repository::resources::{Addr, Asn};
    use crate::repository::sigobj::SignedObject;
    use chrono::TimeDelta;

    //------------ fixtures ------------------------------------------------------------------------------

    #[derive(Clone)]
    struct Fix {
        ta: Cert, ta_rc: ResourceCert,          // trust anchor, 2017-11-28 .. 2117-11-28
        ca1: Cert, ca1_rc: ResourceCert,        // CA issued by ta, 2019-02-26 .. 2020-07-01
        ee_ta: Cert,                            // EE of ta.mft, issued by ta, 2019-02-26 .. 2019-05-26
        ee_ca1: Cert,                           // EE of ca1.mft, issued by ca1, 2019-04-06 .. 2019-04-13
        ee_roa: Cert,                           // EE of example-ripe.roa, issuer not among the fixtures
        router: Cert,                           // router certificate, issuer not among the fixtures
    }
    /// a time inside the window of ta, ca1 and both manifest EE certificates
    fn t0() -> Time { Time::utc(2019, 4, 10, 0, 0, 0) }
    /// a time inside the window of router.cer (2020-10-07 .. 2021-10-07)
    fn t0_router() -> Time { Time::utc(2021, 1, 1, 0, 0, 0) }
    fn tal() -> Arc<TalInfo> { TalInfo::from_name("foo".into()).into_arc() }
    fn ee_of(der: &'static [u8]) -> Cert { SignedObject::decode(der, false).unwrap().cert().clone() }
    fn load() -> Fix {
        let ta = Cert::decode(include_bytes!("../../test-data/repository/ta.cer").as_ref()).unwrap();
        let ca1 = Cert::decode(include_bytes!("../../test-data/repository/ca1.cer").as_ref()).unwrap();
        let ta_rc = ta.clone().validate_ta_at(tal(), false, t0()).expect("fixture ta.cer validates as trust anchor");
        let ca1_rc = ca1.clone().validate_ca_at(&ta_rc, false, t0()).expect("fixture ca1.cer validates under ta.cer");
        Fix {
            ta, ta_rc, ca1, ca1_rc,
            ee_ta: ee_of(include_bytes!("../../test-data/repository/ta.mft")),
            ee_ca1: ee_of(include_bytes!("../../test-data/repository/ca1.mft")),
            ee_roa: ee_of(include_bytes!("../../test-data/repository/example-ripe.roa")),
            router: Cert::decode(include_bytes!("../../test-data/repository/router.cer").as_ref()).unwrap(),
        }
    }
    thread_local! { static FIX: Fix = load(); }
    fn fix() -> Fix { FIX.with(|f| f.clone()) }

    #[derive(Clone, Copy, PartialEq, Debug)]
    enum Kind { Ca, Ee, DetachedEe, Router }
    /// the public validation entry point for the kind; Some(validated certificate) for CA / EE
    fn validate(kind: Kind, cert: &Cert, issuer: &ResourceCert, strict: bool, now: Time) -> Result<Option<ResourceCert>, ()> {
        match kind {
            Kind::Ca => cert.clone().validate_ca_at(issuer, strict, now).map(Some).map_err(|_| ()),
            Kind::Ee => cert.clone().validate_ee_at(issuer, strict, now).map(Some).map_err(|_| ()),
            Kind::DetachedEe => cert.clone().validate_detached_ee_at(issuer, strict, now).map(Some).map_err(|_| ()),
            Kind::Router => cert.validate_router_at(issuer, strict, now).map(|_| None).map_err(|_| ()),
        }
    }
    /// the decoded fields of router.cer on signed octets that verify under ta.cer, naming ta.cer as issuer
    fn composed_router(f: &Fix) -> Cert {
        let mut c = Cert { signed_data: f.ca1.signed_data.clone(), tbs: f.router.tbs.clone() };
        c.tbs.signature = *c.signed_data.signature().algorithm();
        c.tbs.authority_key_identifier = Some(f.ta.tbs.subject_key_identifier);
        c
    }
    /// subject, its kind, its issuer, a certificate that is NOT its issuer, a time inside its window,
    /// and whether acceptance of the untouched subject is a fixture fact (false: composed value)
    fn subject(f: &Fix, sel: u8) -> (Kind, Cert, ResourceCert, ResourceCert, Time, bool) {
        match sel % 6 {
            0 => (Kind::Ca, f.ca1.clone(), f.ta_rc.clone(), f.ca1_rc.clone(), t0(), true),
            1 => (Kind::Ee, f.ee_ta.clone(), f.ta_rc.clone(), f.ca1_rc.clone(), t0(), true),
            2 => (Kind::Ee, f.ee_ca1.clone(), f.ca1_rc.clone(), f.ta_rc.clone(), t0(), true),
            3 => (Kind::DetachedEe, f.ee_ta.clone(), f.ta_rc.clone(), f.ca1_rc.clone(), t0(), true),
            4 => (Kind::DetachedEe, f.ee_ca1.clone(), f.ca1_rc.clone(), f.ta_rc.clone(), t0(), true),
            _ => (Kind::Router, composed_router(f), f.ta_rc.clone(), f.ca1_rc.clone(), t0_router(), false),
        }
    }

    //------------ tampering helpers ---------------------------------------------------------------------

    fn tamper(orig: &[u8], mode: u8, k: u8, idx: u16, bit: u8, extra: [u8; 4]) -> Vec<u8> {
        let mut v = orig.to_vec();
        match mode % 4 {
            0 => v.truncate((k as usize) % (orig.len() + 1)),
            1 => v.extend_from_slice(&extra[..1 + (k as usize) % 4]),
            _ => if !v.is_empty() { let i = (idx as usize) % v.len(); v[i] ^= 1 << (bit % 8); },
        }
        v
    }
    fn flip20(orig: KeyIdentifier, idx: u16, bit: u8) -> KeyIdentifier {
        let mut a: [u8; 20] = orig.into();
        a[(idx as usize) % 20] ^= 1 << (bit % 8);
        KeyIdentifier::from(a)
    }
    fn kid_bytes(k: KeyIdentifier) -> [u8; 20] { k.into() }
    /// raw octets as a captured value
    struct Raw(Vec<u8>);
    impl encode::Values for Raw {
        fn encoded_len(&self, _: Mode) -> usize { self.0.len() }
        fn write_encoded<W: std::io::Write>(&self, _: Mode, target: &mut W) -> Result<(), std::io::Error> { target.write_all(&self.0) }
    }
    fn captured(v: Vec<u8>) -> Captured { Captured::from_values(Mode::Der, Raw(v)) }
    fn with_signature(c: &mut Cert, sig: Vec<u8>) {
        let alg = *c.signed_data.signature().algorithm();
        c.signed_data = SignedData::new(c.signed_data.data().clone(), Signature::new(alg, Bytes::from(sig)));
    }
    fn with_data(c: &mut Cert, data: Vec<u8>) {
        c.signed_data = SignedData::new(captured(data), c.signed_data.signature().clone());
    }
    /// an offset in milliseconds: exactly zero, a few seconds, or up to a day, plus a sub-second part
    fn off_ms(scale: u8, secs: i32, ms: i16) -> i64 {
        let s = match scale % 4 { 0 => 0, 1 => (secs % 3) as i64, 2 => (secs % 100) as i64, _ => (secs % 86_400) as i64 };
        let m = match (scale / 4) % 3 { 0 => 0, 1 => (ms % 1000) as i64, _ => (ms % 3) as i64 };
        s * 1000 + m
    }
    fn at(t: Time, ms: i64) -> Time { t + TimeDelta::milliseconds(ms) }

    //------------ issued certificates: CA, EE, router ---------------------------------------------------

    //@harness cert_w_issued W fn=Cert::{validate_ca_at,validate_ee_at,validate_detached_ee_at,validate_router_at,inspect_ca,inspect_ee,inspect_router,inspect_basics,verify_ca_at,verify_ee_at,verify_router_at,verify_validity,verify_issuer_claim,verify_signature},Validity::{new,verify_at},Time::{verify_not_before,verify_not_after},KeyIdentifier::eq,SignedData::verify_signature n=40000 timeout=900
    verif_search!{ cert_w_issued; |sel: u8, strict: bool, mode: u8, var: u8, k: u8, idx: u16, bit: u8, extra: [u8; 4], kid: [u8; 20],
                                   scale: u8, secs: i32, ms: i16, scale2: u8, secs2: i32, ms2: i16| {
        let f = fix();
        let (kind, cert, issuer, other, now, real) = subject(&f, sel);
        // Baseline: the fixtures validate under their issuer (the composed router value is only a precondition)
        let base = validate(kind, &cert, &issuer, strict, now).is_ok();
        if real { assert!(base, "the fixture validates under its issuer inside its validity window") } else if !base { return }
        let (nb, na) = (cert.validity().not_before(), cert.validity().not_after());
        let mut c = cert.clone();
        let mut iss = issuer.clone();
        match mode % 10 {
            0 => {
                // evaluation time around either end of the window, with and without a sub-second part
                let d = off_ms(scale, secs, ms);
                let (when, want) = if var % 2 == 0 { (at(nb, d), d >= 0) } else { (at(na, d), d <= 0) };
                assert!(validate(kind, &c, &iss, strict, when).is_ok() == want, "accepted exactly for times inside the closed validity window");
            }
            1 => {
                // the validity field itself: any two end points around the evaluation time, also in the wrong order
                let (d1, d2) = (off_ms(scale, secs, ms), off_ms(scale2, secs2, ms2));
                c.tbs.validity = Validity::new(at(now, d1), at(now, d2));
                assert!(validate(kind, &c, &iss, strict, now).is_ok() == (d1 <= 0 && 0 <= d2), "accepted exactly if not-before <= time <= not-after (an inverted period contains no time)");
            }
            2 => {
                // authority key identifier: absent, one bit off, arbitrary, the subject's own, unchanged
                let good = iss.cert.tbs.subject_key_identifier;
                let new = match var % 5 {
                    0 => None,
                    1 => Some(flip20(good, idx, bit)),
                    2 => Some(KeyIdentifier::from(kid)),
                    3 => Some(c.tbs.subject_key_identifier),
                    _ => Some(good),
                };
                let want = new.map(kid_bytes) == Some(kid_bytes(good));
                c.tbs.authority_key_identifier = new;
                assert!(validate(kind, &c, &iss, strict, now).is_ok() == want, "accepted only if the authority key identifier is present and equals the issuer's subject key identifier");
            }
            3 => {
                // subject key identifier must be the hash of the subject's key: change either side
                let good = c.tbs.subject_key_identifier;
                match var % 5 {
                    0 => c.tbs.subject_key_identifier = flip20(good, idx, bit),
                    1 => c.tbs.subject_key_identifier = KeyIdentifier::from(kid),
                    2 => c.tbs.subject_key_identifier = iss.cert.tbs.subject_key_identifier,
                    3 => c.tbs.subject_public_key_info = (if kind == Kind::Router { &f.router } else { &other.cert }).tbs.subject_public_key_info.clone(),
                    _ => { }
                }
                let want = kid_bytes(c.tbs.subject_key_identifier) == kid_bytes(good) && c.tbs.subject_public_key_info == cert.tbs.subject_public_key_info;
                // (for the router kind the "other key" is its own, so nothing changes)
                assert!(validate(kind, &c, &iss, strict, now).is_ok() == want, "accepted only if the subject key identifier is the hash of the subject's key");
            }
            4 => {
                // signature octets: shortened, lengthened, one bit flipped
                let s = tamper(cert.signed_data.signature().value(), var, k, idx, bit, extra);
                let same = s == cert.signed_data.signature().value().as_ref();
                with_signature(&mut c, s);
                assert!(validate(kind, &c, &iss, strict, now).is_ok() == same, "a changed signature is rejected");
            }
            5 => {
                // a bit of the signed octets (or their length)
                let d = tamper(cert.signed_data.data().as_slice(), var, k, idx, bit, extra);
                let same = d == cert.signed_data.data().as_slice();
                with_data(&mut c, d);
                assert!(validate(kind, &c, &iss, strict, now).is_ok() == same, "changed signed octets are rejected");
            }
            6 => {
                // a different certificate as issuer, also when the subject names it as its issuer
                if var % 2 == 1 { c.tbs.authority_key_identifier = Some(other.cert.tbs.subject_key_identifier) }
                assert!(validate(kind, &c, &other, strict, now).is_err(), "a certificate is rejected under an issuer that did not sign it");
            }
            7 => {
                // the issuer holds a different key (same key identifier)
                iss.cert.tbs.subject_public_key_info = other.cert.tbs.subject_public_key_info.clone();
                assert!(validate(kind, &c, &iss, strict, now).is_err(), "the signature must verify under the issuer's key");
            }
            8 => {
                // the issuer's subject key identifier differs from the subject's authority key identifier
                iss.cert.tbs.subject_key_identifier = if var % 2 == 0 { flip20(iss.cert.tbs.subject_key_identifier, idx, bit) } else { other.cert.tbs.subject_key_identifier };
                assert!(validate(kind, &c, &iss, strict, now).is_err(), "authority key identifier must equal the issuer's subject key identifier");
            }
            _ => {
                // certificates whose issuer is not available validate under nobody, whatever they claim
                let (kind2, mut c2, t2) = if var % 2 == 0 { (Kind::Router, f.router.clone(), t0_router()) } else { (Kind::Ee, f.ee_roa.clone(), t0()) };
                let iss2 = if sel % 2 == 0 { &f.ta_rc } else { &f.ca1_rc };
                if k % 2 == 0 { c2.tbs.authority_key_identifier = Some(iss2.cert.tbs.subject_key_identifier) }
                assert!(validate(kind2, &c2, iss2, strict, t2).is_err(), "a certificate is rejected under an issuer that did not sign it");
            }
        }
    }}

    //------------ resources -----------------------------------------------------------------------------

    /// an interval list: closed intervals
    type Iv = Vec<(u128, u128)>;
    /// canonical form of the union of arbitrary intervals
    fn norm(mut v: Iv) -> Iv {
        v.sort();
        let mut out: Iv = Vec::new();
        for (lo, hi) in v {
            assert!(lo <= hi);
            match out.last_mut() {
                Some(last) if last.1 == u128::MAX || lo <= last.1 + 1 => { if hi > last.1 { last.1 = hi } }
                _ => out.push((lo, hi)),
            }
        }
        out
    }
    fn inter(a: &Iv, b: &Iv) -> Iv {
        let mut out = Vec::new();
        for x in a { for y in b {
            let (lo, hi) = (x.0.max(y.0), x.1.min(y.1));
            if lo <= hi { out.push((lo, hi)) }
        } }
        norm(out)
    }
    /// a (canonical) is a subset of b (canonical): every block of a lies inside one block of b
    fn subset(a: &Iv, b: &Iv) -> bool { a.iter().all(|x| b.iter().any(|y| y.0 <= x.0 && x.1 <= y.1)) }

    /// up to 4 arbitrary blocks (any order, overlapping, adjacent, repeated) over 24 units of 2^shift values;
    /// bit i of `rel` places block i inside a block of `base` instead (so that covered claims are frequent).
    /// Unit coordinates; `real` maps them to the bottom or to the top of the number space.
    fn mkblocks(sel: u8, raw: [u8; 8], rel: u8, base: &Iv) -> Iv {
        let n = (sel % 5) as usize;
        let mut out = Vec::new();
        for i in 0..n.min(4) {
            let (a, b) = ((raw[2 * i] % 24) as u128, (raw[2 * i + 1] % 24) as u128);
            let (mut lo, mut hi) = (a.min(b), a.max(b));
            if (rel >> i) & 1 == 1 && !base.is_empty() {
                let (blo, bhi) = base[(raw[2 * i] as usize / 24) % base.len()];
                lo = blo + a % (bhi - blo).saturating_add(1);
                hi = lo + b % (bhi - lo).saturating_add(1);
            }
            out.push((lo, hi));
        }
        out
    }
    fn real(v: &Iv, top: u128, shift: u32, at_top: bool) -> Iv {
        let unit = 1u128 << shift;
        v.iter().map(|b| {
            let (lo, hi) = (b.0 * unit, b.1 * unit + (unit - 1));
            if at_top { (top - hi, top - lo) } else { (lo, hi) }
        }).collect()
    }
    fn ip_blocks(v: &Iv) -> IpBlocks { v.iter().map(|b| IpBlock::from((Addr::from_bits(b.0), Addr::from_bits(b.1)))).collect() }
    fn as_blocks(v: &Iv) -> AsBlocks { v.iter().map(|b| AsBlock::from((Asn::from_u32(b.0 as u32), Asn::from_u32(b.1 as u32)))).collect() }
    fn ip_view(c: &IpBlocks) -> Iv { norm(c.iter().map(|b| (b.min().to_bits(), b.max().to_bits())).collect()) }
    fn as_view(c: &AsBlocks) -> Iv { norm(c.iter().map(|b| (b.min().into_u32() as u128, b.max().into_u32() as u128)).collect()) }

    /// one resource family of one test case: issuer set, claimed set (both as real intervals, arbitrary
    /// order), and how the subject states its claim
    struct Fam { iss: Iv, claim: Iv, choice: u8 }
    fn fam(ci: u8, ri: [u8; 8], cs: u8, rs: [u8; 8], rel: u8, m: u8, choice: u8, top: u128, shifts: &[u32]) -> Fam {
        let shift = shifts[(m as usize / 2) % shifts.len()];
        let at_top = m % 2 == 1;
        let iu = if ci >= 0xE0 { vec![(0u128, (top >> shift))] } else { mkblocks(ci, ri, 0, &Vec::new()) };
        let su = mkblocks(cs, rs, rel, &norm(iu.clone()));
        // (the whole-space issuer is mapped without mirroring; unit 24 claims stay far below its top)
        let iss = if ci >= 0xE0 { vec![(0, top)] } else { real(&iu, top, shift, at_top) };
        Fam { iss, claim: real(&su, top, shift, at_top && ci < 0xE0), choice: choice % 8 }
    }
    /// the property's resource clause for one family: None = validation fails
    fn expect(f: &Fam, refuse: bool) -> Option<Iv> {
        let (iss, claim) = (norm(f.iss.clone()), norm(f.claim.clone()));
        match f.choice {
            0 => Some(Vec::new()),                                           // nothing claimed
            1 => Some(iss),                                                  // inherit: the issuer's own
            _ if refuse => if subset(&claim, &iss) { Some(claim) } else { None },   // no-overclaim policy
            _ => Some(inter(&claim, &iss)),                                  // trimming policy
        }
    }
    fn ip_res(f: &Fam) -> IpResources { match f.choice { 0 => IpResources::missing(), 1 => IpResources::inherit(), _ => IpResources::blocks(ip_blocks(&f.claim)) } }
    fn as_res(f: &Fam) -> AsResources { match f.choice { 0 => AsResources::missing(), 1 => AsResources::inherit(), _ => AsResources::blocks(as_blocks(&f.claim)) } }
    const TOP32: u128 = u32::MAX as u128;

    //@harness cert_w_resources W fn=Cert::{validate_ca_at,validate_ee_at,validate_router_at,verify_resources,verify_as_resources},IpBlocks::{verify_issued,contains,intersection},AsBlocks::verify_issued,Chain::{trim,is_encompassed} n=100000 timeout=900
    verif_search!{ cert_w_resources; |sel: u8, strict: bool, pol_s: bool, pol_i: bool,
                                      c4: u8, i4: u8, ri4: [u8; 8], s4: u8, rs4: [u8; 8], rel4: u8, m4: u8,
                                      c6: u8, i6: u8, ri6: [u8; 8], s6: u8, rs6: [u8; 8], rel6: u8, m6: u8,
                                      ca: u8, ia: u8, ria: [u8; 8], sa: u8, rsa: [u8; 8], rela: u8, ma: u8| {
        let f = fix();
        let (kind, mut c, mut iss, _other, now, real_fixture) = subject(&f, sel);
        if !real_fixture && validate(kind, &c, &iss, strict, now).is_err() { return }
        let mut v4 = fam(i4, ri4, s4, rs4, rel4, m4, c4, u128::MAX, &[96]);
        let mut v6 = fam(i6, ri6, s6, rs6, rel6, m6, c6, u128::MAX, &[0, 64, 120, 8]);
        let mut asn = fam(ia, ria, sa, rsa, rela, ma, ca, TOP32, &[0, 0, 8]);
        if kind == Kind::Router {
            // a router certificate carries AS blocks only (a profile rule, not part of this property)
            v4.choice = 0; v6.choice = 0; asn.choice = 2;
            if asn.claim.is_empty() { return }
        }
        // the SUBJECT's policy decides; the issuer's own policy is irrelevant
        let refuse = pol_s;
        c.tbs.overclaim = if pol_s { Overclaim::Refuse } else { Overclaim::Trim };
        iss.cert.tbs.overclaim = if pol_i { Overclaim::Refuse } else { Overclaim::Trim };
        c.tbs.v4_resources = ip_res(&v4); c.tbs.v6_resources = ip_res(&v6); c.tbs.as_resources = as_res(&asn);
        iss.v4_resources = ip_blocks(&v4.iss); iss.v6_resources = ip_blocks(&v6.iss); iss.as_resources = as_blocks(&asn.iss);
        let want = (expect(&v4, refuse), expect(&v6, refuse), expect(&asn, refuse));
        match validate(kind, &c, &iss, strict, now) {
            Err(()) => assert!(want.0.is_none() || want.1.is_none() || want.2.is_none(), "validation fails only when a no-overclaim certificate claims something outside the issuer's resources"),
            Ok(rc) => {
                assert!(want.0.is_some() && want.1.is_some() && want.2.is_some(), "a no-overclaim certificate claiming anything outside the issuer's resources is rejected");
                if let Some(rc) = rc {
                    let got = (ip_view(rc.v4_resources()), ip_view(rc.v6_resources()), as_view(rc.as_resources()));
                    assert!(subset(&got.0, &norm(v4.iss.clone())) && subset(&got.1, &norm(v6.iss.clone())) && subset(&got.2, &norm(asn.iss.clone())), "validated resources are a subset of the issuer's validated resources");
                    assert!(Some(got.0) == want.0, "IPv4: the claim if covered (no-overclaim), the intersection (trimming), the issuer's (inherit), empty (absent)");
                    assert!(Some(got.1) == want.1, "IPv6: the claim if covered (no-overclaim), the intersection (trimming), the issuer's (inherit), empty (absent)");
                    assert!(Some(got.2) == want.2, "AS: the claim if covered (no-overclaim), the intersection (trimming), the issuer's (inherit), empty (absent)");
                }
            }
        }
    }}

    //------------ trust anchor --------------------------------------------------------------------------

    //@harness cert_w_ta W fn=Cert::{validate_ta_at,inspect_ta,verify_ta_at,verify_ta_ref_at,verify_validity},IpBlocks::from_resources,AsBlocks::from_resources,Validity::verify_at,SignedData::verify_signature n=25000 timeout=900
    verif_search!{ cert_w_ta; |strict: bool, mode: u8, var: u8, k: u8, idx: u16, bit: u8, extra: [u8; 4], kid: [u8; 20],
                               scale: u8, secs: i32, ms: i16, scale2: u8, secs2: i32, ms2: i16,
                               s4: u8, rs4: [u8; 8], m4: u8, s6: u8, rs6: [u8; 8], m6: u8, sa: u8, rsa: [u8; 8], ma: u8| {
        let f = fix();
        let now = t0();
        let mut c = f.ta.clone();
        // both public trust anchor paths: full validation, and verification without conversion
        let run = |c: &Cert, when: Time| (c.clone().validate_ta_at(tal(), strict, when).is_ok(), c.verify_ta_ref_at(strict, when).is_ok());
        assert!(run(&c, now) == (true, true), "the fixture validates as a trust anchor");
        let (nb, na) = (c.validity().not_before(), c.validity().not_after());
        match mode % 10 {
            0 => {
                let d = off_ms(scale, secs, ms);
                let (when, want) = if var % 2 == 0 { (at(nb, d), d >= 0) } else { (at(na, d), d <= 0) };
                assert!(run(&c, when) == (want, want), "accepted exactly for times inside the closed validity window");
            }
            1 => {
                let (d1, d2) = (off_ms(scale, secs, ms), off_ms(scale2, secs2, ms2));
                c.tbs.validity = Validity::new(at(now, d1), at(now, d2));
                let want = d1 <= 0 && 0 <= d2;
                assert!(run(&c, now) == (want, want), "accepted exactly if not-before <= time <= not-after (an inverted period contains no time)");
            }
            2 => {
                // inherited resources in any family
                let mask = 1 + var % 7;
                if mask & 1 != 0 { c.tbs.v4_resources = IpResources::inherit() }
                if mask & 2 != 0 { c.tbs.v6_resources = IpResources::inherit() }
                if mask & 4 != 0 { c.tbs.as_resources = AsResources::inherit() }
                assert!(run(&c, now) == (false, false), "a trust anchor with inherited resources is rejected");
            }
            3 => {
                // subject key identifier must be the hash of the key (checked by full validation)
                let good = c.tbs.subject_key_identifier;
                c.tbs.subject_key_identifier = match var % 3 { 0 => flip20(good, idx, bit), 1 => KeyIdentifier::from(kid), _ => good };
                let want = kid_bytes(c.tbs.subject_key_identifier) == kid_bytes(good);
                assert!(run(&c, now).0 == want, "accepted only if the subject key identifier is the hash of the subject's key");
            }
            4 => {
                let s = tamper(f.ta.signed_data.signature().value(), var, k, idx, bit, extra);
                let same = s == f.ta.signed_data.signature().value().as_ref();
                with_signature(&mut c, s);
                assert!(run(&c, now) == (same, same), "a changed self-signature is rejected");
            }
            5 => {
                let d = tamper(f.ta.signed_data.data().as_slice(), var, k, idx, bit, extra);
                let same = d == f.ta.signed_data.data().as_slice();
                with_data(&mut c, d);
                assert!(run(&c, now) == (same, same), "changed signed octets are rejected");
            }
            6 => {
                // a different key: the self-signature no longer verifies under the certificate's own key
                c.tbs.subject_public_key_info = f.ca1.tbs.subject_public_key_info.clone();
                if var % 2 == 0 { c.tbs.subject_key_identifier = f.ca1.tbs.subject_key_identifier }
                assert!(run(&c, now) == (false, false), "the self-signature must verify under the certificate's own key");
            }
            7 => {
                // a certificate signed by somebody else is no trust anchor, whatever issuer it names
                let mut c = f.ca1.clone();
                match var % 3 { 0 => c.tbs.authority_key_identifier = None, 1 => c.tbs.authority_key_identifier = Some(c.tbs.subject_key_identifier), _ => { } }
                if k % 2 == 0 { c.tbs.crl_uri = None; c.tbs.ca_issuer = None; }
                assert!(run(&c, now) == (false, false), "a trust anchor needs a valid self-signature");
            }
            _ => {
                // the validated trust anchor holds exactly what it claims
                let none = [0u8; 8];
                let v4 = fam(0, none, s4, rs4, 0, m4, 2, u128::MAX, &[96]);
                let v6 = fam(0, none, s6, rs6, 0, m6, 2, u128::MAX, &[0, 64, 120, 8]);
                let asn = fam(0, none, sa, rsa, 0, ma, 2, TOP32, &[0, 0, 8]);
                c.tbs.v4_resources = ip_res(&v4); c.tbs.v6_resources = ip_res(&v6); c.tbs.as_resources = as_res(&asn);
                match c.clone().validate_ta_at(tal(), strict, now) {
                    Ok(rc) => assert!(ip_view(rc.v4_resources()) == norm(v4.claim) && ip_view(rc.v6_resources()) == norm(v6.claim) && as_view(rc.as_resources()) == norm(asn.claim), "a validated trust anchor holds exactly its claimed resources"),
                    Err(_) => assert!(false, "a trust anchor with explicit resources validates"),
                }
            }
        }
    }}

    //------------ PublicKey::verify ---------------------------------------------------------------------

    //@harness cert_w_keys W fn=PublicKey::verify,PublicKeyFormat::verify,SignedData::verify_signature,Cert::{verify_signature,validate_ca_at,verify_ta_ref_at} n=6000 timeout=900
    verif_search!{ cert_w_keys; |strict: bool, mode: u8, var: u8, k: u8, idx: u16, bit: u8, extra: [u8; 4]| {
        let f = fix();
        // an ECDSA P-256 key with a message and its ECDSA signature: the self-signed router certification request
        let csr_der: &'static [u8] = include_bytes!("../../test-data/ca/router-csr.der");
        let ec_key = crate::ca::csr::BgpsecCsr::decode(csr_der).unwrap().public_key().clone();
        let ec = SignedData::<BgpsecSignatureAlgorithm>::decode(csr_der).unwrap();
        let (ec_msg, ec_sig) = (ec.data().as_slice().to_vec(), ec.signature().value().clone());
        // RSA: ca1.cer is signed by the key of ta.cer
        let rsa_key = f.ta.tbs.subject_public_key_info.clone();
        let rsa_alg = *f.ca1.signed_data.signature().algorithm();
        let (rsa_msg, rsa_sig) = (f.ca1.signed_data.data().as_slice().to_vec(), f.ca1.signed_data.signature().value().clone());
        assert!(ec_key.algorithm() == PublicKeyFormat::EcdsaP256 && rsa_key.algorithm() == PublicKeyFormat::Rsa, "fixture key formats");
        match mode % 6 {
            0 => {
                assert!(ec_key.verify(&ec_msg, ec.signature()).is_ok(), "a correct ECDSA signature verifies under its key");
                assert!(rsa_key.verify(&rsa_msg, f.ca1.signed_data.signature()).is_ok(), "a correct RSA signature verifies under its key");
            }
            1 => {
                // the signature's declared algorithm does not match the key
                assert!(ec_key.verify(&ec_msg, &Signature::new(rsa_alg, ec_sig.clone())).is_err(), "a signature declared as RSA is rejected under an ECDSA key");
                assert!(ec_key.verify(&ec_msg, &Signature::new(RpkiSignatureAlgorithm::default(), ec_sig.clone())).is_err(), "a signature declared as RSA is rejected under an ECDSA key");
                assert!(rsa_key.verify(&rsa_msg, &Signature::new(BgpsecSignatureAlgorithm::default(), rsa_sig.clone())).is_err(), "a signature declared as ECDSA is rejected under an RSA key");
                assert!(rsa_key.verify(&ec_msg, ec.signature()).is_err() && ec_key.verify(&rsa_msg, f.ca1.signed_data.signature()).is_err(), "a signature is rejected under a key of the other format");
            }
            2 => {
                // another key of the same format
                assert!(f.ca1.tbs.subject_public_key_info.verify(&rsa_msg, f.ca1.signed_data.signature()).is_err(), "an RSA signature is rejected under another RSA key");
                let ec2 = f.router.tbs.subject_public_key_info.clone();
                if ec2 != ec_key { assert!(ec2.verify(&ec_msg, ec.signature()).is_err(), "an ECDSA signature is rejected under another ECDSA key") }
            }
            3 => {
                // changed message or signature
                let m = tamper(&rsa_msg, var, k, idx, bit, extra);
                assert!(rsa_key.verify(&m, f.ca1.signed_data.signature()).is_ok() == (m == rsa_msg), "RSA: a changed message is rejected");
                let s = tamper(&rsa_sig, var, k, idx, bit, extra);
                assert!(rsa_key.verify(&rsa_msg, &Signature::new(rsa_alg, Bytes::from(s.clone()))).is_ok() == (s == rsa_sig.as_ref()), "RSA: a changed signature is rejected");
            }
            4 => {
                let m = tamper(&ec_msg, var, k, idx, bit, extra);
                assert!(ec_key.verify(&m, ec.signature()).is_ok() == (m == ec_msg), "ECDSA: a changed message is rejected");
                let s = tamper(&ec_sig, var, k, idx, bit, extra);
                if s != ec_sig.as_ref() { assert!(ec_key.verify(&ec_msg, &Signature::new(BgpsecSignatureAlgorithm::default(), Bytes::from(s))).is_err(), "ECDSA: a changed signature is rejected") }
            }
            _ => {
                // certificate level: ECDSA signature octets declared as RSA, the issuer (or the trust anchor
                // itself) holding the ECDSA key that made them
                let sd = SignedData::new(captured(ec_msg.clone()), Signature::new(rsa_alg, ec_sig.clone()));
                let mut c = f.ca1.clone();
                c.signed_data = sd.clone();
                let mut iss = f.ta_rc.clone();
                iss.cert.tbs.subject_public_key_info = ec_key.clone();
                assert!(c.verify_signature(&iss.cert, strict).is_err(), "the signature's algorithm must match the issuer's key");
                assert!(c.clone().validate_ca_at(&iss, strict, t0()).is_err(), "a certificate whose signature algorithm does not match the issuer's key is rejected");
                let mut ta = f.ta.clone();
                ta.signed_data = sd;
                ta.tbs.subject_public_key_info = ec_key.clone();
                assert!(ta.verify_ta_ref_at(strict, t0()).is_err(), "a trust anchor whose signature algorithm does not match its key is rejected");
            }
        }
    }}
}
//@end
