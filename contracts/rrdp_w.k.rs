// Unit rrdp_w (C09): WITNESS SEARCH ONLY (kind W) - proves nothing, never counted.
// The COMPILED RRDP code (src/rrdp.rs with xml/decode.rs, xml/encode.rs, util/base64.rs) runs natively on
// biased random inputs and is compared with the clauses of property C09 written down independently:
//   * delta-chain check / origin check against a reference computed on plain serial lists and URI texts,
//   * write_xml -> parse round trips (URIs rich in & and ', empty objects, sizes around the Base64 buffer
//     boundaries, many elements, tiny BufReader capacities),
//   * attribute / PCDATA escaping against an independent un-escaper,
//   * mutated files: no panic, and whatever parses also round-trips,
//   * hostile streams (a well-formed prefix cut anywhere + an endless run of blanks / text / comments /
//     quotes / references ...) through a counting source: the parser must stop within limit + buffers.
// A hit is a concrete input, replayed and reported.  No hit means nothing.
//@features ca,rtr,slurm

//@append src/rrdp.rs
#[cfg(any(kani, verif_replay))]
#[allow(dead_code, unused)]
mod verif_rrdp_w {
    use super::*;
    use crate::verif_support::{assume, reach};
    use crate::xml::encode::{Text as XmlText, TextEscape, Writer as XmlWriter};
    use std::cell::Cell;
    use std::rc::Rc;

    // ---------------------------------------------------------------- deterministic helpers
    /// splitmix64 over an INPUT seed: bulk material (URIs, object bytes) as a pure function of the inputs
    struct Gen(u64, usize);      // state; length of an extra path segment put into every URI
    impl Gen {
        fn next(&mut self) -> u64 {
            self.0 = self.0.wrapping_add(0x9E3779B97F4A7C15);
            let mut z = self.0;
            z = (z ^ (z >> 30)).wrapping_mul(0xBF58476D1CE4E5B9);
            z = (z ^ (z >> 27)).wrapping_mul(0x94D049BB133111EB);
            z ^ (z >> 31)
        }
        fn below(&mut self, n: usize) -> usize { (self.next() % n as u64) as usize }
        fn bytes(&mut self, n: usize) -> Vec<u8> { (0..n).map(|_| (self.next() >> 24) as u8).collect() }
    }
    /// octets that are legal in this crate's URIs; & and ' need XML escaping
    const UCH: &[u8] = b"ab&c'A-Z_~!$()*+,;=:%09.&'";
    fn seg(g: &mut Gen, max: usize) -> Vec<u8> {
        let n = 1 + g.below(max);
        let mut v: Vec<u8> = (0..n).map(|_| UCH[g.below(UCH.len())]).collect();
        if v == b"." || v == b".." { v.push(b'x') }
        v
    }
    fn rsync_text(g: &mut Gen) -> Vec<u8> {
        let mut v = b"rsync://".to_vec();
        v.extend(seg(g, 6)); v.push(b'/'); v.extend(seg(g, 4));
        if g.1 > 0 { v.push(b'/'); v.resize(v.len() + g.1, b'b'); }
        for _ in 0..1 + g.below(3) { v.push(b'/'); v.extend(seg(g, 6)); }
        v
    }
    fn https_text(g: &mut Gen) -> Vec<u8> {
        let mut v = b"https://".to_vec();
        v.extend(seg(g, 6));
        if g.1 > 0 { v.push(b'/'); v.resize(v.len() + g.1, b'a'); }
        for _ in 0..g.below(4) { v.push(b'/'); v.extend(seg(g, 6)); }
        v
    }
    fn rsync(g: &mut Gen) -> uri::Rsync { let t = rsync_text(g); let r = uri::Rsync::from_slice(&t); assume(r.is_ok()); r.unwrap() }
    fn https(g: &mut Gen) -> uri::Https { let t = https_text(g); let r = uri::Https::from_slice(&t); assume(r.is_ok()); r.unwrap() }
    fn hash32(g: &mut Gen) -> Hash { let mut a = [0u8; 32]; a.copy_from_slice(&g.bytes(32)); Hash::from(a) }
    /// object contents: empty, tiny, around the Base64 reader/writer buffer boundaries, a few KB
    fn object(g: &mut Gen) -> Bytes {
        let n = match g.below(16) {
            0 | 1 | 2 | 3 => 0,
            4 | 5 | 6 => 1 + g.below(4),
            7 | 8 | 9 => g.below(100),
            10 => [767usize, 768, 769, 1023, 1024, 1025][g.below(6)],
            11 => [3071usize, 3072, 3073, 4095, 4096, 4097][g.below(6)],
            12 => g.below(5000),
            _ => g.below(40),
        };
        Bytes::from(g.bytes(n))
    }
    const CAPS: [usize; 8] = [1, 2, 3, 5, 8, 64, 1000, 8192];

    // ---------------------------------------------------------------- delta chain / origins
    //@harness rrdp_w_deltas W fn=NotificationFile::{sort_and_verify_deltas,deltas,new} n=40000 timeout=300
    verif_search!{ rrdp_w_deltas; |base: u64, cnt: u8, offs: [u8; 8], lim_some: bool, lim: u8, lim_big: bool| {
        // a consecutive run base, base+1, .. in shuffled order, single elements bumped (gap / duplicate)
        let n = (cnt % 9) as usize;
        let mut items: Vec<(u8, u64)> = (0..n).map(|i| {
            let bump: u64 = match offs[i] % 8 { 0 => 1, 1 => u64::MAX, 2 => 2, _ => 0 };
            (offs[i] / 8, base.wrapping_add(i as u64).wrapping_add(bump))
        }).collect();
        items.sort_by_key(|x| x.0);
        let serials: Vec<u64> = items.iter().map(|x| x.1).collect();
        let limit = if !lim_some { None } else if lim_big { Some(usize::MAX - lim as usize) } else { Some((lim % 12) as usize) };
        let h = Hash::from([7u8; 32]);
        let u = uri::Https::from_slice(b"https://example.net/d.xml").unwrap();
        let mut nf = NotificationFile::new(Uuid::nil(), base, UriAndHash::new(u.clone(), h),
            serials.iter().map(|s| DeltaInfo::new(*s, u.clone(), h)).collect());
        // reference: sort, keep the newest `limit`, every neighbour pair differs by exactly one
        let mut sorted = serials.clone();
        sorted.sort();
        let keep: &[u64] = match limit { Some(l) if l < sorted.len() => &sorted[sorted.len() - l..], _ => &sorted[..] };
        let want = keep.windows(2).all(|w| w[0] as u128 + 1 == w[1] as u128);
        let got = nf.sort_and_verify_deltas(limit);   // must not panic for any list / limit / serial
        assert!(got == want, "sort_and_verify_deltas is true exactly when the retained deltas have consecutive serials");
        if got {
            let kept: Vec<u64> = nf.deltas().iter().map(|d| d.serial()).collect();
            assert!(kept == keep, "on success the retained deltas are the newest `limit` ones in increasing order");
        }
    }}

    const AUTH: [&[u8]; 10] = [b"foo.bar", b"foo.ba", b"foo.barr", b"foo.bar:443", b"oo.bar", b"", b"foo-bar", b"xfoo.bar", b"foo.bar.", b"f"];
    const PATHS: [&[u8]; 6] = [b"", b"/", b"/x", b"/n/o.xml", b"/foo.bar/", b"//foo.bar"];
    fn flip_case(s: &[u8], mask: u8) -> Vec<u8> {
        s.iter().enumerate().map(|(i, c)| if (mask >> (i % 8)) & 1 == 1 { if c.is_ascii_lowercase() { c.to_ascii_uppercase() } else { c.to_ascii_lowercase() } } else { *c }).collect()
    }
    /// the authority of an https URI text, by the book: what lies between "https://" and the next '/'
    fn authority_of(t: &[u8]) -> Vec<u8> { t[8..].split(|c| *c == b'/').next().unwrap_or(b"").to_ascii_lowercase() }

    //@harness rrdp_w_origins W fn=NotificationFile::has_matching_origins,Https::eq_authority n=40000 timeout=300
    verif_search!{ rrdp_w_origins; |asel: u8, bmask: u8, bpath: u8, nd: u8, sel: [u8; 8], paths: [u8; 8]| {
        let a = AUTH[(asel as usize) % AUTH.len()];
        let mk = |auth: &[u8], path: u8, upper_scheme: bool| -> Vec<u8> {
            let mut t = if upper_scheme { b"HTTPS://".to_vec() } else { b"https://".to_vec() };
            t.extend_from_slice(auth); t.extend_from_slice(PATHS[(path as usize) % PATHS.len()]); t
        };
        let base_t = mk(&flip_case(a, bmask), bpath, bmask & 0x80 != 0);
        let nd = (nd % 8) as usize;
        // snapshot (index 0) and nd deltas: mostly case variants of the same authority, now and then another
        let texts: Vec<Vec<u8>> = (0..=nd).map(|i| {
            let s = sel[i % 8];
            let auth = if s % 6 == 0 { AUTH[(s as usize / 6) % AUTH.len()].to_vec() } else { flip_case(a, s) };
            mk(&auth, paths[i % 8], s & 0x40 != 0)
        }).collect();
        let parse = |t: &Vec<u8>| uri::Https::from_slice(t);
        assume(parse(&base_t).is_ok() && texts.iter().all(|t| parse(t).is_ok()));
        let h = Hash::from([1u8; 32]);
        let nf = NotificationFile::new(Uuid::nil(), 1, UriAndHash::new(parse(&texts[0]).unwrap(), h),
            texts[1..].iter().enumerate().map(|(i, t)| DeltaInfo::new(i as u64, parse(t).unwrap(), h)).collect());
        let want = texts.iter().all(|t| authority_of(t) == authority_of(&base_t));
        assert!(nf.has_matching_origins(&parse(&base_t).unwrap()) == want,
            "has_matching_origins is true exactly when snapshot and every delta URI have the notification URI's authority (ignoring case)");
    }}

    // ---------------------------------------------------------------- round trips
    fn rd<'a>(x: &'a [u8], cap: u8) -> io::BufReader<&'a [u8]> { io::BufReader::with_capacity(CAPS[(cap % 8) as usize], x) }
    fn mk_notification(g: &mut Gen, session: Uuid, serial: u64, count: usize, dserial: u64) -> NotificationFile {
        let snapshot = UriAndHash::new(https(g), hash32(g));
        let deltas = (0..count).map(|i| {
            let s = match g.below(8) { 0 => g.next(), 1 => u64::MAX, 2 => 0, _ => dserial.wrapping_sub(i as u64) };
            DeltaInfo::new(s, https(g), hash32(g))
        }).collect();
        NotificationFile::new(session, serial, snapshot, deltas)
    }
    fn mk_snapshot(g: &mut Gen, session: Uuid, serial: u64, count: usize) -> Snapshot {
        Snapshot::new(session, serial, (0..count).map(|_| PublishElement::new(rsync(g), object(g))).collect())
    }
    fn mk_delta(g: &mut Gen, session: Uuid, serial: u64, count: usize) -> Delta {
        Delta::new(session, serial, (0..count).map(|_| match g.below(3) {
            0 => DeltaElement::Publish(PublishElement::new(rsync(g), object(g))),
            1 => DeltaElement::Update(UpdateElement::new(rsync(g), hash32(g), object(g))),
            _ => DeltaElement::Withdraw(WithdrawElement::new(rsync(g), hash32(g))),
        }).collect())
    }
    fn same_notification(a: &NotificationFile, b: &NotificationFile) -> bool {
        a == b && a.session_id() == b.session_id() && a.serial() == b.serial()
            && a.snapshot().uri() == b.snapshot().uri() && a.snapshot().hash() == b.snapshot().hash()
            && a.deltas().len() == b.deltas().len()
            && a.deltas().iter().zip(b.deltas()).all(|(x, y)| x.serial() == y.serial() && x.uri() == y.uri() && x.hash() == y.hash())
    }
    fn same_snapshot(a: &Snapshot, b: &Snapshot) -> bool {
        a == b && a.session_id() == b.session_id() && a.serial() == b.serial() && a.elements().len() == b.elements().len()
            && a.elements().iter().zip(b.elements()).all(|(x, y)| x.uri() == y.uri() && x.data().as_ref() == y.data().as_ref())
    }
    fn same_delta(a: &Delta, b: &Delta) -> bool {
        a == b && a.session_id() == b.session_id() && a.serial() == b.serial() && a.elements().len() == b.elements().len()
            && a.elements().iter().zip(b.elements()).all(|(x, y)| match (x, y) {
                (DeltaElement::Publish(x), DeltaElement::Publish(y)) => x.uri() == y.uri() && x.data().as_ref() == y.data().as_ref(),
                (DeltaElement::Update(x), DeltaElement::Update(y)) => x.uri() == y.uri() && x.hash() == y.hash() && x.data().as_ref() == y.data().as_ref(),
                (DeltaElement::Withdraw(x), DeltaElement::Withdraw(y)) => x.uri() == y.uri() && x.hash() == y.hash(),
                _ => false,
            })
    }

    //@harness rrdp_w_roundtrip W fn=NotificationFile::{write_xml,parse},Snapshot::{write_xml,parse},Delta::{write_xml,parse},ProcessSnapshot::process,ProcessDelta::process,ObjectReader::process,AttrValue::ascii_into,TextEscape::write_escaped,base64::Xml::{encode_writer,decode_reader} n=4000 timeout=600
    verif_search!{ rrdp_w_roundtrip; |kind: u8, session: u128, serial: u64, nsel: u8, n: u16, seed: u64, cap: u8, dserial: u64| {
        let mut g = Gen(seed, 0);
        let mut count = if nsel % 8 == 0 { (n % 300) as usize } else { (n % 6) as usize };
        // now and then a file well above 1 MB made of many small elements (4 KB URIs)
        if nsel == 1 && n % 4 == 0 { g.1 = 4000; count = 280 + (n % 40) as usize; }
        let session = Uuid::from_u128(session);
        let mut xml = Vec::new();
        match kind % 3 {
            0 => {
                let v = mk_notification(&mut g, session, serial, count, dserial);
                assert!(v.write_xml(&mut xml).is_ok(), "writing a notification file to memory succeeds");
                let r = NotificationFile::parse(rd(&xml, cap));
                assert!(r.is_ok(), "a written notification file parses");
                assert!(same_notification(&r.unwrap(), &v), "a written notification file parses back to an equal value (session, serial, URIs, hashes, order)");
            }
            1 => {
                let v = mk_snapshot(&mut g, session, serial, count);
                assert!(v.write_xml(&mut xml).is_ok(), "writing a snapshot to memory succeeds");
                let r = Snapshot::parse(rd(&xml, cap));
                assert!(r.is_ok(), "a written snapshot parses");
                assert!(same_snapshot(&r.unwrap(), &v), "a written snapshot parses back to an equal value (session, serial, URIs, object bytes, order)");
            }
            _ => {
                let v = mk_delta(&mut g, session, serial, count);
                assert!(v.write_xml(&mut xml).is_ok(), "writing a delta to memory succeeds");
                let r = Delta::parse(rd(&xml, cap));
                assert!(r.is_ok(), "a written delta parses");
                assert!(same_delta(&r.unwrap(), &v), "a written delta parses back to an equal value (session, serial, URIs, hashes, object bytes, kinds, order)");
            }
        }
    }}

    // ---------------------------------------------------------------- escaping
    const ENT: [(&[u8], u8); 5] = [(b"&lt;", b'<'), (b"&gt;", b'>'), (b"&quot;", b'"'), (b"&apos;", b'\''), (b"&amp;", b'&')];
    /// independent un-escaper: the five predefined entities and numeric references; None for a raw '&'
    fn unescape(x: &[u8]) -> Option<Vec<u8>> {
        let mut out = Vec::new();
        let mut i = 0;
        while i < x.len() {
            if x[i] != b'&' { out.push(x[i]); i += 1; continue }
            if let Some((e, c)) = ENT.iter().find(|(e, _)| x[i..].starts_with(e)) { out.push(*c); i += e.len(); continue }
            let end = i + x[i..].iter().position(|c| *c == b';')?;
            let body = str::from_utf8(&x[i + 1..end]).ok()?;
            let v = if let Some(hex) = body.strip_prefix("#x") { u32::from_str_radix(hex, 16).ok()? } else { body.strip_prefix('#')?.parse::<u32>().ok()? };
            if v > 0x7f { return None }
            out.push(v as u8);
            i = end + 1;
        }
        Some(out)
    }
    const ECH: &[u8] = b"<>&\"'a;#x<&\"' =/-]?!lgtampquos\n\t0";
    //@harness rrdp_w_escape W fn=TextEscape::{write_escaped,replace_char},Text::write_escaped,DisplayText::write_str,Element::attr,AttrValue::into_ascii_bytes n=40000 timeout=300
    verif_search!{ rrdp_w_escape; |attr: bool, n: u8, t: [u8; 24], via: u8| {
        let s: Vec<u8> = t[..(n as usize) % 25].iter().map(|b| if *b >= 0xE0 { *b } else { ECH[(*b as usize) % ECH.len()] }).collect();
        let mode = if attr { TextEscape::Attr } else { TextEscape::Pcdata };
        let text = str::from_utf8(&s).ok();
        let mut out = Vec::new();
        match (via % 4, text) {
            (1, Some(x)) => assert!(<str as XmlText>::write_escaped(x, mode, &mut out).is_ok(), "escaping into memory succeeds"),
            (2, Some(x)) => assert!(<String as XmlText>::write_escaped(&x.to_string(), mode, &mut out).is_ok(), "escaping into memory succeeds"),
            (3, Some(x)) if attr => {
                // the whole writer: <e a="..."/>
                let mut doc = Vec::new();
                let mut w = XmlWriter::new(&mut doc);
                let ok = w.element(Name::unqualified(b"e")).and_then(|e| e.attr("a", x)).is_ok();
                assert!(ok && w.done().is_ok(), "writing an attribute to memory succeeds");
                assert!(doc.starts_with(b"<e a=\"") && doc.ends_with(b"\"/>"), "an attribute is written as name=\"value\"");
                out = doc[6..doc.len() - 3].to_vec();
            }
            _ => assert!(<[u8] as XmlText>::write_escaped(&s[..], mode, &mut out).is_ok(), "escaping into memory succeeds"),
        }
        // no raw markup characters (attribute mode: none of < > " ' ; PCDATA: no <), every & starts a reference
        assert!(!out.contains(&b'<'), "escaped text contains no raw <");
        if attr { assert!(!out.contains(&b'"') && !out.contains(&b'\'') && !out.contains(&b'>'), "escaped attribute text contains no raw \" ' >"); }
        let back = unescape(&out);
        assert!(back.is_some(), "escaped text contains no raw &");
        assert!(back.unwrap() == s, "un-escaping the escaped text gives the input back");
        // the crate's own attribute decoder agrees (plain printable ASCII only)
        if attr && s.iter().all(|c| (0x20..0x7f).contains(c)) {
            let mut doc = b"<e a=\"".to_vec(); doc.extend_from_slice(&out); doc.extend_from_slice(b"\"/>");
            let mut got = None;
            let r: Result<Content, XmlError> = Reader::new(&doc[..]).start(|el| el.attributes(|_, v| { got = Some(v.into_ascii_bytes()?); Ok(()) }));
            assert!(r.is_ok() && got.as_deref() == Some(&s[..]), "an escaped attribute value is decoded back to the input");
        }
    }}

    // ---------------------------------------------------------------- mutated files: no panic
    const TOKENS: [&[u8]; 28] = [b"<!d[<>", b"<!DOCTYPE x [", b"<![CDATA[", b"]]>", b"<!--", b"-->", b"<?", b"?>", b"&#", b"&#x", b"&amp;", b"&lt",
        b";", b"\"", b"'", b"<", b">", b"/", b"=", b" ", b"xmlns:a=\"b\" ", b"a:", b"\xff", b"\x00", b"&#49;", b"\xef\xbb\xbf", b"</", b"&#1114112;"];
    fn mutate(doc: &mut Vec<u8>, op: u8, pos: u16, arg: u8) {
        let p = (pos as usize) % (doc.len() + 1);
        match op % 6 {
            0 => doc.truncate(p),
            1 => { let t = TOKENS[(arg as usize) % TOKENS.len()]; doc.splice(p..p, t.iter().cloned()); }
            2 => if p < doc.len() { doc[p] = arg },
            3 => { let e = (p + 1 + arg as usize % 40).min(doc.len()); doc.drain(p..e); }
            4 => { let e = (p + 1 + arg as usize % 40).min(doc.len()); let d = doc[p..e].to_vec(); doc.splice(p..p, d); }
            _ => if p < doc.len() { doc[p] ^= 1 << (arg % 8) },
        }
    }
    //@harness rrdp_w_mutate W fn=NotificationFile::{parse,write_xml},Snapshot::{parse,write_xml},Delta::{parse,write_xml},Reader::{start,end},Content::{take_opt_element,take_end,take_opt_final_text},Element::attributes,Text::base64_decode n=30000 timeout=600
    verif_search!{ rrdp_w_mutate; |kind: u8, seed: u64, n: u8, cap: u8, nm: u8, op0: u8, pos0: u16, arg0: u8, op1: u8, pos1: u16, arg1: u8, op2: u8, pos2: u16, arg2: u8| {
        let mut g = Gen(seed, 0);
        let (session, serial, count) = (Uuid::from_u128(g.next() as u128), g.next() % 100, (n % 4) as usize);
        let mut xml = Vec::new();
        match kind % 3 {
            0 => mk_notification(&mut g, session, serial, count, 9).write_xml(&mut xml),
            1 => mk_snapshot(&mut g, session, serial, count).write_xml(&mut xml),
            _ => mk_delta(&mut g, session, serial, count).write_xml(&mut xml),
        }.unwrap();
        let muts = [(op0, pos0, arg0), (op1, pos1, arg1), (op2, pos2, arg2)];
        for m in &muts[..1 + (nm as usize) % 3] { mutate(&mut xml, m.0, m.1, m.2); }
        // any byte stream: an error or a value, never a panic; a value that parsed also round-trips
        let mut again = Vec::new();
        match kind % 3 {
            0 => if let Ok(v) = NotificationFile::parse(rd(&xml, cap)) {
                v.write_xml(&mut again).unwrap();
                let r = NotificationFile::parse(&again[..]);
                assert!(r.is_ok() && same_notification(&r.unwrap(), &v), "a parsed notification file, written again, parses back to an equal value");
            }
            1 => if let Ok(v) = Snapshot::parse(rd(&xml, cap)) {
                v.write_xml(&mut again).unwrap();
                let r = Snapshot::parse(&again[..]);
                assert!(r.is_ok() && same_snapshot(&r.unwrap(), &v), "a parsed snapshot, written again, parses back to an equal value");
            }
            _ => if let Ok(v) = Delta::parse(rd(&xml, cap)) {
                v.write_xml(&mut again).unwrap();
                let r = Delta::parse(&again[..]);
                assert!(r.is_ok() && same_delta(&r.unwrap(), &v), "a parsed delta, written again, parses back to an equal value");
            }
        }
    }}

    // ---------------------------------------------------------------- bounded reading
    /// a source that serves `prefix`, then `cap` octets of a repeated unit, then end of file, and counts
    struct Hostile { prefix: Vec<u8>, block: Vec<u8>, cap: usize, pos: usize, pulled: Rc<Cell<usize>>, eofs: u32 }
    impl Hostile {
        fn new(prefix: Vec<u8>, unit: &[u8], cap: usize, pulled: Rc<Cell<usize>>) -> Self {
            let mut block = unit.to_vec();      // a whole number of units, at least 64 KB
            while block.len() < 65536 { block.extend_from_within(..) }
            Hostile { prefix, block, cap, pos: 0, pulled, eofs: 0 }
        }
    }
    impl io::Read for Hostile {
        fn read(&mut self, buf: &mut [u8]) -> io::Result<usize> {
            let total = self.prefix.len() + self.cap;
            if self.pos >= total || buf.is_empty() {
                self.eofs += 1;
                assert!(self.eofs < 100_000, "the parser keeps reading a stream that has ended");
                return Ok(0)
            }
            let n = if self.pos < self.prefix.len() {
                let n = buf.len().min(self.prefix.len() - self.pos);
                buf[..n].copy_from_slice(&self.prefix[self.pos..self.pos + n]);
                n
            } else {
                let off = (self.pos - self.prefix.len()) % self.block.len();
                let n = buf.len().min(self.block.len() - off).min(total - self.pos);
                buf[..n].copy_from_slice(&self.block[off..off + n]);
                n
            };
            self.pos += n;
            self.pulled.set(self.pos);
            Ok(n)
        }
    }
    /// endless runs: blanks, text / name / value, references, comments, unclosed constructs, attributes
    const UNITS: [&[u8]; 16] = [b" ", b"\n", b"\t \r\n", b"a", b"&", b"&amp;", b"<!-- c -->", b"<!--", b"<![CDATA[", b"<?p ", b"\"", b"'",
        b"a=\"b\" ", b"<a>", b"A", b"=\n"];
    fn pick_cut(doc: &[u8], max: usize, mode: u8, sel: u16) -> usize {
        // half of the time right behind some '>' (behind a start tag, an end tag, a comment), else anywhere
        let gts: Vec<usize> = doc[..max].iter().enumerate().filter(|(_, c)| **c == b'>').map(|(i, _)| i + 1).filter(|i| *i <= max).collect();
        if mode % 2 == 0 && !gts.is_empty() { gts[(sel as usize) % gts.len()] } else { (sel as usize) % (max + 1) }
    }
    fn hex(g: &mut Gen) -> String { g.bytes(32).iter().map(|b| format!("{b:02x}")).collect() }
    fn b64_lines(data: &[u8], g: &mut Gen) -> Vec<u8> {
        let mut out = Vec::new();
        for (i, c) in base64::Xml.encode(data).bytes().enumerate() { if i % 17 == 16 && g.below(2) == 0 { out.extend_from_slice(b"\n   ") } out.push(c) }
        out
    }
    /// a well-formed file in free layout (declaration, comments, open/close or empty children, wrapped Base64);
    /// returns the text and the index of the '>' that ends the root start tag
    fn styled(kind: u8, g: &mut Gen, nchild: usize, style: u8) -> (Vec<u8>, usize) {
        let mut t = Vec::new();
        if style & 1 != 0 { t.extend_from_slice(b"<?xml version=\"1.0\" encoding=\"UTF-8\"?>\n") }
        if style & 2 != 0 { t.extend_from_slice(b"<!-- generated -->\n") }
        let root = ["notification", "snapshot", "delta"][(kind % 3) as usize];
        t.extend_from_slice(format!("<{} xmlns=\"http://www.ripe.net/rpki/rrdp\" version=\"1\" session_id=\"{}\" serial=\"{}\"",
            root, Uuid::from_u128(g.next() as u128), g.next() % 1000).as_bytes());
        let hdr_end = t.len();
        t.push(b'>');
        for i in 0..nchild {
            t.extend_from_slice(b"\n  ");
            if g.below(4) == 0 { t.extend_from_slice(b"<!-- c -->") }
            let open = g.below(3) != 0;
            let uri_r = String::from_utf8(rsync_text(g)).unwrap().replace('&', "&amp;").replace('\'', "&apos;");
            let uri_h = String::from_utf8(https_text(g)).unwrap().replace('&', "&amp;").replace('\'', "&apos;");
            let (name, attrs, body): (&str, String, Vec<u8>) = match kind % 3 {
                0 if i == 0 => ("snapshot", format!(" uri=\"{}\" hash=\"{}\"", uri_h, hex(g)), Vec::new()),
                0 => ("delta", format!(" serial=\"{}\" uri=\"{}\" hash=\"{}\"", g.next() % 100, uri_h, hex(g)), Vec::new()),
                1 => ("publish", format!(" uri=\"{}\"", uri_r), { let k = g.below(60); let d = g.bytes(k); b64_lines(&d, g) }),
                _ => match g.below(3) {
                    0 => ("publish", format!(" uri=\"{}\"", uri_r), { let k = g.below(60); let d = g.bytes(k); b64_lines(&d, g) }),
                    1 => ("publish", format!(" uri=\"{}\" hash=\"{}\"", uri_r, hex(g)), { let k = g.below(60); let d = g.bytes(k); b64_lines(&d, g) }),
                    _ => ("withdraw", format!(" uri=\"{}\" hash=\"{}\"", uri_r, hex(g)), Vec::new()),
                }
            };
            t.extend_from_slice(format!("<{}{}", name, attrs).as_bytes());
            if open || !body.is_empty() {
                t.push(b'>');
                if !body.is_empty() { t.extend_from_slice(b"\n    "); t.extend_from_slice(&body); t.extend_from_slice(b"\n  "); }
                t.extend_from_slice(format!("</{}>", name).as_bytes());
            } else {
                t.extend_from_slice(b"/>");
            }
        }
        t.extend_from_slice(format!("\n</{}>\n", root).as_bytes());
        if style & 4 != 0 { t.extend_from_slice(b"<!-- end -->\n") }
        (t, hdr_end)
    }
    /// runs the real parser for `kind` over prefix + endless run; returns (octets pulled from the source, accepted)
    fn run_hostile(kind: u8, prefix: Vec<u8>, unit: &[u8], cap: usize, buf: usize) -> (usize, bool) {
        let pulled = Rc::new(Cell::new(0usize));
        let src = io::BufReader::with_capacity(buf, Hostile::new(prefix, unit, cap, pulled.clone()));
        let ok = match kind % 3 {
            0 => NotificationFile::parse(src).is_ok(),
            1 => Snapshot::parse(src).is_ok(),
            _ => Delta::parse(src).is_ok(),
        };
        (pulled.get(), ok)
    }

    /// the xml::decode reader used directly with ONE small limit for every element: an RRDP-shaped walk
    /// (root, children, optional text / nested element, end) that stops at the first error
    fn walk<R: io::BufRead>(src: R, limit: u64, mode: u8) -> Result<(), XmlError> {
        fn attrs(el: crate::xml::decode::Element) -> Result<(), XmlError> { el.attributes(|_, v| { v.into_ascii_bytes()?; Ok(()) }) }
        let mut reader = Reader::new(src);
        let mut outer = reader.start_with_limit(attrs, limit)?;
        while let Some(mut inner) = outer.take_opt_element_with_limit(&mut reader, attrs, limit)? {
            match mode % 5 {
                0 => inner.take_end(&mut reader)?,
                1 => inner.take_opt_final_text(&mut reader, |t| match t { Some(t) => t.to_utf8().map(|_| ()), None => Ok(()) })?,
                2 => inner.skip_opt_text(&mut reader)?,
                3 => { inner.take_text_with_limit(&mut reader, |t| t.to_ascii().map(|_| ()), limit)?; inner.take_end(&mut reader)? }
                _ => { let mut deep = inner.take_element_with_limit(&mut reader, attrs, limit)?; deep.take_end(&mut reader)?; inner.take_end(&mut reader)? }
            }
        }
        outer.take_end(&mut reader)?;
        reader.end()
    }
    fn walk_doc(g: &mut Gen, mode: u8, nchild: usize, style: u8) -> Vec<u8> {
        let mut t = Vec::new();
        if style & 1 != 0 { t.extend_from_slice(b"<?xml version=\"1.0\"?>\n") }
        if style & 2 != 0 { t.extend_from_slice(b"<!-- c --><!DOCTYPE r>\n") }
        t.extend_from_slice(b"<r a=\"v1\" b='v2'>");
        for _ in 0..nchild {
            if g.below(3) == 0 { t.extend_from_slice(b"\n <!-- c -->") }
            t.extend_from_slice(b"\n <e k=\"v\">");
            match mode % 5 {
                0 => if g.below(2) == 0 { t.extend_from_slice(b" <!-- x --> ") },
                1 | 2 => if g.below(4) != 0 { t.extend_from_slice(b"\n  dGV4dA==\n ") },
                3 => t.extend_from_slice(b"text"),
                _ => t.extend_from_slice(if g.below(2) == 0 { b"<g x=\"1\"/>" } else { b"<g x=\"1\"> </g>" }),
            }
            t.extend_from_slice(b"</e>");
        }
        t.extend_from_slice(b"\n</r>\n");
        if style & 4 != 0 { t.extend_from_slice(b"<!-- t -->") }
        t
    }

    //@harness rrdp_w_bounded_xml W fn=Reader::{reset_and_limit,start_with_limit,end},Content::{take_opt_element_with_limit,take_element_with_limit,take_text_with_limit,take_end,take_opt_final_text,skip_opt_text},BufReadCounter::{fill_buf,consume} n=40000 timeout=600
    verif_search!{ rrdp_w_bounded_xml; |seed: u64, mode: u8, nchild: u8, style: u8, cutmode: u8, cutsel: u16, unit: u8, lim: u16, bufsel: u8, short: u8| {
        let mut g = Gen(seed, 0);
        let doc = walk_doc(&mut g, mode, (nchild % 4) as usize, style);
        let cut = pick_cut(&doc, doc.len(), cutmode, cutsel);
        let limit = 1 + (lim % 3000) as usize;
        let buf = [1usize, 2, 7, 16, 64, 256, 1024, 8192][(bufsel % 8) as usize];
        let unit = UNITS[(unit as usize) % UNITS.len()];
        // an endless run (longer than limit + buffers), or now and then one that ends early
        let cap = if short % 8 == 0 { (short as usize) * 8 } else { limit + 4 * buf + 1000 };
        let pulled = Rc::new(Cell::new(0usize));
        let src = io::BufReader::with_capacity(buf, Hostile::new(doc[..cut].to_vec(), unit, cap, pulled.clone()));
        let _ = walk(src, limit as u64, mode);       // an error or a value, no panic
        // the counter was last reset at or before the start of the run: limit, plus the buffer in flight, plus one read ahead
        assert!(pulled.get() <= cut + limit + 2 * buf + 64, "reading stops within the element limit plus one buffer beyond the start of the offending element");
    }}

    const HEADER_LIMIT: usize = 1_000_000;      // MAX_HEADER_SIZE of the property text ("configured limits"), written down independently
    const FILE_LIMIT: usize = 100_000_000;      // MAX_FILE_SIZE

    //@harness rrdp_w_bounded_hdr W fn=NotificationFile::parse,Snapshot::parse,Delta::parse,ProcessSnapshot::process,ProcessDelta::process,Reader::{start_with_limit,end},Content::{take_opt_element_with_limit,take_end} n=400 timeout=900
    verif_search!{ rrdp_w_bounded_hdr; |kind: u8, seed: u64, nchild: u8, style: u8, cutmode: u8, cutsel: u16, unit: u8, bufsel: u8| {
        let mut g = Gen(seed, 0);
        // notification files: the 1 MB limit holds everywhere; snapshot / delta files: up to the end of the root start tag
        let kind = if kind % 4 == 3 { 0 } else { kind % 4 };
        let (doc, hdr_end) = styled(kind, &mut g, 1 + (nchild % 3) as usize, style);
        let cut = pick_cut(&doc, if kind == 0 { doc.len() } else { hdr_end }, cutmode, cutsel);
        let buf = [512usize, 4096, 8192, 65536][(bufsel % 4) as usize];
        let unit = UNITS[(unit as usize) % UNITS.len()];
        let cap = HEADER_LIMIT + 4 * buf + 100_000;
        let (pulled, _) = run_hostile(kind, doc[..cut].to_vec(), unit, cap, buf);
        assert!(pulled <= cut + HEADER_LIMIT + 2 * buf + 64, "reading stops within the 1 MB header limit plus one buffer beyond the start of the offending element");
    }}

    //@harness rrdp_w_bounded_file W fn=Snapshot::parse,Delta::parse,ProcessSnapshot::process,ProcessDelta::process,ObjectReader::process,Content::{take_opt_element_with_limit,take_opt_final_text,take_end},NotificationFile::{parse,write_xml} n=24 timeout=900
    verif_search!{ rrdp_w_bounded_file; |what: u8, seed: u64, style: u8, cutsel: u16, unit: u8| {
        let mut g = Gen(seed, 0);
        if what % 4 == 2 {
            // a notification file larger than the per-element limit (many deltas) still parses back
            g.1 = 4000;
            let v = mk_notification(&mut g, Uuid::from_u128(seed as u128), seed, 300 + (cutsel as usize) % 500, seed);
            let mut xml = Vec::new();
            v.write_xml(&mut xml).unwrap();
            assume(xml.len() > HEADER_LIMIT + 100_000);
            let r = NotificationFile::parse(io::BufReader::with_capacity(8192, &xml[..]));
            assert!(r.is_ok() && same_notification(&r.unwrap(), &v), "a written notification file larger than 1 MB parses back to an equal value");
            return
        }
        if what % 4 == 0 {
            // a large file written by the library (one object above the header limit) still parses back
            let (blk, mut data) = (g.bytes(1021), Vec::new());
            while data.len() < HEADER_LIMIT * 3 / 4 + (cutsel as usize) * 8 { data.extend_from_slice(&blk) }
            let big = PublishElement::new(rsync(&mut g), Bytes::from(data));
            let small = PublishElement::new(rsync(&mut g), object(&mut g));
            let v = Snapshot::new(Uuid::from_u128(seed as u128), seed, vec![small.clone(), big, small]);
            let mut xml = Vec::new();
            v.write_xml(&mut xml).unwrap();
            let r = Snapshot::parse(io::BufReader::with_capacity(8192, &xml[..]));
            assert!(r.is_ok() && same_snapshot(&r.unwrap(), &v), "a written snapshot with an object larger than 1 MB parses back to an equal value");
            return
        }
        // snapshot / delta bodies: a run behind the root start tag is bounded by the 100 MB limit
        let kind = 1 + (what / 4) % 2;
        let (doc, hdr_end) = styled(kind, &mut g, 2, style);
        let gts: Vec<usize> = doc.iter().enumerate().filter(|(i, c)| **c == b'>' && *i >= hdr_end).map(|(i, _)| i + 1).collect();
        let cut = if cutsel % 3 == 0 { hdr_end + 1 + (cutsel as usize) % (doc.len() - hdr_end) } else { gts[(cutsel as usize) % gts.len()] };
        let long_comment = [&b"<!--"[..], &[b'c'; 4000][..], b"-->"].concat();      // (short comments: 10 M events, too slow)
        let unit = [&b" "[..], b"\n", b"A", &long_comment[..], b"a=\"b\" ", b"\t \r\n"][(unit as usize) % 6];
        let buf = 65536;
        let (pulled, _) = run_hostile(kind, doc[..cut].to_vec(), unit, FILE_LIMIT + 4 * buf + 1_000_000, buf);
        assert!(pulled <= cut + FILE_LIMIT + 2 * buf + 64, "reading stops within the 100 MB file limit plus one buffer beyond the start of the offending element");
    }}
}
//@end
