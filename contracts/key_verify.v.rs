// Unit key_verify (C01, clause "succeeds only if its signature verifies under the issuer's key"):
// the rpki-rs part of signature verification, src/crypto/keys.rs + src/crypto/signature.rs +
// SignedData::verify_signature of src/repository/x509.rs.
//
//   PublicKey::verify(message, signature) is Ok  <=>  sig_ok(key, message, signature), where `sig_ok` is
//   DEFINED here as
//       the public key format DECLARED by the signature's algorithm identifier == the key's format
//       && awslc_verify_ok(key's format, key bits, message, signature value)
//   and awslc_verify_ok(format, ..) is the aws-lc primitive selected by the format
//   (Rsa -> RSA_PKCS1_2048_8192_SHA256, EcdsaP256 -> ECDSA_P256_SHA256_ASN1; the primitives themselves are
//   uninterpreted functions of (algorithm, key, message, signature): the cryptography is not verified).
//   SignedData::verify_signature(key) is Ok  <=>  sig_ok(key, captured signed octets, its signature).
//
// The units cert_compose, sigobj_compose and sigmsg_compose assume these two contracts through contract
// links (//@stub key_verify :: ...); for them `sig_ok` is uninterpreted (shared/sig_vocab.v.rs).
// Real text of /repo: the enums PublicKeyFormat and SigningAlgorithm, the structs PublicKey, Signature,
// SignedData, RpkiSignatureAlgorithm, BgpsecSignatureAlgorithm, KeyIdentifier, SignatureVerificationError
// and every function body under contract.  The trait SignatureAlgorithm is declared here with the two
// members that matter (signing_algorithm: required, public_key_format: the real default body); its
// bcder-bound members (type Encoder, x509_take_from, x509_encode) are left out.
use vstd::prelude::*;
use vstd::std_specs::cmp::*;
use vstd::std_specs::convert::*;

verus! {

// =================================================================================================
// environment: bytes / bcder (opaque stand-ins)
// =================================================================================================
/// bytes::Bytes
#[verifier::external_body]
pub struct Bytes { _o: u8 }
/// the octets of a Bytes
pub uninterp spec fn bytes_view(b: Bytes) -> Seq<u8>;
impl Bytes {
    /// bytes: `impl AsRef<[u8]> for Bytes` returns the octets
    #[verifier::external_body]
    pub fn as_ref(&self) -> (r: &[u8]) ensures r@ == bytes_view(*self) { unimplemented!() }
}
/// bcder::Captured (same stand-in and view as shared/cms_vocab.v.rs)
#[verifier::external_body]
pub struct Captured { _o: u8 }
/// the captured octets
pub uninterp spec fn captured_view(c: Captured) -> Seq<u8>;
impl Captured {
    /// bcder: `impl AsRef<[u8]> for Captured` returns the captured octets
    #[verifier::external_body]
    pub fn as_ref(&self) -> (r: &[u8]) ensures r@ == captured_view(*self) { unimplemented!() }
}
/// bcder::string::BitString
#[verifier::external_body]
pub struct BitString { _o: u8 }
/// the octets of the bit string (including the partially used last octet)
pub uninterp spec fn bits_view(b: BitString) -> Seq<u8>;
impl BitString {
    /// bcder 0.7.7 (the locked version): `octet_slice` is `Some(self.bits.as_ref())` unconditionally --
    /// only primitively encoded bit strings exist
    #[verifier::external_body]
    pub fn octet_slice(&self) -> (r: Option<&[u8]>)
        ensures r matches Some(s) && s@ == bits_view(*self)
    { unimplemented!() }
}

// =================================================================================================
// environment: aws-lc-rs
// =================================================================================================
pub mod error {
    /// aws_lc_rs::error::Unspecified
    #[verifier::external_body]
    pub struct Unspecified { _o: u8 }
}
pub use error::Unspecified;

pub mod signature {
    use super::*;
    /// aws_lc_rs::signature::RsaParameters (an RSA verification algorithm)
    #[verifier::external_body]
    pub struct RsaParameters { _o: u8 }
    /// aws_lc_rs::signature::EcdsaVerificationAlgorithm
    #[verifier::external_body]
    pub struct EcdsaVerificationAlgorithm { _o: u8 }
    /// the aws-lc primitive: `sig` is a valid signature of `msg` under the public key `key` for the
    /// verification algorithm `alg` (uninterpreted: the cryptography is not verified)
    pub uninterp spec fn rsa_verifies(alg: RsaParameters, key: Seq<u8>, msg: Seq<u8>, sig: Seq<u8>) -> bool;
    pub uninterp spec fn ecdsa_verifies(alg: EcdsaVerificationAlgorithm, key: Seq<u8>, msg: Seq<u8>, sig: Seq<u8>) -> bool;
    /// specification-only names for the values of the two aws-lc statics used by rpki-rs
    pub uninterp spec fn rsa_pkcs1_2048_8192_sha256_val() -> RsaParameters;
    pub uninterp spec fn ecdsa_p256_sha256_asn1_val() -> EcdsaVerificationAlgorithm;
    /// initialiser of the stand-in static: its value is the one named above (naming only, no fact about it)
    #[verifier::external_body]
    const fn rsa_pkcs1_2048_8192_sha256() -> (r: RsaParameters) ensures r == rsa_pkcs1_2048_8192_sha256_val() { RsaParameters { _o: 0 } }
    /// initialiser of the stand-in static: its value is the one named above (naming only, no fact about it)
    #[verifier::external_body]
    const fn ecdsa_p256_sha256_asn1() -> (r: EcdsaVerificationAlgorithm) ensures r == ecdsa_p256_sha256_asn1_val() { EcdsaVerificationAlgorithm { _o: 0 } }
    /// aws_lc_rs::signature::RSA_PKCS1_2048_8192_SHA256
    pub exec static RSA_PKCS1_2048_8192_SHA256: RsaParameters
        ensures RSA_PKCS1_2048_8192_SHA256 == rsa_pkcs1_2048_8192_sha256_val()
    { rsa_pkcs1_2048_8192_sha256() }
    /// aws_lc_rs::signature::ECDSA_P256_SHA256_ASN1
    pub exec static ECDSA_P256_SHA256_ASN1: EcdsaVerificationAlgorithm
        ensures ECDSA_P256_SHA256_ASN1 == ecdsa_p256_sha256_asn1_val()
    { ecdsa_p256_sha256_asn1() }
    impl RsaParameters {
        /// aws-lc `VerificationAlgorithm::verify_sig`: Ok exactly when the primitive accepts
        #[verifier::external_body]
        pub fn verify_sig(&self, public_key: &[u8], msg: &[u8], signature: &[u8]) -> (r: Result<(), Unspecified>)
            ensures r.is_ok() <==> rsa_verifies(*self, public_key@, msg@, signature@)
        { unimplemented!() }
    }
    impl EcdsaVerificationAlgorithm {
        /// aws-lc `VerificationAlgorithm::verify_sig`: Ok exactly when the primitive accepts
        #[verifier::external_body]
        pub fn verify_sig(&self, public_key: &[u8], msg: &[u8], signature: &[u8]) -> (r: Result<(), Unspecified>)
            ensures r.is_ok() <==> ecdsa_verifies(*self, public_key@, msg@, signature@)
        { unimplemented!() }
    }
}

pub mod digest {
    use super::*;
    /// aws_lc_rs::digest::Algorithm
    #[verifier::external_body]
    pub struct Algorithm { _o: u8 }
    /// aws_lc_rs::digest::Digest
    #[verifier::external_body]
    pub struct Digest { _o: u8 }
    /// the octets of a digest value
    pub uninterp spec fn digest_view(d: Digest) -> Seq<u8>;
    /// the digest of `data` under the algorithm (uninterpreted: the cryptography is not verified)
    pub uninterp spec fn digest_of(alg: Algorithm, data: Seq<u8>) -> Seq<u8>;
    /// specification-only name for the value of the aws-lc static SHA1_FOR_LEGACY_USE_ONLY
    pub uninterp spec fn sha1_val() -> Algorithm;
    /// initialiser of the stand-in static: its value is the one named above (naming only)
    #[verifier::external_body]
    const fn sha1_for_legacy_use_only() -> (r: Algorithm) ensures r == sha1_val() { Algorithm { _o: 0 } }
    /// aws_lc_rs::digest::SHA1_FOR_LEGACY_USE_ONLY
    pub exec static SHA1_FOR_LEGACY_USE_ONLY: Algorithm
        ensures SHA1_FOR_LEGACY_USE_ONLY == sha1_val()
    { sha1_for_legacy_use_only() }
    /// aws-lc `digest::digest(algorithm, data)`: the digest of the data
    #[verifier::external_body]
    pub fn digest(algorithm: &'static Algorithm, data: &[u8]) -> (r: Digest)
        ensures digest_view(r) == digest_of(*algorithm, data@)
    { unimplemented!() }
    /// aws-lc: a SHA-1 digest has 20 octets (SHA1_OUTPUT_LEN = 20; `Digest::as_ref` returns
    /// `&output[..algorithm.output_len]`)
    #[verifier::external_body]
    pub broadcast proof fn axiom_sha1_len(data: Seq<u8>)
        ensures #[trigger] digest_of(sha1_val(), data).len() == 20 {}
    impl Digest {
        /// aws-lc: `impl AsRef<[u8]> for Digest` returns the digest octets
        #[verifier::external_body]
        pub fn as_ref(&self) -> (r: &[u8]) ensures r@ == digest_view(*self) { unimplemented!() }
    }
}

// =================================================================================================
// environment: std
// =================================================================================================
/// core::array::TryFromSliceError
#[verifier::external_type_specification]
#[verifier::external_body]
pub struct ExTryFromSliceError(core::array::TryFromSliceError);
/// R12 stand-in for `value.try_into()` with `value: &[u8]` and target `[u8; 20]` (std
/// `impl TryFrom<&[T]> for [T; N]`): Verus gives the result of the trait-generic call no array typing, so
/// the following `.map(..)` cannot be checked.  Contract (std): Ok exactly when the slice has 20 elements,
/// and then the array holds them.
#[verifier::external_body]
pub fn slice_try_into_array20(s: &[u8]) -> (r: Result<[u8; 20], core::array::TryFromSliceError>)
    ensures r.is_ok() <==> s@.len() == 20, r matches Ok(a) ==> a@ == s@
{ s.try_into() }

// =================================================================================================
// real items
// =================================================================================================
//@item src/crypto/keys.rs :: pub enum PublicKeyFormat keepderive=Clone,Copy,Eq,PartialEq
//@item src/crypto/signer.rs :: pub enum SigningAlgorithm keepderive=Clone,Copy
//@item src/crypto/keys.rs :: pub struct PublicKey pubfields
//@item src/crypto/keys.rs :: pub struct SignatureVerificationError pubfields keepderive=Clone,Copy
//@item src/crypto/keys.rs :: pub struct KeyIdentifier pubfields keepderive=Clone,Copy
//@item src/crypto/keys.rs :: pub struct KeyIdentifierSliceError keepderive=Debug
//@item src/crypto/signature.rs :: pub struct RpkiSignatureAlgorithm pubfields keepderive=Clone,Copy
//@item src/crypto/signature.rs :: pub struct BgpsecSignatureAlgorithm pubfields keepderive=Clone,Copy
//@item src/crypto/signature.rs :: pub struct Signature<Alg> pubfields
//@item src/repository/x509.rs :: pub struct SignedData<Alg = RpkiSignatureAlgorithm> pubfields

pub mod ax {
    use super::*;
    /// derive(PartialEq) on the field-less enum PublicKeyFormat is variant equality
    #[verifier::external_body]
    pub broadcast proof fn axiom_pkf_eq_obeys()
        ensures #[trigger] <PublicKeyFormat as PartialEqSpec>::obeys_eq_spec() {}
    #[verifier::external_body]
    pub broadcast proof fn axiom_pkf_eq(a: PublicKeyFormat, b: PublicKeyFormat)
        ensures #[trigger] a.eq_spec(&b) == (a == b) {}
}

// =================================================================================================
// specification vocabulary
// =================================================================================================
/// the public key format that goes with a signing algorithm
pub open spec fn signing_format(a: SigningAlgorithm) -> PublicKeyFormat {
    match a {
        SigningAlgorithm::RsaSha256 => PublicKeyFormat::Rsa,
        SigningAlgorithm::EcdsaP256Sha256 => PublicKeyFormat::EcdsaP256,
    }
}
/// the aws-lc primitive that rpki-rs uses for a public key format: RSA PKCS#1 v1.5 (2048-8192 bit) with
/// SHA-256 for RSA keys (RFC 7935), ECDSA P-256 with SHA-256, ASN.1 signature format, for router keys (RFC 8608)
pub open spec fn awslc_verify_ok(format: PublicKeyFormat, bits: Seq<u8>, msg: Seq<u8>, sig: Seq<u8>) -> bool {
    match format {
        PublicKeyFormat::Rsa => signature::rsa_verifies(signature::rsa_pkcs1_2048_8192_sha256_val(), bits, msg, sig),
        PublicKeyFormat::EcdsaP256 => signature::ecdsa_verifies(signature::ecdsa_p256_sha256_asn1_val(), bits, msg, sig),
    }
}

/// SHA-1 (aws-lc, uninterpreted)
pub open spec fn sha1(data: Seq<u8>) -> Seq<u8> { digest::digest_of(digest::sha1_val(), data) }

/// DEFINITION of the key identifier that the composition units keep uninterpreted: the KeyIdentifier whose
/// 20 octets are the SHA-1 hash of the key's bits (RFC 6487 section 4.8.2)
pub open spec fn ski_of(key: PublicKey) -> KeyIdentifier {
    KeyIdentifier(choose|a: [u8; 20]| a@ == sha1(bits_view(key.bits)))
}
pub mod lem {
    use super::*;
    /// a key identifier holding the SHA-1 octets of the key bits IS ski_of(key) (arrays are extensional)
    pub broadcast proof fn lemma_ski_unique(key: PublicKey, k: KeyIdentifier)
        requires k.0@ == sha1(bits_view(key.bits)),
        ensures #![trigger k.0@, ski_of(key)] k == ski_of(key),
    {
        let a = choose|a: [u8; 20]| a@ == sha1(bits_view(key.bits));
        assert(a@ == k.0@);
        assert(a =~= k.0);
    }
}

/// crypto::signature::SignatureAlgorithm: "the allowed signature algorithms for a certain purpose"
pub trait SignatureAlgorithm: Sized {
    /// specification-only: the signing algorithm this identifier declares
    spec fn declared(&self) -> SigningAlgorithm;

    /// required method (real declaration: `fn signing_algorithm(&self) -> SigningAlgorithm;`)
    fn signing_algorithm(&self) -> (r: SigningAlgorithm)
        ensures r == self.declared();

    // default method: real body
    //@fn src/crypto/signature.rs :: pub trait SignatureAlgorithm: Sized :: public_key_format
    //@spec
        ensures r == signing_format(self.declared()),
    //@/spec
    //@end
}

/// the public key format declared by the algorithm identifier of a signature
pub open spec fn declared_format<Alg: SignatureAlgorithm>(sig: Signature<Alg>) -> PublicKeyFormat {
    signing_format(sig.algorithm.declared())
}
/// DEFINITION of the predicate that the composition units keep uninterpreted (shared/sig_vocab.v.rs):
/// the signature `sig` (algorithm identifier and value) over `msg` verifies under `key`
pub open spec fn sig_ok<Alg: SignatureAlgorithm>(key: PublicKey, msg: Seq<u8>, sig: Signature<Alg>) -> bool {
    declared_format(sig) == key.algorithm
    && awslc_verify_ok(key.algorithm, bits_view(key.bits), msg, bytes_view(sig.value))
}

// =================================================================================================
// real code
// =================================================================================================
impl SigningAlgorithm {
    //@fn src/crypto/signer.rs :: impl SigningAlgorithm :: public_key_format
    //@spec
        ensures r == signing_format(self),
    //@/spec
    //@end
}

impl SignatureAlgorithm for RpkiSignatureAlgorithm {
    open spec fn declared(&self) -> SigningAlgorithm { SigningAlgorithm::RsaSha256 }
    //@fn src/crypto/signature.rs :: impl SignatureAlgorithm for RpkiSignatureAlgorithm :: signing_algorithm
    //@end
}
impl SignatureAlgorithm for BgpsecSignatureAlgorithm {
    open spec fn declared(&self) -> SigningAlgorithm { SigningAlgorithm::EcdsaP256Sha256 }
    //@fn src/crypto/signature.rs :: impl SignatureAlgorithm for BgpsecSignatureAlgorithm :: signing_algorithm
    //@end
}

impl<Alg> Signature<Alg> {
    //@fn src/crypto/signature.rs :: impl<Alg> Signature<Alg> :: algorithm
    //@spec
        ensures *r == self.algorithm,
    //@/spec
    //@end
    //@fn src/crypto/signature.rs :: impl<Alg> Signature<Alg> :: value
    //@spec
        ensures *r == self.value,
    //@/spec
    //@end
}

impl FromSpecImpl<Unspecified> for SignatureVerificationError {
    open spec fn obeys_from_spec() -> bool { false }
    open spec fn from_spec(e: Unspecified) -> SignatureVerificationError { arbitrary() }
}
impl From<Unspecified> for SignatureVerificationError {
    //@fn src/crypto/keys.rs :: impl From<Unspecified> for SignatureVerificationError :: from
    //@sigsub R12 "_: Unspecified" "_e: Unspecified"
    //@end
}

impl<'a> TryFromSpecImpl<&'a [u8]> for KeyIdentifier {
    open spec fn obeys_try_from_spec() -> bool { false }
    open spec fn try_from_spec(v: &'a [u8]) -> Result<Self, KeyIdentifierSliceError> { arbitrary() }
}
impl<'a> TryFrom<&'a [u8]> for KeyIdentifier {
    type Error = KeyIdentifierSliceError;

    //@fn src/crypto/keys.rs :: impl<'a> TryFrom<&'a [u8]> for KeyIdentifier :: try_from
    //@sub R12 "value.try_into()" "slice_try_into_array20(value)"
    //@sub R12 ".map(KeyIdentifier)" ".map(|a| -> (k: KeyIdentifier) ensures k.0 == a { KeyIdentifier(a) })"
    //@sub R12 "|_|" "|_e|"
    //@spec
        ensures r.is_ok() <==> value@.len() == 20, r matches Ok(k) ==> k.0@ == value@,
    //@/spec
    //@end
}

// NOTE for the links `//@stub key_verify :: impl PublicKey :: verify`: the assembler takes the FIRST //@fn block
// emitting `verify` whose line contains "impl PublicKey"; keep PublicKey::verify above PublicKeyFormat::verify.
impl PublicKey {
    //@fn src/crypto/keys.rs :: impl PublicKey :: key_identifier
    //@spec
        ensures r == ski_of(*self),
    //@/spec
    //@ghost begin
        proof { broadcast use digest::axiom_sha1_len, lem::lemma_ski_unique; }
    //@/ghost
    //@end

    //@fn src/crypto/keys.rs :: impl PublicKey :: verify
    //@spec
        ensures r.is_ok() <==> sig_ok(*self, message@, *signature),
    //@/spec
    //@ghost begin
        proof { broadcast use ax::axiom_pkf_eq_obeys, ax::axiom_pkf_eq; }
    //@/ghost
    //@end

    //@fn src/crypto/keys.rs :: impl PublicKey :: algorithm
    //@spec
        ensures r == self.algorithm,
    //@/spec
    //@end

    //@fn src/crypto/keys.rs :: impl PublicKey :: bits
    //@spec
        ensures r@ == bits_view(self.bits),
    //@/spec
    //@end

    //@fn src/crypto/keys.rs :: impl PublicKey :: allow_rpki_cert
    //@spec
        ensures r == (self.algorithm is Rsa),
    //@/spec
    //@end

    //@fn src/crypto/keys.rs :: impl PublicKey :: allow_router_cert
    //@spec
        ensures r == (self.algorithm is EcdsaP256),
    //@/spec
    //@end
}

impl PublicKeyFormat {
    //@fn src/crypto/keys.rs :: impl PublicKeyFormat :: allow_rpki_cert
    //@spec
        ensures r == (self is Rsa),
    //@/spec
    //@end

    //@fn src/crypto/keys.rs :: impl PublicKeyFormat :: allow_router_cert
    //@spec
        ensures r == (self is EcdsaP256),
    //@/spec
    //@end

    //@fn src/crypto/keys.rs :: impl PublicKeyFormat :: verify
    //@spec
        ensures r.is_ok() <==> awslc_verify_ok(self, bits@, message@, signature@),
    //@/spec
    //@end
}

impl<Alg: SignatureAlgorithm> SignedData<Alg> {
    //@fn src/repository/x509.rs :: impl<Alg: SignatureAlgorithm> SignedData<Alg> :: verify_signature
    //@spec
        ensures r.is_ok() <==> sig_ok(*public_key, captured_view(self.data), self.signature),
    //@/spec
    //@end
}

// =================================================================================================
// consequences
// =================================================================================================
/// the contract of PublicKey::verify in full: Ok exactly when the format declared by the signature's
/// algorithm identifier is the key's format AND the aws-lc primitive for the key's format accepts
pub proof fn lemma_verify_unfolded<Alg: SignatureAlgorithm>(key: PublicKey, msg: Seq<u8>, sig: Signature<Alg>)
    ensures
        sig_ok(key, msg, sig) <==> (
            signing_format(sig.algorithm.declared()) == key.algorithm
            && awslc_verify_ok(key.algorithm, bits_view(key.bits), msg, bytes_view(sig.value))),
        // a signature whose declared algorithm does not go with the key type never verifies ...
        signing_format(sig.algorithm.declared()) != key.algorithm ==> !sig_ok(key, msg, sig),
        // ... whatever the primitive for the key's own type says
        sig_ok(key, msg, sig) ==> awslc_verify_ok(signing_format(sig.algorithm.declared()), bits_view(key.bits), msg, bytes_view(sig.value)),
{}
/// which format each algorithm identifier type declares: RPKI signatures go with RSA keys only,
/// BGPsec (router certificate request) signatures with ECDSA P-256 keys only
pub proof fn lemma_declared_formats(key: PublicKey, msg: Seq<u8>, rs: Signature<RpkiSignatureAlgorithm>, bs: Signature<BgpsecSignatureAlgorithm>)
    ensures
        declared_format(rs) == PublicKeyFormat::Rsa,
        declared_format(bs) == PublicKeyFormat::EcdsaP256,
        sig_ok(key, msg, rs) ==> key.algorithm is Rsa
            && signature::rsa_verifies(signature::rsa_pkcs1_2048_8192_sha256_val(), bits_view(key.bits), msg, bytes_view(rs.value)),
        sig_ok(key, msg, bs) ==> key.algorithm is EcdsaP256
            && signature::ecdsa_verifies(signature::ecdsa_p256_sha256_asn1_val(), bits_view(key.bits), msg, bytes_view(bs.value)),
        key.algorithm is EcdsaP256 ==> !sig_ok(key, msg, rs),
        key.algorithm is Rsa ==> !sig_ok(key, msg, bs),
{}

/// ski_of(key) is THE key identifier holding the SHA-1 hash of the key's bits: any identifier holding it (such
/// as the one PublicKey::key_identifier computes) is equal to it
pub proof fn lemma_ski_is_sha1(key: PublicKey, k: KeyIdentifier)
    requires k.0@ == sha1(bits_view(key.bits)),
    ensures ski_of(key) == k, ski_of(key).0@ == sha1(bits_view(key.bits)),
{
    lem::lemma_ski_unique(key, k);
}

// =================================================================================================
// vacuity guard
// =================================================================================================
/// both outcomes of the contract are reachable: an RSA key with an accepting primitive verifies an RPKI
/// signature, and the same key never verifies a BGPsec signature
pub proof fn reach_verify(key: PublicKey, msg: Seq<u8>, rs: Signature<RpkiSignatureAlgorithm>, bs: Signature<BgpsecSignatureAlgorithm>)
    requires
        key.algorithm is Rsa,
        signature::rsa_verifies(signature::rsa_pkcs1_2048_8192_sha256_val(), bits_view(key.bits), msg, bytes_view(rs.value)),
    ensures
        sig_ok(key, msg, rs),
        !sig_ok(key, msg, bs),
{}

} // verus!
fn main() {}
