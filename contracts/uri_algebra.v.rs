// Unit uri_algebra (C12, path-algebra clauses): the operations of src/uri.rs on ALREADY PARSED
// values, verified for all lengths.  The parsers (`from_bytes`: iterator adapters / splitn) are out
// of scope here (unit uri_parse; bounded Kani unit uri_kb); what they establish is captured here as the data-structure
// invariant `wf_rsync(bytes, module_start, path_start)` / `wf_https(bytes, path_idx)`.  "The result
// re-parses to an equal value" becomes: the result satisfies the invariant with ITS OWN cached
// offsets, and the offsets are a function of the bytes (lemma_rsync_offsets_unique /
// lemma_https_offset_unique), so a re-parse can only produce the same value.
//
// Environment: opaque `Bytes` / `BytesMut` stand-ins with a `Seq<u8>` view; `&str` is handled by
// vstd's own UTF-8 model (`spec_bytes`, slicing needs char boundaries; ASCII-only text is valid UTF-8
// and every index is a boundary: lemma_ascii_*), so `as_str`, `path`, `module`, ... are verified
// including the `from_utf8_unchecked` safety condition.  Only three `str` pattern searches are
// replaced by environment functions (R12, listed in uri_algebra.trusted).
use vstd::prelude::*;
use vstd::string::StringSliceAdditionalSpecFns;
use std::str;

verus! {

// ================================================================================================
// environment: bytes crate
// ================================================================================================
#[verifier::external_body]
pub struct Bytes { _o: u8 }
impl View for Bytes {
    type V = Seq<u8>;
    uninterp spec fn view(&self) -> Seq<u8>;
}
impl core::ops::Deref for Bytes {
    type Target = [u8];
    /// bytes: `Bytes: Deref<Target = [u8]>` is the slice of all octets; a Rust slice never exceeds isize::MAX bytes
    #[verifier::external_body]
    fn deref(&self) -> (r: &[u8]) ensures r@ == self@, r@.len() <= isize::MAX { unimplemented!() }
}
impl Bytes {
    /// bytes: `<Bytes as AsRef<[u8]>>::as_ref` is the slice of all octets
    #[verifier::external_body]
    pub fn as_ref(&self) -> (r: &[u8]) ensures r@ == self@, r@.len() <= isize::MAX { unimplemented!() }
    /// bytes: `Bytes::clone` shares the same octets
    #[verifier::external_body]
    pub fn clone(&self) -> (r: Bytes) ensures r@ == self@ { unimplemented!() }
    /// bytes: `Bytes::truncate(len)` keeps the first `len` octets, no effect if `len` is not smaller than the length
    #[verifier::external_body]
    pub fn truncate(&mut self, len: usize)
        ensures final(self)@ == (if len <= old(self)@.len() { old(self)@.subrange(0, len as int) } else { old(self)@ })
    { unimplemented!() }
}
#[verifier::external_body]
pub struct BytesMut { _o: u8 }
impl View for BytesMut {
    type V = Seq<u8>;
    uninterp spec fn view(&self) -> Seq<u8>;
}
impl BytesMut {
    /// bytes: `BytesMut::with_capacity` is empty (the capacity is only a hint, the buffer grows)
    #[verifier::external_body]
    pub fn with_capacity(capacity: usize) -> (r: BytesMut) ensures r@ == Seq::<u8>::empty() { unimplemented!() }
    /// bytes: `BytesMut::extend_from_slice` appends the octets
    #[verifier::external_body]
    pub fn extend_from_slice(&mut self, extend: &[u8]) ensures final(self)@ == old(self)@ + extend@ { unimplemented!() }
    /// bytes: `<BytesMut as BufMut>::put_slice` appends the octets (BytesMut grows, never panics for lack of room)
    #[verifier::external_body]
    pub fn put_slice(&mut self, src: &[u8]) ensures final(self)@ == old(self)@ + src@ { unimplemented!() }
    /// bytes: `BytesMut::freeze` keeps the octets
    #[verifier::external_body]
    pub fn freeze(self) -> (r: Bytes) ensures r@ == self@ { unimplemented!() }
}

// ================================================================================================
// environment: std
// ================================================================================================
/// std: `[u8]::eq_ignore_ascii_case`: same length and byte-wise equal after `to_ascii_lowercase`
pub assume_specification [ <[u8]>::eq_ignore_ascii_case ] (a: &[u8], b: &[u8]) -> (r: bool)
    ensures r == eq_ic(a@, b@);
/// std: `str::eq_ignore_ascii_case` is `self.as_bytes().eq_ignore_ascii_case(other.as_bytes())`
pub assume_specification [ <str>::eq_ignore_ascii_case ] (a: &str, b: &str) -> (r: bool)
    ensures r == eq_ic(a.spec_bytes(), b.spec_bytes());
/// std: the free function `core::str::from_utf8_unchecked` has the contract vstd gives to the
/// associated function `str::from_utf8_unchecked` (same function in std): safe exactly for valid UTF-8
pub assume_specification [ core::str::from_utf8_unchecked ] (v: &[u8]) -> (r: &str)
    requires vstd::utf8::valid_utf8(v@),
    ensures r.spec_bytes() == v@;

/// std: `impl<I: SliceIndex<str>> Index<I> for str` is `index.index(self)` (vstd specifies `SliceIndex<str>::index`
/// for all range types and the precondition of `str[..]`, but not this delegation; same shape as vstd's `[T]` case)
pub assume_specification<I: core::slice::SliceIndex<str>> [ <str as core::ops::Index<I>>::index ] (s: &str, index: I) -> (output: &I::Output)
    ensures call_ensures(<I as core::slice::SliceIndex<str>>::index, (index, s), output);

/// R12 stand-in for `s.ends_with(c)` with a `char` pattern (`Pattern` is generic and unstable):
/// for an ASCII `c` the last character is `c` exactly when the last octet is
#[verifier::external_body]
pub fn str_ends_with_char(s: &str, c: char) -> (r: bool)
    requires (c as u32) < 128,
    ensures r == (s.spec_bytes().len() > 0 && s.spec_bytes().last() == c as u8),
{ s.ends_with(c) }
/// R12 stand-in for `s.rfind(c)` with a `char` pattern: byte index of the last occurrence of an ASCII `c`
#[verifier::external_body]
pub fn str_rfind_char(s: &str, c: char) -> (r: Option<usize>)
    requires (c as u32) < 128,
    ensures match r {
        Some(i) => i < s.spec_bytes().len() && s.spec_bytes()[i as int] == c as u8
            && forall|j: int| i < j < s.spec_bytes().len() ==> s.spec_bytes()[j] != c as u8,
        None => forall|j: int| 0 <= j < s.spec_bytes().len() ==> s.spec_bytes()[j] != c as u8,
    },
{ s.rfind(c) }
/// R12 stand-in for `s.starts_with(t)` with a `&str` pattern: octet-wise prefix test
#[verifier::external_body]
pub fn str_starts_with_str(s: &str, t: &str) -> (r: bool)
    ensures r == (t.spec_bytes().len() <= s.spec_bytes().len()
                  && s.spec_bytes().subrange(0, t.spec_bytes().len() as int) == t.spec_bytes()),
{ s.starts_with(t) }

// ---- std::hash: a recording stand-in for the generic `H: Hasher` ---------------------------------------
/// opaque stand-in for the type parameter `H: hash::Hasher` of `Hash::hash`; `fed()` is the sequence of
/// `write*` calls made on it so far, each with the octets it was given (a `Hasher` is a function of that)
#[verifier::external_body]
pub struct RecHasher { _o: u8 }
impl RecHasher {
    pub uninterp spec fn fed(&self) -> Seq<Seq<u8>>;
}
/// the length prefix `<[u8] as Hash>::hash` writes in front of the octets (`Hasher::write_length_prefix`)
pub uninterp spec fn len_prefix(n: nat) -> Seq<u8>;
/// stand-in for `std::hash::Hash` on the two receiver types used by uri.rs (R12): what `x.hash(state)` feeds
pub trait HashFeed {
    spec fn feed(&self) -> Seq<Seq<u8>>;
    fn hash(&self, state: &mut RecHasher)
        ensures final(state).fed() == old(state).fed() + self.feed();
}
impl HashFeed for u8 {
    open spec fn feed(&self) -> Seq<Seq<u8>> { seq![seq![*self]] }
    /// std: `<u8 as Hash>::hash` is `state.write_u8(*self)`
    #[verifier::external_body]
    fn hash(&self, state: &mut RecHasher) { unimplemented!() }
}
impl HashFeed for [u8] {
    open spec fn feed(&self) -> Seq<Seq<u8>> { seq![len_prefix(self@.len()), self@] }
    /// std: `<[u8] as Hash>::hash` is `state.write_length_prefix(self.len()); state.write(self)`
    #[verifier::external_body]
    fn hash(&self, state: &mut RecHasher) { unimplemented!() }
}
/// std: `u8::to_ascii_lowercase`
pub assume_specification [ u8::to_ascii_lowercase ] (c: &u8) -> (r: u8) ensures r == lower(*c);

// ================================================================================================
// specification vocabulary (property statement C12)
// ================================================================================================
//@include shared/uri_vocab.v.rs
/// the first n octets agree: the first k (scheme, authority) ASCII-case-insensitively, the rest exactly
pub open spec fn agree(x: Seq<u8>, y: Seq<u8>, k: int, n: int) -> bool {
    n <= x.len() && n <= y.len()
    && forall|i: int| #![trigger x[i]] #![trigger y[i]] 0 <= i < n ==> (if i < k { lower(x[i]) == lower(y[i]) } else { x[i] == y[i] })
}
/// equality of the property statement: the first k octets (scheme, authority) compared
/// ASCII-case-insensitively, the rest exactly
pub open spec fn eq_mod_case(x: Seq<u8>, y: Seq<u8>, k: int) -> bool { x.len() == y.len() && agree(x, y, k, x.len() as int) }
/// the text as a directory: with exactly one '/' appended unless it already ends in one
pub open spec fn dir(b: Seq<u8>) -> Seq<u8> { if b.len() > 0 && b.last() == 0x2f { b } else { b.push(0x2f) } }
/// the same for an https text, where a '/' in front of the path index belongs to "https://"
pub open spec fn https_dir(b: Seq<u8>, pi: int) -> Seq<u8> { if b.len() > pi && b.last() == 0x2f { b } else { b.push(0x2f) } }
/// index where the text ends when one trailing slash is dropped
pub open spec fn strip_end(b: Seq<u8>) -> int { if b.len() > 0 && b.last() == 0x2f { b.len() - 1 } else { b.len() as int } }
/// the last segment of b (without a possible trailing slash) is non-empty and starts at n
pub open spec fn last_seg_at(b: Seq<u8>, n: int) -> bool {
    0 <= n < strip_end(b) && forall|i: int| n <= i < strip_end(b) ==> #[trigger] b[i] != 0x2f
}

//@item src/uri.rs :: pub enum Error keepderive=Clone,Copy,Debug
//@item src/uri.rs :: pub enum Scheme keepderive=Clone,Copy
//@item src/uri.rs :: pub struct Rsync pubfields
//@item src/uri.rs :: pub struct Https pubfields

impl Rsync {
    pub open spec fn wf(&self) -> bool { wf_rsync(self.bytes@, self.module_start as int, self.path_start as int) }
}
impl Https {
    pub open spec fn wf(&self) -> bool { wf_https(self.uri@, self.path_idx as int) }
}
/// `==` on rsync URIs as the property states it
pub open spec fn rsync_eq(a: Rsync, b: Rsync) -> bool { eq_mod_case(a.bytes@, b.bytes@, a.module_start as int) }
/// same scheme/authority (case-insensitively) and same module name (exactly)
pub open spec fn same_module(a: Rsync, b: Rsync) -> bool {
    a.module_start == b.module_start && a.path_start == b.path_start
    && agree(a.bytes@, b.bytes@, a.module_start as int, a.path_start as int)
}
/// a is a parent directory of b: b's text continues a's text-as-directory by at least one octet
pub open spec fn parent_of_b(a: Seq<u8>, k: int, b: Seq<u8>) -> bool {
    b.len() > dir(a).len() && agree(dir(a), b, k, dir(a).len() as int)
}
pub open spec fn parent_of(a: Rsync, b: Rsync) -> bool { parent_of_b(a.bytes@, a.module_start as int, b.bytes@) }
/// equal up to one trailing slash
pub open spec fn eq_upto_slash_b(a: Seq<u8>, b: Seq<u8>, k: int) -> bool {
    eq_mod_case(a, b, k) || eq_mod_case(a.push(0x2f), b, k) || eq_mod_case(a, b.push(0x2f), k)
}
pub open spec fn eq_upto_slash(a: Rsync, b: Rsync) -> bool { eq_upto_slash_b(a.bytes@, b.bytes@, a.module_start as int) }
/// what `s.relative_to(o)` promises for a reported path `pb` (ks, ko: the module offsets of s and o):
/// pb is a tail of s that `join` accepts; it is empty exactly when s and o are equal up to one trailing
/// slash; when it is not empty, join(o, pb) == s under `==`
pub open spec fn rel_some(s: Seq<u8>, ks: int, o: Seq<u8>, ko: int, pb: Seq<u8>) -> bool {
    &&& all_permitted(pb) && path_ok(pb)
    &&& pb.len() <= s.len() && pb =~= s.subrange(s.len() - pb.len(), s.len() as int)
    &&& (pb.len() == 0 <==> eq_upto_slash_b(s, o, ks))
    &&& (pb.len() > 0 ==> eq_mod_case(dir(o) + pb, s, ko))
}
/// ... and when it reports nothing: neither equal up to a slash nor beneath o
pub open spec fn rel_none(s: Seq<u8>, ks: int, o: Seq<u8>, ko: int) -> bool {
    !eq_upto_slash_b(s, o, ks) && !parent_of_b(o, ko, s)
}
/// what `Hash::hash` feeds for an rsync URI: the lowercased scheme/authority part and ONE further octet
/// one `write_u8` call per octet of s, lowercased
pub open spec fn lowered(s: Seq<u8>) -> Seq<Seq<u8>> { Seq::new(s.len(), |i: int| seq![lower(s[i])]) }
pub open spec fn rsync_hash_input(a: Rsync) -> Seq<Seq<u8>> {
    lowered(a.bytes@.subrange(0, a.module_start as int)).push(seq![a.bytes@[a.module_start as int]])
}
/// ... for an https URI: the lowercased scheme/authority part, then the rest as a length-prefixed slice
pub open spec fn https_hash_input(a: Https) -> Seq<Seq<u8>> {
    lowered(a.uri@.subrange(0, a.path_idx as int))
        + seq![len_prefix((a.uri@.len() - a.path_idx) as nat), a.uri@.subrange(a.path_idx as int, a.uri@.len() as int)]
}
/// `==` on https URIs as the property states it
pub open spec fn https_eq(a: Https, b: Https) -> bool {
    a.path_idx == b.path_idx && eq_mod_case(a.uri@, b.uri@, a.path_idx as int)
}

// ================================================================================================
// lemmas
// ================================================================================================
// ---- ASCII text is valid UTF-8 and every index is a character boundary -------------------------------
pub proof fn lemma_ascii_valid(b: Seq<u8>)
    requires all_permitted(b),
    ensures vstd::utf8::valid_utf8(b),
{
    assert forall|i: int| 0 <= i < b.len() implies vstd::utf8::is_leading_byte_width_1(#[trigger] b[i]) by {
        assert(permitted(b[i]));
    }
    assert(b.subrange(0, 0) =~= Seq::<u8>::empty());
    assert(vstd::utf8::valid_utf8(Seq::<u8>::empty()));
    assert(vstd::utf8::partial_valid_utf8(b, 0));
    vstd::utf8::partial_valid_utf8_extend_ascii_block(b, 0, b.len() as int);
    assert(b.subrange(0, b.len() as int) =~= b);
}
pub proof fn lemma_ascii_boundary(b: Seq<u8>, i: int)
    requires all_permitted(b), 0 <= i <= b.len(),
    ensures vstd::utf8::valid_utf8(b), vstd::utf8::is_char_boundary(b, i),
{
    lemma_ascii_valid(b);
    if i < b.len() {
        assert(permitted(b[i]));
        vstd::utf8::is_char_boundary_iff_not_is_continuation_byte(b, i);
    } else {
        vstd::utf8::is_char_boundary_start_end_of_seq(b);
    }
}

// ---- offsets are a function of the bytes ---------------------------------------------------------
/// two well-formed texts that agree up to ASCII case on a prefix covering the module part of one of
/// them have the same offsets (lower() neither creates nor destroys a '/')
pub proof fn lemma_offsets_agree(x: Seq<u8>, msx: int, psx: int, y: Seq<u8>, msy: int, psy: int, k: int, n: int)
    requires wf_rsync(x, msx, psx), wf_rsync(y, msy, psy), psx <= n, agree(x, y, k, n),
    ensures msx == msy, psx == psy,
{
    assert forall|i: int| 0 <= i < n implies lower(#[trigger] x[i]) == lower(y[i]) by {}
    assert(lower(x[msx - 1]) == lower(y[msx - 1]));
    assert(lower(x[psx - 1]) == lower(y[psx - 1]));
    assert forall|i: int| 8 <= i < psx - 1 && i != msx - 1 implies y[i] != 0x2f by {
        assert(lower(x[i]) == lower(y[i]));
        assert(x[i] != 0x2f);
    }
    if msy < msx { assert(y[msy - 1] == 0x2f); assert(false); }
    if msy > msx { assert(y[msx - 1] != 0x2f); assert(false); }
    if psy < psx { assert(y[psy - 1] == 0x2f); assert(false); }
    if psy > psx { assert(y[psx - 1] != 0x2f); assert(false); }
}
/// "re-parses to the same value": the cached offsets are determined by the text
pub proof fn lemma_rsync_offsets_unique(b: Seq<u8>, ms1: int, ps1: int, ms2: int, ps2: int)
    requires wf_rsync(b, ms1, ps1), wf_rsync(b, ms2, ps2),
    ensures ms1 == ms2, ps1 == ps2,
{
    lemma_offsets_agree(b, ms1, ps1, b, ms2, ps2, 0, b.len() as int);
}
pub proof fn lemma_https_offset_unique(b: Seq<u8>, p1: int, p2: int)
    requires wf_https(b, p1), wf_https(b, p2),
    ensures p1 == p2,
{
    if p1 < p2 { assert(b[p1] == 0x2f); assert(false); }
    if p2 < p1 { assert(b[p2] == 0x2f); assert(false); }
}

// ---- equality is an equivalence ---------------------------------------------------------------------
pub proof fn lemma_rsync_eq_offsets(a: Rsync, b: Rsync)
    requires a.wf(), b.wf(), rsync_eq(a, b),
    ensures a.module_start == b.module_start, a.path_start == b.path_start,
{
    lemma_offsets_agree(a.bytes@, a.module_start as int, a.path_start as int,
        b.bytes@, b.module_start as int, b.path_start as int, a.module_start as int, a.bytes@.len() as int);
}
pub proof fn lemma_rsync_eq_refl(a: Rsync) ensures rsync_eq(a, a) {}
pub proof fn lemma_rsync_eq_sym(a: Rsync, b: Rsync)
    requires a.wf(), b.wf(), rsync_eq(a, b),
    ensures rsync_eq(b, a),
{
    lemma_rsync_eq_offsets(a, b);
}
pub proof fn lemma_agree_trans(x: Seq<u8>, y: Seq<u8>, z: Seq<u8>, k: int, n: int)
    requires agree(x, y, k, n), agree(y, z, k, n),
    ensures agree(x, z, k, n),
{
    assert forall|i: int| 0 <= i < n implies (if i < k { lower(#[trigger] x[i]) == lower(z[i]) } else { x[i] == z[i] }) by {
        assert(if i < k { lower(x[i]) == lower(y[i]) } else { x[i] == y[i] });
        assert(if i < k { lower(y[i]) == lower(z[i]) } else { y[i] == z[i] });
    }
}
pub proof fn lemma_rsync_eq_trans(a: Rsync, b: Rsync, c: Rsync)
    requires a.wf(), b.wf(), c.wf(), rsync_eq(a, b), rsync_eq(b, c),
    ensures rsync_eq(a, c),
{
    lemma_rsync_eq_offsets(a, b);
    lemma_agree_trans(a.bytes@, b.bytes@, c.bytes@, a.module_start as int, a.bytes@.len() as int);
}
pub proof fn lemma_https_eq_equiv(a: Https, b: Https, c: Https)
    ensures
        https_eq(a, a),
        https_eq(a, b) ==> https_eq(b, a),
        https_eq(a, b) && https_eq(b, c) ==> https_eq(a, c),
{
    if https_eq(a, b) && https_eq(b, c) {
        lemma_agree_trans(a.uri@, b.uri@, c.uri@, a.path_idx as int, a.uri@.len() as int);
    }
}
/// the split form computed by `PartialEq::eq` / `eq_module`
pub proof fn lemma_agree_split(x: Seq<u8>, y: Seq<u8>, k: int, n: int)
    requires 0 <= k <= n <= x.len(), n <= y.len(),
    ensures agree(x, y, k, n) == (eq_ic(x.subrange(0, k), y.subrange(0, k)) && x.subrange(k, n) =~= y.subrange(k, n)),
{
    let (x1, y1, x2, y2) = (x.subrange(0, k), y.subrange(0, k), x.subrange(k, n), y.subrange(k, n));
    if agree(x, y, k, n) {
        assert forall|i: int| 0 <= i < k implies lower(#[trigger] x1[i]) == lower(y1[i]) by { assert(x1[i] == x[i]); }
        assert forall|i: int| 0 <= i < x2.len() implies #[trigger] x2[i] == y2[i] by { assert(x2[i] == x[k + i]); }
    }
    if eq_ic(x1, y1) && x2 =~= y2 {
        assert forall|i: int| 0 <= i < n implies
            (if i < k { lower(#[trigger] x[i]) == lower(y[i]) } else { x[i] == y[i] }) by {
            if i < k { assert(x1[i] == x[i] && y1[i] == y[i]); } else { assert(x2[i - k] == x[i] && y2[i - k] == y[i]); }
        }
    }
}

// ---- equal URIs hash equally ---------------------------------------------------------------------
pub proof fn lemma_rsync_eq_hash(a: Rsync, b: Rsync)
    requires a.wf(), b.wf(), rsync_eq(a, b),
    ensures rsync_hash_input(a) == rsync_hash_input(b),
{
    lemma_rsync_eq_offsets(a, b);
    let k = a.module_start as int;
    assert(lowered(a.bytes@.subrange(0, k)) =~= lowered(b.bytes@.subrange(0, k))) by {
        assert forall|i: int| 0 <= i < k implies lower(#[trigger] a.bytes@.subrange(0, k)[i]) == lower(b.bytes@.subrange(0, k)[i]) by {
            assert(lower(a.bytes@[i]) == lower(b.bytes@[i]));
        }
    }
    assert(a.bytes@[k] == b.bytes@[k]);
}
pub proof fn lemma_https_eq_hash(a: Https, b: Https)
    requires a.wf(), b.wf(), https_eq(a, b),
    ensures https_hash_input(a) == https_hash_input(b),
{
    let k = a.path_idx as int;
    assert(lowered(a.uri@.subrange(0, k)) =~= lowered(b.uri@.subrange(0, k))) by {
        assert forall|i: int| 0 <= i < k implies lower(#[trigger] a.uri@.subrange(0, k)[i]) == lower(b.uri@.subrange(0, k)[i]) by {
            assert(lower(a.uri@[i]) == lower(b.uri@[i]));
        }
    }
    assert(a.uri@.subrange(k, a.uri@.len() as int) =~= b.uri@.subrange(k, b.uri@.len() as int)) by {
        assert forall|i: int| k <= i < a.uri@.len() implies #[trigger] a.uri@[i] == b.uri@[i] by {}
    }
}

// ---- path_ok under suffix / prefix / concatenation -------------------------------------------------
pub proof fn lemma_path_ok_suffix(b: Seq<u8>, s: int, t: int)
    requires path_ok_from(b, s), 0 <= s <= t <= b.len(), seg_start(b, s, t),
    ensures path_ok(b.subrange(t, b.len() as int)),
{
    let p = b.subrange(t, b.len() as int);
    assert forall|i: int| 0 <= i < p.len() && #[trigger] p[i] == 0x2f implies i > 0 && p[i - 1] != 0x2f by {
        assert(b[t + i] == 0x2f);
    }
    assert forall|i: int| 0 <= i < p.len() implies !#[trigger] dot_seg_at(p, 0, i) by {
        if dot_seg_at(p, 0, i) {
            assert(p[i] == b[t + i]);
            if i > 0 { assert(p[i - 1] == b[t + i - 1]); }
            if i + 1 < p.len() { assert(p[i + 1] == b[t + i + 1]); }
            if i + 2 < p.len() { assert(p[i + 2] == b[t + i + 2]); }
            assert(dot_seg_at(b, s, t + i));
        }
    }
}
pub proof fn lemma_parent_wf(b: Seq<u8>, ms: int, ps: int, n: int)
    requires wf_rsync(b, ms, ps), ps <= n <= b.len(), b[n - 1] == 0x2f,
    ensures wf_rsync(b.subrange(0, n), ms, ps),
{
    let p = b.subrange(0, n);
    assert(p.subrange(0, 8) =~= b.subrange(0, 8));
    assert forall|i: int| 0 <= i < p.len() implies permitted(#[trigger] p[i]) by { assert(p[i] == b[i]); }
    assert forall|i: int| 8 <= i < p.len() && #[trigger] p[i] == 0x2f implies i > 8 && p[i - 1] != 0x2f by {
        assert(b[i] == 0x2f);
    }
    assert forall|i: int| 8 <= i < p.len() implies !#[trigger] dot_seg_at(p, 8, i) by {
        if dot_seg_at(p, 8, i) {
            assert(p[i] == b[i] && p[n - 1] == 0x2f);
            assert(dot_seg_at(b, 8, i));
        }
    }
    assert forall|i: int| 8 <= i < ps - 1 && i != ms - 1 implies #[trigger] p[i] != 0x2f by { assert(b[i] != 0x2f); }
}
/// the truncation step of `parent`: n is the path start, or lies just behind the last '/' of the
/// path without its trailing slash
pub proof fn lemma_parent_cut(b: Seq<u8>, ms: int, ps: int, n: int)
    requires
        wf_rsync(b, ms, ps), ps < strip_end(b), ps <= n <= strip_end(b), b[n - 1] == 0x2f,
        forall|i: int| n <= i < strip_end(b) ==> #[trigger] b[i] != 0x2f,
    ensures
        n < strip_end(b), wf_rsync(b.subrange(0, n), ms, ps), last_seg_at(b, n),
        b.subrange(0, n).last() == 0x2f, parent_of_b(b.subrange(0, n), ms, b),
{
    let e = strip_end(b);
    if n == e {
        if e < b.len() { assert(b[e] == 0x2f); }
        assert(false);
    }
    lemma_parent_wf(b, ms, ps, n);
    let p = b.subrange(0, n);
    assert(p[n - 1] == b[n - 1]);
    assert(dir(p) == p);
}
pub proof fn lemma_dir_wf(b: Seq<u8>, ms: int, ps: int)
    requires wf_rsync(b, ms, ps),
    ensures wf_rsync(dir(b), ms, ps),
{
    if b.last() != 0x2f {
        let c = b.push(0x2f);
        let n = b.len() as int;
        assert(c.subrange(0, 8) =~= b.subrange(0, 8));
        assert forall|i: int| 0 <= i < c.len() implies permitted(#[trigger] c[i]) by { if i < n { assert(c[i] == b[i]); } }
        assert forall|i: int| 8 <= i < c.len() && #[trigger] c[i] == 0x2f implies i > 8 && c[i - 1] != 0x2f by {
            if i < n { assert(b[i] == 0x2f); }
        }
        assert forall|i: int| 8 <= i < c.len() implies !#[trigger] dot_seg_at(c, 8, i) by {
            if dot_seg_at(c, 8, i) {
                assert(i < n);
                assert(c[i] == b[i]);
                assert(dot_seg_at(b, 8, i));
            }
        }
        assert forall|i: int| 8 <= i < ps - 1 && i != ms - 1 implies #[trigger] c[i] != 0x2f by { assert(b[i] != 0x2f); }
    }
}
pub proof fn lemma_join_wf(b: Seq<u8>, ms: int, ps: int, p: Seq<u8>)
    requires wf_rsync(b, ms, ps), all_permitted(p), path_ok(p), p.len() > 0,
    ensures wf_rsync(dir(b) + p, ms, ps),
{
    lemma_dir_wf(b, ms, ps);
    let d = dir(b);
    let n = d.len() as int;
    let c = d + p;
    assert(d[n - 1] == 0x2f);
    assert(c.subrange(0, 8) =~= d.subrange(0, 8));
    assert forall|i: int| 0 <= i < c.len() implies permitted(#[trigger] c[i]) by {
        if i < n { assert(c[i] == d[i]); } else { assert(c[i] == p[i - n]); }
    }
    assert forall|i: int| 8 <= i < c.len() && #[trigger] c[i] == 0x2f implies i > 8 && c[i - 1] != 0x2f by {
        if i < n { assert(d[i] == 0x2f); } else { assert(p[i - n] == 0x2f); }
    }
    assert forall|i: int| 8 <= i < c.len() implies !#[trigger] dot_seg_at(c, 8, i) by {
        if dot_seg_at(c, 8, i) {
            if i < n {
                assert(c[i] == d[i]);
                assert(i + 1 < n);
                assert(c[i + 1] == d[i + 1]);
                if i + 2 < n { assert(c[i + 2] == d[i + 2]); }
                assert(dot_seg_at(d, 8, i));
            } else {
                let j = i - n;
                assert(c[i] == p[j] && c[i - 1] == (if j == 0 { d[n - 1] } else { p[j - 1] }));
                if i + 1 < c.len() { assert(c[i + 1] == p[j + 1]); }
                if i + 2 < c.len() { assert(c[i + 2] == p[j + 2]); }
                assert(dot_seg_at(p, 0, j));
            }
        }
    }
    assert forall|i: int| 8 <= i < ps - 1 && i != ms - 1 implies #[trigger] c[i] != 0x2f by { assert(d[i] != 0x2f); }
}

// ---- https: join / parent keep the invariant ----------------------------------------------------------
pub proof fn lemma_https_join_wf(b: Seq<u8>, pi: int, p: Seq<u8>)
    requires wf_https(b, pi), all_permitted(p),
    ensures wf_https(https_dir(b, pi) + p, pi),
{
    let d = https_dir(b, pi);
    let c = d + p;
    assert(c.subrange(0, 8) =~= b.subrange(0, 8));
    assert forall|i: int| 0 <= i < c.len() implies permitted(#[trigger] c[i]) by {
        if i < b.len() { assert(c[i] == b[i]); } else if i < d.len() { assert(c[i] == 0x2f); } else { assert(c[i] == p[i - d.len()]); }
    }
    assert forall|i: int| 8 <= i < pi implies #[trigger] c[i] != 0x2f by { assert(c[i] == b[i]); }
    assert(c[pi] == 0x2f);
}
pub proof fn lemma_https_prefix_wf(b: Seq<u8>, pi: int, n: int)
    requires wf_https(b, pi), pi < n <= b.len(),
    ensures wf_https(b.subrange(0, n), pi),
{
    let c = b.subrange(0, n);
    assert(c.subrange(0, 8) =~= b.subrange(0, 8));
    assert forall|i: int| 0 <= i < c.len() implies permitted(#[trigger] c[i]) by { assert(c[i] == b[i]); }
    assert forall|i: int| 8 <= i < pi implies #[trigger] c[i] != 0x2f by { assert(c[i] == b[i]); }
}

// ---- the parent-of relation ------------------------------------------------------------------------
pub proof fn lemma_parent_offsets(a: Rsync, b: Rsync)
    requires a.wf(), b.wf(), parent_of(a, b),
    ensures a.module_start == b.module_start, a.path_start == b.path_start,
{
    let d = dir(a.bytes@);
    assert forall|i: int| 0 <= i < a.bytes@.len() implies
        (if i < a.module_start { lower(#[trigger] a.bytes@[i]) == lower(b.bytes@[i]) } else { a.bytes@[i] == b.bytes@[i] }) by {
        assert(d[i] == a.bytes@[i]);
    }
    lemma_offsets_agree(a.bytes@, a.module_start as int, a.path_start as int,
        b.bytes@, b.module_start as int, b.path_start as int, a.module_start as int, a.bytes@.len() as int);
}
pub proof fn lemma_parent_irreflexive(a: Rsync) ensures !parent_of(a, a) {}
pub proof fn lemma_parent_transitive(a: Rsync, b: Rsync, c: Rsync)
    requires a.wf(), b.wf(), c.wf(), parent_of(a, b), parent_of(b, c),
    ensures parent_of(a, c),
{
    lemma_parent_offsets(a, b);
    let (da, db) = (dir(a.bytes@), dir(b.bytes@));
    let k = a.module_start as int;
    assert forall|i: int| 0 <= i < da.len() implies
        (if i < k { lower(#[trigger] da[i]) == lower(c.bytes@[i]) } else { da[i] == c.bytes@[i] }) by {
        assert(db[i] == b.bytes@[i]);
        assert(if i < k { lower(da[i]) == lower(b.bytes@[i]) } else { da[i] == b.bytes@[i] });
        assert(if i < k { lower(db[i]) == lower(c.bytes@[i]) } else { db[i] == c.bytes@[i] });
    }
}
/// parent-of agrees with equality: equal arguments give the same answer
pub proof fn lemma_parent_congruent_half(a: Rsync, b: Rsync, a2: Rsync, b2: Rsync)
    requires a.wf(), b.wf(), a2.wf(), b2.wf(), rsync_eq(a, a2), rsync_eq(b, b2), parent_of(a, b),
    ensures parent_of(a2, b2),
{
    lemma_rsync_eq_offsets(a, a2);
    lemma_rsync_eq_offsets(b, b2);
    lemma_parent_offsets(a, b);
    let k = a.module_start as int;
    let (d, d2) = (dir(a.bytes@), dir(a2.bytes@));
    let n = a.bytes@.len() as int;
    assert(a.bytes@[n - 1] == a2.bytes@[n - 1]);
    assert(d.len() == d2.len());
    assert forall|i: int| 0 <= i < d2.len() implies
        (if i < k { lower(#[trigger] d2[i]) == lower(b2.bytes@[i]) } else { d2[i] == b2.bytes@[i] }) by {
        assert(if i < k { lower(d[i]) == lower(b.bytes@[i]) } else { d[i] == b.bytes@[i] });
        assert(if i < k { lower(b.bytes@[i]) == lower(b2.bytes@[i]) } else { b.bytes@[i] == b2.bytes@[i] });
        if i < n {
            assert(d[i] == a.bytes@[i] && d2[i] == a2.bytes@[i]);
            assert(if i < k { lower(a.bytes@[i]) == lower(a2.bytes@[i]) } else { a.bytes@[i] == a2.bytes@[i] });
        }
    }
}
pub proof fn lemma_parent_congruent(a: Rsync, b: Rsync, a2: Rsync, b2: Rsync)
    requires a.wf(), b.wf(), a2.wf(), b2.wf(), rsync_eq(a, a2), rsync_eq(b, b2),
    ensures parent_of(a, b) == parent_of(a2, b2),
{
    if parent_of(a, b) { lemma_parent_congruent_half(a, b, a2, b2); }
    if parent_of(a2, b2) {
        lemma_rsync_eq_sym(a, a2);
        lemma_rsync_eq_sym(b, b2);
        lemma_parent_congruent_half(a2, b2, a, b);
    }
}
/// a text that continues dir(a) by a non-empty path lies beneath a
pub proof fn lemma_join_beneath(a: Seq<u8>, k: int, pb: Seq<u8>, b: Seq<u8>)
    requires pb.len() > 0, eq_mod_case(dir(a) + pb, b, k),
    ensures parent_of_b(a, k, b),
{
    let d = dir(a);
    assert forall|i: int| 0 <= i < d.len() implies (if i < k { lower(#[trigger] d[i]) == lower(b[i]) } else { d[i] == b[i] }) by {
        assert((d + pb)[i] == d[i]);
    }
}
/// URIs equal up to one trailing slash are not beneath each other
pub proof fn lemma_eq_upto_slash_not_parent(s: Seq<u8>, mss: int, pss: int, o: Seq<u8>, mso: int, pso: int)
    requires wf_rsync(s, mss, pss), wf_rsync(o, mso, pso), eq_upto_slash_b(s, o, mss),
    ensures !parent_of_b(o, mso, s),
{
    if eq_mod_case(s, o.push(0x2f), mss) && o.last() == 0x2f {
        let n = o.len() as int;
        let o2 = o.push(0x2f);
        assert(o2[n] == 0x2f && o2[n - 1] == 0x2f);
        assert(if n < mss { lower(s[n]) == lower(o2[n]) } else { s[n] == o2[n] });
        assert(if n - 1 < mss { lower(s[n - 1]) == lower(o2[n - 1]) } else { s[n - 1] == o2[n - 1] });
        assert(s[n] == 0x2f);
        assert(false);
    }
}

// ---- relative_to -----------------------------------------------------------------------------------
/// every relation relative_to can report forces the same scheme/authority/module part
pub proof fn lemma_related_same_module(s: Seq<u8>, mss: int, pss: int, o: Seq<u8>, mso: int, pso: int)
    requires wf_rsync(s, mss, pss), wf_rsync(o, mso, pso), eq_upto_slash_b(s, o, mss) || parent_of_b(o, mso, s),
    ensures mss == mso, pss == pso, agree(s, o, mss, pss),
{
    let s2 = s.push(0x2f);
    let o2 = o.push(0x2f);
    let d = dir(o);
    if parent_of_b(o, mso, s) {
        assert forall|i: int| 0 <= i < o.len() implies
            (if i < mso { lower(#[trigger] o[i]) == lower(s[i]) } else { o[i] == s[i] }) by { assert(d[i] == o[i]); }
        lemma_offsets_agree(o, mso, pso, s, mss, pss, mso, o.len() as int);
        assert(agree(s, o, mss, pss));
    } else if eq_mod_case(s, o, mss) {
        lemma_offsets_agree(s, mss, pss, o, mso, pso, mss, s.len() as int);
    } else if eq_mod_case(s2, o, mss) {
        assert forall|i: int| 0 <= i < s.len() implies
            (if i < mss { lower(#[trigger] s[i]) == lower(o[i]) } else { s[i] == o[i] }) by { assert(s2[i] == s[i]); }
        lemma_offsets_agree(s, mss, pss, o, mso, pso, mss, s.len() as int);
    } else {
        assert forall|i: int| 0 <= i < o.len() implies
            (if i < mss { lower(#[trigger] s[i]) == lower(o[i]) } else { s[i] == o[i] }) by { assert(o2[i] == o[i]); }
        assert(agree(o, s, mss, o.len() as int));
        lemma_offsets_agree(o, mso, pso, s, mss, pss, mss, o.len() as int);
    }
}
/// facts about the end e of o's (non-empty) path without one trailing slash
pub proof fn lemma_stripped(o: Seq<u8>, ms: int, ps: int)
    requires wf_rsync(o, ms, ps), o.len() > ps,
    ensures
        ps < strip_end(o) <= o.len(), o[strip_end(o) - 1] != 0x2f,
        strip_end(o) < o.len() ==> strip_end(o) == o.len() - 1 && o[strip_end(o)] == 0x2f,
        dir(o) =~= o.subrange(0, strip_end(o)).push(0x2f),
{
    let n = o.len() as int;
    if o[n - 1] == 0x2f { assert(o[n - 2] != 0x2f); }
}
/// other is the module root: the whole path of self is reported
pub proof fn lemma_rel_root(s: Seq<u8>, o: Seq<u8>, ms: int, ps: int)
    requires wf_rsync(s, ms, ps), wf_rsync(o, ms, ps), agree(s, o, ms, ps), o.len() == ps,
    ensures rel_some(s, ms, o, ms, s.subrange(ps, s.len() as int)),
{
    let pb = s.subrange(ps, s.len() as int);
    lemma_path_ok_suffix(s, 8, ps);
    assert(dir(o) == o);
    if pb.len() > 0 {
        let c = o + pb;
        assert forall|i: int| 0 <= i < c.len() implies
            (if i < ms { lower(#[trigger] c[i]) == lower(s[i]) } else { c[i] == s[i] }) by {
            if i < ps { assert(c[i] == o[i]); assert(if i < ms { lower(s[i]) == lower(o[i]) } else { s[i] == o[i] }); }
            else { assert(c[i] == pb[i - ps]); }
        }
    }
    if eq_mod_case(s, o.push(0x2f), ms) {
        let o2 = o.push(0x2f);
        assert(o2[ps] == 0x2f);
        assert(s[ps] == o2[ps]);
        assert(false);
    }
}
/// self's path does not start with other's stripped path: unrelated
pub proof fn lemma_rel_no_prefix(s: Seq<u8>, o: Seq<u8>, ms: int, ps: int)
    requires
        wf_rsync(s, ms, ps), wf_rsync(o, ms, ps), agree(s, o, ms, ps), o.len() > ps,
        !(strip_end(o) <= s.len() && s.subrange(ps, strip_end(o)) =~= o.subrange(ps, strip_end(o))),
    ensures rel_none(s, ms, o, ms),
{
    lemma_stripped(o, ms, ps);
    let e = strip_end(o);
    let (s2, o2, d) = (s.push(0x2f), o.push(0x2f), dir(o));
    if eq_upto_slash_b(s, o, ms) || parent_of_b(o, ms, s) {
        assert(e <= s.len()) by {
            if eq_mod_case(s2, o, ms) { assert(s2[s.len() as int] == o[s.len() as int]); }
        }
        assert forall|i: int| ps <= i < e implies #[trigger] s[i] == o[i] by {
            if parent_of_b(o, ms, s) { assert(d[i] == o[i]); }
            else if eq_mod_case(s, o, ms) { }
            else if eq_mod_case(s2, o, ms) { assert(s2[i] == s[i]); }
            else { assert(o2[i] == o[i]); }
        }
        assert(s.subrange(ps, e) =~= o.subrange(ps, e));
    }
}
/// self's path is other's stripped path: equal up to one trailing slash
pub proof fn lemma_rel_same(s: Seq<u8>, o: Seq<u8>, ms: int, ps: int)
    requires
        wf_rsync(s, ms, ps), wf_rsync(o, ms, ps), agree(s, o, ms, ps), o.len() > ps,
        s.len() == strip_end(o), s.subrange(ps, strip_end(o)) =~= o.subrange(ps, strip_end(o)),
    ensures rel_some(s, ms, o, ms, Seq::<u8>::empty()),
{
    lemma_stripped(o, ms, ps);
    let e = strip_end(o);
    let s2 = s.push(0x2f);
    assert forall|i: int| 0 <= i < e implies (if i < ms { lower(#[trigger] s[i]) == lower(o[i]) } else { s[i] == o[i] }) by {
        if i >= ps { assert(s.subrange(ps, e)[i - ps] == o.subrange(ps, e)[i - ps]); }
    }
    if e < o.len() {
        assert forall|i: int| 0 <= i < s2.len() implies (if i < ms { lower(#[trigger] s2[i]) == lower(o[i]) } else { s2[i] == o[i] }) by {
            if i < e { assert(s2[i] == s[i]); }
        }
        assert(eq_mod_case(s2, o, ms));
    } else {
        assert(eq_mod_case(s, o, ms));
    }
}
/// ... continues with something other than '/': unrelated
pub proof fn lemma_rel_no_slash(s: Seq<u8>, o: Seq<u8>, ms: int, ps: int)
    requires
        wf_rsync(s, ms, ps), wf_rsync(o, ms, ps), agree(s, o, ms, ps), o.len() > ps,
        s.len() > strip_end(o), s[strip_end(o)] != 0x2f,
    ensures rel_none(s, ms, o, ms),
{
    lemma_stripped(o, ms, ps);
    let e = strip_end(o);
    let (s2, o2, d) = (s.push(0x2f), o.push(0x2f), dir(o));
    assert(d[e] == 0x2f);
    if parent_of_b(o, ms, s) { assert(d[e] == s[e]); }
    if eq_mod_case(s, o, ms) { assert(s[e] == o[e]); }
    if eq_mod_case(s, o2, ms) { assert(o2[e] == 0x2f); assert(s[e] == o2[e]); }
}
/// ... continues with '/': the rest is the relative path
pub proof fn lemma_rel_rest(s: Seq<u8>, o: Seq<u8>, ms: int, ps: int)
    requires
        wf_rsync(s, ms, ps), wf_rsync(o, ms, ps), agree(s, o, ms, ps), o.len() > ps,
        s.len() > strip_end(o), s.subrange(ps, strip_end(o)) =~= o.subrange(ps, strip_end(o)), s[strip_end(o)] == 0x2f,
    ensures rel_some(s, ms, o, ms, s.subrange(strip_end(o) + 1, s.len() as int)),
{
    lemma_stripped(o, ms, ps);
    let e = strip_end(o);
    let pb = s.subrange(e + 1, s.len() as int);
    let (s2, o2, d) = (s.push(0x2f), o.push(0x2f), dir(o));
    lemma_path_ok_suffix(s, 8, e + 1);
    assert forall|i: int| 0 <= i < e implies (if i < ms { lower(#[trigger] s[i]) == lower(o[i]) } else { s[i] == o[i] }) by {
        if i >= ps { assert(s.subrange(ps, e)[i - ps] == o.subrange(ps, e)[i - ps]); }
    }
    let c = d + pb;
    assert(c.len() == s.len());
    assert forall|i: int| 0 <= i < c.len() implies (if i < ms { lower(#[trigger] c[i]) == lower(s[i]) } else { c[i] == s[i] }) by {
        if i < e { assert(c[i] == o[i]); } else if i == e { assert(c[i] == 0x2f); } else { assert(c[i] == pb[i - e - 1]); }
    }
    assert(eq_mod_case(c, s, ms));
    if pb.len() == 0 {
        // s == dir(o) up to case
        assert(c =~= d);
        if e < o.len() { assert(eq_mod_case(s, o, ms)); } else { assert(eq_mod_case(s, o2, ms)); }
    }
    if eq_upto_slash_b(s, o, ms) {
        if eq_mod_case(s, o2, ms) && e < o.len() {
            assert(o2[e + 1] == 0x2f);
            assert(s[e + 1] == o2[e + 1]);
            assert(false);
        }
        assert(pb.len() == 0);
    }
}

// ================================================================================================
// the code
// ================================================================================================
// ---- the character and segment checks (contract links: proved for all lengths in unit uri_parse) ----
//@fn src/uri.rs :: - :: is_u8_uri_ascii
//@spec
    ensures r == permitted(ch),
//@/spec
//@end
//@stub uri_parse :: check_uri_ascii
pub fn check_uri_ascii(slice: &[u8]) -> (r: Result<(), Error>)
//@end

impl Rsync {
    /// derive(Clone): field-wise clone, `Bytes::clone` keeps the octets (rustc's derive expansion is trusted)
    #[verifier::external_body]
    pub fn clone(&self) -> (r: Rsync)
        ensures r.bytes@ == self.bytes@, r.module_start == self.module_start, r.path_start == self.path_start,
    { unimplemented!() }

    //@stub uri_parse :: impl Rsync :: check_path
    fn check_path(path: &[u8]) -> (r: Result<(), Error>)
    //@end

    //@fn src/uri.rs :: impl Rsync :: as_slice
    //@spec
        ensures r@ == self.bytes@,
    //@/spec
    //@end
    //@fn src/uri.rs :: impl AsRef<[u8]> for Rsync :: as_ref as=as_ref
    //@spec
        ensures r@ == self.bytes@,
    //@/spec
    //@end
    //@fn src/uri.rs :: impl Rsync :: as_str
    //@spec
        requires all_permitted(self.bytes@),
        ensures r.spec_bytes() == self.bytes@, self.bytes@.len() <= isize::MAX,
    //@/spec
    //@ghost begin
        proof { lemma_ascii_valid(self.bytes@); }
    //@/ghost
    //@end
    //@fn src/uri.rs :: impl Rsync :: authority
    //@spec
        requires self.wf(),
        ensures r.spec_bytes() == self.bytes@.subrange(8, self.module_start - 1),
    //@/spec
    //@ghost begin
        proof {
            lemma_ascii_boundary(self.bytes@, 8);
            lemma_ascii_boundary(self.bytes@, self.module_start - 1);
        }
    //@/ghost
    //@end
    //@fn src/uri.rs :: impl Rsync :: module_name
    //@spec
        requires self.wf(),
        ensures r.spec_bytes() == self.bytes@.subrange(self.module_start as int, self.path_start - 1),
    //@/spec
    //@ghost begin
        proof {
            lemma_ascii_boundary(self.bytes@, self.module_start as int);
            lemma_ascii_boundary(self.bytes@, self.path_start - 1);
        }
    //@/ghost
    //@end
    //@fn src/uri.rs :: impl Rsync :: module
    //@spec
        requires self.wf(),
        ensures r.spec_bytes() == self.bytes@.subrange(0, self.path_start as int),
    //@/spec
    //@ghost begin
        proof {
            lemma_ascii_boundary(self.bytes@, 0);
            lemma_ascii_boundary(self.bytes@, self.path_start as int);
        }
    //@/ghost
    //@end
    //@fn src/uri.rs :: impl Rsync :: path
    //@spec
        requires self.wf(),
        ensures r.spec_bytes() == self.bytes@.subrange(self.path_start as int, self.bytes@.len() as int),
            all_permitted(r.spec_bytes()), self.bytes@.len() <= isize::MAX,
    //@/spec
    //@ghost begin
        proof {
            lemma_ascii_boundary(self.bytes@, self.path_start as int);
            lemma_ascii_boundary(self.bytes@, self.bytes@.len() as int);
        }
    //@/ghost
    //@end
    //@fn src/uri.rs :: impl Rsync :: path_is_dir
    //@sub R12 "self.path().ends_with('/')" "str_ends_with_char(self.path(), '/')"
    //@spec
        requires self.wf(),
        ensures r == (self.bytes@.last() == 0x2f),
    //@/spec
    //@ghost begin
        proof {
            let p = self.bytes@.subrange(self.path_start as int, self.bytes@.len() as int);
            assert(p.len() == self.bytes@.len() - self.path_start);
            if p.len() > 0 { assert(p.last() == self.bytes@.last()); }
        }
    //@/ghost
    //@end
    //@fn src/uri.rs :: impl Rsync :: path_bytes
    //@spec
        requires self.wf(),
        ensures r@ == self.bytes@.subrange(self.path_start as int, self.bytes@.len() as int),
    //@/spec
    //@end

    //@fn src/uri.rs :: impl Rsync :: parent
    //@sub R12 "path.ends_with('/')" "str_ends_with_char(path, '/')"
    //@sub R12 "path.rfind('/')" "str_rfind_char(path, '/')"
    //@spec
        requires self.wf(),
        ensures
            r is None <==> self.path_start == self.bytes@.len(),
            r matches Some(p) ==> ({
                &&& p.wf() && p.module_start == self.module_start && p.path_start == self.path_start
                &&& p.bytes@.len() < self.bytes@.len() && p.bytes@ == self.bytes@.subrange(0, p.bytes@.len() as int)
                &&& p.bytes@.last() == 0x2f
                &&& last_seg_at(self.bytes@, p.bytes@.len() as int)
                &&& parent_of(p, *self)
            }),
    //@/spec
    //@ghost after "str_ends_with_char(path, '/') {"
            proof {
                lemma_ascii_boundary(path.spec_bytes(), 0);
                lemma_ascii_boundary(path.spec_bytes(), path.spec_bytes().len() - 1);
            }
    //@/ghost
    //@ghost before "let mut res = self.clone();"
            proof {
                let b = self.bytes@;
                let ps = self.path_start as int;
                let pb = path.spec_bytes();
                assert(pb =~= b.subrange(ps, strip_end(b)));
                assert forall|i: int| len <= i < strip_end(b) implies #[trigger] b[i] != 0x2f by { assert(pb[i - ps] == b[i]); }
                if len > ps { assert(pb[len - 1 - ps] == b[len - 1]); }
                lemma_parent_cut(b, self.module_start as int, ps, len as int);
            }
    //@/ghost
    //@end

    //@fn src/uri.rs :: impl Rsync :: join
    //@sub R12 "b\"/\"" "&[b'/']" n=2
    //@spec
        requires self.wf(), self.bytes@.len() + path@.len() + 2 <= usize::MAX,
        ensures
            r is Ok <==> path@.len() == 0 || (all_permitted(path@) && path_ok(path@)),
            r matches Err(e) ==> (e == Error::InvalidCharacters <==> !all_permitted(path@)),
            r matches Ok(j) ==> ({
                &&& j.wf() && j.module_start == self.module_start && j.path_start == self.path_start
                &&& j.bytes@ == (if path@.len() == 0 { self.bytes@ } else { dir(self.bytes@) + path@ })
                &&& (path@.len() > 0 ==> parent_of(*self, j))
            }),
    //@/spec
    //@ghost before "res.extend_from_slice(path);"
        proof {
            assert(res@ =~= dir(self.bytes@));
            lemma_join_wf(self.bytes@, self.module_start as int, self.path_start as int, path@);
        }
    //@/ghost
    //@end

    //@fn src/uri.rs :: impl Rsync :: eq_module
    //@spec
        requires self.wf(), other.wf(),
        ensures r == same_module(*self, *other),
    //@/spec
    //@ghost begin
        proof {
            if self.module_start == other.module_start && self.path_start == other.path_start {
                lemma_agree_split(self.bytes@, other.bytes@, self.module_start as int, self.path_start as int);
            }
        }
    //@/ghost
    //@end

    //@fn src/uri.rs :: impl<T: AsRef<[u8]>> PartialEq<T> for Rsync :: eq as=eq
    //@sigsub R4 "other: &T" "other: &Rsync"
    //@spec
        requires self.wf(),
        ensures r == rsync_eq(*self, *other),
    //@/spec
    //@ghost after "let other = other.as_ref();"
        proof {
            if self.bytes@.len() == other@.len() {
                lemma_agree_split(self.bytes@, other@, self.module_start as int, self.bytes@.len() as int);
            }
        }
    //@/ghost
    //@end

    //@fn src/uri.rs :: impl hash::Hash for Rsync :: hash as=hash
    //@sigsub R12 "<H: hash::Hasher>(&self, state: &mut H)" "(&self, state: &mut RecHasher)"
    //@spec
        requires self.wf(),
        ensures final(state).fed() == old(state).fed() + rsync_hash_input(*self),
    //@/spec
    //@loop "for ch in &self.bytes[..self.module_start]" iter=it
            invariant
                self.wf(),
                it.seq().len() == self.module_start,
                forall|i: int| 0 <= i < self.module_start ==> *(#[trigger] it.seq()[i]) == self.bytes@[i],
                state.fed() =~= old(state).fed() + lowered(self.bytes@.subrange(0, it.index@ as int)),
    //@/loop
    //@end

    //@fn src/uri.rs :: impl Rsync :: relative_to
    //@sub R12 "other_path.ends_with('/')" "str_ends_with_char(other_path, '/')"
    //@sub R12 "self_path.starts_with(other_path)" "str_starts_with_str(self_path, other_path)"
    //@spec
        requires self.wf(), other.wf(),
        ensures
            r matches Some(p) ==> rel_some(self.bytes@, self.module_start as int, other.bytes@, other.module_start as int, p.spec_bytes()),
            r is None ==> rel_none(self.bytes@, self.module_start as int, other.bytes@, other.module_start as int),
    //@/spec
    //@ghost after "if !self.eq_module(other) {"
            proof {
                if !rel_none(self.bytes@, self.module_start as int, other.bytes@, other.module_start as int) {
                    lemma_related_same_module(self.bytes@, self.module_start as int, self.path_start as int,
                        other.bytes@, other.module_start as int, other.path_start as int);
                }
            }
    //@/ghost
    //@ghost before "return Some(self_path)" optional
            proof {
                assert(other_path.spec_bytes().len() == other.bytes@.len() - other.path_start);
                assert(other_path.spec_bytes().len() == 0);
                lemma_rel_root(self.bytes@, other.bytes@, self.module_start as int, self.path_start as int); }
    //@/ghost
    //@ghost after "str_ends_with_char(other_path, '/') {"
            proof {
                lemma_ascii_boundary(other_path.spec_bytes(), 0);
                lemma_ascii_boundary(other_path.spec_bytes(), other_path.spec_bytes().len() - 1);
            }
    //@/ghost
    //@ghost before "if !str_starts_with_str(self_path, other_path)"
        proof {
            lemma_stripped(other.bytes@, other.module_start as int, other.path_start as int);
            assert(other_path.spec_bytes() =~= other.bytes@.subrange(self.path_start as int, strip_end(other.bytes@)));
            if strip_end(other.bytes@) <= self.bytes@.len() {
                assert(self_path.spec_bytes().subrange(0, other_path.spec_bytes().len() as int)
                    =~= self.bytes@.subrange(self.path_start as int, strip_end(other.bytes@)));
            }
        }
    //@/ghost
    //@ghost after "if !str_starts_with_str(self_path, other_path) {"
            proof { lemma_rel_no_prefix(self.bytes@, other.bytes@, self.module_start as int, self.path_start as int); }
    //@/ghost
    //@ghost before "return Some(\"\")" optional
            proof {
                lemma_rel_same(self.bytes@, other.bytes@, self.module_start as int, self.path_start as int);
                reveal_strlit("");
                assert(""@ =~= Seq::<char>::empty());
                assert(vstd::utf8::encode_utf8(Seq::<char>::empty()) =~= Seq::<u8>::empty());
            }
    //@/ghost
    //@ghost after "!= b'/' {" optional
            proof { lemma_rel_no_slash(self.bytes@, other.bytes@, self.module_start as int, self.path_start as int); }
    //@/ghost
    //@ghost before "Some(&self_path["
        proof {
            lemma_rel_rest(self.bytes@, other.bytes@, self.module_start as int, self.path_start as int);
            assert(other_path.spec_bytes().len() == strip_end(other.bytes@) - self.path_start);
            assert(self_path.spec_bytes().subrange(other_path.spec_bytes().len() as int + 1, self_path.spec_bytes().len() as int)
                =~= self.bytes@.subrange(strip_end(other.bytes@) + 1, self.bytes@.len() as int));
            lemma_ascii_boundary(self_path.spec_bytes(), other_path.spec_bytes().len() as int + 1);
            lemma_ascii_boundary(self_path.spec_bytes(), self_path.spec_bytes().len() as int);
        }
    //@/ghost
    //@end

    //@fn src/uri.rs :: impl Rsync :: is_parent_of
    //@spec
        requires self.wf(), other.wf(),
        ensures r == parent_of(*self, *other),
    //@/spec
    //@ghost begin
        proof {
            assert forall|pb: Seq<u8>| pb.len() > 0 && #[trigger] eq_mod_case(dir(self.bytes@) + pb, other.bytes@, self.module_start as int)
                implies parent_of(*self, *other) by {
                lemma_join_beneath(self.bytes@, self.module_start as int, pb, other.bytes@);
            }
            if eq_upto_slash_b(other.bytes@, self.bytes@, other.module_start as int) {
                lemma_eq_upto_slash_not_parent(other.bytes@, other.module_start as int, other.path_start as int,
                    self.bytes@, self.module_start as int, self.path_start as int);
            }
        }
    //@/ghost
    //@end
}


impl Scheme {
    //@fn src/uri.rs :: impl Scheme :: as_str
    //@spec
        ensures r.spec_bytes().len() == 5,
    //@/spec
    //@ghost begin
        proof {
            reveal_strlit("https");
            reveal_strlit("rsync");
            vstd::utf8::is_ascii_chars_encode_utf8("https"@);
            vstd::utf8::is_ascii_chars_encode_utf8("rsync"@);
        }
    //@/ghost
    //@end
}

impl Https {
    /// derive(Clone): field-wise clone, `Bytes::clone` keeps the octets (rustc's derive expansion is trusted)
    #[verifier::external_body]
    pub fn clone(&self) -> (r: Https)
        ensures r.uri@ == self.uri@, r.path_idx == self.path_idx,
    { unimplemented!() }

    //@fn src/uri.rs :: impl Https :: as_slice
    //@spec
        ensures r@ == self.uri@,
    //@/spec
    //@end
    //@fn src/uri.rs :: impl Https :: as_str
    //@spec
        requires all_permitted(self.uri@),
        ensures r.spec_bytes() == self.uri@, self.uri@.len() <= isize::MAX,
    //@/spec
    //@ghost begin
        proof { lemma_ascii_valid(self.uri@); }
    //@/ghost
    //@end
    //@fn src/uri.rs :: impl Https :: scheme
    //@spec
        ensures r == Scheme::Https,
    //@/spec
    //@end
    //@fn src/uri.rs :: impl Https :: authority
    //@spec
        requires self.wf(),
        ensures r.spec_bytes() == self.uri@.subrange(8, self.path_idx as int),
    //@/spec
    //@ghost begin
        proof {
            lemma_ascii_boundary(self.uri@, 8);
            lemma_ascii_boundary(self.uri@, self.path_idx as int);
        }
    //@/ghost
    //@end
    //@fn src/uri.rs :: impl Https :: path
    //@spec
        requires self.wf(),
        ensures r.spec_bytes() == self.uri@.subrange(self.path_idx as int, self.uri@.len() as int),
            all_permitted(r.spec_bytes()), self.uri@.len() <= isize::MAX,
    //@/spec
    //@ghost begin
        proof {
            lemma_ascii_boundary(self.uri@, self.path_idx as int);
            lemma_ascii_boundary(self.uri@, self.uri@.len() as int);
        }
    //@/ghost
    //@end
    //@fn src/uri.rs :: impl Https :: path_is_dir
    //@sub R12 "self.path().ends_with('/')" "str_ends_with_char(self.path(), '/')"
    //@spec
        requires self.wf(),
        ensures r == (self.uri@.len() == self.path_idx || self.uri@.last() == 0x2f),
    //@/spec
    //@ghost begin
        proof {
            let p = self.uri@.subrange(self.path_idx as int, self.uri@.len() as int);
            assert(p.len() == self.uri@.len() - self.path_idx);
            if p.len() > 0 { assert(p.last() == self.uri@.last()); }
        }
    //@/ghost
    //@end

    //@fn src/uri.rs :: impl Https :: join
    //@sub R12 "self.path().ends_with('/')" "str_ends_with_char(self.path(), '/')"
    //@sub R12 "b\"/\"" "&[b'/']"
    //@spec
        requires self.wf(),
        ensures
            r is Ok <==> all_permitted(path@),
            r matches Err(e) ==> e == Error::InvalidCharacters,
            r matches Ok(j) ==> ({
                &&& j.wf() && j.path_idx == self.path_idx
                &&& j.uri@ == https_dir(self.uri@, self.path_idx as int) + path@
            }),
    //@/spec
    //@ghost before "res.put_slice(path);"
        proof {
            assert(res@ =~= https_dir(self.uri@, self.path_idx as int));
            lemma_https_join_wf(self.uri@, self.path_idx as int, path@);
        }
    //@/ghost
    //@end

    //@fn src/uri.rs :: impl Https :: parent
    //@sub R12 "path.ends_with('/')" "str_ends_with_char(path, '/')"
    //@sub R12 "path.rfind('/')" "str_rfind_char(path, '/')"
    //@spec
        requires self.wf(),
        ensures
            r is None <==> self.uri@.len() <= self.path_idx + 1,
            r matches Some(p) ==> ({
                &&& p.wf() && p.path_idx == self.path_idx
                &&& self.path_idx < p.uri@.len() < self.uri@.len() && p.uri@ == self.uri@.subrange(0, p.uri@.len() as int)
                &&& p.uri@.last() == 0x2f
                &&& p.uri@.len() <= strip_end(self.uri@)
                &&& forall|i: int| p.uri@.len() <= i < strip_end(self.uri@) ==> self.uri@[i] != 0x2f
            }),
    //@/spec
    //@ghost after "str_ends_with_char(path, '/') {"
            proof {
                lemma_ascii_boundary(path.spec_bytes(), 0);
                lemma_ascii_boundary(path.spec_bytes(), path.spec_bytes().len() - 1);
            }
    //@/ghost
    //@ghost before "let mut res = self.clone();"
            proof {
                let b = self.uri@;
                let pi = self.path_idx as int;
                let pb = path.spec_bytes();
                assert(forall|i: int| 0 <= i < pb.len() ==> pb[i] == b[pi + i]);
                assert(pb[0] == b[pi]);
                assert(pi + pb.len() == strip_end(b));
                assert(b[len - 1] == 0x2f);
                assert forall|i: int| len <= i < strip_end(b) implies b[i] != 0x2f by { assert(pb[i - pi] == b[i]); }
                lemma_https_prefix_wf(b, pi, len as int);
            }
    //@/ghost
    //@end

    //@fn src/uri.rs :: impl Https :: eq_authority
    //@spec
        requires self.wf(), other.wf(),
        ensures r == eq_ic(self.uri@.subrange(8, self.path_idx as int), other.uri@.subrange(8, other.path_idx as int)),
    //@/spec
    //@end

    //@fn src/uri.rs :: impl PartialEq for Https :: eq as=eq
    //@spec
        requires self.wf(), other.wf(),
        ensures r == https_eq(*self, *other),
    //@/spec
    //@ghost begin
        proof {
            if self.path_idx == other.path_idx && self.uri@.len() == other.uri@.len() {
                lemma_agree_split(self.uri@, other.uri@, self.path_idx as int, self.uri@.len() as int);
            }
        }
    //@/ghost
    //@end
    //@fn src/uri.rs :: impl hash::Hash for Https :: hash as=hash
    //@sigsub R12 "<H: hash::Hasher>(&self, state: &mut H)" "(&self, state: &mut RecHasher)"
    //@spec
        requires self.wf(),
        ensures final(state).fed() == old(state).fed() + https_hash_input(*self),
    //@/spec
    //@loop "for ch in self.uri[..self.path_idx].iter()" iter=it
            invariant
                self.wf(),
                it.seq().len() == self.path_idx,
                forall|i: int| 0 <= i < self.path_idx ==> *(#[trigger] it.seq()[i]) == self.uri@[i],
                state.fed() =~= old(state).fed() + lowered(self.uri@.subrange(0, it.index@ as int)),
    //@/loop
    //@end
}

// ================================================================================================
// clauses of the property that combine two operations, checked on the code's own results
// ================================================================================================
/// "its scheme/authority/module/path accessors recompose to that text" (for a value satisfying the invariant)
pub fn compose_rsync_recompose(x: &Rsync)
    requires x.wf(),
{
    let (a, m, p) = (x.authority(), x.module_name(), x.path());
    assert(x.bytes@.subrange(0, 8) + a.spec_bytes() + seq![0x2fu8] + m.spec_bytes() + seq![0x2fu8] + p.spec_bytes() =~= x.bytes@);
    let md = x.module();
    assert(md.spec_bytes() + p.spec_bytes() =~= x.bytes@);
    let s = x.as_str();
    assert(s.spec_bytes() == x.bytes@);
}
pub fn compose_https_recompose(x: &Https)
    requires x.wf(),
{
    let (a, p) = (x.authority(), x.path());
    assert(x.uri@.subrange(0, 8) + a.spec_bytes() + p.spec_bytes() =~= x.uri@);
}
/// "a parent is a parent of its child"
pub fn compose_parent_is_parent(x: &Rsync)
    requires x.wf(),
{
    match x.parent() {
        Some(p) => { let b = p.is_parent_of(x); assert(b); }
        None => {}
    }
}
/// "join(base, p) lies beneath base" (for a non-empty p; the empty p gives back an equal URI)
pub fn compose_join_beneath(base: &Rsync, path: &[u8])
    requires base.wf(), base.bytes@.len() + path@.len() + 2 <= usize::MAX,
{
    match base.join(path) {
        Ok(j) => {
            if !path.is_empty() { let b = base.is_parent_of(&j); assert(b); }
            else { let e = base.eq(&j); assert(e); }
        }
        Err(_) => {}
    }
}
/// "whenever relative_to reports a non-empty path, joining that path to the other URI gives back the original"
pub fn compose_relative_join(slf: &Rsync, other: &Rsync)
    requires slf.wf(), other.wf(), slf.bytes@.len() <= isize::MAX, other.bytes@.len() <= isize::MAX,
{
    match slf.relative_to(other) {
        Some(p) => {
            if !p.is_empty() {
                let j = other.join(p.as_bytes());
                assert(j is Ok);
                match j {
                    Ok(j) => { let e = j.eq(slf); assert(e); }
                    Err(_) => {}
                }
            }
        }
        None => {}
    }
}

/// "the parent-of relation is irreflexive, transitive and agrees with this equality", on the results of the code
pub fn compose_parent_laws(a: &Rsync, b: &Rsync, c: &Rsync)
    requires a.wf(), b.wf(), c.wf(),
{
    let aa = a.is_parent_of(a);
    assert(!aa);
    let (ab, bc, ac) = (a.is_parent_of(b), b.is_parent_of(c), a.is_parent_of(c));
    proof { if ab && bc { lemma_parent_transitive(*a, *b, *c); } }
    assert(ab && bc ==> ac);
    if a.eq(b) {
        proof {
            lemma_rsync_eq_refl(*c);
            lemma_parent_congruent(*a, *c, *b, *c);
            lemma_parent_congruent(*c, *a, *c, *b);
        }
        let ca = c.is_parent_of(a);
        let cb = c.is_parent_of(b);
        assert(ac == bc && ca == cb);
    }
}
/// "equality is an equivalence", on the results of the code
pub fn compose_eq_laws(a: &Rsync, b: &Rsync, c: &Rsync)
    requires a.wf(), b.wf(), c.wf(),
{
    let aa = a.eq(a);
    assert(aa);
    let (ab, ba, bc, ac) = (a.eq(b), b.eq(a), b.eq(c), a.eq(c));
    proof {
        if ab { lemma_rsync_eq_sym(*a, *b); }
        if ba { lemma_rsync_eq_sym(*b, *a); }
        if ab && bc { lemma_rsync_eq_trans(*a, *b, *c); }
    }
    assert(ab == ba);
    assert(ab && bc ==> ac);
}
pub fn compose_https_eq_laws(a: &Https, b: &Https, c: &Https)
    requires a.wf(), b.wf(), c.wf(),
{
    let aa = a.eq(a);
    let (ab, ba, bc, ac) = (a.eq(b), b.eq(a), b.eq(c), a.eq(c));
    proof { lemma_https_eq_equiv(*a, *b, *c); lemma_https_eq_equiv(*b, *a, *c); }
    assert(aa);
    assert(ab == ba);
    assert(ab && bc ==> ac);
}
/// "equal URIs hash equally": two hashers in the same state stay in the same state
pub fn compose_eq_hash(a: &Rsync, b: &Rsync, s1: &mut RecHasher, s2: &mut RecHasher)
    requires a.wf(), b.wf(), old(s1).fed() == old(s2).fed(),
{
    if a.eq(b) {
        a.hash(s1);
        b.hash(s2);
        proof { lemma_rsync_eq_hash(*a, *b); }
        assert(s1.fed() == s2.fed());
    }
}
pub fn compose_https_eq_hash(a: &Https, b: &Https, s1: &mut RecHasher, s2: &mut RecHasher)
    requires a.wf(), b.wf(), old(s1).fed() == old(s2).fed(),
{
    if a.eq(b) {
        a.hash(s1);
        b.hash(s2);
        proof { lemma_https_eq_hash(*a, *b); }
        assert(s1.fed() == s2.fed());
    }
}
/// "results of join and parent ... re-parse to an equal value with the same authority" for https:
/// the authority accessor of the result returns the same text
pub fn compose_https_join_authority(base: &Https, path: &[u8])
    requires base.wf(),
{
    match base.join(path) {
        Ok(j) => {
            let (x, y) = (base.authority(), j.authority());
            assert(x.spec_bytes() =~= y.spec_bytes());
            let same = base.eq_authority(&j);
            assert(same);
        }
        Err(_) => {}
    }
    match base.parent() {
        Some(p) => {
            let (x, y) = (base.authority(), p.authority());
            assert(x.spec_bytes() =~= y.spec_bytes());
        }
        None => {}
    }
}

// ================================================================================================
// vacuity guards: the invariants and relations are inhabited
// ================================================================================================
// ---- C14: resolving a manifest entry against the publication point -----------------------------------------------
//@include shared/mft_vocab.v.rs
/// A file name accepted by FileAndHash::validate_file_name (== valid_mft_name, proved in unit mft_name) satisfies
/// the Ok-condition of the join contract proved above (`r is Ok <==> path is empty || (all_permitted && path_ok)`),
/// so `base.join(name).unwrap()` in ManifestContent::iter_uris cannot fail; the joined text is the base as a
/// directory followed by the name, which contains no further '/': the URI lies DIRECTLY inside the base directory.
pub proof fn lemma_mft_name_joins(base: Rsync, s: Seq<u8>)
    requires base.wf(), valid_mft_name(s),
    ensures
        s.len() >= 5, all_permitted(s), path_ok(s),
        forall|i: int| 0 <= i < s.len() ==> s[i] != 0x2f,
        // for the value the join contract describes (bytes == dir(base) + s): it is beneath base and its
        // last segment is the whole name
        parent_of_b(base.bytes@, base.module_start as int, dir(base.bytes@) + s),
        last_seg_at(dir(base.bytes@) + s, dir(base.bytes@).len() as int),
{
    let k = choose|k: int| shape(s, k) && is_alpha(s[k + 1]) && is_alpha(s[k + 2]) && is_alpha(s[k + 3]);
    assert forall|i: int| 0 <= i < s.len() implies s[i] != 0x2f && permitted(#[trigger] s[i]) by {
        if i < k { assert(stem_char(s[i])); }
    }
    assert(stem_char(s[0]));
    // no empty segment, no dot segment: there is no '/' at all and the first octet is not a dot
    assert(no_empty_seg(s, 0));
    assert forall|i: int| 0 <= i < s.len() implies !#[trigger] dot_seg_at(s, 0, i) by {
        if seg_start(s, 0, i) { assert(i == 0); }
    }
    let d = dir(base.bytes@);
    let j = d + s;
    assert(forall|i: int| 0 <= i < d.len() ==> j[i] == d[i]);
    assert(j.last() == s.last());
    assert(strip_end(j) == j.len());
    assert forall|i: int| d.len() <= i < j.len() implies #[trigger] j[i] != 0x2f by { assert(j[i] == s[i - d.len()]); }
}

// ---- ManifestContent::iter_uris (src/repository/manifest.rs): resolving a listed file against the base ----------
// `iter_uris` is `self.iter().map(move |item| { .. })`: the closure's block is LIFTED (R13), text unchanged; the
// captured `base` and `alg` and the closure parameter `item` are the parameters.  Verified: for an entry whose
// name passed the RFC 9286 check (what the decoder guarantees: units mft_name, mft_entry) `base.join(..).unwrap()`
// CANNOT panic, and the result is a well-formed URI of the same module that lies directly inside the base
// directory (its text is the base as a directory followed by the name, which holds no further '/').
// Assumed glue: Iterator::map applies the closure to every entry the file-list iterator yields.
#[verifier::external_body]
pub struct DigestAlgorithm { _o: u8 }
//@item src/repository/manifest.rs :: pub struct FileAndHash<F, H> pubfields
impl<F, H> FileAndHash<F, H> {
    //@fn src/repository/manifest.rs :: impl<F, H> FileAndHash<F, H> :: into_pair
    //@spec
        ensures r.0 == self.file, r.1 == self.hash,
    //@/spec
    //@end
}
//@item src/repository/manifest.rs :: pub struct ManifestHash pubfields
impl ManifestHash {
    //@fn src/repository/manifest.rs :: impl ManifestHash :: new
    //@spec
        ensures r.hash == hash,
    //@/spec
    //@end
}
pub struct ManifestContent;
impl ManifestContent {
    //@fn src/repository/manifest.rs :: impl ManifestContent :: iter_uris
    //@lift "self.iter().map(move |item|"
    //@sig
    fn resolve_entry(base: &Rsync, alg: DigestAlgorithm, item: FileAndHash<Bytes, Bytes>) -> (Rsync, ManifestHash)
    //@/sig
    //@spec
        requires
            base.wf(), valid_mft_name(item.file@),
            base.bytes@.len() + item.file@.len() + 2 <= usize::MAX,
        ensures
            r.0.wf(), r.0.module_start == base.module_start, r.0.path_start == base.path_start,
            r.0.bytes@ == dir(base.bytes@) + item.file@,
            parent_of(*base, r.0),
            last_seg_at(r.0.bytes@, dir(base.bytes@).len() as int),
            r.1.hash == item.hash,
    //@/spec
    //@ghost begin
        proof { lemma_mft_name_joins(*base, item.file@); }
    //@/ghost
    //@end
}

proof fn reach_rsync() {
    // "rsync://h/m/a" and its parent "rsync://h/m/"
    let c = seq![0x72u8, 0x73, 0x79, 0x6e, 0x63, 0x3a, 0x2f, 0x2f, 0x68, 0x2f, 0x6d, 0x2f, 0x61];
    let p = seq![0x72u8, 0x73, 0x79, 0x6e, 0x63, 0x3a, 0x2f, 0x2f, 0x68, 0x2f, 0x6d, 0x2f];
    assert(c.subrange(0, 8) =~= rsync_scheme());
    assert(p.subrange(0, 8) =~= rsync_scheme());
    assert(wf_rsync(c, 10, 12));
    assert(wf_rsync(p, 10, 12));
    assert(parent_of_b(p, 10, c));
    assert(last_seg_at(c, 12));
}
proof fn reach_https() {
    // "https://h" and "https://h/a"
    let a = seq![0x68u8, 0x74, 0x74, 0x70, 0x73, 0x3a, 0x2f, 0x2f, 0x68];
    let b = seq![0x68u8, 0x74, 0x74, 0x70, 0x73, 0x3a, 0x2f, 0x2f, 0x68, 0x2f, 0x61];
    assert(a.subrange(0, 8) =~= https_scheme());
    assert(b.subrange(0, 8) =~= https_scheme());
    assert(wf_https(a, 9));
    assert(wf_https(b, 9));
    assert(https_dir(a, 9) + seq![0x61u8] =~= b);
}

} // verus!
fn main() {}
