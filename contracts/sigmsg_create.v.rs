// Unit sigmsg_create (C10): "Messages created by the library validate for every time within their validity" - the
// part of it that is a program property of SignedMessageCrl::create (src/ca/sigmsg.rs): the CRL embedded into a new
// message is current for the WHOLE validity of the message (thisUpdate = notBefore, nextUpdate = notAfter - not the
// moment of creation), lists nothing, names the issuing key as authority and is signed by that key over exactly the
// encoding of these fields.  With the contract of SignedMessageTbsCrl::validate proved in unit sigmsg_compose
// (window(this_update, when, next_update) and the AKI test) this gives lemma_created_crl_current: for every `when`
// inside the validity the CRL of a created message passes validate's time and key tests.
// The body is verbatim; the signer is the crate's `Signer` trait reduced (R12) to the two methods and the call shape
// used here (`sign::<RpkiSignatureAlgorithm, Captured>`), with an abstract signature relation.
// NOT covered: SignedMessage::create as a whole (one-off key, EE certificate built by IdCert::new_ee, the DER
// encoders) - listed under not_decided.
use vstd::prelude::*;

verus! {

// ---- environment ---------------------------------------------------------------------------------------
#[verifier::external_body]
#[derive(Clone, Copy)]
pub struct Time { _o: u8 }
pub uninterp spec fn tat(t: Time) -> int;
impl Time {
    #[verifier::external_body]
    pub fn now() -> (r: Time) { unimplemented!() }
    /// chrono DateTime::timestamp_millis reached through Deref (R12: inherent stand-in)
    #[verifier::external_body]
    pub fn timestamp_millis(&self) -> (r: i64) { unimplemented!() }
}
#[verifier::external_body]
pub struct PublicKey { _o: u8 }
#[verifier::external_body]
#[derive(Clone, Copy)]
pub struct KeyIdentifier { _o: u8 }
pub uninterp spec fn ki_of(k: PublicKey) -> KeyIdentifier;
impl PublicKey {
    #[verifier::external_body]
    pub fn key_identifier(&self) -> (r: KeyIdentifier) ensures r == ki_of(*self) { unimplemented!() }
}
#[verifier::external_body]
pub struct Name { _o: u8 }
pub uninterp spec fn name_of(k: PublicKey) -> Name;
impl Name {
    #[verifier::external_body]
    pub fn from_pub_key(key_info: &PublicKey) -> (r: Name) ensures r == name_of(*key_info) { unimplemented!() }
}
#[verifier::external_body]
#[derive(Clone, Copy)]
pub struct RpkiSignatureAlgorithm { _o: u8 }
impl RpkiSignatureAlgorithm {
    #[verifier::external_body]
    pub fn default() -> (r: Self) { unimplemented!() }
}
#[verifier::external_body]
pub struct Serial { _o: u8 }
impl vstd::std_specs::convert::FromSpecImpl<u64> for Serial {
    open spec fn obeys_from_spec() -> bool { false }
    open spec fn from_spec(v: u64) -> Self { arbitrary() }
}
impl From<u64> for Serial {
    #[verifier::external_body]
    fn from(v: u64) -> (r: Self) { unimplemented!() }
}
#[verifier::external_body]
pub struct Captured { _o: u8 }
pub uninterp spec fn captured_view(c: Captured) -> Seq<u8>;
#[verifier::external_body]
pub struct Signature { _o: u8 }
/// `sig` is a signature made with the private key belonging to `key` over `data` (cryptography is not verified)
pub uninterp spec fn sig_made(key: PublicKey, data: Seq<u8>, sig: Signature) -> bool;

pub struct Mode;
impl Mode { pub const Der: Mode = Mode; }
/// the DER encoder of a to-be-signed CRL (bcder encode::Values): abstract octets as a function of the fields
#[verifier::external_body]
pub struct TbsEncoder { _o: u8 }
pub uninterp spec fn enc_view(e: TbsEncoder) -> Seq<u8>;
pub uninterp spec fn tbs_octets(t: SignedMessageTbsCrl) -> Seq<u8>;
impl Captured {
    #[verifier::external_body]
    pub fn from_values(mode: Mode, values: TbsEncoder) -> (r: Captured) ensures captured_view(r) == enc_view(values) { unimplemented!() }
}

// crate::crypto::signer (the error types as they are; Signer reduced to what create uses)
//@item src/crypto/signer.rs :: pub enum KeyError<S>
//@item src/crypto/signer.rs :: pub enum SigningError<S>
impl<S> vstd::std_specs::convert::FromSpecImpl<KeyError<S>> for SigningError<S> {
    open spec fn obeys_from_spec() -> bool { false }
    open spec fn from_spec(v: KeyError<S>) -> Self { arbitrary() }
}
impl<S> From<KeyError<S>> for SigningError<S> {
    #[verifier::external_body]
    fn from(err: KeyError<S>) -> (r: Self) { unimplemented!() }
}
pub trait Signer {
    type KeyId;
    type Error;
    /// the public half of the key an identifier names
    spec fn key_of(&self, key: Self::KeyId) -> PublicKey;
    fn get_key_info(&self, key: &Self::KeyId) -> (r: Result<PublicKey, KeyError<Self::Error>>)
        ensures r matches Ok(k) ==> k == self.key_of(*key);
    fn sign(&self, key: &Self::KeyId, algorithm: RpkiSignatureAlgorithm, data: &Captured) -> (r: Result<Signature, SigningError<Self::Error>>)
        ensures r matches Ok(s) ==> sig_made(self.key_of(*key), captured_view(*data), s);
}

// repository::x509
//@item src/repository/x509.rs :: pub struct Validity pubfields keepderive=Clone,Copy
impl Validity {
    //@fn src/repository/x509.rs :: impl Validity :: not_before
    //@spec
        ensures r == self.not_before,
    //@/spec
    //@end
    //@fn src/repository/x509.rs :: impl Validity :: not_after
    //@spec
        ensures r == self.not_after,
    //@/spec
    //@end
}
#[verifier::external_body]
pub struct SignedData { _o: u8 }
pub uninterp spec fn sd_data(s: SignedData) -> Seq<u8>;
pub uninterp spec fn sd_signature(s: SignedData) -> Signature;
impl SignedData {
    #[verifier::external_body]
    pub fn new(data: Captured, signature: Signature) -> (r: SignedData)
        ensures sd_data(r) == captured_view(data), sd_signature(r) == signature
    { unimplemented!() }
}

// ca::sigmsg
#[verifier::external_body]
pub struct RevokedCertificates { _o: u8 }
/// number of entries on the list
pub uninterp spec fn rc_len(r: RevokedCertificates) -> nat;
impl RevokedCertificates {
    /// RevokedCertificates::empty() = from_iter(vec![]) through the bcder encoder: no entries (assumed)
    #[verifier::external_body]
    pub fn empty() -> (r: Self) ensures rc_len(r) == 0 { unimplemented!() }
}
//@item src/ca/sigmsg.rs :: struct SignedMessageTbsCrl pubfields
//@item src/ca/sigmsg.rs :: struct SignedMessageCrl pubfields
impl SignedMessageTbsCrl {
    #[verifier::external_body]
    pub fn encode_ref(&self) -> (r: TbsEncoder) ensures enc_view(r) == tbs_octets(*self) { unimplemented!() }
}

impl SignedMessageCrl {
    //@fn src/ca/sigmsg.rs :: impl SignedMessageCrl :: create
    //@spec
        ensures r matches Ok(crl) ==> {
            let key = signer.key_of(*issuing_key_id);
            &&& crl.tbs.this_update == validity.not_before
            &&& crl.tbs.next_update == validity.not_after
            &&& rc_len(crl.tbs.revoked_certs) == 0
            &&& crl.tbs.authority_key_id == Some(ki_of(key))
            &&& crl.tbs.issuer == name_of(key)
            &&& sd_data(crl.signed_data) == tbs_octets(crl.tbs)
            &&& sig_made(key, tbs_octets(crl.tbs), sd_signature(crl.signed_data))
        },
    //@/spec
    //@end
}

/// the time test of SignedMessageTbsCrl::validate (unit sigmsg_compose: window(this_update, when, next_update))
pub open spec fn window(a: Time, when: Time, b: Time) -> bool { tat(a) <= tat(when) <= tat(b) }
/// a CRL made by `create` is current for every time inside the validity of the message it was made for
pub proof fn lemma_created_crl_current(crl: SignedMessageCrl, validity: Validity, when: Time)
    requires
        crl.tbs.this_update == validity.not_before, crl.tbs.next_update == validity.not_after,
        tat(validity.not_before) <= tat(when) <= tat(validity.not_after),
    ensures window(crl.tbs.this_update, when, crl.tbs.next_update)
{}

proof fn reach_create(v: Validity, t: Time)
    requires tat(v.not_before) <= tat(t) <= tat(v.not_after)
{}

} // verus!
fn main() {}
