// Unit range_prefixes (C03): AddressRange::to_v4_prefixes / to_v6_prefixes
// (src/repository/resources/ipres.rs) — "range-to-prefix decomposition agrees with the
// mathematical set, including at the ends of the number space".  Both functions are proved here
// completely (unbounded): the result is a sequence of well-formed prefixes that tiles [min, max]
// in ascending order without gap or overlap (hence pairwise disjoint, union exactly [min, max]);
// it is empty for min > max; the loop terminates (decreases end - start); `start += 1 << same_bits`
// neither overflows nor shifts by the full width — also for ranges ending at the last address.
//   to_v6_prefixes: all of the above in the 128-bit address space.
//   to_v4_prefixes: the function reads only the upper 32 bits of min and max; the contract is stated
//     in that 32-bit space, plus the 128-bit corollary for ranges in IPv4 representation
//     (min padded with 96 zero bits, max with 96 one bits, as from_v4_str / the decoders build them).
// Bit-level facts are discharged by `by (bit_vector)` lemmas (u32 and u128).  Bounded cross-checks of
// the real `impl Iterator` results are Kani harnesses bl_v4_prefixes_kb_n4 / bl_v6_prefixes_kb_n4
// (unit block_leaves), which also proves the std facts assumed here (u128 bit counts, Ipv4Addr <-> u32).
use vstd::prelude::*;
use vstd::std_specs::cmp::*;
use vstd::std_specs::convert::*;
use std::cmp;
use std::net::Ipv4Addr;

verus! {

//@item src/repository/resources/ipres.rs :: pub struct Addr pubfields keepderive=Clone,Copy
//@item src/repository/resources/ipres.rs :: pub struct Prefix pubfields keepderive=Clone,Copy
//@item src/repository/resources/ipres.rs :: pub struct AddressRange pubfields keepderive=Clone,Copy

// ---- std environment (listed in range_prefixes.trusted) ----------------------------------
#[verifier::external_type_specification]
#[verifier::external_body]
pub struct ExIpv4Addr(Ipv4Addr);
/// the 32-bit value of an IPv4 address (big-endian reading of its octets, as std defines it)
pub uninterp spec fn v4_bits(a: Ipv4Addr) -> u32;
pub assume_specification [ <Ipv4Addr as From<u32>>::from ] (x: u32) -> (r: Ipv4Addr)
    ensures v4_bits(r) == x;
pub assume_specification [ <u32 as From<Ipv4Addr>>::from ] (a: Ipv4Addr) -> (r: u32)
    ensures r == v4_bits(a);
pub assume_specification<T: Ord> [ core::cmp::min::<T> ] (a: T, b: T) -> (r: T)
    ensures T::obeys_cmp_spec() ==> r == (if a.cmp_spec(&b) == core::cmp::Ordering::Greater { b } else { a });

/// std: number of trailing zero bits / leading zero bits / trailing one bits of a u128 (vstd specifies these
/// only up to u64).  Proved on the compiled intrinsics by Kani harness bl_u128_bit_counts (unit block_leaves).
pub open spec fn is_tz128(x: u128, r: u32) -> bool {
    r <= 128 && (x == 0 <==> r == 128)
    && (r < 128 ==> (x >> (r as u128)) & 1u128 == 1u128 && x & sub(1u128 << (r as u128), 1) == 0)
}
pub open spec fn is_lz128(x: u128, r: u32) -> bool {
    r <= 128 && (x == 0 <==> r == 128) && (r < 128 ==> x >> sub(127u128, r as u128) == 1u128)
}
pub open spec fn is_to128(x: u128, r: u32) -> bool {
    r <= 128 && (x == u128::MAX <==> r == 128)
    && (r < 128 ==> (x >> (r as u128)) & 1u128 == 0u128 && x & sub(1u128 << (r as u128), 1) == sub(1u128 << (r as u128), 1))
}
pub uninterp spec fn tz128(x: u128) -> u32;
pub uninterp spec fn lz128(x: u128) -> u32;
pub uninterp spec fn to128(x: u128) -> u32;
pub assume_specification [ u128::trailing_zeros ] (x: u128) -> (r: u32)
    ensures r == tz128(x), is_tz128(x, r);
pub assume_specification [ u128::leading_zeros ] (x: u128) -> (r: u32)
    ensures r == lz128(x), is_lz128(x, r);
pub assume_specification [ u128::trailing_ones ] (x: u128) -> (r: u32)
    ensures r == to128(x), is_to128(x, r);

impl Addr {
    //@fn src/repository/resources/ipres.rs :: impl Addr :: from_bits
    //@spec
        ensures r.0 == bits,
    //@/spec
    //@end
    //@fn src/repository/resources/ipres.rs :: impl Addr :: to_bits
    //@spec
        ensures r == self.0,
    //@/spec
    //@end
    //@fn src/repository/resources/ipres.rs :: impl Addr :: from_v4
    //@spec
        ensures r.0 == (v4_bits(addr) as u128) << 96,
    //@/spec
    //@end
    //@fn src/repository/resources/ipres.rs :: impl Addr :: to_min
    //@spec
        ensures r.0 == min_bits(self.0, prefix_len),
    //@/spec
    //@ghost begin
        proof { assert(!0u128 == u128::MAX) by (bit_vector); }
    //@/ghost
    //@end
    //@fn src/repository/resources/ipres.rs :: impl Addr :: to_max
    //@spec
        ensures r.0 == max_bits(self.0, prefix_len),
    //@/spec
    //@ghost begin
        proof { assert(!0u128 == u128::MAX) by (bit_vector); }
    //@/ghost
    //@end
}

impl FromSpecImpl<Ipv4Addr> for Addr {
    open spec fn obeys_from_spec() -> bool { true }
    open spec fn from_spec(a: Ipv4Addr) -> Addr { Addr((v4_bits(a) as u128) << 96) }
}
impl From<Ipv4Addr> for Addr {
    //@fn src/repository/resources/ipres.rs :: impl From<Ipv4Addr> for Addr :: from
    //@spec
        ensures r.0 == (v4_bits(addr) as u128) << 96,
    //@/spec
    //@end
}

impl Prefix {
    // R12: both decomposition functions call `Prefix::new` with an `Addr` argument; for A = Addr the
    // conversion `addr.into()` is std's reflexive `impl<T> From<T> for T` (identity).
    //@fn src/repository/resources/ipres.rs :: impl Prefix :: new
    //@sigsub R12 "<A: Into<Addr>>(addr: A, len: u8)" "(addr: Addr, len: u8)"
    //@sub R12 "addr.into().to_min(len)" "addr.to_min(len)"
    //@spec
        requires len <= 128,
        ensures r.len == len, r.addr.0 == min_bits(addr.0, len),
    //@/spec
    //@end
    //@fn src/repository/resources/ipres.rs :: impl Prefix :: addr_len
    //@spec
        ensures r == self.len,
    //@/spec
    //@end
    //@fn src/repository/resources/ipres.rs :: impl Prefix :: max
    //@spec
        ensures r.0 == max_bits(self.addr.0, self.len),
    //@/spec
    //@end
}

impl AddressRange {
    // R10: `-> impl Iterator<Item = Prefix>` built from a Vec: typed `-> Vec<Prefix>`, final `.into_iter()` dropped
    #[verifier::allow_complex_invariants]
    //@fn src/repository/resources/ipres.rs :: impl AddressRange :: to_v6_prefixes loopiso
    //@sigsub R10 "impl Iterator<Item = Prefix>" "Vec<Prefix>"
    //@sub R10 "cidrs.into_iter()" "cidrs"
    //@spec
        ensures
            // every element is a well-formed prefix: length <= 128, host bits zero
            forall|i: int| 0 <= i < r@.len() ==> wf(#[trigger] r@[i], 128),
            self.min.0 > self.max.0 ==> r@.len() == 0,
            self.min.0 <= self.max.0 ==> ({
                &&& tiles(r@, false, self.min.0 as int, self.max.0 as int)
                &&& ascending_disjoint(r@, false)
                &&& covers_exactly(r@, false, self.min.0 as int, self.max.0 as int)
            }),
    //@/spec
    //@ghost begin
        let ghost min6 = self.min.0;
    //@/ghost
    //@loop "loop"
        invariant_except_break
            cidrs@.len() == 0 ==> start == min6,
            cidrs@.len() > 0 ==> start <= end && tiles(cidrs@, false, min6 as int, start - 1),
        invariant
            end == self.max.0,
            min6 == self.min.0,
            min6 <= start,
            forall|i: int| 0 <= i < cidrs@.len() ==> wf(#[trigger] cidrs@[i], 128),
        ensures
            (min6 > end && cidrs@.len() == 0) || (min6 <= end && tiles(cidrs@, false, min6 as int, end as int)),
        decreases end - start,
    //@/loop
    //@ghost before "debug_assert!(prefix_len <= 128);"
            proof {
                lemma_step128(start, end, addr_host_bits, lz128(start ^ end), to128(end));
            }
    //@/ghost
    //@ghost before "let prefix = Prefix::new("
            let ghost old_cidrs = cidrs@;
    //@/ghost
    //@ghost after "cidrs.push(prefix);"
            proof {
                lemma_tiles_push(old_cidrs, prefix, false, min6 as int);
            }
    //@/ghost
    //@ghost before "cidrs" nth=2
        proof {
            if min6 <= end { lemma_tiles_props(cidrs@, false, min6 as int, end as int); }
        }
    //@/ghost
    //@end

    // R10 as above
    #[verifier::allow_complex_invariants]
    //@fn src/repository/resources/ipres.rs :: impl AddressRange :: to_v4_prefixes loopiso
    //@sigsub R10 "impl Iterator<Item = Prefix>" "Vec<Prefix>"
    //@sub R10 "cidrs.into_iter()" "cidrs"
    //@spec
        ensures
            // every element is a well-formed IPv4 prefix: length <= 32, host bits (all 128-len low bits) zero
            forall|i: int| 0 <= i < r@.len() ==> wf(#[trigger] r@[i], 32),
            // in the IPv4 address space (upper 32 bits, which is all the function reads):
            v4_of(self.min.0) > v4_of(self.max.0) ==> r@.len() == 0,
            v4_of(self.min.0) <= v4_of(self.max.0) ==> ({
                &&& tiles(r@, true, v4_of(self.min.0) as int, v4_of(self.max.0) as int)
                &&& ascending_disjoint(r@, true)
                &&& covers_exactly(r@, true, v4_of(self.min.0) as int, v4_of(self.max.0) as int)
            }),
            // in the 128-bit space, for a range in IPv4 representation (min padded with zeros, max with ones)
            v4_shaped(self) && self.min.0 > self.max.0 ==> r@.len() == 0,
            v4_shaped(self) && self.min.0 <= self.max.0 ==> ({
                &&& tiles(r@, false, self.min.0 as int, self.max.0 as int)
                &&& ascending_disjoint(r@, false)
                &&& covers_exactly(r@, false, self.min.0 as int, self.max.0 as int)
            }),
    //@/spec
    //@ghost begin
        broadcast use {vstd::std_specs::bits::axiom_u32_trailing_zeros, vstd::std_specs::bits::axiom_u32_leading_zeros, vstd::std_specs::bits::axiom_u32_trailing_ones};
        proof { lemma_shr96_fits(self.min.0); lemma_shr96_fits(self.max.0); }
        let ghost min4 = v4_of(self.min.0);
    //@/ghost
    //@loop "loop"
        invariant_except_break
            cidrs@.len() == 0 ==> start == min4,
            cidrs@.len() > 0 ==> start <= end && tiles(cidrs@, true, min4 as int, start - 1),
        invariant
            end == v4_of(self.max.0),
            min4 == v4_of(self.min.0),
            min4 <= start,
            forall|i: int| 0 <= i < cidrs@.len() ==> wf(#[trigger] cidrs@[i], 32),
        ensures
            (min4 > end && cidrs@.len() == 0) || (min4 <= end && tiles(cidrs@, true, min4 as int, end as int)),
        decreases end - start,
    //@/loop
    //@ghost before "debug_assert!(prefix_len <= 32);"
            proof {
                lemma_step32(start, end, addr_host_bits, (start ^ end).leading_zeros(), end.trailing_ones());
                lemma_v4_prefix(start, same_bits);
            }
    //@/ghost
    //@ghost after "cidrs.push(prefix);"
            proof {
                lemma_shr96_fits(max_bits(prefix.addr.0, prefix.len));
                lemma_tiles_push(old_cidrs, prefix, true, min4 as int);
            }
    //@/ghost
    //@ghost before "let prefix = Prefix::new("
            let ghost old_cidrs = cidrs@;
    //@/ghost
    //@ghost before "cidrs" nth=2
        proof {
            if min4 <= end {
                lemma_tiles_props(cidrs@, true, min4 as int, end as int);
                lemma_v4_to_128(cidrs@, self.min.0, self.max.0);
                if v4_shaped(self) { lemma_tiles_props(cidrs@, false, self.min.0 as int, self.max.0 as int); }
            }
            lemma_v4_shaped_order(self.min.0, self.max.0);
        }
    //@/ghost
    //@end
}

/// all-ones in the host part of a prefix of length `len` (128-bit view)
pub open spec fn hostmask(len: u8) -> u128 {
    if len >= 128 { 0 } else { u128::MAX >> (len as u128) }
}
/// smallest / largest address of the prefix a/len
pub open spec fn min_bits(a: u128, len: u8) -> u128 { if len >= 128 { a } else { a & !(u128::MAX >> (len as u128)) } }
pub open spec fn max_bits(a: u128, len: u8) -> u128 { if len >= 128 { a } else { a | (u128::MAX >> (len as u128)) } }

// ---- specification vocabulary --------------------------------------------------------------
/// the IPv4 address stored in the upper four octets
pub open spec fn v4_of(a: u128) -> u32 { (a >> 96) as u32 }
/// type invariant of Prefix within a family of `fam` bits: length within the family, host bits zero
pub open spec fn wf(p: Prefix, fam: u8) -> bool { p.len <= fam && p.addr.0 & hostmask(p.len) == 0 }
/// first / last address of a prefix, in the 128-bit space or (v4) in the 32-bit IPv4 space
pub open spec fn plo(p: Prefix, v4: bool) -> int { if v4 { v4_of(p.addr.0) as int } else { p.addr.0 as int } }
pub open spec fn phi(p: Prefix, v4: bool) -> int { if v4 { v4_of(max_bits(p.addr.0, p.len)) as int } else { max_bits(p.addr.0, p.len) as int } }
/// an IPv4 range as the parsers build it: min padded with 96 zero bits, max with 96 one bits
pub open spec fn v4_shaped(r: AddressRange) -> bool {
    r.min.0 & 0xffff_ffff_ffff_ffff_ffff_ffffu128 == 0 && r.max.0 & 0xffff_ffff_ffff_ffff_ffff_ffffu128 == 0xffff_ffff_ffff_ffff_ffff_ffffu128
}
/// s is a non-empty gap-free, overlap-free tiling of [a, b] by non-empty prefixes, in order
pub open spec fn tiles(s: Seq<Prefix>, v4: bool, a: int, b: int) -> bool {
    &&& s.len() > 0
    &&& plo(s[0], v4) == a
    &&& phi(s.last(), v4) == b
    &&& forall|i: int| 0 <= i < s.len() ==> plo(#[trigger] s[i], v4) <= phi(s[i], v4)
    &&& forall|i: int| 0 <= i < s.len() - 1 ==> phi(#[trigger] s[i], v4) + 1 == plo(s[i + 1], v4)
}
/// ascending order and pairwise disjointness
pub open spec fn ascending_disjoint(s: Seq<Prefix>, v4: bool) -> bool {
    forall|i: int, j: int| 0 <= i < j < s.len() ==> phi(#[trigger] s[i], v4) < plo(#[trigger] s[j], v4)
}
pub open spec fn in_some(s: Seq<Prefix>, v4: bool, x: int) -> bool {
    exists|i: int| 0 <= i < s.len() && plo(#[trigger] s[i], v4) <= x <= phi(s[i], v4)
}
/// the union of the prefixes is exactly [a, b]
pub open spec fn covers_exactly(s: Seq<Prefix>, v4: bool, a: int, b: int) -> bool {
    forall|x: int| (a <= x <= b) <==> #[trigger] in_some(s, v4, x)
}
pub open spec fn lowmask32(s: u32) -> u32 { if s >= 32 { 0xffff_ffffu32 } else { sub(1u32 << s, 1) } }

// ---- lemmas ----------------------------------------------------------------------------------
pub proof fn lemma_shr96_fits(a: u128)
    ensures a >> 96 <= 0xffff_ffffu128,
{
    assert(a >> 96 <= 0xffff_ffffu128) by (bit_vector);
}

/// one loop iteration of to_v4_prefixes in the 32-bit space: the chosen block is aligned, does not
/// overshoot `end`, and unless it ends at `end` the increment neither overflows nor leaves a gap
pub proof fn lemma_step32(start: u32, end: u32, tz: u32, lz: u32, to: u32)
    requires
        start <= end,
        tz <= 32, start == 0 <==> tz == 32, tz < 32 ==> (start >> tz) & 1u32 == 1u32, start << sub(32, tz) == 0,
        lz <= 32, (start ^ end) == 0 <==> lz == 32, lz < 32 ==> ((start ^ end) >> sub(31u32, lz)) & 1u32 != 0u32, (start ^ end) >> sub(32, lz) == 0,
        to <= 32, end == 0xffff_ffffu32 <==> to == 32, to < 32 ==> (end >> to) & 1u32 == 0u32, (!end) << sub(32, to) == 0,
    ensures ({
        let k = sub(32, lz);
        let ma = if to < k { sub(k, 1) } else { k };
        let s = if tz > ma { ma } else { tz };
        &&& s <= 32
        &&& start & lowmask32(s) == 0
        &&& start <= (start | lowmask32(s)) <= end
        &&& (start | lowmask32(s)) != end ==> s < 32 && start + (1u32 << s) == (start | lowmask32(s)) + 1
    }),
{
    let k = sub(32, lz);
    let ma = if to < k { sub(k, 1) } else { k };
    let s = if tz > ma { ma } else { tz };
    let m = lowmask32(s);
    assert(s <= 32 && start & m == 0 && start <= (start | m) && (start | m) <= end
           && ((start | m) != end ==> s < 32 && (start | m) < 0xffff_ffffu32 && (1u32 << s) <= sub(0xffff_ffffu32, start)
                                      && add(start, 1u32 << s) == add(start | m, 1))) by (bit_vector)
        requires
            k == sub(32, lz), ma == (if to < k { sub(k, 1) } else { k }), s == (if tz > ma { ma } else { tz }),
            m == (if s >= 32 { 0xffff_ffffu32 } else { sub(1u32 << s, 1) }),
            start <= end,
            tz <= 32, start == 0 <==> tz == 32, tz < 32 ==> (start >> tz) & 1u32 == 1u32, start << sub(32, tz) == 0,
            lz <= 32, (start ^ end) == 0 <==> lz == 32, lz < 32 ==> ((start ^ end) >> sub(31u32, lz)) & 1u32 != 0u32, (start ^ end) >> sub(32, lz) == 0,
            to <= 32, end == 0xffff_ffffu32 <==> to == 32, to < 32 ==> (end >> to) & 1u32 == 0u32, (!end) << sub(32, to) == 0;
}

/// one loop iteration of to_v6_prefixes: the chosen block start/(128-s) is aligned, does not overshoot
/// `end`, and unless it ends at `end` the increment `start += 1 << s` neither overflows (s < 128, no
/// carry out) nor leaves a gap
pub proof fn lemma_step128(start: u128, end: u128, tz: u32, lz: u32, to: u32)
    requires
        start <= end,
        is_tz128(start, tz), is_lz128(start ^ end, lz), is_to128(end, to),
    ensures ({
        let k = sub(128u32, lz);
        let ma = if to < k { sub(k, 1) } else { k };
        let s = if tz > ma { ma } else { tz };
        let len = (128 - s) as u8;
        &&& s <= 128
        &&& min_bits(start, len) == start
        &&& start & hostmask(len) == 0
        &&& start <= max_bits(start, len) <= end
        &&& max_bits(start, len) != end ==> s < 128 && start + (1u128 << s) == max_bits(start, len) + 1
    }),
{
    let k = sub(128u32, lz);
    let ma = if to < k { sub(k, 1) } else { k };
    let s = if tz > ma { ma } else { tz };
    let sh = sub(128u32, s) as u128;
    let hm = if sh >= 128 { 0u128 } else { u128::MAX >> sh };
    assert(s <= 128 && start & hm == 0 && start <= (start | hm) && (start | hm) <= end
           && (sh < 128 ==> start & !(u128::MAX >> sh) == start) && (sh >= 128 ==> start | hm == start)
           && ((start | hm) != end ==> s < 128 && (start | hm) < u128::MAX && (1u128 << (s as u128)) <= sub(u128::MAX, start)
                                      && add(start, 1u128 << (s as u128)) == add(start | hm, 1))) by (bit_vector)
        requires
            k == sub(128u32, lz), ma == (if to < k { sub(k, 1) } else { k }), s == (if tz > ma { ma } else { tz }),
            sh == sub(128u32, s) as u128, hm == (if sh >= 128 { 0u128 } else { u128::MAX >> sh }),
            start <= end,
            tz <= 128, start == 0 <==> tz == 128, tz < 128 ==> (start >> (tz as u128)) & 1u128 == 1u128 && start & sub(1u128 << (tz as u128), 1) == 0,
            lz <= 128, (start ^ end) == 0 <==> lz == 128, lz < 128 ==> (start ^ end) >> sub(127u128, lz as u128) == 1u128,
            to <= 128, end == u128::MAX <==> to == 128, to < 128 ==> (end >> (to as u128)) & 1u128 == 0u128 && end & sub(1u128 << (to as u128), 1) == sub(1u128 << (to as u128), 1);
    let len = (128 - s) as u8;
    assert(len as u128 == sh);
    assert(hm == hostmask(len));
    assert(max_bits(start, len) == start | hm);
}

/// the 128-bit prefix built for an aligned 32-bit block start/(32-s)
pub proof fn lemma_v4_prefix(start: u32, s: u32)
    requires s <= 32, start & lowmask32(s) == 0,
    ensures ({
        let a = (start as u128) << 96;
        let len = (32 - s) as u8;
        &&& min_bits(a, len) == a
        &&& a & hostmask(len) == 0
        &&& v4_of(a) == start
        &&& v4_of(max_bits(a, len)) == start | lowmask32(s)
    }),
{
    let a = (start as u128) << 96;
    let sh = (32 - s) as u128;
    let m = lowmask32(s);
    assert(a & !(u128::MAX >> sh) == a && a & (u128::MAX >> sh) == 0 && ((a >> 96) as u32) == start
           && (((a | (u128::MAX >> sh)) >> 96) as u32) == start | m) by (bit_vector)
        requires a == (start as u128) << 96, sh == sub(32, s) as u128, s <= 32,
                 m == (if s >= 32 { 0xffff_ffffu32 } else { sub(1u32 << s, 1) }), start & m == 0;
}

/// 128-bit view of a well-formed IPv4 prefix
pub proof fn lemma_p128(addr: u128, len: u8)
    requires len <= 32, addr & hostmask(len) == 0,
    ensures
        addr == (v4_of(addr) as u128) << 96,
        max_bits(addr, len) == ((v4_of(max_bits(addr, len)) as u128) << 96) | 0xffff_ffff_ffff_ffff_ffff_ffffu128,
        addr <= max_bits(addr, len),
{
    let sh = len as u128;
    assert(addr == (((addr >> 96) as u32) as u128) << 96
        && (addr | (u128::MAX >> sh)) == (((((addr | (u128::MAX >> sh)) >> 96) as u32) as u128) << 96) | 0xffff_ffff_ffff_ffff_ffff_ffffu128
        && addr <= (addr | (u128::MAX >> sh))) by (bit_vector)
        requires sh <= 32, addr & (u128::MAX >> sh) == 0;
}

pub proof fn lemma_v4_shaped_order(min: u128, max: u128)
    ensures v4_shaped(AddressRange { min: Addr(min), max: Addr(max) }) ==> ((min <= max) <==> (v4_of(min) <= v4_of(max))),
{
    assert((min & 0xffff_ffff_ffff_ffff_ffff_ffffu128 == 0 && max & 0xffff_ffff_ffff_ffff_ffff_ffffu128 == 0xffff_ffff_ffff_ffff_ffff_ffffu128)
        ==> ((min <= max) <==> (((min >> 96) as u32) <= ((max >> 96) as u32)))) by (bit_vector);
}

pub proof fn lemma_tiles_push(old: Seq<Prefix>, p: Prefix, v4: bool, a: int)
    requires
        plo(p, v4) <= phi(p, v4),
        old.len() == 0 ==> plo(p, v4) == a,
        old.len() > 0 ==> tiles(old, v4, a, plo(p, v4) - 1),
    ensures tiles(old.push(p), v4, a, phi(p, v4)),
{
    let s = old.push(p);
    assert(s.last() == p);
    assert forall|i: int| 0 <= i < s.len() implies plo(#[trigger] s[i], v4) <= phi(s[i], v4) by {
        if i < old.len() { assert(s[i] == old[i]); }
    }
    assert forall|i: int| 0 <= i < s.len() - 1 implies phi(#[trigger] s[i], v4) + 1 == plo(s[i + 1], v4) by {
        assert(s[i] == old[i]);
        if i + 1 < old.len() { assert(s[i + 1] == old[i + 1]); } else { assert(old[i] == old.last()); }
    }
    if old.len() > 0 { assert(s[0] == old[0]); }
}

pub proof fn lemma_tiles_mono(s: Seq<Prefix>, v4: bool, a: int, b: int, i: int, j: int)
    requires tiles(s, v4, a, b), 0 <= i < j < s.len(),
    ensures phi(s[i], v4) < plo(s[j], v4),
    decreases j - i,
{
    if j == i + 1 {
        assert(phi(s[i], v4) + 1 == plo(s[i + 1], v4));
    } else {
        lemma_tiles_mono(s, v4, a, b, i, j - 1);
        assert(plo(s[j - 1], v4) <= phi(s[j - 1], v4));
        assert(phi(s[j - 1], v4) + 1 == plo(s[j - 1 + 1], v4));
    }
}

pub proof fn lemma_tiles_cover(s: Seq<Prefix>, v4: bool, a: int, b: int, x: int, n: int)
    requires tiles(s, v4, a, b), 0 <= n < s.len(), a <= x <= phi(s[n], v4),
    ensures in_some(s, v4, x),
    decreases n,
{
    if x >= plo(s[n], v4) {
    } else {
        assert(n > 0);
        assert(phi(s[n - 1], v4) + 1 == plo(s[n - 1 + 1], v4));
        lemma_tiles_cover(s, v4, a, b, x, n - 1);
    }
}

/// a tiling is ascending, pairwise disjoint and its union is exactly [a, b]
pub proof fn lemma_tiles_props(s: Seq<Prefix>, v4: bool, a: int, b: int)
    requires tiles(s, v4, a, b),
    ensures ascending_disjoint(s, v4), covers_exactly(s, v4, a, b), a <= b,
{
    assert forall|i: int, j: int| 0 <= i < j < s.len() implies phi(#[trigger] s[i], v4) < plo(#[trigger] s[j], v4) by {
        lemma_tiles_mono(s, v4, a, b, i, j);
    }
    let n = s.len() - 1;
    assert forall|x: int| (a <= x <= b) <==> #[trigger] in_some(s, v4, x) by {
        if a <= x <= b { lemma_tiles_cover(s, v4, a, b, x, n); }
        if in_some(s, v4, x) {
            let i = choose|i: int| 0 <= i < s.len() && plo(#[trigger] s[i], v4) <= x <= phi(s[i], v4);
            if i > 0 { lemma_tiles_mono(s, v4, a, b, 0, i); assert(plo(s[0], v4) <= phi(s[0], v4)); }
            if i < n { lemma_tiles_mono(s, v4, a, b, i, n); assert(plo(s[n], v4) <= phi(s[n], v4)); }
        }
    }
    assert(plo(s[0], v4) <= phi(s[0], v4));
    if n > 0 { lemma_tiles_mono(s, v4, a, b, 0, n); assert(plo(s[n], v4) <= phi(s[n], v4)); }
}

/// a tiling of IPv4 space by well-formed IPv4 prefixes is a tiling in the 128-bit space
pub proof fn lemma_v4_to_128(s: Seq<Prefix>, min: u128, max: u128)
    requires
        forall|i: int| 0 <= i < s.len() ==> wf(#[trigger] s[i], 32),
        tiles(s, true, v4_of(min) as int, v4_of(max) as int),
    ensures
        v4_shaped(AddressRange { min: Addr(min), max: Addr(max) }) ==> tiles(s, false, min as int, max as int),
{
    if v4_shaped(AddressRange { min: Addr(min), max: Addr(max) }) {
        assert forall|i: int| 0 <= i < s.len() implies plo(#[trigger] s[i], false) <= phi(s[i], false) by {
            assert(wf(s[i], 32));
            lemma_p128(s[i].addr.0, s[i].len);
        }
        assert forall|i: int| 0 <= i < s.len() - 1 implies phi(#[trigger] s[i], false) + 1 == plo(s[i + 1], false) by {
            assert(wf(s[i], 32)); assert(wf(s[i + 1], 32));
            lemma_p128(s[i].addr.0, s[i].len);
            lemma_p128(s[i + 1].addr.0, s[i + 1].len);
            let h4 = v4_of(max_bits(s[i].addr.0, s[i].len));
            let l4 = v4_of(s[i + 1].addr.0);
            assert(phi(s[i], true) + 1 == plo(s[i + 1], true));
            assert(h4 + 1 == l4);
            let h = max_bits(s[i].addr.0, s[i].len);
            let l = s[i + 1].addr.0;
            assert(h < u128::MAX && add(h, 1) == l) by (bit_vector)
                requires h == ((h4 as u128) << 96) | 0xffff_ffff_ffff_ffff_ffff_ffffu128, l == (l4 as u128) << 96, h4 < 0xffff_ffffu32, add(h4, 1) == l4;
        }
        assert(wf(s[0], 32)); assert(wf(s.last(), 32));
        lemma_p128(s[0].addr.0, s[0].len);
        lemma_p128(s.last().addr.0, s.last().len);
        let m4 = v4_of(min); let x4 = v4_of(max);
        assert(min == (m4 as u128) << 96) by (bit_vector)
            requires m4 == (min >> 96) as u32, min & 0xffff_ffff_ffff_ffff_ffff_ffffu128 == 0;
        assert(max == ((x4 as u128) << 96) | 0xffff_ffff_ffff_ffff_ffff_ffffu128) by (bit_vector)
            requires x4 == (max >> 96) as u32, max & 0xffff_ffff_ffff_ffff_ffff_ffffu128 == 0xffff_ffff_ffff_ffff_ffff_ffffu128;
    }
}

proof fn reach_to_v6_prefixes() {
    // 2001:db8:: - 2001:db8::8000, the example of the source comments; and the whole space
    let r = AddressRange { min: Addr(0x2001_0db8_0000_0000_0000_0000_0000_0000u128), max: Addr(0x2001_0db8_0000_0000_0000_0000_0000_8000u128) };
    assert(r.min.0 <= r.max.0);
    let w = AddressRange { min: Addr(0u128), max: Addr(u128::MAX) };
    assert(w.min.0 <= w.max.0);
    // the assumed characterisations of the bit counts are satisfiable at the ends
    assert(is_tz128(0u128, 128) && is_lz128(0u128, 128) && is_to128(u128::MAX, 128));
    assert(is_tz128(1u128, 0) && is_lz128(u128::MAX, 0) && is_to128(0u128, 0)) by {
        assert((1u128 >> 0u128) & 1u128 == 1u128 && 1u128 & sub(1u128 << 0u128, 1) == 0
            && u128::MAX >> sub(127u128, 0u128) == 1u128
            && (0u128 >> 0u128) & 1u128 == 0u128 && 0u128 & sub(1u128 << 0u128, 1) == sub(1u128 << 0u128, 1)) by (bit_vector);
    }
}

proof fn reach_to_v4_prefixes() {
    // 10.0.0.0 - 10.0.0.255 in IPv4 representation
    let a = 0x0a00_0000_0000_0000_0000_0000_0000_0000u128;
    let b = 0x0a00_00ff_ffff_ffff_ffff_ffff_ffff_ffffu128;
    assert(a & 0xffff_ffff_ffff_ffff_ffff_ffffu128 == 0 && b & 0xffff_ffff_ffff_ffff_ffff_ffffu128 == 0xffff_ffff_ffff_ffff_ffff_ffffu128
           && ((a >> 96) as u32) <= ((b >> 96) as u32)) by (bit_vector)
        requires a == 0x0a00_0000_0000_0000_0000_0000_0000_0000u128, b == 0x0a00_00ff_ffff_ffff_ffff_ffff_ffff_ffffu128;
    let r = AddressRange { min: Addr(a), max: Addr(b) };
    assert(v4_shaped(r) && v4_of(r.min.0) <= v4_of(r.max.0));
}

} // verus!
fn main() {}
