// Unit time_take (C17): the two decode closures of Time::take_opt_from (src/repository/x509.rs) - the UTCTime one is
// the clause that exhausts CBMC's memory in Kani unit x509_time (take_opt_primitive_if), so it is decided here.
// Each closure `|prim| { .. }` handed to `cons.take_opt_primitive_if(TAG, ..)` is LIFTED (rule R13): its block,
// byte-identical, is the body of a named function with the closure parameter as parameter.  Verified for every
// content octet string: the closure accepts exactly the fixed-width all-digit 'Z'-terminated form whose fields
// from_parts accepts, the two-digit year is read with the pivot at 50 (yy >= 50 => 19yy, else 20yy), the fields
// are handed over in the order year, month, day, hour, minute, second, and exactly 13 / 15 octets are consumed.
// Callee contracts (stand-ins, cross-referenced): read_two_char / read_four_char - Kani harnesses time_read_two_char /
// time_read_four_char (complete over all octets); Time::from_parts - Kani harness time_from_parts (complete).
// Assumed: bcder's take_opt_primitive_if runs the closure on the content of a primitive value with that tag and
// requires the content to be exhausted afterwards (so "exactly 13 / 15 octets").
use vstd::prelude::*;

verus! {

#[verifier::external_body]
pub struct ContentError { _o: u8 }
#[verifier::external_body]
pub struct DecodeError { _o: u8 }
/// bcder::decode::Primitive: the content octets still to be read
#[verifier::external_body]
pub struct Primitive { _o: u8 }
impl Primitive {
    pub uninterp spec fn rest(&self) -> Seq<u8>;
    #[verifier::external_body]
    pub fn content_err<T>(&self, err: T) -> (r: DecodeError) { unimplemented!() }
    #[verifier::external_body]
    pub fn take_u8(&mut self) -> (r: Result<u8, DecodeError>)
        ensures
            r is Ok <==> old(self).rest().len() >= 1,
            r matches Ok(b) ==> b == old(self).rest()[0] && final(self).rest() == old(self).rest().skip(1),
    { unimplemented!() }
}

pub open spec fn dig(c: u8) -> bool { 0x30 <= c <= 0x39 }
pub open spec fn val(c: u8) -> int { c as int - 0x30 }
pub open spec fn two(s: Seq<u8>, i: int) -> int { val(s[i]) * 10 + val(s[i + 1]) }
pub open spec fn four(s: Seq<u8>, i: int) -> int { val(s[i]) * 1000 + val(s[i + 1]) * 100 + val(s[i + 2]) * 10 + val(s[i + 3]) }
pub open spec fn digits(s: Seq<u8>, n: int) -> bool { s.len() >= n && forall|i: int| 0 <= i < n ==> dig(#[trigger] s[i]) }

/// contract proved on the compiled function by Kani harness time_read_two_char (all 65536 octet pairs) - stand-in
#[verifier::external_body]
pub fn read_two_char(source: &mut Primitive) -> (r: Result<u32, DecodeError>)
    ensures
        r is Ok <==> digits(old(source).rest(), 2),
        r matches Ok(v) ==> v == two(old(source).rest(), 0) && final(source).rest() == old(source).rest().skip(2),
{ unimplemented!() }
/// contract proved on the compiled function by Kani harness time_read_four_char (all 2^32 octet quadruples) - stand-in
#[verifier::external_body]
pub fn read_four_char(source: &mut Primitive) -> (r: Result<u32, DecodeError>)
    ensures
        r is Ok <==> digits(old(source).rest(), 4),
        r matches Ok(v) ==> v == four(old(source).rest(), 0) && final(source).rest() == old(source).rest().skip(4),
{ unimplemented!() }

#[verifier::external_body]
pub struct Time { _o: u8 }
/// Time::from_parts accepts exactly the real calendar dates and times and keeps the fields: Kani harness
/// time_from_parts (complete over the years 0..=9999 and all u32 field values)
pub uninterp spec fn valid_parts(p: (i32, u32, u32, u32, u32, u32)) -> bool;
pub uninterp spec fn time_of(p: (i32, u32, u32, u32, u32, u32)) -> Time;

/// the property's reading of a UTCTime content: YYMMDDHHMMSSZ, pivot at 50
pub open spec fn utc_parts(s: Seq<u8>) -> (i32, u32, u32, u32, u32, u32) {
    let yy = two(s, 0);
    ((if yy >= 50 { 1900 + yy } else { 2000 + yy }) as i32, two(s, 2) as u32, two(s, 4) as u32, two(s, 6) as u32, two(s, 8) as u32, two(s, 10) as u32)
}
/// GeneralizedTime content: YYYYMMDDHHMMSSZ
pub open spec fn gen_parts(s: Seq<u8>) -> (i32, u32, u32, u32, u32, u32) {
    (four(s, 0) as i32, two(s, 4) as u32, two(s, 6) as u32, two(s, 8) as u32, two(s, 10) as u32, two(s, 12) as u32)
}

pub mod lem {
    use super::*;
    /// reading proceeds through skip(): relate the digits of a suffix to the digits of the whole
    pub broadcast proof fn lemma_skip_index(s: Seq<u8>, k: int, i: int)
        requires 0 <= k, 0 <= i, k + i < s.len()
        ensures #[trigger] s.skip(k)[i] == s[k + i]
    {}
    pub broadcast proof fn lemma_skip_skip(s: Seq<u8>, a: int, b: int)
        requires 0 <= a, 0 <= b, a + b <= s.len()
        ensures #[trigger] s.skip(a).skip(b) == s.skip(a + b)
    {
        assert(s.skip(a).skip(b) =~= s.skip(a + b));
    }
}

impl Time {
    #[verifier::external_body]
    fn from_parts(parts: (i32, u32, u32, u32, u32, u32)) -> (r: Result<Time, ContentError>)
        ensures r is Ok <==> valid_parts(parts), r matches Ok(t) ==> t == time_of(parts)
    { unimplemented!() }

    //@fn src/repository/x509.rs :: impl Time :: take_opt_from
    //@lift "cons.take_opt_primitive_if(Tag::UTC_TIME, |prim|"
    //@sig
    fn take_opt_utc_body(prim: &mut Primitive) -> Result<Self, DecodeError>
    //@/sig
    //@spec
        ensures
            r is Ok <==> {
                let s = old(prim).rest();
                digits(s, 12) && s.len() >= 13 && s[12] == 0x5a && valid_parts(utc_parts(s))
            },
            r matches Ok(t) ==> t == time_of(utc_parts(old(prim).rest())) && final(prim).rest() == old(prim).rest().skip(13),
    //@/spec
    //@ghost begin
        broadcast use lem::lemma_skip_index, lem::lemma_skip_skip;
    //@/ghost
    //@end

    //@fn src/repository/x509.rs :: impl Time :: take_opt_from
    //@lift "cons.take_opt_primitive_if(Tag::GENERALIZED_TIME, |prim|"
    //@sig
    fn take_opt_gen_body(prim: &mut Primitive) -> Result<Self, DecodeError>
    //@/sig
    //@spec
        ensures
            r is Ok <==> {
                let s = old(prim).rest();
                digits(s, 14) && s.len() >= 15 && s[14] == 0x5a && valid_parts(gen_parts(s))
            },
            r matches Ok(t) ==> t == time_of(gen_parts(old(prim).rest())) && final(prim).rest() == old(prim).rest().skip(15),
    //@/spec
    //@ghost begin
        broadcast use lem::lemma_skip_index, lem::lemma_skip_skip;
    //@/ghost
    //@end
}

proof fn reach_utc(s: Seq<u8>)
    requires s == seq![0x34u8, 0x39, 0x31, 0x32, 0x33, 0x31, 0x32, 0x33, 0x35, 0x39, 0x35, 0x39, 0x5a]
    ensures digits(s, 12), s[12] == 0x5a, utc_parts(s).0 == 2049
{
    assert(two(s, 0) == 49);
}

} // verus!
fn main() {}
