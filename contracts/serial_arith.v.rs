// Unit serial_arith (C17): the multi-precision helpers of x509::Serial (src/repository/x509.rs).
// `Serial([u8; 20])` is a 160-bit big-endian unsigned integer whose top bit is clear (so < 2^159 = limit()).
// val(s) = sum_{j<20} s[j] * 256^(19-j).  Proved on the extracted bodies:
//   checked_mul_u8 / checked_add_u8   Some(r) <==> val(self) (*|+) rhs < 2^159, then val(r) is that number; no u16 overflow
//   div_assign_u8 (rhs != 0)          val(final) * rhs + r == val(old), r < rhs; no u16 overflow, quotient digits fit an octet
//   is_zero, Default::default, from_array, into_array
//   encode_dec                        writes the canonical decimal text of val(self) (digits, no leading zero, EMPTY for 0) into
//                                     the tail of the buffer: no index under/overflow (49 digits suffice), termination, and the
//                                     `from_utf8_unchecked` safety condition (verified, not assumed); r@ are those digits as chars
//   <Serial as FromStr>::from_str     Ok(r) <==> all chars are ASCII digits and their decimal value < 2^159, then val(r) is it
// and at the spec level: the decimal round trip (lemma_dec_round_trip, and executably reach_round_trip), injectivity of val,
// and numeric order == lexicographic order of the octets (what derive(Ord) compares).
// Not in this unit: the minimal DER INTEGER form (from_slice / start / encoded_len / write_encoded / take_from).
use vstd::prelude::*;
use vstd::string::StringSliceAdditionalSpecFns;
use vstd::std_specs::cmp::PartialEqSpec;
use std::str;

verus! {

// ================================================================================================
// specification vocabulary
// ================================================================================================
pub open spec fn pow256(k: nat) -> nat decreases k { if k == 0 { 1 } else { 256 * pow256((k - 1) as nat) } }
pub open spec fn pow10(k: nat) -> nat decreases k { if k == 0 { 1 } else { 10 * pow10((k - 1) as nat) } }

/// value of the octets s[i..20]:  sum_{i <= j < 20} s[j] * 256^(19-j)
pub open spec fn low(s: Seq<u8>, i: int) -> nat decreases 20 - i {
    if i < 0 || i >= 20 { 0 } else { s[i] as nat * pow256((19 - i) as nat) + low(s, i + 1) }
}
/// the number a serial stands for: sum_{0 <= j < 20} s[j] * 256^(19-j)
pub open spec fn val(s: [u8; 20]) -> nat { low(s@, 0) }
/// Horner value of the leading octets s[0..n]
pub open spec fn hi(s: Seq<u8>, n: int) -> nat decreases n {
    if n <= 0 { 0 } else { hi(s, n - 1) * 256 + s[n - 1] as nat }
}
/// 2^159: serial numbers are non-negative INTEGERs of at most 20 octets, so the top bit is clear
pub open spec fn limit() -> nat { 128 * pow256(19) }

pub open spec fn all_zero(s: Seq<u8>) -> bool { forall|i: int| 0 <= i < s.len() ==> s[i] == 0 }

// ---- decimal text ------------------------------------------------------------------------------
pub open spec fn is_digit(c: u8) -> bool { 0x30 <= c <= 0x39 }
pub open spec fn all_digits(d: Seq<u8>) -> bool { forall|i: int| 0 <= i < d.len() ==> is_digit(#[trigger] d[i]) }
/// value of a string of ASCII digits, most significant first (what a left-to-right parser computes)
pub open spec fn dec_val(d: Seq<u8>) -> nat decreases d.len() {
    if d.len() == 0 { 0 } else { dec_val(d.drop_last()) * 10 + (d.last() as int - 0x30) as nat }
}
/// the octets of an ASCII text as characters
pub open spec fn as_chars(d: Seq<u8>) -> Seq<char> { Seq::new(d.len(), |i: int| d[i] as char) }
pub open spec fn is_digit_c(c: char) -> bool { '0' <= c <= '9' }
pub open spec fn all_digits_c(s: Seq<char>) -> bool { forall|i: int| 0 <= i < s.len() ==> is_digit_c(#[trigger] s[i]) }
pub open spec fn dec_val_c(s: Seq<char>) -> nat decreases s.len() {
    if s.len() == 0 { 0 } else { dec_val_c(s.drop_last()) * 10 + (s.last() as int - 0x30) as nat }
}
/// the canonical decimal text of n: digits only, value n, no leading zero (the empty text for 0)
/// the state of encode_dec: the digits written so far are target[len..49], v is what remains to be written
pub open spec fn enc_inv(t: Seq<u8>, len: int, v: nat, total: nat) -> bool {
    0 <= len <= 49 && t.len() == 49
    && all_digits(t.subrange(len, 49))
    && dec_val(t.subrange(len, 49)) + v * pow10((49 - len) as nat) == total
    && (len < 49 && v == 0 ==> t[len] != 0x30)
}
pub open spec fn canonical_dec(d: Seq<u8>, n: nat) -> bool {
    all_digits(d) && dec_val(d) == n && (d.len() > 0 ==> d[0] != 0x30)
}

// ================================================================================================
// environment: std
// ================================================================================================
/// std: the free function `core::str::from_utf8_unchecked` has the contract vstd gives to the
/// associated function `str::from_utf8_unchecked` (same function in std): safe exactly for valid UTF-8
pub assume_specification [ core::str::from_utf8_unchecked ] (v: &[u8]) -> (r: &str)
    requires vstd::utf8::valid_utf8(v@),
    ensures r.spec_bytes() == v@;
/// std: `u16::overflowing_shl(n)` shifts by `n & 15`, keeps the low 16 bits and reports `n >= 16`
pub assume_specification [ u16::overflowing_shl ] (x: u16, n: u32) -> (r: (u16, bool))
    ensures n < 16 ==> r.0 == x << n, r.1 == (n >= 16);

//@item src/repository/x509.rs :: pub struct Serial pubfields keepderive=Clone,Copy,Eq,PartialEq
//@item src/repository/x509.rs :: pub struct RepresentationError keepderive=Clone,Copy
//@item src/repository/x509.rs :: pub struct SerialSliceError pubfields keepderive=Clone,Copy
//@item src/repository/x509.rs :: enum SerialSliceErrorKind pubfields keepderive=Clone,Copy

pub mod ax {
    use super::*;
    /// derive(PartialEq) on `Serial([u8; 20])` is `self.0 == other.0` (rustc's derive expansion), and
    /// vstd specifies `==` on arrays as equality of the octets
    #[verifier::external_body]
    pub broadcast proof fn axiom_serial_eq_obeys()
        ensures #[trigger] <Serial as PartialEqSpec>::obeys_eq_spec() {}
    #[verifier::external_body]
    pub broadcast proof fn axiom_serial_eq(a: Serial, b: Serial) ensures #[trigger] a.eq_spec(&b) == (a.0@ == b.0@) {}
}
broadcast use {ax::axiom_serial_eq_obeys, ax::axiom_serial_eq};

// ================================================================================================
// lemmas
// ================================================================================================
pub mod lem {
    use super::*;

    pub proof fn lemma_pow256_pos(k: nat) ensures pow256(k) > 0 decreases k {
        if k > 0 { lemma_pow256_pos((k - 1) as nat); }
    }
    pub proof fn lemma_pow10_pos(k: nat) ensures pow10(k) > 0 decreases k {
        if k > 0 { lemma_pow10_pos((k - 1) as nat); }
    }
    /// the constants of the statement: limit() is 2^159, and 2^160 = 256^20 < 10^49
    pub proof fn lemma_constants()
        ensures
            limit() == 0x8000_0000_0000_0000_0000_0000_0000_0000_0000_0000nat,
            limit() == vstd::arithmetic::power2::pow2(159),
            pow256(20) == 2 * limit(),
            pow256(20) < pow10(49),
    {
        assert(128 * pow256(19) == 0x8000_0000_0000_0000_0000_0000_0000_0000_0000_0000nat) by (compute);
        vstd::arithmetic::power2::lemma2_to64();
        vstd::arithmetic::power2::lemma2_to64_rest();
        vstd::arithmetic::power2::lemma_pow2_adds(64, 64);
        vstd::arithmetic::power2::lemma_pow2_adds(128, 31);
        assert(0x1_0000_0000_0000_0000nat * 0x1_0000_0000_0000_0000nat * 0x8000_0000nat
            == 0x8000_0000_0000_0000_0000_0000_0000_0000_0000_0000nat) by (compute);
        assert(pow256(20) == 0x1_0000_0000_0000_0000_0000_0000_0000_0000_0000_0000nat) by (compute);
        assert(pow10(49) == 10_000_000_000_000_000_000_000_000_000_000_000_000_000_000_000_000nat) by (compute);
    }

    /// low(s, i) only depends on s[i..20]
    pub proof fn lemma_low_frame(a: Seq<u8>, b: Seq<u8>, i: int)
        requires 0 <= i <= 20, forall|j: int| i <= j < 20 ==> a[j] == b[j],
        ensures low(a, i) == low(b, i),
        decreases 20 - i,
    {
        if i < 20 { lemma_low_frame(a, b, i + 1); }
    }
    /// hi(s, n) only depends on s[0..n]
    pub proof fn lemma_hi_frame(a: Seq<u8>, b: Seq<u8>, n: int)
        requires 0 <= n <= 20, forall|j: int| 0 <= j < n ==> a[j] == b[j],
        ensures hi(a, n) == hi(b, n),
        decreases n,
    {
        if n > 0 { lemma_hi_frame(a, b, n - 1); }
    }
    pub proof fn lemma_low_bound(a: Seq<u8>, i: int)
        requires 0 <= i <= 20,
        ensures low(a, i) < pow256((20 - i) as nat),
        decreases 20 - i,
    {
        if i < 20 {
            lemma_low_bound(a, i + 1);
            let p = pow256((19 - i) as nat);
            let x = a[i] as nat;
            assert(pow256((20 - i) as nat) == 256 * p);
            assert(x * p + p <= 256 * p) by (nonlinear_arith) requires x <= 255;
        }
    }
    /// hi(s, n) * 256^(20-n) + low(s, n) is the whole number
    pub proof fn lemma_split(s: Seq<u8>, n: int)
        requires 0 <= n <= 20,
        ensures hi(s, n) * pow256((20 - n) as nat) + low(s, n) == low(s, 0),
        decreases n,
    {
        if n > 0 {
            lemma_split(s, n - 1);
            let p = pow256((20 - n) as nat);
            let h = hi(s, n - 1);
            let x = s[n - 1] as nat;
            assert(pow256((21 - n) as nat) == 256 * p);
            assert(h * (256 * p) + low(s, n - 1) == low(s, 0));
            assert(low(s, n - 1) == x * p + low(s, n));
            assert(hi(s, n) == h * 256 + x);
            assert((h * 256 + x) * p == h * (256 * p) + x * p) by (nonlinear_arith);
        } else {
            assert(hi(s, 0) == 0);
            assert(0 * pow256(20) == 0);
        }
    }
    pub proof fn lemma_hi_val(s: Seq<u8>) ensures hi(s, 20) == low(s, 0) {
        lemma_split(s, 20);
        assert(pow256(0) == 1);
        assert(low(s, 20) == 0);
        assert(hi(s, 20) * pow256(0) == hi(s, 20)) by (nonlinear_arith) requires pow256(0) == 1;
    }
    /// the top bit decides which side of 2^159 a number lies on
    pub proof fn lemma_top(s: Seq<u8>)
        ensures low(s, 0) < limit() <==> s[0] < 128, low(s, 0) < pow256(20),
    {
        lemma_low_bound(s, 1);
        lemma_low_bound(s, 0);
        let p = pow256(19);
        let x = s[0] as nat;
        assert(low(s, 0) == x * p + low(s, 1));
        assert(x < 128 ==> x * p + p <= 128 * p) by (nonlinear_arith);
        assert(x >= 128 ==> x * p >= 128 * p) by (nonlinear_arith);
    }
    pub proof fn lemma_zero(s: Seq<u8>, i: int)
        requires 0 <= i <= 20, s.len() == 20,
        ensures low(s, i) == 0 <==> forall|j: int| i <= j < 20 ==> s[j] == 0,
        decreases 20 - i,
    {
        if i < 20 {
            lemma_zero(s, i + 1);
            lemma_pow256_pos((19 - i) as nat);
            let p = pow256((19 - i) as nat);
            let x = s[i] as nat;
            assert(x > 0 ==> x * p > 0) by (nonlinear_arith) requires p > 0;
            assert(x == 0 ==> x * p == 0) by (nonlinear_arith);
        }
    }
    pub proof fn lemma_is_zero(s: [u8; 20])
        ensures val(s) == 0 <==> all_zero(s@),
    {
        lemma_zero(s@, 0);
    }

    /// one limb of the schoolbook loops of checked_mul_u8 / checked_add_u8:
    /// limb i receives (a + carry) mod 256 and the carry becomes (a + carry) div 256
    pub proof fn lemma_carry_step(cur: Seq<u8>, new: Seq<u8>, i: int, a: nat, ov: nat, x: nat)
        requires
            0 <= i < 20,
            low(cur, i + 1) + ov * pow256((19 - i) as nat) == x,
            new[i] as nat == (a + ov) % 256,
            forall|j: int| i < j < 20 ==> new[j] == cur[j],
        ensures
            low(new, i) + ((a + ov) / 256) * pow256((20 - i) as nat) == a * pow256((19 - i) as nat) + x,
    {
        lemma_low_frame(cur, new, i + 1);
        let p = pow256((19 - i) as nat);
        let st = a + ov;
        assert(pow256((20 - i) as nat) == 256 * p);
        assert(low(new, i) == new[i] as nat * p + low(new, i + 1));
        assert((st % 256) * p + (st / 256) * (256 * p) == a * p + ov * p) by (nonlinear_arith)
            requires st == a + ov;
    }
    pub proof fn lemma_mul_limb(s: Seq<u8>, i: int, rhs: nat)
        requires 0 <= i < 20,
        ensures (s[i] as nat * rhs) * pow256((19 - i) as nat) + low(s, i + 1) * rhs == low(s, i) * rhs,
    {
        let p = pow256((19 - i) as nat);
        let x = s[i] as nat;
        let l = low(s, i + 1);
        assert(low(s, i) == x * p + l);
        assert((x * rhs) * p + l * rhs == (x * p + l) * rhs) by (nonlinear_arith);
    }
    /// after the last limb: the result is `Some` exactly when the exact result is below 2^159
    pub proof fn lemma_carry_final(new: Seq<u8>, ov: nat, x: nat)
        requires low(new, 0) + ov * pow256(20) == x,
        ensures (ov == 0 && new[0] < 128) <==> x < limit(), ov == 0 ==> low(new, 0) == x,
    {
        lemma_top(new);
        lemma_constants();
        assert(ov >= 1 ==> ov * pow256(20) >= pow256(20)) by (nonlinear_arith);
    }

    /// one limb of the long division of div_assign_u8
    pub proof fn lemma_div_step(old_s: Seq<u8>, cur: Seq<u8>, new: Seq<u8>, i: int, rhs: nat, step: nat)
        requires
            0 <= i < 20, rhs > 0, step < rhs,
            hi(cur, i) * rhs + step == hi(old_s, i),
            forall|j: int| 0 <= j < i ==> new[j] == cur[j],
            new[i] as nat == (step * 256 + old_s[i] as nat) / rhs,
        ensures
            hi(new, i + 1) * rhs + (step * 256 + old_s[i] as nat) % rhs == hi(old_s, i + 1),
    {
        lemma_hi_frame(cur, new, i);
        let t = step * 256 + old_s[i] as nat;
        let h = hi(cur, i);
        assert(hi(new, i + 1) == h * 256 + t / rhs);
        assert(hi(old_s, i + 1) == hi(old_s, i) * 256 + old_s[i] as nat);
        assert(t == (t / rhs) * rhs + t % rhs) by (nonlinear_arith) requires rhs > 0;
        assert((h * 256 + t / rhs) * rhs == (h * rhs) * 256 + (t / rhs) * rhs) by (nonlinear_arith);
    }
    /// the quotient digit fits an octet and the intermediate fits 16 bits
    pub proof fn lemma_div_digit(step: nat, b: nat, rhs: nat)
        requires 0 < rhs <= 255, step < rhs, b <= 255,
        ensures step * 256 + b <= 65279, (step * 256 + b) / rhs <= 255, (step * 256 + b) % rhs < rhs,
    {
        let t = step * 256 + b;
        assert(t < rhs * 256) by (nonlinear_arith) requires step + 1 <= rhs, b <= 255, t == step * 256 + b;
        assert(t / rhs < 256) by (nonlinear_arith) requires t < rhs * 256, rhs > 0;
        assert(t % rhs < rhs) by (nonlinear_arith) requires rhs > 0;
    }
    pub proof fn lemma_bits(step: u16)
        ensures
            (step as u8) as int == step as int % 256,
            (step >> 8) as int == step as int / 256,
            step < 256 ==> (step << 8u32) as int == step as int * 256,
    {
        assert((step as u8) as u16 == step % 256) by (bit_vector);
        assert(step >> 8 == step / 256) by (bit_vector);
        assert(step < 256 ==> (step << 8u32) == step * 256) by (bit_vector);
    }
    pub proof fn lemma_topbit(b: u8) ensures (b & 0x80 == 0) <==> b < 128 {
        assert((b & 0x80 == 0) <==> b < 128) by (bit_vector);
    }

    // ---- decimal ------------------------------------------------------------------------------
    /// a digit put in front of a digit string
    pub proof fn lemma_dec_prepend(c: u8, d: Seq<u8>)
        requires is_digit(c),
        ensures dec_val(seq![c] + d) == (c as int - 0x30) as nat * pow10(d.len()) + dec_val(d),
        decreases d.len(),
    {
        let e = seq![c] + d;
        if d.len() == 0 {
            assert(e.drop_last() =~= Seq::<u8>::empty());
            assert(dec_val(e.drop_last()) == 0);
            assert(e.last() == c);
            assert(pow10(0) == 1);
            assert(dec_val(d) == 0);
            assert(dec_val(e) == 0 * 10 + (c as int - 0x30) as nat);
            let k = (c as int - 0x30) as nat;
            assert(k * pow10(0) == k) by (nonlinear_arith) requires pow10(0) == 1;
        } else {
            lemma_dec_prepend(c, d.drop_last());
            assert(e.drop_last() =~= seq![c] + d.drop_last());
            assert(e.last() == d.last());
            let k = (c as int - 0x30) as nat;
            let p = pow10((d.len() - 1) as nat);
            assert(pow10(d.len()) == 10 * p);
            assert(dec_val(e) == dec_val(e.drop_last()) * 10 + (e.last() as int - 0x30) as nat);
            assert(dec_val(d) == dec_val(d.drop_last()) * 10 + (d.last() as int - 0x30) as nat);
            assert(dec_val(e.drop_last()) == k * p + dec_val(d.drop_last()));
            assert((k * p + dec_val(d.drop_last())) * 10 == k * (10 * p) + dec_val(d.drop_last()) * 10) by (nonlinear_arith);
        }
    }
    /// a digit string without leading zero is not zero
    pub proof fn lemma_dec_nonzero(d: Seq<u8>)
        requires all_digits(d), d.len() > 0, d[0] != 0x30,
        ensures dec_val(d) > 0,
    {
        let c = d[0];
        let e = d.drop_first();
        assert(is_digit(c));
        assert(d =~= seq![c] + e);
        lemma_dec_prepend(c, e);
        lemma_pow10_pos(e.len());
        let k = (c as int - 0x30) as nat;
        assert(k * pow10(e.len()) > 0) by (nonlinear_arith) requires k >= 1, pow10(e.len()) > 0;
    }
    /// one iteration of encode_dec: the digit of v mod 10 goes in front, v div 10 remains
    pub proof fn lemma_encode_step(d: Seq<u8>, new: Seq<u8>, v: nat, q: nat, rm: nat, total: nat)
        requires
            all_digits(d),
            dec_val(d) + v * pow10(d.len()) == total,
            q * 10 + rm == v, rm < 10,
            new == seq![(rm + 0x30) as u8] + d,
        ensures
            all_digits(new),
            dec_val(new) + q * pow10(new.len()) == total,
    {
        let c = (rm + 0x30) as u8;
        lemma_dec_prepend(c, d);
        let p = pow10(d.len());
        assert(pow10(new.len()) == 10 * p);
        assert(rm * p + q * (10 * p) == (q * 10 + rm) * p) by (nonlinear_arith);
        assert forall|i: int| 0 <= i < new.len() implies is_digit(#[trigger] new[i]) by {
            if i > 0 { assert(new[i] == d[i - 1]); }
        }
    }
    /// 49 digits suffice: a remaining non-zero quotient leaves room for one more digit
    pub proof fn lemma_encode_room(t: Seq<u8>, len: int, v: nat, total: nat)
        requires enc_inv(t, len, v, total), total < pow256(20), v >= 1,
        ensures len >= 1,
    {
        lemma_constants();
        if len == 0 {
            assert(v * pow10(49) >= pow10(49)) by (nonlinear_arith) requires v >= 1;
        }
    }
    /// one iteration of encode_dec, on the buffer
    pub proof fn lemma_encode_next(t: Seq<u8>, t2: Seq<u8>, len: int, v: nat, q: nat, total: nat)
        requires
            enc_inv(t, len, v, total), len >= 1, v >= 1, t2.len() == 49,
            q * 10 <= v < q * 10 + 10,
            t2[len - 1] == (v - q * 10 + 0x30) as u8,
            forall|j: int| len <= j < 49 ==> t2[j] == t[j],
        ensures enc_inv(t2, len - 1, q, total),
    {
        let rm = (v - q * 10) as nat;
        let d = t.subrange(len, 49);
        let d2 = t2.subrange(len - 1, 49);
        assert(d2 =~= seq![(rm + 0x30) as u8] + d);
        lemma_encode_step(d, d2, v, q, rm, total);
        // no leading zero: the last digit written belongs to a non-zero v < 10
        assert(q == 0 ==> t2[len - 1] != 0x30);
    }
    /// at the end of encode_dec nothing remains: the suffix is the canonical text
    pub proof fn lemma_encode_done(t: Seq<u8>, len: int, total: nat)
        requires enc_inv(t, len, 0, total),
        ensures canonical_dec(t.subrange(len, 49), total), len == 49 <==> total == 0,
    {
        let d = t.subrange(len, 49);
        assert(0 * pow10((49 - len) as nat) == 0);
        if len < 49 {
            assert(d[0] == t[len]);
            lemma_dec_nonzero(d);
        } else {
            assert(d =~= Seq::<u8>::empty());
        }
    }
    /// ASCII digits are valid UTF-8
    pub proof fn lemma_digits_utf8(b: Seq<u8>)
        requires all_digits(b),
        ensures vstd::utf8::valid_utf8(b),
    {
        assert forall|i: int| 0 <= i < b.len() implies vstd::utf8::is_leading_byte_width_1(#[trigger] b[i]) by {
            assert(is_digit(b[i]));
        }
        assert(b.subrange(0, 0) =~= Seq::<u8>::empty());
        assert(vstd::utf8::valid_utf8(Seq::<u8>::empty()));
        assert(vstd::utf8::partial_valid_utf8(b, 0));
        vstd::utf8::partial_valid_utf8_extend_ascii_block(b, 0, b.len() as int);
        assert(b.subrange(0, b.len() as int) =~= b);
    }

    /// the characters of a text whose octets are ASCII digits are those octets
    pub proof fn lemma_digits_chars(s: &str)
        requires all_digits(s.spec_bytes()),
        ensures s@ == as_chars(s.spec_bytes()),
    {
        let b = s.spec_bytes();
        let c = as_chars(b);
        assert(b == vstd::utf8::encode_utf8(s@));
        assert(vstd::utf8::is_ascii_chars(c)) by {
            assert forall|i: int| 0 <= i < c.len() implies (#[trigger] c[i] as u32) < 128 by { assert(is_digit(b[i])); }
        }
        vstd::utf8::is_ascii_chars_encode_utf8(c);
        assert(vstd::utf8::encode_utf8(c) =~= b) by {
            assert forall|i: int| 0 <= i < b.len() implies vstd::utf8::encode_utf8(c)[i] == #[trigger] b[i] by {
                assert(is_digit(b[i]));
                assert(c[i] as u8 == b[i]);
            }
        }
        vstd::utf8::encode_utf8_decode_utf8(c);
        vstd::utf8::encode_utf8_decode_utf8(s@);
    }

    // ---- parsing ------------------------------------------------------------------------------
    pub proof fn lemma_dec_c_take(s: Seq<char>, k: int)
        requires 0 <= k < s.len(),
        ensures
            dec_val_c(s.take(k + 1)) == dec_val_c(s.take(k)) * 10 + (s[k] as int - 0x30) as nat,
    {
        assert(s.take(k + 1).drop_last() =~= s.take(k));
        assert(s.take(k + 1).last() == s[k]);
    }
    /// a prefix of a digit string has a value that is not larger
    pub proof fn lemma_dec_c_mono(s: Seq<char>, k: int)
        requires 0 <= k <= s.len(),
        ensures dec_val_c(s.take(k)) <= dec_val_c(s),
        decreases s.len() - k,
    {
        if k < s.len() {
            lemma_dec_c_take(s, k);
            lemma_dec_c_mono(s, k + 1);
        } else {
            assert(s.take(k) =~= s);
        }
    }
    /// characters and octets of an ASCII digit string have the same value
    pub proof fn lemma_dec_chars(d: Seq<u8>)
        requires all_digits(d),
        ensures all_digits_c(as_chars(d)), dec_val_c(as_chars(d)) == dec_val(d),
        decreases d.len(),
    {
        let s = as_chars(d);
        assert forall|i: int| 0 <= i < s.len() implies is_digit_c(#[trigger] s[i]) by { assert(is_digit(d[i])); }
        if d.len() > 0 {
            assert forall|i: int| 0 <= i < d.drop_last().len() implies is_digit(#[trigger] d.drop_last()[i]) by {
                assert(d.drop_last()[i] == d[i]);
            }
            lemma_dec_chars(d.drop_last());
            assert(s.drop_last() =~= as_chars(d.drop_last()));
            assert(is_digit(d[d.len() - 1]));
            assert(s.last() as int == d.last() as int);
        }
    }
}

// ================================================================================================
// the unit
// ================================================================================================
impl SerialSliceError {
    //@fn src/repository/x509.rs :: impl SerialSliceError :: long
    //@end
}

impl Serial {
    //@fn src/repository/x509.rs :: impl Default for Serial :: default as=default
    //@spec
        ensures all_zero(r.0@), val(r.0) == 0,
    //@/spec
    //@ghost begin
        proof { assert forall|s: [u8; 20]| all_zero(s@) implies #[trigger] val(s) == 0 by { lem::lemma_is_zero(s); } }
    //@/ghost
    //@end

    //@fn src/repository/x509.rs :: impl Serial :: from_array
    //@spec
        ensures
            r is Ok <==> val(array) < limit(),
            r is Ok ==> (r->Ok_0).0 == array,
    //@/spec
    //@ghost begin
        proof { lem::lemma_top(array@); lem::lemma_topbit(array[0]); }
    //@/ghost
    //@end

    //@fn src/repository/x509.rs :: impl Serial :: into_array
    //@spec
        ensures r == self.0,
    //@/spec
    //@end

    //@fn src/repository/x509.rs :: impl Serial :: is_zero
    //@spec
        ensures r <==> val(self.0) == 0,
    //@/spec
    //@ghost begin
        proof {
            lem::lemma_is_zero(self.0);
            assert forall|d: Serial| all_zero(self.0@) && #[trigger] all_zero(d.0@) implies self.0@ == d.0@ by {
                assert(self.0@ =~= d.0@);
            }
        }
    //@/ghost
    //@end

    // `mut self` (a by-value receiver bound mutably) is not supported by Verus.  R12: the body is emitted with the
    // receiver `&mut self` (the place `*self` plays the role of the local mutable copy; the only non-place use,
    // `Some(self)`, becomes `Some(*self)`), and the by-value method is the three-line glue below that makes the copy.
    //@fn src/repository/x509.rs :: impl Serial :: checked_mul_u8 as=checked_mul_u8_mutself loopiso
    //@sigsub R12 "mut self" "&mut self"
    //@sub R12 "Some(self)" "Some(*self)" n=all
    //@spec
        ensures
            r is Some <==> val(old(self).0) * rhs < limit(),
            r is Some ==> val((r->0).0) == val(old(self).0) * rhs,
    //@/spec
    //@loop "for i in (0.." iter=it
            invariant
                it.seq().len() == 20,
                forall|j: int| 0 <= j < 20 ==> it.seq()[j] == 19 - j,
                overflow <= 255,
                forall|j: int| 0 <= j < 20 - it.index@ ==> self.0[j] == old(self).0[j],
                low(self.0@, 20 - it.index@) + overflow as nat * pow256(it.index@ as nat)
                    == low(old(self).0@, 20 - it.index@) * rhs as nat,
    //@/loop
    //@ghost before "for i in (0.."
        proof { assert(pow256(0) == 1); assert(low(self.0@, 20) == 0); assert(0 * rhs as nat == 0); }
    //@/ghost
    //@ghost before "let step ="
            proof {
                // the whole step is reasoned about here, on the values the three statements below will compute
                let cur = self.0@;
                let ov = overflow as nat;
                let s0 = old(self).0@;
                assert(i == 19 - it.index@);
                let a = s0[i as int] as nat * rhs as nat;
                assert(a + ov <= 255 * 255 + 255) by (nonlinear_arith)
                    requires a == s0[i as int] as nat * rhs as nat, s0[i as int] <= 255, rhs <= 255, ov <= 255;
                let st = (a + ov) as u16;
                lem::lemma_bits(st);
                let nxt = cur.update(i as int, st as u8);
                lem::lemma_carry_step(cur, nxt, i as int, a, ov, low(s0, i + 1) * rhs as nat);
                lem::lemma_mul_limb(s0, i as int, rhs as nat);
            }
    //@/ghost
    //@ghost before "if overflow == 0"
        proof {
            lem::lemma_carry_final(self.0@, overflow as nat, val(old(self).0) * rhs as nat);
            lem::lemma_topbit(self.0[0]);
        }
    //@/ghost
    //@end
    /// R12 glue for `fn checked_mul_u8(mut self, rhs: u8) -> Option<Self>`: the by-value receiver is copied into a
    /// mutable local and the extracted body runs on that copy.  The contract is the one of the property statement.
    fn checked_mul_u8(self, rhs: u8) -> (r: Option<Self>)
        ensures
            r is Some <==> val(self.0) * rhs < limit(),
            r is Some ==> val((r->0).0) == val(self.0) * rhs,
    {
        let mut this = self;
        this.checked_mul_u8_mutself(rhs)
    }

    //@fn src/repository/x509.rs :: impl Serial :: checked_add_u8 as=checked_add_u8_mutself loopiso
    //@sigsub R12 "mut self" "&mut self"
    //@sub R12 "Some(self)" "Some(*self)" n=all
    //@spec
        ensures
            r is Some <==> val(old(self).0) + rhs < limit(),
            r is Some ==> val((r->0).0) == val(old(self).0) + rhs,
    //@/spec
    //@loop "for i in (0.." iter=it
            invariant
                it.seq().len() == 20,
                forall|j: int| 0 <= j < 20 ==> it.seq()[j] == 19 - j,
                overflow <= 255,
                forall|j: int| 0 <= j < 20 - it.index@ ==> self.0[j] == old(self).0[j],
                low(self.0@, 20 - it.index@) + overflow as nat * pow256(it.index@ as nat)
                    == low(old(self).0@, 20 - it.index@) + rhs as nat,
    //@/loop
    //@ghost before "for i in (0.."
        proof {
            assert(pow256(0) == 1); assert(low(self.0@, 20) == 0);
            assert(overflow as nat * pow256(0) == overflow as nat) by (nonlinear_arith) requires pow256(0) == 1;
        }
    //@/ghost
    //@ghost before "let step ="
            proof {
                let cur = self.0@;
                let ov = overflow as nat;
                let s0 = old(self).0@;
                assert(i == 19 - it.index@);
                let a = s0[i as int] as nat;
                let st = (a + ov) as u16;
                lem::lemma_bits(st);
                let nxt = cur.update(i as int, st as u8);
                lem::lemma_carry_step(cur, nxt, i as int, a, ov, low(s0, i + 1) + rhs as nat);
            }
    //@/ghost
    //@ghost before "if overflow == 0"
        proof {
            lem::lemma_carry_final(self.0@, overflow as nat, val(old(self).0) + rhs as nat);
            lem::lemma_topbit(self.0[0]);
        }
    //@/ghost
    //@end
    /// R12 glue for `fn checked_add_u8(mut self, rhs: u8) -> Option<Self>` (see checked_mul_u8)
    fn checked_add_u8(self, rhs: u8) -> (r: Option<Self>)
        ensures
            r is Some <==> val(self.0) + rhs < limit(),
            r is Some ==> val((r->0).0) == val(self.0) + rhs,
    {
        let mut this = self;
        this.checked_add_u8_mutself(rhs)
    }

    //@fn src/repository/x509.rs :: impl Serial :: div_assign_u8 loopiso
    //@spec
        requires rhs != 0,
        ensures
            val(final(self).0) * rhs + r == val(old(self).0),
            r < rhs,
    //@/spec
    //@loop "for i in 0.." iter=it
            invariant
                0 < rhs <= 255,
                step < rhs,
                forall|j: int| i <= j < 20 ==> self.0[j] == old(self).0[j],
                hi(self.0@, i as int) * rhs as nat + step as nat == hi(old(self).0@, i as int),
    //@/loop
    //@ghost before "for i in 0.."
        proof { assert(hi(self.0@, 0) == 0); assert(0 * rhs as nat == 0); }
    //@/ghost
    //@ghost before "step = step.overflowing_shl"
            proof {
                let cur = self.0@;
                let st = step as nat;
                lem::lemma_bits(step);
                lem::lemma_div_digit(st, cur[i as int] as nat, rhs as nat);
                let t = st * 256 + cur[i as int] as nat;
                let nxt = cur.update(i as int, (t / rhs as nat) as u8);
                lem::lemma_div_step(old(self).0@, cur, nxt, i as int, rhs as nat, st);
            }
    //@/ghost
    //@ghost before "step as u8"
        proof {
            lem::lemma_hi_val(self.0@);
            lem::lemma_hi_val(old(self).0@);
        }
    //@/ghost
    //@end

    //@fn src/repository/x509.rs :: impl Serial :: encode_dec loopiso
    //@sigsub R12 "mut self" "self"
    //@sub R12 "self" "this" n=2
    //@sub R12 "let mut len = 49;" "let mut this = self; let mut len = 49;"
    //@spec
        ensures
            // the text is the canonical decimal representation of the number (the empty text for zero)
            canonical_dec(r.spec_bytes(), val(self.0)),
            r.spec_bytes().len() <= 49,
            r.spec_bytes().len() == 0 <==> val(self.0) == 0,
            // it is what was written to the tail of the buffer
            r.spec_bytes() == final(target)@.subrange(49 - r.spec_bytes().len(), 49),
            // as a `str`: its characters are those digits (this includes the `from_utf8_unchecked` safety condition)
            r@ == as_chars(r.spec_bytes()),
    //@/spec
    //@loop "while !this.is_zero()"
            invariant
                len <= 49,
                enc_inv(target@, len as int, val(this.0), val(self.0)),
            decreases val(this.0),
    //@/loop
    //@ghost before "while !this.is_zero()"
        proof {
            assert(pow10(0) == 1);
            assert(val(this.0) * pow10(0) == val(this.0)) by (nonlinear_arith) requires pow10(0) == 1;
            assert(target@.subrange(49, 49) =~= Seq::<u8>::empty());
            assert(dec_val(Seq::<u8>::empty()) == 0);
        }
    //@/ghost
    //@ghost after "while !this.is_zero() {"
            proof {
                // the whole iteration is reasoned about here: whatever quotient q and digit the two statements
                // below produce, the state they leave satisfies the invariant
                let t0 = target@;
                let l0 = len as int;
                let v = val(this.0);
                let total = val(self.0);
                lem::lemma_top(self.0@);
                lem::lemma_encode_room(t0, l0, v, total);
                assert forall|t2: Seq<u8>, l2: int, q: nat|
                    l2 == l0 - 1 && t2.len() == 49 && q * 10 <= v < q * 10 + 10
                    && t2[l2] == (v - q * 10 + 0x30) as u8 && (forall|j: int| l0 <= j < 49 ==> t2[j] == t0[j])
                    implies #[trigger] enc_inv(t2, l2, q, total) by {
                    lem::lemma_encode_next(t0, t2, l0, v, q, total);
                }
            }
    //@/ghost
    //@ghost before "unsafe {"
        proof {
            lem::lemma_encode_done(target@, len as int, val(self.0));
            lem::lemma_digits_utf8(target@.subrange(len as int, 49));
            assert forall|s: &str| all_digits(s.spec_bytes()) implies #[trigger] s@ == as_chars(s.spec_bytes()) by {
                lem::lemma_digits_chars(s);
            }
        }
    //@/ghost
    //@end

    //@fn src/repository/x509.rs :: impl FromStr for Serial :: from_str as=from_str_impl loopiso
    //@sigsub R3 "Self::Err" "RepresentationError"
    //@spec
        ensures
            r is Ok <==> all_digits_c(value@) && dec_val_c(value@) < limit(),
            r is Ok ==> val((r->Ok_0).0) == dec_val_c(value@),
    //@/spec
    //@loop "for ch in value.chars()" iter=it
            invariant
                it.seq() == value@,
                all_digits_c(value@.take(it.index@ as int)),
                val(res.0) == dec_val_c(value@.take(it.index@ as int)),
                val(res.0) < limit(),
    //@/loop
    //@ghost before "for ch in value.chars()"
        proof {
            assert(value@.take(value@.len() as int) =~= value@);
            lem::lemma_pow256_pos(19);
            assert(value@.take(0) =~= Seq::<char>::empty());
            assert(dec_val_c(Seq::<char>::empty()) == 0);
        }
    //@/ghost
    //@ghost after "for ch in value.chars() {"
            proof {
                let k = it.index@ as int;
                assert(ch == value@[k]);
                lem::lemma_dec_c_take(value@, k);
                lem::lemma_dec_c_mono(value@, k + 1);
                assert forall|i: int| 0 <= i < k + 1 && is_digit_c(ch) implies is_digit_c(#[trigger] value@.take(k + 1)[i]) by {
                    if i < k { assert(value@.take(k + 1)[i] == value@.take(k)[i]); }
                }
            }
    //@/ghost
    //@end
}

// ================================================================================================
// consequences, in the words of the statement
// ================================================================================================
/// decimal round trip (spec level): `text` is any `str` satisfying the postcondition of `encode_dec` for the
/// serial `s`, `parsed` anything satisfying the postcondition of `from_str` on that text.  Then the text is
/// accepted and the number read back is the number written.  (Every `Serial` built by from_array / from_str /
/// checked_* / Default has val < limit(); that is the type's invariant "top bit clear".)
pub proof fn lemma_dec_round_trip(s: [u8; 20], text: &str, parsed: Result<Serial, RepresentationError>)
    requires
        val(s) < limit(),
        // encode_dec's contract
        canonical_dec(text.spec_bytes(), val(s)),
        text@ == as_chars(text.spec_bytes()),
        // from_str's contract
        parsed is Ok <==> all_digits_c(text@) && dec_val_c(text@) < limit(),
        parsed is Ok ==> val((parsed->Ok_0).0) == dec_val_c(text@),
    ensures
        parsed is Ok,
        val((parsed->Ok_0).0) == val(s),
        (parsed->Ok_0).0 == s,
{
    lem::lemma_dec_chars(text.spec_bytes());
    lemma_val_injective((parsed->Ok_0).0, s);
}
/// the same round trip through the executable contracts: encode, parse, compare
fn reach_round_trip(s: Serial) -> (r: bool)
    requires val(s.0) < limit(),
    ensures r,
{
    let mut target = [0u8; 49];
    let text = s.encode_dec(&mut target);
    proof { lem::lemma_dec_chars(text.spec_bytes()); }
    match Serial::from_str_impl(text) {
        Ok(back) => {
            proof { lemma_val_injective(back.0, s.0); }
            back.0 == s.0
        }
        Err(_) => false,
    }
}

/// numeric order is the lexicographic order of the 20 octets (what derive(Ord) on `Serial([u8; 20])` compares):
/// the first differing octet decides
pub proof fn lemma_order_lex(a: [u8; 20], b: [u8; 20], k: int)
    requires 0 <= k < 20, forall|j: int| 0 <= j < k ==> a[j] == b[j], a[k] < b[k],
    ensures val(a) < val(b),
{
    lem::lemma_split(a@, k);
    lem::lemma_split(b@, k);
    lem::lemma_hi_frame(a@, b@, k);
    lem::lemma_low_bound(a@, k + 1);
    let p = pow256((19 - k) as nat);
    let x = a[k] as nat;
    let y = b[k] as nat;
    assert(low(a@, k) == x * p + low(a@, k + 1));
    assert(low(b@, k) == y * p + low(b@, k + 1));
    assert(x * p + p <= y * p) by (nonlinear_arith) requires x + 1 <= y;
}

/// val is injective on 20-octet arrays: equal numbers are equal serials
pub proof fn lemma_val_injective(a: [u8; 20], b: [u8; 20])
    requires val(a) == val(b),
    ensures a == b,
{
    lemma_val_inj_from(a@, b@, 0);
    assert(a@ =~= b@);
}
proof fn lemma_val_inj_from(a: Seq<u8>, b: Seq<u8>, i: int)
    requires 0 <= i <= 20, a.len() == 20, b.len() == 20, low(a, i) == low(b, i),
    ensures forall|j: int| i <= j < 20 ==> a[j] == b[j],
    decreases 20 - i,
{
    if i < 20 {
        lem::lemma_low_bound(a, i + 1);
        lem::lemma_low_bound(b, i + 1);
        let p = pow256((19 - i) as nat);
        let x = a[i] as nat;
        let y = b[i] as nat;
        assert(x * p + low(a, i + 1) == y * p + low(b, i + 1));
        assert(x == y) by (nonlinear_arith)
            requires x * p + low(a, i + 1) == y * p + low(b, i + 1), low(a, i + 1) < p, low(b, i + 1) < p;
        lemma_val_inj_from(a, b, i + 1);
    }
}

proof fn reach_serial() {
    // witnesses at the level of octet strings: zero, and the text "1"
    let z = Seq::new(20, |i: int| 0u8);
    lem::lemma_zero(z, 0);
    lem::lemma_constants();
    assert(low(z, 0) == 0 && low(z, 0) * 10 < limit());
    let t: Seq<u8> = seq![0x31u8];
    assert(t.drop_last() =~= Seq::<u8>::empty());
    assert(dec_val(t.drop_last()) == 0);
    assert(dec_val(t) == 1);
    assert(canonical_dec(t, 1));
}
/// the contracts compose on concrete serials: 0, 0 * 10 + 7 = 7, 7 div 10 = 0 rem 7
fn reach_exec() {
    let z = Serial::default();
    proof { lem::lemma_constants(); }
    let m = z.checked_mul_u8(10);
    assert(m is Some);
    let a = m.unwrap().checked_add_u8(7);
    assert(a is Some);
    let mut s = a.unwrap();
    assert(val(s.0) == 7);
    let r = s.div_assign_u8(10);
    assert(r == 7 && val(s.0) == 0);
    let zz = s.is_zero();
    assert(zz);
}

} // verus!
fn main() {}
