// Unit mft_name (C14): FileAndHash::validate_file_name (src/repository/manifest.rs).
// Verus proves the unbounded part (any stem length): acceptance implies the RFC 9286 shape
// up to the alphabetic test of the 3-byte extension, and every shape violation is rejected.
// The extension test goes through `slice::Iter::all(closure)`, whose vstd specification says
// nothing about the result; that clause is decided by Kani (unit mft_name.k) on the compiled code.
use vstd::prelude::*;

verus! {

pub open spec fn is_alpha(c: u8) -> bool { (0x41 <= c <= 0x5a) || (0x61 <= c <= 0x7a) }
pub open spec fn is_alnum(c: u8) -> bool { is_alpha(c) || (0x30 <= c <= 0x39) }
pub open spec fn stem_char(c: u8) -> bool { c == 0x2d || c == 0x5f || is_alnum(c) }

pub assume_specification [ u8::is_ascii_alphabetic ] (c: &u8) -> (r: bool) ensures r == is_alpha(*c);
pub assume_specification [ u8::is_ascii_alphanumeric ] (c: &u8) -> (r: bool) ensures r == is_alnum(*c);

/// shape of an RFC 9286 4.2.2 name except for the letters of the extension:
/// k >= 1 stem characters, a dot at k, exactly three more bytes
pub open spec fn shape(s: Seq<u8>, k: int) -> bool {
    1 <= k && s.len() == k + 4 && s[k] == 0x2e
    && forall|i: int| 0 <= i < k ==> stem_char(#[trigger] s[i])
}
/// the full predicate of the property statement
pub open spec fn valid_mft_name(s: Seq<u8>) -> bool {
    exists|k: int| shape(s, k) && is_alpha(s[k + 1]) && is_alpha(s[k + 2]) && is_alpha(s[k + 3])
}

pub struct FileAndHash;
impl FileAndHash {
    //@fn src/repository/manifest.rs :: impl FileAndHash<Bytes, Bytes> :: validate_file_name
    //@sub R1 "fn valid_rfc9286_character(c: u8) -> bool {" "fn valid_rfc9286_character(c: u8) -> (b: bool) ensures b == stem_char(c) {"
    //@spec
        ensures
            // acceptance implies the shape; equivalently, every violation of the shape is rejected
            r.is_ok() ==> exists|k: int| shape(name@, k),
    //@/spec
    //@loop "while let Some((c, tail)) = n.split_first()"
            invariant_except_break
                forall|i: int| 0 <= i < name@.len() - n@.len() ==> stem_char(#[trigger] name@[i]),
            invariant
                n@.len() <= name@.len(),
                n@ == name@.subrange(name@.len() - n@.len(), name@.len() as int),
                name@.len() >= 1 ==> name@[0] != 0x2e,
            ensures
                n@.len() == 0
                || (name@.len() - n@.len() >= 1 && name@[name@.len() - n@.len() - 1] == 0x2e
                    && forall|i: int| 0 <= i < name@.len() - n@.len() - 1 ==> stem_char(#[trigger] name@[i])),
            decreases n@.len(),
    //@/loop
    //@ghost before "if n.len() != 3"
        proof {
            // either a dot was found at k = len - |n| - 1 (all bytes before it are stem characters)
            // or the input was exhausted (n is empty, so the length test below rejects)
            if n@.len() == 3 {
                assert(name@[name@.len() - 4] == 0x2e);
                assert(name@.len() - 4 != 0);
                assert(shape(name@, name@.len() - 4));
            }
        }
    //@/ghost
    //@end
}

/// Consequences of the predicate that make `Rsync::join(name)` safe (spec level):
/// no '/', not "." or "..", non-empty, only URI-ASCII bytes.
proof fn lemma_valid_name_is_single_safe_segment(s: Seq<u8>)
    requires valid_mft_name(s),
    ensures
        s.len() >= 5,
        forall|i: int| 0 <= i < s.len() ==> s[i] != 0x2f,
        forall|i: int| 0 <= i < s.len() ==> 0x2d <= #[trigger] s[i] <= 0x7a,
        s[0] != 0x2e,
{
    let k = choose|k: int| shape(s, k) && is_alpha(s[k + 1]) && is_alpha(s[k + 2]) && is_alpha(s[k + 3]);
    assert forall|i: int| 0 <= i < s.len() implies s[i] != 0x2f && 0x2d <= #[trigger] s[i] <= 0x7a by {
        if i < k { assert(stem_char(s[i])); }
    }
    assert(stem_char(s[0]));
}

proof fn reach_valid() {
    let s: Seq<u8> = seq![0x61u8, 0x2e, 0x72, 0x6f, 0x61];
    assert(shape(s, 1));
    assert(valid_mft_name(s));
}

} // verus!
fn main() {}
