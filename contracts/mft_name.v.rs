// Unit mft_name (C14): FileAndHash::validate_file_name (src/repository/manifest.rs).
// Verus proves the full equivalence, unbounded (any stem length): the function returns Ok exactly
// for the names of RFC 9286 4.2.2 (valid_mft_name).  The extension test goes through
// `slice::Iter::all(closure)`; vstd specifies `all` over the prophetic `remaining()` sequence of the
// iterator, and `lemma_iter_seq` (extensionality) identifies that sequence with the bytes of `n`.
// Kani (unit mft_name.k) re-checks the same equivalence bounded on the compiled code.
use vstd::prelude::*;
use vstd::std_specs::iter::IteratorSpec;

verus! {

//@include shared/mft_vocab.v.rs
pub assume_specification [ u8::is_ascii_alphabetic ] (c: &u8) -> (r: bool) ensures r == is_alpha(*c);
pub assume_specification [ u8::is_ascii_alphanumeric ] (c: &u8) -> (r: bool) ensures r == is_alnum(*c);

/// the sequence of references a slice iterator over v yields
pub open spec fn refs<'a, T>(v: Seq<T>) -> Seq<&'a T> { v.map_values(|x: T| &x) }
/// every sequence of references that points element-wise at v *is* refs(v) (extensionality);
/// triggered by `s.len()`, so it identifies `n.iter().remaining()` of an unnamed temporary
pub proof fn lemma_iter_seq<'a, T>(v: Seq<T>)
    ensures forall|s: Seq<&'a T>| s.len() == v.len() && (forall|j: int| 0 <= j < s.len() ==> *(#[trigger] s[j]) == v[j])
                ==> #[trigger] s.len() == refs(v).len() && s == refs(v),
{
    assert forall|s: Seq<&'a T>| s.len() == v.len() && (forall|j: int| 0 <= j < s.len() ==> *(#[trigger] s[j]) == v[j])
        implies #[trigger] s.len() == refs(v).len() && s == refs(v) by { assert(s =~= refs(v)); }
}

/// what the stem loop establishes about `s` when it has consumed the first `p + 1` bytes and
/// stopped at a dot: the FIRST dot of s is at p (stem characters are not dots)
pub open spec fn first_dot_at(s: Seq<u8>, p: int) -> bool {
    0 <= p < s.len() && s[p] == 0x2e && forall|i: int| 0 <= i < p ==> stem_char(#[trigger] s[i])
}
/// no byte of the prefix of length m is a dot, all are stem characters
pub open spec fn stem_prefix(s: Seq<u8>, m: int) -> bool {
    forall|i: int| 0 <= i < m ==> stem_char(#[trigger] s[i])
}

/// a valid name has its (only possible) witness at the first dot
pub proof fn lemma_witness_is_first_dot(s: Seq<u8>, p: int)
    requires first_dot_at(s, p), valid_mft_name(s),
    ensures p >= 1, s.len() == p + 4, shape(s, p), is_alpha(s[p + 1]), is_alpha(s[p + 2]), is_alpha(s[p + 3]),
{
    let k = choose|k: int| shape(s, k) && is_alpha(s[k + 1]) && is_alpha(s[k + 2]) && is_alpha(s[k + 3]);
    if k < p { assert(stem_char(s[k])); }
    if p < k { assert(stem_char(s[p])); }
}
/// a name with a byte at m that is neither a dot nor a stem character after a dot-free stem prefix is invalid
pub proof fn lemma_bad_stem_byte(s: Seq<u8>, m: int)
    requires 0 <= m < s.len(), stem_prefix(s, m), !stem_char(s[m]), s[m] != 0x2e,
    ensures !valid_mft_name(s),
{
    if valid_mft_name(s) {
        let k = choose|k: int| shape(s, k) && is_alpha(s[k + 1]) && is_alpha(s[k + 2]) && is_alpha(s[k + 3]);
        if k < m { assert(stem_char(s[k])); }
        if m < k { assert(stem_char(s[m])); }
    }
}
/// a name without any dot is invalid
pub proof fn lemma_no_dot(s: Seq<u8>)
    requires stem_prefix(s, s.len() as int),
    ensures !valid_mft_name(s),
{
    if valid_mft_name(s) {
        let k = choose|k: int| shape(s, k) && is_alpha(s[k + 1]) && is_alpha(s[k + 2]) && is_alpha(s[k + 3]);
        assert(stem_char(s[k]));
    }
}

pub struct FileAndHash;
impl FileAndHash {
    //@fn src/repository/manifest.rs :: impl FileAndHash<Bytes, Bytes> :: validate_file_name
    //@sub R1 "fn valid_rfc9286_character(c: u8) -> bool {" "fn valid_rfc9286_character(c: u8) -> (b: bool) ensures b == stem_char(c) {"
    // closure contract for the brace-less closure of `all(..)`, written as two insertions around the unchanged
    // body text so that an edit of the body is checked against the contract instead of losing the anchor
    //@sub R2 ".all(|c| " ".all(|c| -> (b: bool) ensures b == is_alpha(*c) { "
    //@sub R2 "()) {" "() }) {"
    //@spec
        ensures
            // accepted exactly the RFC 9286 4.2.2 names (both directions, any length)
            r.is_ok() <==> valid_mft_name(name@),
    //@/spec
    //@loop "while let Some((c, tail)) = n.split_first()"
            invariant_except_break
                stem_prefix(name@, name@.len() - n@.len()),
            invariant
                n@.len() <= name@.len(),
                n@ == name@.subrange(name@.len() - n@.len(), name@.len() as int),
                name@.len() >= 1 ==> name@[0] != 0x2e,
            ensures
                // input exhausted without a dot, or stopped behind the FIRST dot
                (n@.len() == 0 && stem_prefix(name@, name@.len() as int))
                || first_dot_at(name@, name@.len() - n@.len() - 1),
            decreases n@.len(),
    //@/loop
    //@ghost after "else if !valid_rfc9286_character(*c) {"
                proof { lemma_bad_stem_byte(name@, name@.len() - n@.len() - 1); }
    //@/ghost
    //@ghost before "return Err(\"manifest extension"
            proof {
                let p = name@.len() - n@.len() - 1;
                if first_dot_at(name@, p) {
                    if valid_mft_name(name@) {
                        // the witness is p, so |n| == 3 and the three bytes of n are letters: `all` cannot have been false
                        lemma_witness_is_first_dot(name@, p);
                        lemma_iter_seq(n@);
                        assert forall|i: int| 0 <= i < 3 implies is_alpha(*(#[trigger] refs(n@)[i])) by {
                            assert(n@[i] == name@[p + 1 + i]);
                        }
                    }
                } else {
                    lemma_no_dot(name@);
                }
            }
    //@/ghost
    //@ghost before "Ok(())"
        proof {
            let p = name@.len() - n@.len() - 1;
            lemma_iter_seq(n@);
            assert(first_dot_at(name@, p));
            assert(p != 0);
            assert(shape(name@, p));
            assert forall|i: int| 0 <= i < 3 implies is_alpha(#[trigger] name@[p + 1 + i]) by {
                assert(*refs(n@)[i] == n@[i]);
                assert(n@[i] == name@[p + 1 + i]);
            }
            assert(is_alpha(name@[p + 1 + 0]) && is_alpha(name@[p + 1 + 1]) && is_alpha(name@[p + 1 + 2]));
        }
    //@/ghost
    //@end
}

/// Consequences of the predicate that make `Rsync::join(name)` safe (spec level):
/// no '/', not "." or "..", non-empty, only URI-ASCII bytes.
proof fn lemma_valid_name_is_single_safe_segment(s: Seq<u8>)
    requires valid_mft_name(s),
    ensures
        s.len() >= 5,
        forall|i: int| 0 <= i < s.len() ==> s[i] != 0x2f,
        forall|i: int| 0 <= i < s.len() ==> 0x2d <= #[trigger] s[i] <= 0x7a,
        s[0] != 0x2e,
{
    let k = choose|k: int| shape(s, k) && is_alpha(s[k + 1]) && is_alpha(s[k + 2]) && is_alpha(s[k + 3]);
    assert forall|i: int| 0 <= i < s.len() implies s[i] != 0x2f && 0x2d <= #[trigger] s[i] <= 0x7a by {
        if i < k { assert(stem_char(s[i])); }
    }
    assert(stem_char(s[0]));
}

proof fn reach_valid() {
    let s: Seq<u8> = seq![0x61u8, 0x2e, 0x72, 0x6f, 0x61];
    assert(shape(s, 1));
    assert(valid_mft_name(s));
    assert(first_dot_at(s, 1));
    assert(stem_prefix(s, 1));
}

} // verus!
fn main() {}
