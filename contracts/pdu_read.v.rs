#![feature(allocator_api)]
// Unit pdu_read (C07, read side): the PDU readers of src/rtr/pdu.rs, async-erased (R6) and with the
// `concrete!` macro instantiated textually (R11).  The socket is an opaque stand-in with a ghost byte
// stream; the `#[repr(C, packed)]` PDU structs are the real item texts with a spec-level byte view
// (`wire`) whose connection to `as_ref()/as_mut()` (unsafe raw-pointer casts, R9) is exactly what the
// Kani unit pdu_layout proves on the compiled crate (`*_from_wire` / `*_layout` harnesses).
use vstd::prelude::*;
use vstd::std_specs::cmp::*;
use std::{cmp, mem, slice};

verus! {

// =====================================================================================================
// environment: std, tokio, spec vocabulary, PDU struct items (module `env`; functions under contract are
// in the root module so that the root `broadcast use` does not form a cycle)
// =====================================================================================================
//@include shared/rtr_wire.v.rs

use env::*;

// =====================================================================================================
// functions under contract
// =====================================================================================================
impl Header {
    //@fn src/rtr/pdu.rs :: impl AsRef<[u8]> for $type :: as_ref external_body
    //@spec
        ensures r@ == hwire(*self),
    //@/spec
    //@end
    //@fn src/rtr/pdu.rs :: impl AsMut<[u8]> for $type :: as_mut external_body
    //@spec
        ensures r@ == hwire(*old(self)), final(r)@ == hwire(*final(self)),
    //@/spec
    //@end

    //@fn src/rtr/pdu.rs :: impl Header :: version
    //@spec
        ensures r == self.version, r == hwire(self)[0],
    //@/spec
    //@end
    //@fn src/rtr/pdu.rs :: impl Header :: pdu
    //@spec
        ensures r == self.pdu, r == hwire(self)[1],
    //@/spec
    //@end
    //@fn src/rtr/pdu.rs :: impl Header :: session
    //@spec
        ensures r as int == be16(mem16(self.session)), r as int == be16(hwire(self).subrange(2, 4)),
    //@/spec
    //@ghost begin
        proof { assert(hwire(self).subrange(2, 4) =~= mem16(self.session)); }
    //@/ghost
    //@end
    //@fn src/rtr/pdu.rs :: impl Header :: length
    //@spec
        ensures r as int == hlen(self), r as int == wire_len(hwire(self)),
    //@/spec
    //@ghost begin
        proof { assert(hwire(self).subrange(4, 8) =~= mem32(self.length)); }
    //@/ghost
    //@end
    //@fn src/rtr/pdu.rs :: impl Header :: pdu_len
    //@sub R12 "|_|" "|_e|"
    //@spec
        ensures r matches Ok(n) && n as int == hlen(self),
    //@/spec
    //@end

    /// Header::read: eight octets or an error
    //@fn src/rtr/pdu.rs :: impl Header :: read
    //@sigsub R6 "<Sock: AsyncRead + Unpin>" ""
    //@spec
        ensures
            advanced(*old(sock), *final(sock), taken(*old(sock), *final(sock))),
            taken(*old(sock), *final(sock)) <= 8,
            r matches Ok(h) ==> taken(*old(sock), *final(sock)) == 8 && hwire(h) == old(sock).stream().take(8),
            old(sock).stream().len() < 8 ==> r.is_err(),
    //@/spec
    //@end
}


// ---- concrete!(SerialNotify), common!(SerialNotify) ------------------------------------------------------
//@item src/rtr/pdu.rs :: pub struct Error pubfields
impl Error {
    //@item src/rtr/pdu.rs :: const PDU: u8 = 10 pubfields
}
impl SerialNotify {
    //@item src/rtr/pdu.rs :: const PDU: u8 = 0 pubfields
    //@fn src/rtr/pdu.rs :: impl AsRef<[u8]> for $type :: as_ref external_body
    //@spec
        ensures r@ == wire_serial_notify(*self),
    //@/spec
    //@end
    //@fn src/rtr/pdu.rs :: impl AsMut<[u8]> for $type :: as_mut external_body
    //@spec
        ensures r@ == wire_serial_notify(*old(self)), final(r)@ == wire_serial_notify(*final(self)),
    //@/spec
    //@end
    //@fn src/rtr/pdu.rs :: impl $type :: size
    //@spec
        ensures r == 12,
    //@/spec
    //@end

    //@fn src/rtr/pdu.rs :: impl $type :: read_payload
    //@sigsub R6 "<Sock: AsyncRead + Unpin>" ""
    //@sub R11 "$type" "SerialNotify"
    //@sub R12 "Header::LEN" "mem::size_of::<Header>()"
    //@spec
        ensures
            advanced(*old(sock), *final(sock), taken(*old(sock), *final(sock))),
            taken(*old(sock), *final(sock)) <= 12 - 8,
            r matches Ok(x) ==> hlen(header) == 12 && x.header == header && taken(*old(sock), *final(sock)) == 12 - 8
                && wire_serial_notify(x) == hwire(header) + old(sock).stream().take(12 - 8),
            hlen(header) != 12 ==> r.is_err() && taken(*old(sock), *final(sock)) == 0,
            old(sock).stream().len() < 12 - 8 ==> r.is_err(),
    //@/spec
    //@end

    //@fn src/rtr/pdu.rs :: impl $type :: read
    //@sigsub R6 "<Sock: AsyncRead + Unpin>" ""
    //@sub R11 "$type" "SerialNotify" n=2
    //@sub R12 "Header::LEN" "mem::size_of::<Header>()"
    //@spec
        ensures
            advanced(*old(sock), *final(sock), taken(*old(sock), *final(sock))),
            taken(*old(sock), *final(sock)) <= 12,
            r matches Ok(x) ==> x.header.pdu == 0 && hlen(x.header) == 12 && taken(*old(sock), *final(sock)) == 12
                && wire_serial_notify(x) == old(sock).stream().take(12),
            old(sock).stream().len() >= 8 && (old(sock).stream()[1] != 0 || wire_len(old(sock).stream().take(8)) != 12)
                ==> r.is_err() && taken(*old(sock), *final(sock)) <= 8,
            old(sock).stream().len() < 12 ==> r.is_err(),
    //@/spec
    //@end
    //@fn src/rtr/pdu.rs :: impl $type :: try_read
    //@sigsub R6 "<Sock: AsyncRead + Unpin>" ""
    //@sub R11 "$type" "SerialNotify" n=2
    //@sub R12 "Header::LEN" "mem::size_of::<Header>()"
    //@spec
        ensures
            advanced(*old(sock), *final(sock), taken(*old(sock), *final(sock))),
            taken(*old(sock), *final(sock)) <= 12,
            r matches Ok(Ok(x)) ==> x.header.pdu == 0 && hlen(x.header) == 12 && taken(*old(sock), *final(sock)) == 12
                && wire_serial_notify(x) == old(sock).stream().take(12),
            r matches Ok(Err(h)) ==> h.pdu == 10 && taken(*old(sock), *final(sock)) == 8 && hwire(h) == old(sock).stream().take(8),
            old(sock).stream().len() >= 8 && old(sock).stream()[1] != 10
                && (old(sock).stream()[1] != 0 || wire_len(old(sock).stream().take(8)) != 12)
                ==> r.is_err() && taken(*old(sock), *final(sock)) <= 8,
            old(sock).stream().len() >= 8 && old(sock).stream()[1] == 10 ==> !(r matches Ok(Ok(_))) && taken(*old(sock), *final(sock)) <= 8,
            old(sock).stream().len() < 8 ==> r.is_err(),
            old(sock).stream().len() < 12 ==> !(r matches Ok(Ok(_))),
    //@/spec
    //@end
}

// ---- concrete!(CacheResponse): a PDU that is only a header (the tail read is an empty read_exact) ---------
impl CacheResponse {
    //@item src/rtr/pdu.rs :: const PDU: u8 = 3 pubfields
    //@fn src/rtr/pdu.rs :: impl AsRef<[u8]> for $type :: as_ref external_body
    //@spec
        ensures r@ == wire_cache_response(*self),
    //@/spec
    //@end
    //@fn src/rtr/pdu.rs :: impl AsMut<[u8]> for $type :: as_mut external_body
    //@spec
        ensures r@ == wire_cache_response(*old(self)), final(r)@ == wire_cache_response(*final(self)),
    //@/spec
    //@end
    //@fn src/rtr/pdu.rs :: impl $type :: size
    //@spec
        ensures r == 8,
    //@/spec
    //@end

    //@fn src/rtr/pdu.rs :: impl $type :: read_payload
    //@sigsub R6 "<Sock: AsyncRead + Unpin>" ""
    //@sub R11 "$type" "CacheResponse"
    //@sub R12 "Header::LEN" "mem::size_of::<Header>()"
    //@spec
        ensures
            advanced(*old(sock), *final(sock), taken(*old(sock), *final(sock))),
            taken(*old(sock), *final(sock)) <= 8 - 8,
            r matches Ok(x) ==> hlen(header) == 8 && x.header == header && taken(*old(sock), *final(sock)) == 8 - 8
                && wire_cache_response(x) == hwire(header) + old(sock).stream().take(8 - 8),
            hlen(header) != 8 ==> r.is_err() && taken(*old(sock), *final(sock)) == 0,
            old(sock).stream().len() < 8 - 8 ==> r.is_err(),
    //@/spec
    //@end

    //@fn src/rtr/pdu.rs :: impl $type :: read
    //@sigsub R6 "<Sock: AsyncRead + Unpin>" ""
    //@sub R11 "$type" "CacheResponse" n=2
    //@sub R12 "Header::LEN" "mem::size_of::<Header>()"
    //@spec
        ensures
            advanced(*old(sock), *final(sock), taken(*old(sock), *final(sock))),
            taken(*old(sock), *final(sock)) <= 8,
            r matches Ok(x) ==> x.header.pdu == 3 && hlen(x.header) == 8 && taken(*old(sock), *final(sock)) == 8
                && wire_cache_response(x) == old(sock).stream().take(8),
            old(sock).stream().len() >= 8 && (old(sock).stream()[1] != 3 || wire_len(old(sock).stream().take(8)) != 8)
                ==> r.is_err() && taken(*old(sock), *final(sock)) <= 8,
            old(sock).stream().len() < 8 ==> r.is_err(),
    //@/spec
    //@end
    //@fn src/rtr/pdu.rs :: impl $type :: try_read
    //@sigsub R6 "<Sock: AsyncRead + Unpin>" ""
    //@sub R11 "$type" "CacheResponse" n=2
    //@sub R12 "Header::LEN" "mem::size_of::<Header>()"
    //@spec
        ensures
            advanced(*old(sock), *final(sock), taken(*old(sock), *final(sock))),
            taken(*old(sock), *final(sock)) <= 8,
            r matches Ok(Ok(x)) ==> x.header.pdu == 3 && hlen(x.header) == 8 && taken(*old(sock), *final(sock)) == 8
                && wire_cache_response(x) == old(sock).stream().take(8),
            r matches Ok(Err(h)) ==> h.pdu == 10 && taken(*old(sock), *final(sock)) == 8 && hwire(h) == old(sock).stream().take(8),
            old(sock).stream().len() >= 8 && old(sock).stream()[1] != 10
                && (old(sock).stream()[1] != 3 || wire_len(old(sock).stream().take(8)) != 8)
                ==> r.is_err() && taken(*old(sock), *final(sock)) <= 8,
            old(sock).stream().len() >= 8 && old(sock).stream()[1] == 10 ==> !(r matches Ok(Ok(_))) && taken(*old(sock), *final(sock)) <= 8,
            old(sock).stream().len() < 8 ==> r.is_err(),
            old(sock).stream().len() < 8 ==> !(r matches Ok(Ok(_))),
    //@/spec
    //@end
}

// ---- concrete!(Ipv4Prefix), common!(Ipv4Prefix) ------------------------------------------------------
impl Ipv4Prefix {
    //@item src/rtr/pdu.rs :: const PDU: u8 = 4 pubfields
    //@fn src/rtr/pdu.rs :: impl AsRef<[u8]> for $type :: as_ref external_body
    //@spec
        ensures r@ == wire_ipv4_prefix(*self),
    //@/spec
    //@end
    //@fn src/rtr/pdu.rs :: impl AsMut<[u8]> for $type :: as_mut external_body
    //@spec
        ensures r@ == wire_ipv4_prefix(*old(self)), final(r)@ == wire_ipv4_prefix(*final(self)),
    //@/spec
    //@end
    //@fn src/rtr/pdu.rs :: impl $type :: size
    //@spec
        ensures r == 20,
    //@/spec
    //@end

    //@fn src/rtr/pdu.rs :: impl $type :: read_payload
    //@sigsub R6 "<Sock: AsyncRead + Unpin>" ""
    //@sub R11 "$type" "Ipv4Prefix"
    //@sub R12 "Header::LEN" "mem::size_of::<Header>()"
    //@spec
        ensures
            advanced(*old(sock), *final(sock), taken(*old(sock), *final(sock))),
            taken(*old(sock), *final(sock)) <= 20 - 8,
            r matches Ok(x) ==> hlen(header) == 20 && x.header == header && taken(*old(sock), *final(sock)) == 20 - 8
                && wire_ipv4_prefix(x) == hwire(header) + old(sock).stream().take(20 - 8),
            hlen(header) != 20 ==> r.is_err() && taken(*old(sock), *final(sock)) == 0,
            old(sock).stream().len() < 20 - 8 ==> r.is_err(),
    //@/spec
    //@end

    //@fn src/rtr/pdu.rs :: impl $type :: read
    //@sigsub R6 "<Sock: AsyncRead + Unpin>" ""
    //@sub R11 "$type" "Ipv4Prefix" n=2
    //@sub R12 "Header::LEN" "mem::size_of::<Header>()"
    //@spec
        ensures
            advanced(*old(sock), *final(sock), taken(*old(sock), *final(sock))),
            taken(*old(sock), *final(sock)) <= 20,
            r matches Ok(x) ==> x.header.pdu == 4 && hlen(x.header) == 20 && taken(*old(sock), *final(sock)) == 20
                && wire_ipv4_prefix(x) == old(sock).stream().take(20),
            old(sock).stream().len() >= 8 && (old(sock).stream()[1] != 4 || wire_len(old(sock).stream().take(8)) != 20)
                ==> r.is_err() && taken(*old(sock), *final(sock)) <= 8,
            old(sock).stream().len() < 20 ==> r.is_err(),
    //@/spec
    //@end
    //@fn src/rtr/pdu.rs :: impl $type :: try_read
    //@sigsub R6 "<Sock: AsyncRead + Unpin>" ""
    //@sub R11 "$type" "Ipv4Prefix" n=2
    //@sub R12 "Header::LEN" "mem::size_of::<Header>()"
    //@spec
        ensures
            advanced(*old(sock), *final(sock), taken(*old(sock), *final(sock))),
            taken(*old(sock), *final(sock)) <= 20,
            r matches Ok(Ok(x)) ==> x.header.pdu == 4 && hlen(x.header) == 20 && taken(*old(sock), *final(sock)) == 20
                && wire_ipv4_prefix(x) == old(sock).stream().take(20),
            r matches Ok(Err(h)) ==> h.pdu == 10 && taken(*old(sock), *final(sock)) == 8 && hwire(h) == old(sock).stream().take(8),
            old(sock).stream().len() >= 8 && old(sock).stream()[1] != 10
                && (old(sock).stream()[1] != 4 || wire_len(old(sock).stream().take(8)) != 20)
                ==> r.is_err() && taken(*old(sock), *final(sock)) <= 8,
            old(sock).stream().len() >= 8 && old(sock).stream()[1] == 10 ==> !(r matches Ok(Ok(_))) && taken(*old(sock), *final(sock)) <= 8,
            old(sock).stream().len() < 8 ==> r.is_err(),
            old(sock).stream().len() < 20 ==> !(r matches Ok(Ok(_))),
    //@/spec
    //@end
}


// ---- concrete!(Ipv6Prefix): the payload reader used by Payload::read -------------------------------------------
impl Ipv6Prefix {
    //@item src/rtr/pdu.rs :: const PDU: u8 = 6 pubfields
    //@fn src/rtr/pdu.rs :: impl AsMut<[u8]> for $type :: as_mut external_body
    //@spec
        ensures r@ == wire_ipv6_prefix(*old(self)), final(r)@ == wire_ipv6_prefix(*final(self)),
    //@/spec
    //@end
    //@fn src/rtr/pdu.rs :: impl $type :: read_payload
    //@sigsub R6 "<Sock: AsyncRead + Unpin>" ""
    //@sub R11 "$type" "Ipv6Prefix"
    //@sub R12 "Header::LEN" "mem::size_of::<Header>()"
    //@spec
        ensures
            advanced(*old(sock), *final(sock), taken(*old(sock), *final(sock))),
            taken(*old(sock), *final(sock)) <= 32 - 8,
            r matches Ok(x) ==> hlen(header) == 32 && x.header == header && taken(*old(sock), *final(sock)) == 32 - 8
                && wire_ipv6_prefix(x) == hwire(header) + old(sock).stream().take(32 - 8),
            hlen(header) != 32 ==> r.is_err() && taken(*old(sock), *final(sock)) == 0,
            old(sock).stream().len() < 32 - 8 ==> r.is_err(),
    //@/spec
    //@end
}

// ---- concrete!(EndOfDataV0): the payload reader used by Payload::read -------------------------------------------
impl EndOfDataV0 {
    //@item src/rtr/pdu.rs :: const PDU: u8 = 7 pubfields
    //@fn src/rtr/pdu.rs :: impl AsMut<[u8]> for $type :: as_mut external_body
    //@spec
        ensures r@ == wire_end_of_data_v0(*old(self)), final(r)@ == wire_end_of_data_v0(*final(self)),
    //@/spec
    //@end
    //@fn src/rtr/pdu.rs :: impl $type :: size
    //@spec
        ensures r == 12,
    //@/spec
    //@end
    //@fn src/rtr/pdu.rs :: impl $type :: read_payload
    //@sigsub R6 "<Sock: AsyncRead + Unpin>" ""
    //@sub R11 "$type" "EndOfDataV0"
    //@sub R12 "Header::LEN" "mem::size_of::<Header>()"
    //@spec
        ensures
            advanced(*old(sock), *final(sock), taken(*old(sock), *final(sock))),
            taken(*old(sock), *final(sock)) <= 12 - 8,
            r matches Ok(x) ==> hlen(header) == 12 && x.header == header && taken(*old(sock), *final(sock)) == 12 - 8
                && wire_end_of_data_v0(x) == hwire(header) + old(sock).stream().take(12 - 8),
            hlen(header) != 12 ==> r.is_err() && taken(*old(sock), *final(sock)) == 0,
            old(sock).stream().len() < 12 - 8 ==> r.is_err(),
    //@/spec
    //@end
}

// ---- concrete!(EndOfDataV1): the payload reader used by Payload::read -------------------------------------------
impl EndOfDataV1 {
    //@item src/rtr/pdu.rs :: const PDU: u8 = 7 pubfields
    //@fn src/rtr/pdu.rs :: impl AsMut<[u8]> for $type :: as_mut external_body
    //@spec
        ensures r@ == wire_end_of_data_v1(*old(self)), final(r)@ == wire_end_of_data_v1(*final(self)),
    //@/spec
    //@end
    //@fn src/rtr/pdu.rs :: impl $type :: size
    //@spec
        ensures r == 24,
    //@/spec
    //@end
    //@fn src/rtr/pdu.rs :: impl $type :: read_payload
    //@sigsub R6 "<Sock: AsyncRead + Unpin>" ""
    //@sub R11 "$type" "EndOfDataV1"
    //@sub R12 "Header::LEN" "mem::size_of::<Header>()"
    //@spec
        ensures
            advanced(*old(sock), *final(sock), taken(*old(sock), *final(sock))),
            taken(*old(sock), *final(sock)) <= 24 - 8,
            r matches Ok(x) ==> hlen(header) == 24 && x.header == header && taken(*old(sock), *final(sock)) == 24 - 8
                && wire_end_of_data_v1(x) == hwire(header) + old(sock).stream().take(24 - 8),
            hlen(header) != 24 ==> r.is_err() && taken(*old(sock), *final(sock)) == 0,
            old(sock).stream().len() < 24 - 8 ==> r.is_err(),
    //@/spec
    //@end
}

// ---- EndOfData::read_payload: the version decides the format -------------------------------------------------
impl EndOfData {
    //@item src/rtr/pdu.rs :: const PDU: u8 = 7 pubfields
    //@fn src/rtr/pdu.rs :: impl EndOfData :: read_payload
    //@sigsub R6 "<Sock: AsyncRead + Unpin>" ""
    //@sub R12 ".map(EndOfData::V0)" ".map(|x| -> (e: EndOfData) ensures e == EndOfData::V0(x) { EndOfData::V0(x) })"
    //@sub R12 ".map(EndOfData::V1)" ".map(|x| -> (e: EndOfData) ensures e == EndOfData::V1(x) { EndOfData::V1(x) })"
    //@spec
        ensures
            advanced(*old(sock), *final(sock), taken(*old(sock), *final(sock))),
            taken(*old(sock), *final(sock)) <= (if payload_header_ok(7, header.version, hlen(header)) { hlen(header) - 8 } else { 0 }),
            r matches Ok(EndOfData::V0(x)) ==> header.version == 0 && hlen(header) == 12 && x.header == header
                && taken(*old(sock), *final(sock)) == 12 - 8,
            r matches Ok(EndOfData::V1(x)) ==> (header.version == 1 || header.version == 2) && hlen(header) == 24 && x.header == header
                && taken(*old(sock), *final(sock)) == 24 - 8,
            r matches Ok(e) ==> wire_end_of_data(e) == hwire(header) + old(sock).stream().take(hlen(header) - 8),
            // wrong version, or a length that does not fit the version: error before anything is read
            header.version > 2 ==> r.is_err() && taken(*old(sock), *final(sock)) == 0,
            header.version == 0 && hlen(header) != 12 ==> r.is_err() && taken(*old(sock), *final(sock)) == 0,
            (header.version == 1 || header.version == 2) && hlen(header) != 24 ==> r.is_err() && taken(*old(sock), *final(sock)) == 0,
            old(sock).stream().len() < hlen(header) - 8 ==> r.is_err(),
    //@/spec
    //@end
}

// ---- RouterKey (type 9): fixed part + key info ------------------------------------------------------------
impl RouterKeyFixed {
    //@fn src/rtr/pdu.rs :: impl AsRef<[u8]> for RouterKeyFixed :: as_ref external_body
    //@spec
        ensures r@ == wire_router_key_fixed(*self),
    //@/spec
    //@end
    //@fn src/rtr/pdu.rs :: impl AsMut<[u8]> for RouterKeyFixed :: as_mut external_body
    //@spec
        ensures r@ == wire_router_key_fixed(*old(self)), final(r)@ == wire_router_key_fixed(*final(self)),
    //@/spec
    //@end
}
impl RouterKeyInfo {
    /// exactly `len` octets or an error; any loop in here must make progress towards `len`
    //@fn src/rtr/pdu.rs :: impl RouterKeyInfo :: read
    //@sigsub R6 "<Sock: AsyncRead + Unpin>" ""
    //@spec
        ensures
            advanced(*old(sock), *final(sock), taken(*old(sock), *final(sock))),
            taken(*old(sock), *final(sock)) <= len,
            r matches Ok(k) ==> taken(*old(sock), *final(sock)) == len && k.0@ == old(sock).stream().take(len as int),
            old(sock).stream().len() < len ==> r.is_err(),
    //@/spec
    //@loop "while" optional
            decreases len - key_info@.len(),
    //@/loop
    //@end
}
impl RouterKey {
    //@item src/rtr/pdu.rs :: const PDU: u8 = 9 pubfields
    //@fn src/rtr/pdu.rs :: impl RouterKey :: read_payload
    //@sigsub R6 "<Sock: AsyncRead + Unpin>" ""
    //@sub R12 "Header::LEN" "mem::size_of::<Header>()"
    //@ghost before "Ok(RouterKey { fixed, key_info })"
        proof {
            let s0 = old(sock).stream();
            assert(wire_router_key_fixed(fixed) =~= hwire(header) + s0.take(24));
            lem::lemma_three_pieces(s0, hwire(header), 24, info_len as int);
        }
    //@/ghost
    //@spec
        ensures
            advanced(*old(sock), *final(sock), taken(*old(sock), *final(sock))),
            taken(*old(sock), *final(sock)) <= (if hlen(header) >= 32 { hlen(header) - 8 } else { 0 }),
            r matches Ok(x) ==> hlen(header) >= 32 && x.fixed.header == header
                && taken(*old(sock), *final(sock)) == hlen(header) - 8
                && x.key_info.0@.len() == hlen(header) - 32
                && wire_router_key(x) == hwire(header) + old(sock).stream().take(hlen(header) - 8),
            hlen(header) < 32 ==> r.is_err() && taken(*old(sock), *final(sock)) == 0,
            old(sock).stream().len() < hlen(header) - 8 ==> r.is_err(),
    //@/spec
    //@end

    /// RouterKey::read: header, type check, then the payload
    //@fn src/rtr/pdu.rs :: impl RouterKey :: read
    //@sigsub R6 "<Sock: AsyncRead + Unpin>" ""
    //@spec
        ensures
            advanced(*old(sock), *final(sock), taken(*old(sock), *final(sock))),
            r matches Ok(x) ==> x.fixed.header.pdu == 9 && hlen(x.fixed.header) >= 32
                && taken(*old(sock), *final(sock)) == hlen(x.fixed.header)
                && wire_router_key(x) == old(sock).stream().take(hlen(x.fixed.header)),
            // bounded consumption: never more than the announced length (at most the header when it is wrong)
            old(sock).stream().len() >= 8 ==> taken(*old(sock), *final(sock)) <=
                (if old(sock).stream()[1] == 9 && wire_len(old(sock).stream().take(8)) >= 32 { wire_len(old(sock).stream().take(8)) } else { 8 }),
            old(sock).stream().len() < 8 ==> r.is_err() && taken(*old(sock), *final(sock)) <= 8,
            old(sock).stream().len() >= 8 && (old(sock).stream()[1] != 9 || wire_len(old(sock).stream().take(8)) < 32) ==> r.is_err(),
            old(sock).stream().len() >= 8 && old(sock).stream().len() < wire_len(old(sock).stream().take(8)) ==> r.is_err(),
    //@/spec
    //@end
}

// ---- Aspa (type 11): fixed part + provider AS numbers -----------------------------------------------------
impl AspaFixed {
    //@fn src/rtr/pdu.rs :: impl AsRef<[u8]> for AspaFixed :: as_ref external_body
    //@spec
        ensures r@ == wire_aspa_fixed(*self),
    //@/spec
    //@end
    //@fn src/rtr/pdu.rs :: impl AsMut<[u8]> for AspaFixed :: as_mut external_body
    //@spec
        ensures r@ == wire_aspa_fixed(*old(self)), final(r)@ == wire_aspa_fixed(*final(self)),
    //@/spec
    //@end
}
impl ProviderAsns {
    //@fn src/rtr/pdu.rs :: impl ProviderAsns :: read
    //@sigsub R6 "<Sock: AsyncRead + Unpin>" ""
    //@spec
        ensures
            advanced(*old(sock), *final(sock), taken(*old(sock), *final(sock))),
            taken(*old(sock), *final(sock)) <= len,
            r matches Ok(k) ==> taken(*old(sock), *final(sock)) == len && k.0@ == old(sock).stream().take(len as int),
            old(sock).stream().len() < len ==> r.is_err(),
    //@/spec
    //@loop "while" optional
            decreases len - providers@.len(),
    //@/loop
    //@end
}
impl Aspa {
    //@item src/rtr/pdu.rs :: const PDU: u8 = 11 pubfields
    //@fn src/rtr/pdu.rs :: impl Aspa :: read_payload
    //@sigsub R6 "<Sock: AsyncRead + Unpin>" ""
    //@sub R12 "Header::LEN" "mem::size_of::<Header>()"
    //@ghost before "Ok(Aspa { fixed, providers })"
        proof {
            let s0 = old(sock).stream();
            assert(wire_aspa_fixed(fixed) =~= hwire(header) + s0.take(4));
            lem::lemma_three_pieces(s0, hwire(header), 4, provider_len as int);
        }
    //@/ghost
    //@spec
        ensures
            advanced(*old(sock), *final(sock), taken(*old(sock), *final(sock))),
            taken(*old(sock), *final(sock)) <= (if hlen(header) >= 12 && (hlen(header) - 12) % 4 == 0 { hlen(header) - 8 } else { 0 }),
            r matches Ok(x) ==> hlen(header) >= 12 && (hlen(header) - 12) % 4 == 0 && x.fixed.header == header
                && taken(*old(sock), *final(sock)) == hlen(header) - 8
                && x.providers.0@.len() == hlen(header) - 12 && x.providers.0@.len() % 4 == 0
                && wire_aspa(x) == hwire(header) + old(sock).stream().take(hlen(header) - 8),
            // every wrong length is rejected before anything is read
            hlen(header) < 12 || (hlen(header) - 12) % 4 != 0 ==> r.is_err() && taken(*old(sock), *final(sock)) == 0,
            old(sock).stream().len() < hlen(header) - 8 ==> r.is_err(),
    //@/spec
    //@end
    //@fn src/rtr/pdu.rs :: impl Aspa :: read
    //@sigsub R6 "<Sock: AsyncRead + Unpin>" ""
    //@spec
        ensures
            advanced(*old(sock), *final(sock), taken(*old(sock), *final(sock))),
            r matches Ok(x) ==> x.fixed.header.pdu == 11 && hlen(x.fixed.header) >= 12 && (hlen(x.fixed.header) - 12) % 4 == 0
                && taken(*old(sock), *final(sock)) == hlen(x.fixed.header)
                && wire_aspa(x) == old(sock).stream().take(hlen(x.fixed.header)),
            old(sock).stream().len() >= 8 ==> taken(*old(sock), *final(sock)) <=
                (if old(sock).stream()[1] == 11 && wire_len(old(sock).stream().take(8)) >= 12 { wire_len(old(sock).stream().take(8)) } else { 8 }),
            old(sock).stream().len() < 8 ==> r.is_err() && taken(*old(sock), *final(sock)) <= 8,
            old(sock).stream().len() >= 8 && (old(sock).stream()[1] != 11 || wire_len(old(sock).stream().take(8)) < 12
                || (wire_len(old(sock).stream().take(8)) - 12) % 4 != 0) ==> r.is_err(),
            old(sock).stream().len() >= 8 && old(sock).stream().len() < wire_len(old(sock).stream().take(8)) ==> r.is_err(),
    //@/spec
    //@end
}

// ---- Payload::read: dispatch on the PDU type ------------------------------------------------------------------
impl Payload {
    //@fn src/rtr/pdu.rs :: impl Payload :: read
    //@sigsub R6 "<Sock: AsyncRead + Unpin>" ""
    //@sub R12 ".map(Err)" ".map(|e| -> (b: Result<Option<Payload>, EndOfData>) ensures b == Err::<Option<Payload>, EndOfData>(e) { Err(e) })"
    //@closure "|res|" nth=0
        -> (b: Result<Option<Payload>, EndOfData>) ensures b == Ok::<Option<Payload>, EndOfData>(Some(Payload::V4(res)))
    //@/closure
    //@closure "|res|" nth=1
        -> (b: Result<Option<Payload>, EndOfData>) ensures b == Ok::<Option<Payload>, EndOfData>(Some(Payload::V6(res)))
    //@/closure
    //@closure "|res|" nth=2
        -> (b: Result<Option<Payload>, EndOfData>) ensures b == Ok::<Option<Payload>, EndOfData>(Some(Payload::RouterKey(res)))
    //@/closure
    //@closure "|res|" nth=3
        -> (b: Result<Option<Payload>, EndOfData>) ensures b == Ok::<Option<Payload>, EndOfData>(Some(Payload::Aspa(res)))
    //@/closure
    //@spec
        ensures
            advanced(*old(sock), *final(sock), taken(*old(sock), *final(sock))),
            // a payload PDU: the variant is the announced type, exactly the announced length is consumed,
            // and the value holds exactly those octets
            r matches Ok(Ok(Some(p))) ==> old(sock).stream().len() >= 8 && payload_type(p) == old(sock).stream()[1]
                && taken(*old(sock), *final(sock)) == wire_len(old(sock).stream().take(8))
                && wire_payload(p) == old(sock).stream().take(wire_len(old(sock).stream().take(8))),
            // end of data
            r matches Ok(Err(e)) ==> old(sock).stream().len() >= 8 && old(sock).stream()[1] == 7
                && taken(*old(sock), *final(sock)) == wire_len(old(sock).stream().take(8))
                && wire_end_of_data(e) == old(sock).stream().take(wire_len(old(sock).stream().take(8)))
                && (e is V0 <==> old(sock).stream()[0] == 0),
            !(r matches Ok(Ok(None))),
            r.is_ok() ==> payload_header_ok(old(sock).stream()[1], old(sock).stream()[0], wire_len(old(sock).stream().take(8))),
            // wrong type, wrong length, wrong end-of-data version: error, nothing beyond the header is read
            old(sock).stream().len() >= 8
                && !payload_header_ok(old(sock).stream()[1], old(sock).stream()[0], wire_len(old(sock).stream().take(8)))
                ==> r.is_err() && taken(*old(sock), *final(sock)) <= 8,
            // bounded consumption in every case
            old(sock).stream().len() >= 8 ==> taken(*old(sock), *final(sock)) <=
                (if payload_header_ok(old(sock).stream()[1], old(sock).stream()[0], wire_len(old(sock).stream().take(8)))
                    { wire_len(old(sock).stream().take(8)) } else { 8 }),
            // short streams
            old(sock).stream().len() < 8 ==> r.is_err() && taken(*old(sock), *final(sock)) <= 8,
            old(sock).stream().len() >= 8 && old(sock).stream().len() < wire_len(old(sock).stream().take(8)) ==> r.is_err(),
    //@/spec
    //@end
}

// ---- Error::skip_payload -------------------------------------------------------------------------------
impl Error {
    /// Skips `header.length - 8` octets.  TERMINATION: every iteration consumes at least one octet or
    /// fails (a closed stream is an error), `remaining` strictly decreases.
    //@fn src/rtr/pdu.rs :: impl Error :: skip_payload
    //@sigsub R6 "<Sock: AsyncRead + Unpin>" ""
    //@sub R12 "unsafe { buf.get_unchecked_mut(..read_len) }" "&mut buf[..read_len]"
    //@spec
        ensures
            advanced(*old(sock), *final(sock), taken(*old(sock), *final(sock))),
            // bounded consumption, whatever happens
            taken(*old(sock), *final(sock)) <= (if hlen(header) >= 8 { hlen(header) - 8 } else { 0 }),
            // success: exactly the announced payload is gone
            r.is_ok() ==> hlen(header) >= 8 && taken(*old(sock), *final(sock)) == hlen(header) - 8,
            // a length smaller than a header is rejected without reading
            hlen(header) < 8 ==> r.is_err() && taken(*old(sock), *final(sock)) == 0,
            // a stream that ends inside the payload is an error (and the call returns: `decreases`)
            old(sock).stream().len() < hlen(header) - 8 ==> r.is_err(),
    //@/spec
    //@loop "while remaining > 0"
            invariant
                hlen(header) >= 8, remaining <= hlen(header) - 8,
                advanced(*old(sock), *sock, hlen(header) - 8 - remaining),
                buf@.len() == 1024,
            decreases remaining,
    //@/loop
    //@end
}

// ---- Error::new (any report size) ---------------------------------------------------------------------
/// big-endian octets of a u32 (std: u32::to_be_bytes; R12 environment function with the real std body - the
/// array length in std's signature is an unevaluated constant that assume_specification cannot match)
#[verifier::external_body]
pub fn be_bytes_u32(x: u32) -> (r: [u8; 4])
    ensures r@.len() == 4, be32(r@) == x as int,
{ x.to_be_bytes() }
impl Error {
    /// the octets are header ++ len(pdu) ++ pdu ++ len(text) ++ text with the header announcing exactly
    /// the number of octets (`write` sends `octets` unchanged), for reports of any size
    //@fn src/rtr/pdu.rs :: impl Error :: new
    //@sigsub R12 "pdu: impl AsRef<[u8]>" "pdu: &[u8]"
    //@sigsub R12 "text: impl AsRef<[u8]>" "text: &[u8]"
    //@sub R12 "let pdu = pdu.as_ref();" "let pdu = pdu;"
    //@sub R12 "let text = text.as_ref();" "let text = text;"
    //@sub R12 "u32::try_from(pdu.len()).unwrap().to_be_bytes().as_ref()" "be_bytes_u32(u32::try_from(pdu.len()).unwrap()).as_slice()"
    //@sub R12 "u32::try_from(text.len()).unwrap().to_be_bytes().as_ref()" "be_bytes_u32(u32::try_from(text.len()).unwrap()).as_slice()"
    //@spec
        requires 16 + pdu@.len() + text@.len() <= u32::MAX,
        ensures
            r.octets@.len() == 16 + pdu@.len() + text@.len(),
            r.octets@[0] == version, r.octets@[1] == 10,
            be16(r.octets@.subrange(2, 4)) == error_code as int,
            be32(r.octets@.subrange(4, 8)) == r.octets@.len(),
            be32(r.octets@.subrange(8, 12)) == pdu@.len(),
            r.octets@.subrange(12, 12 + pdu@.len() as int) == pdu@,
            be32(r.octets@.subrange(12 + pdu@.len() as int, 16 + pdu@.len() as int)) == text@.len(),
            r.octets@.subrange(16 + pdu@.len() as int, 16 + pdu@.len() as int + text@.len() as int) == text@,
    //@/spec
    //@end
}

// =====================================================================================================
// write side: constructors of the variable-length PDUs and the writers
// =====================================================================================================
impl Asn {
    //@fn src/resources/asn.rs :: impl Asn :: into_u32
    //@spec
        ensures r == self.0,
    //@/spec
    //@end
}
impl Header {
    //@fn src/rtr/pdu.rs :: impl Header :: new
    //@spec
        ensures r.version == version, r.pdu == pdu, be16(mem16(r.session)) == session as int, hlen(r) == length as int,
    //@/spec
    //@end
    //@fn src/rtr/pdu.rs :: impl $type :: write nth=0
    //@sigsub R6 "<A: AsyncWrite + Unpin>" ""
    //@sigsub R6 "a: &mut A" "a: &mut Sink"
    //@spec
        ensures r.is_ok() ==> final(a).written() == old(a).written() + hwire(*self),
    //@/spec
    //@end
}
impl SerialNotify {
    //@fn src/rtr/pdu.rs :: impl $type :: write nth=0
    //@sigsub R6 "<A: AsyncWrite + Unpin>" ""
    //@sigsub R6 "a: &mut A" "a: &mut Sink"
    //@spec
        ensures r.is_ok() ==> final(a).written() == old(a).written() + wire_serial_notify(*self)
            && final(a).written().len() == old(a).written().len() + 12,
    //@/spec
    //@end
}
impl Ipv4Prefix {
    //@fn src/rtr/pdu.rs :: impl $type :: write nth=0
    //@sigsub R6 "<A: AsyncWrite + Unpin>" ""
    //@sigsub R6 "a: &mut A" "a: &mut Sink"
    //@spec
        ensures r.is_ok() ==> final(a).written() == old(a).written() + wire_ipv4_prefix(*self)
            && final(a).written().len() == old(a).written().len() + 20,
    //@/spec
    //@end
}
impl RouterKeyInfo {
    //@fn src/rtr/pdu.rs :: impl AsRef<[u8]> for RouterKeyInfo :: as_ref
    //@spec
        ensures r@ == self.0@,
    //@/spec
    //@end
}
impl ProviderAsns {
    //@fn src/rtr/pdu.rs :: impl AsRef<[u8]> for ProviderAsns :: as_ref
    //@spec
        ensures r@ == self.0@,
    //@/spec
    //@end
    //@fn src/rtr/pdu.rs :: impl ProviderAsns :: empty
    //@spec
        ensures r.0@.len() == 0,
    //@/spec
    //@end
    //@fn src/rtr/pdu.rs :: impl ProviderAsns :: len
    //@spec
        ensures r == self.0@.len(),
    //@/spec
    //@end
}
impl RouterKey {
    /// the length field is the number of octets `write` sends, whatever the flags
    //@fn src/rtr/pdu.rs :: impl RouterKey :: new
    //@sub R12 "key_info.len()" "key_info.0.len()"
    //@ghost begin
        proof { assert(((flags as u16) << 8) == (flags as u16) * 256) by (bit_vector); }
    //@/ghost
    //@spec
        requires 32 + key_info.0@.len() <= u32::MAX,
        ensures
            r.key_info == key_info, r.fixed.key_identifier == key_identifier,
            r.fixed.header.version == version, r.fixed.header.pdu == 9,
            be16(mem16(r.fixed.header.session)) == flags as int * 256,
            be32(mem32(r.fixed.asn)) == asn.0 as int,
            hlen(r.fixed.header) == 32 + key_info.0@.len(),
            hlen(r.fixed.header) == wire_router_key(r).len(),
    //@/spec
    //@end
    //@fn src/rtr/pdu.rs :: impl RouterKey :: write
    //@sigsub R6 "<A: AsyncWrite + Unpin>" ""
    //@sigsub R6 "a: &mut A" "a: &mut Sink"
    //@spec
        ensures r.is_ok() ==> final(a).written() == old(a).written() + wire_router_key(*self),
            final(a).written().len() <= old(a).written().len() + wire_router_key(*self).len(),
    //@/spec
    //@end
}
impl Aspa {
    //@fn src/rtr/pdu.rs :: impl Aspa :: new
    //@ghost begin
        proof { assert(((flags as u16) << 8) == (flags as u16) * 256) by (bit_vector); }
    //@/ghost
    //@spec
        requires 12 + providers.0@.len() <= u32::MAX,
        ensures
            r.providers == providers,
            r.fixed.header.version == version, r.fixed.header.pdu == 11,
            be16(mem16(r.fixed.header.session)) == flags as int * 256,
            be32(mem32(r.fixed.customer)) == customer.0 as int,
            hlen(r.fixed.header) == 12 + providers.0@.len(),
            hlen(r.fixed.header) == wire_aspa(r).len(),
    //@/spec
    //@end
    // accessors of the PDU (the flags byte is the upper octet of the reused session field)
    //@fn src/rtr/pdu.rs :: impl Aspa :: flags
    //@spec
        ensures r as int == be16(mem16(self.fixed.header.session)) / 256,
    //@/spec
    //@ghost begin
        proof { assert(forall|x: u16| #![auto] (x >> 8u16) == x / 256u16) by (bit_vector); }
    //@/ghost
    //@end
    //@fn src/rtr/pdu.rs :: impl Aspa :: write
    //@sigsub R6 "<A: AsyncWrite + Unpin>" ""
    //@sigsub R6 "a: &mut A" "a: &mut Sink"
    //@spec
        ensures r.is_ok() ==> final(a).written() == old(a).written() + wire_aspa(*self),
            final(a).written().len() <= old(a).written().len() + wire_aspa(*self).len(),
    //@/spec
    //@end
}

// =====================================================================================================
// wire round trip at the specification level: equal octets mean equal values.  Together with the
// contracts above (`write` appends wire(x); `read` returns y with wire(y) == the next octets) this is
// "written by the library and read back yields the same PDU" for the types instantiated here.
// =====================================================================================================
proof fn lemma_same_wire_serial_notify(x: SerialNotify, y: SerialNotify)
    requires wire_serial_notify(x) == wire_serial_notify(y)
    ensures x == y
{
    assert(wire_serial_notify(x).skip(8) == mem32(x.serial));
    assert(wire_serial_notify(y).skip(8) == mem32(y.serial));
    ax::axiom_mem32_inj(x.serial, y.serial);
    lem::lemma_hwire_inj(x.header, y.header);
}
proof fn lemma_same_wire_ipv4_prefix(x: Ipv4Prefix, y: Ipv4Prefix)
    requires wire_ipv4_prefix(x) == wire_ipv4_prefix(y)
    ensures x == y
{
    let wx = wire_ipv4_prefix(x); let wy = wire_ipv4_prefix(y);
    lem::lemma_hwire_inj(x.header, y.header);
    assert(wx[8] == x.flags && wx[9] == x.prefix_len && wx[10] == x.max_len && wx[11] == x.zero);
    assert(wy[8] == y.flags && wy[9] == y.prefix_len && wy[10] == y.max_len && wy[11] == y.zero);
    assert(wx.subrange(12, 16) =~= mem32(x.prefix)); assert(wy.subrange(12, 16) =~= mem32(y.prefix));
    assert(wx.subrange(16, 20) =~= mem32(x.asn)); assert(wy.subrange(16, 20) =~= mem32(y.asn));
    ax::axiom_mem32_inj(x.prefix, y.prefix);
    ax::axiom_mem32_inj(x.asn, y.asn);
}
proof fn lemma_same_wire_aspa(x: Aspa, y: Aspa)
    requires wire_aspa(x) == wire_aspa(y)
    ensures x.fixed == y.fixed, x.providers.0@ == y.providers.0@
{
    let wx = wire_aspa(x); let wy = wire_aspa(y);
    assert(wx.take(12) =~= wire_aspa_fixed(x.fixed)); assert(wy.take(12) =~= wire_aspa_fixed(y.fixed));
    assert(wx.skip(12) =~= x.providers.0@); assert(wy.skip(12) =~= y.providers.0@);
    assert(wire_aspa_fixed(x.fixed).skip(8) =~= mem32(x.fixed.customer));
    assert(wire_aspa_fixed(y.fixed).skip(8) =~= mem32(y.fixed.customer));
    ax::axiom_mem32_inj(x.fixed.customer, y.fixed.customer);
    lem::lemma_hwire_inj(x.fixed.header, y.fixed.header);
}
proof fn lemma_same_wire_router_key(x: RouterKey, y: RouterKey)
    requires wire_router_key(x) == wire_router_key(y)
    ensures x.fixed == y.fixed, x.key_info.0@ == y.key_info.0@
{
    let wx = wire_router_key(x); let wy = wire_router_key(y);
    assert(wx.take(32) =~= wire_router_key_fixed(x.fixed)); assert(wy.take(32) =~= wire_router_key_fixed(y.fixed));
    assert(wx.skip(32) =~= x.key_info.0@); assert(wy.skip(32) =~= y.key_info.0@);
    assert(wire_router_key_fixed(x.fixed).subrange(8, 28) =~= x.fixed.key_identifier@);
    assert(wire_router_key_fixed(y.fixed).subrange(8, 28) =~= y.fixed.key_identifier@);
    assert(x.fixed.key_identifier =~= y.fixed.key_identifier);
    assert(wire_router_key_fixed(x.fixed).skip(28) =~= mem32(x.fixed.asn));
    assert(wire_router_key_fixed(y.fixed).skip(28) =~= mem32(y.fixed.asn));
    ax::axiom_mem32_inj(x.fixed.asn, y.fixed.asn);
    lem::lemma_hwire_inj(x.fixed.header, y.fixed.header);
}

// ---- vacuity guards ------------------------------------------------------------------------------------------
/// a header as `Header::new` builds it exists in the model and has the announced fields
proof fn reach_header(h: Header) ensures hwire(h).len() == 8, hwire(h)[0] == h.version, hwire(h)[1] == h.pdu {}
/// the acceptance predicate of Payload::read is satisfiable for every payload type and for end-of-data
proof fn reach_payload_header_ok()
    ensures payload_header_ok(4, 0, 20), payload_header_ok(6, 1, 32), payload_header_ok(9, 1, 36), payload_header_ok(11, 2, 20),
        payload_header_ok(7, 0, 12), payload_header_ok(7, 2, 24), !payload_header_ok(7, 3, 24), !payload_header_ok(11, 2, 18), !payload_header_ok(5, 1, 8)
{}
/// socket states related by `advanced` exist (a socket is related to itself)
proof fn reach_advanced(a: Sock) ensures advanced(a, a, 0) {}

} // verus!
fn main() {}
