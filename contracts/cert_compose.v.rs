// Unit cert_compose (C01): the verification / validation composition of src/repository/cert.rs:
//   Cert::verify_validity, verify_issuer_claim, verify_signature, verify_resources,
//   verify_as_resources, verify_ca_at / verify_ee_at / verify_router_at, verify_ta_at /
//   verify_ta_ref_at, inspect_basics, inspect_ca / inspect_ee / inspect_ta and the validate_*_at
//   wrappers, over the real Cert / TbsCert / ResourceCert definitions.
// Abstract: sig_ok (signature verification, aws-lc), ski_of (SHA-1 key identifier), the instants
// of Time, the address / AS-number sets of IpBlocks / AsBlocks.  Callee contracts taken from other
// units through contract links (//@stub): Validity::verify_at (unit validity), IpBlocks /
// AsBlocks::{verify_issued, empty} (unit res_sets), SignedData::verify_signature and
// PublicKey::key_identifier (unit key_verify, which DEFINES sig_ok / ski_of over the real PublicKey::verify).
// The res_sets contracts require the resource chains to be in
// canonical form (`ip_wf` / `as_wf`, established by decoding through FromIterator): `cert_res_wf` of the
// certificate and `rc_wf` of the issuer are preconditions of the issued-certificate functions, and
// `rc_wf` of the result is a postcondition, so the condition is handed down the validation chain.
use vstd::prelude::*;
use vstd::std_specs::cmp::*;
use vstd::std_specs::convert::*;
use std::sync::Arc;
use core::ops;
use core::convert::Infallible;

verus! {

// =================================================================================================
// environment: dependency types (opaque)
// =================================================================================================
/// bcder::Captured
#[verifier::external_body]
pub struct Captured { _o: u8 }
/// the captured octets (same view as shared/cms_vocab.v.rs and unit key_verify)
pub uninterp spec fn captured_view(c: Captured) -> Seq<u8>;
/// bytes::Bytes
#[verifier::external_body]
pub struct Bytes { _o: u8 }
/// bcder::string::BitString
#[verifier::external_body]
pub struct BitString { _o: u8 }
/// bcder::decode::ContentError (an error message)
#[verifier::external_body]
pub struct ContentError { _o: u8 }
/// bcder::decode::DecodeError<E>
#[verifier::external_body]
#[verifier::reject_recursive_types(E)]
pub struct DecodeError<E> { _o: u8, _p: core::marker::PhantomData<E> }
impl ContentError {
    /// bcder: builds an error from a boxed displayable value; no contract needed
    #[verifier::external_body]
    pub fn from_boxed(err: Box<dyn core::fmt::Display>) -> (r: Self) { unimplemented!() }
    /// bcder: builds an error from a message; no contract needed
    #[verifier::external_body]
    pub fn from_static(msg: &'static str) -> (r: Self) { unimplemented!() }
}
impl FromSpecImpl<&'static str> for ContentError {
    open spec fn obeys_from_spec() -> bool { false }
    open spec fn from_spec(e: &'static str) -> ContentError { arbitrary() }
}
impl From<&'static str> for ContentError {
    /// bcder: `impl From<&'static str> for ContentError`; no contract needed
    #[verifier::external_body]
    fn from(msg: &'static str) -> (r: Self) { unimplemented!() }
}

/// opaque stand-in for x509::Time (a chrono DateTime<Utc> newtype; its order is the subject of unit validity)
#[verifier::external_body]
#[derive(Clone, Copy)]
pub struct Time { _o: u8 }
/// the instant of a Time (same abstraction as unit validity: tat(t) = at(t.0))
pub uninterp spec fn tat(t: Time) -> int;
/// the value `Time::now()` returns in the call under consideration (chrono `Utc::now()`; the system clock is
/// environment).  Every wrapper below reads the clock exactly once, so one name for "the reading" suffices.
pub uninterp spec fn wall_clock() -> Time;
impl Time {
    #[verifier::external_body]
    pub fn now() -> (r: Time) ensures r == wall_clock() { unimplemented!() }
}

/// opaque stand-ins for types of other rpki-rs modules whose content is irrelevant here
#[verifier::external_body]
pub struct Name { _o: u8 }
#[verifier::external_body]
#[derive(Clone, Copy)]
pub struct Serial { _o: u8 }
#[verifier::external_body]
pub struct TalInfo { _o: u8 }
pub mod uri {
    use super::*;
    #[verifier::external_body]
    pub struct Rsync { _o: u8 }
    #[verifier::external_body]
    pub struct Https { _o: u8 }
}
// resolved resource sets: opaque IpBlocks / AsBlocks with the abstract views ip_set / as_set (the set
// denoted), ip_wf / as_wf (canonical form), ip_len / as_len -- the vocabulary of the contracts linked from
// unit res_sets
//@include shared/resview_abstract.v.rs
/// block-level refinement of the verify_issued contracts (which block sequence is returned, not only
/// which set): defined in unit res_sets, abstract and unused here
pub uninterp spec fn ip_issued_blocks(issuer: IpBlocks, res: IpResources, mode: Overclaim, r: Result<IpBlocks, OverclaimedIpResources>) -> bool;
pub uninterp spec fn as_issued_blocks(issuer: AsBlocks, res: AsResources, mode: Overclaim, r: Result<AsBlocks, OverclaimedAsResources>) -> bool;

// =================================================================================================
// environment: real item definitions of other modules
// =================================================================================================
//@item src/repository/x509.rs :: pub struct Validity pubfields keepderive=Clone,Copy
//@item src/repository/x509.rs :: pub struct ValidityPeriodError pubfields keepderive=Clone,Copy
//@item src/crypto/keys.rs :: pub struct KeyIdentifier pubfields keepderive=Clone,Copy,Eq addderive=PartialEq
//@item src/crypto/keys.rs :: pub enum PublicKeyFormat keepderive=Clone,Copy,Eq,PartialEq
//@item src/crypto/keys.rs :: pub struct PublicKey pubfields
//@item src/crypto/keys.rs :: pub struct SignatureVerificationError pubfields keepderive=Clone,Copy
//@item src/crypto/signature.rs :: pub struct RpkiSignatureAlgorithm pubfields keepderive=Clone,Copy,Eq,PartialEq
//@item src/crypto/signature.rs :: pub struct Signature<Alg> pubfields
//@item src/repository/x509.rs :: pub struct SignedData<Alg = RpkiSignatureAlgorithm> pubfields
//@item src/repository/resources/choice.rs :: pub enum ResourcesChoice<T>
//@item src/repository/resources/ipres.rs :: pub struct IpResources pubfields
//@item src/repository/resources/asres.rs :: pub struct AsResources pubfields
//@item src/repository/resources/ipres.rs :: pub struct InheritedIpResources pubfields
//@item src/repository/resources/asres.rs :: pub struct InheritedAsResources pubfields
//@item src/repository/resources/ipres.rs :: pub struct OverclaimedIpResources pubfields
//@item src/repository/resources/asres.rs :: pub struct OverclaimedAsResources pubfields
//@item src/repository/error.rs :: pub struct InspectionError pubfields
//@item src/repository/error.rs :: pub struct VerificationError pubfields
//@item src/repository/error.rs :: pub struct ValidationError pubfields
//@item src/repository/error.rs :: enum ValidationErrorKind pubfields

//@item src/repository/cert.rs :: struct IssuerError pubfields
//@item src/repository/cert.rs :: struct SubjectError pubfields
// ---- the certificate types ---------------------------------------------------------------------
//@item src/repository/cert.rs :: pub enum KeyUsage keepderive=Clone,Copy,Eq,PartialEq
//@item src/repository/cert.rs :: pub enum Overclaim keepderive=Clone,Copy
//@item src/repository/cert.rs :: pub struct ExtendedKeyUsage pubfields
//@item src/repository/cert.rs :: pub struct TbsCert pubfields
//@item src/repository/cert.rs :: pub struct Cert pubfields
//@item src/repository/cert.rs :: pub struct ResourceCert pubfields

// =================================================================================================
// specification vocabulary
// =================================================================================================
// `sig_ok(key, msg, sig)`: the signature (algorithm identifier and value) over the octets `msg` verifies
// under `key` -- abstract here, DEFINED in unit key_verify (format match && aws-lc primitive), which proves
// the linked contract of SignedData::verify_signature
//@include shared/sig_vocab.v.rs
impl SignatureAlgorithm for RpkiSignatureAlgorithm { }
// `ski_of(key)`: the SHA-1 key identifier of a public key -- abstract here, DEFINED in unit key_verify,
// which proves the linked contract of PublicKey::key_identifier
//@include shared/ski_vocab.v.rs
/// signature verification of X.509 signed data under a key: over its captured (to-be-signed) octets
pub open spec fn signed_ok(key: PublicKey, signed: SignedData) -> bool {
    sig_ok(key, captured_view(signed.data), signed.signature)
}
/// abstract: Name::inspect_rpki accepts the name
pub uninterp spec fn name_rpki_ok(n: Name, strict: bool) -> bool;

/// abstract: Name::inspect_router accepts the name
pub uninterp spec fn name_router_ok(n: Name, strict: bool) -> bool;

// `in_window`: "the evaluation time lies inside the validity window" -- shared with unit validity
//@include shared/time_vocab.v.rs

pub open spec fn ip_inherited(res: IpResources) -> bool { res.0 is Inherit }
pub open spec fn as_inherited(res: AsResources) -> bool { res.0 is Inherit }
/// the blocks a certificate claims itself (nothing for missing / inherit)
pub open spec fn ip_claim(res: IpResources) -> ISet<int> {
    match res.0 { ResourcesChoice::Blocks(b) => ip_set(b), _ => ISet::empty() }
}
pub open spec fn as_claim(res: AsResources) -> ISet<int> {
    match res.0 { ResourcesChoice::Blocks(b) => as_set(b), _ => ISet::empty() }
}
// `ip_issued` / `as_issued`: the resources a certificate validly receives from an issuer (missing =>
// nothing; inherit => the issuer's own; claimed blocks under the no-overclaim policy => exactly the claim
// if covered, else failure; under the trimming policy => the intersection), and `ip_res_wf` / `as_res_wf`:
// shared with unit res_sets, which proves the linked verify_issued contracts
//@include shared/resview_vocab.v.rs
/// the decoded resource extensions of a certificate are in canonical form (established by decoding:
/// IpBlocks / AsBlocks are only built through FromIterator, unit res_sets / chain_build)
pub open spec fn cert_res_wf(c: Cert) -> bool {
    ip_res_wf(c.tbs.v4_resources) && ip_res_wf(c.tbs.v6_resources) && as_res_wf(c.tbs.as_resources)
}

/// the certificate claims `issuer` as its issuer: AKI present and equal to the issuer's SKI,
/// and (what the code checks in addition) a caIssuers AIA URI is present
pub open spec fn issuer_claim_ok(c: Cert, issuer: ResourceCert) -> bool {
    c.tbs.authority_key_identifier == Some(issuer.cert.tbs.subject_key_identifier)
    && c.tbs.ca_issuer.is_some()
}
/// verification of an issued certificate without the resources
pub open spec fn issued_basic_ok(c: Cert, issuer: ResourceCert, now: Time) -> bool {
    in_window(c.tbs.validity, tat(now))
    && issuer_claim_ok(c, issuer)
    && signed_ok(issuer.cert.tbs.subject_public_key_info, c.signed_data)
}
/// all three resource sets can be issued
pub open spec fn resources_ok(c: Cert, issuer: ResourceCert) -> bool {
    ip_issued(ip_set(issuer.v4_resources), c.tbs.v4_resources, c.tbs.overclaim).is_some()
    && ip_issued(ip_set(issuer.v6_resources), c.tbs.v6_resources, c.tbs.overclaim).is_some()
    && as_issued(as_set(issuer.as_resources), c.tbs.as_resources, c.tbs.overclaim).is_some()
}
/// the three resource sets attached to the validated certificate are the issued ones
pub open spec fn issued_resources(rc: ResourceCert, c: Cert, issuer: ResourceCert) -> bool {
    Some(ip_set(rc.v4_resources)) == ip_issued(ip_set(issuer.v4_resources), c.tbs.v4_resources, c.tbs.overclaim)
    && Some(ip_set(rc.v6_resources)) == ip_issued(ip_set(issuer.v6_resources), c.tbs.v6_resources, c.tbs.overclaim)
    && Some(as_set(rc.as_resources)) == as_issued(as_set(issuer.as_resources), c.tbs.as_resources, c.tbs.overclaim)
}
// `issued_result`: the validated result carries the certificate, the issuer's TAL and the issued
// resources; `rc_wf`: its resource chains are canonical -- shared with the units that assume
// Cert::validate_ee_at through a contract link
//@include shared/cert_vocab.v.rs
/// what inspect_basics checks: the two signature-algorithm fields agree, issuer and subject names
/// have the RPKI form, RSA key, the SKI is the hash of the key, no extended key usage
pub open spec fn basics_ok(c: Cert, strict: bool) -> bool {
    c.tbs.signature == c.signed_data.signature.algorithm
    && name_rpki_ok(c.tbs.issuer, strict) && name_rpki_ok(c.tbs.subject, strict)
    && c.tbs.subject_public_key_info.algorithm is Rsa
    && c.tbs.subject_key_identifier == ski_of(c.tbs.subject_public_key_info)
    && c.tbs.extended_key_usage.is_none()
}
pub open spec fn ca_basics_ok(c: Cert) -> bool {
    c.tbs.basic_ca == Some(true) && c.tbs.key_usage is Ca
    && c.tbs.ca_repository.is_some() && c.tbs.rpki_manifest.is_some() && c.tbs.signed_object.is_none()
}
pub open spec fn inspect_ca_ok(c: Cert, strict: bool) -> bool {
    basics_ok(c, strict) && ca_basics_ok(c) && c.tbs.crl_uri.is_some()
}
pub open spec fn inspect_ta_ok(c: Cert, strict: bool) -> bool {
    basics_ok(c, strict) && ca_basics_ok(c)
    && (c.tbs.authority_key_identifier is Some ==> c.tbs.authority_key_identifier == Some(c.tbs.subject_key_identifier))
    && c.tbs.crl_uri.is_none() && c.tbs.ca_issuer.is_none()
}
pub open spec fn inspect_detached_ee_ok(c: Cert, strict: bool) -> bool {
    basics_ok(c, strict) && c.tbs.crl_uri.is_some()
    && c.tbs.basic_ca.is_none() && c.tbs.key_usage is Ee
    && c.tbs.ca_repository.is_none() && c.tbs.rpki_manifest.is_none()
}
pub open spec fn inspect_ee_ok(c: Cert, strict: bool) -> bool {
    inspect_detached_ee_ok(c, strict) && c.tbs.signed_object.is_some()
}
pub open spec fn inspect_router_ok(c: Cert, strict: bool) -> bool {
    c.tbs.signature == c.signed_data.signature.algorithm
    && name_rpki_ok(c.tbs.issuer, strict) && name_router_ok(c.tbs.subject, strict)
    && c.tbs.subject_public_key_info.algorithm is EcdsaP256
    && c.tbs.basic_ca.is_none()
    && c.tbs.subject_key_identifier == ski_of(c.tbs.subject_public_key_info)
    && c.tbs.key_usage is Ee
    && (c.tbs.extended_key_usage matches Some(e) && e.has_bgpsec_router)
    && c.tbs.crl_uri.is_some()
    && c.tbs.ca_repository.is_none() && c.tbs.rpki_manifest.is_none()
    && c.tbs.signed_object.is_none() && c.tbs.rpki_notify.is_none()
    && c.tbs.v4_resources.0 is Missing && c.tbs.v6_resources.0 is Missing
    && c.tbs.as_resources.0 is Blocks
}
/// verification of a trust anchor
pub open spec fn ta_ok(c: Cert, now: Time) -> bool {
    in_window(c.tbs.validity, tat(now))
    && !ip_inherited(c.tbs.v4_resources) && !ip_inherited(c.tbs.v6_resources)
    && !as_inherited(c.tbs.as_resources)
    && signed_ok(c.tbs.subject_public_key_info, c.signed_data)
}

/// the validated trust anchor carries the certificate, its own claimed resources and the TAL
pub open spec fn ta_result(rc: ResourceCert, c: Cert, tal: Arc<TalInfo>) -> bool {
    rc.cert == c && rc.tal == tal
    && ip_set(rc.v4_resources) == ip_claim(c.tbs.v4_resources)
    && ip_set(rc.v6_resources) == ip_claim(c.tbs.v6_resources)
    && as_set(rc.as_resources) == as_claim(c.tbs.as_resources)
}

// =================================================================================================
// environment: assumed contracts
// =================================================================================================
pub mod ax {
    use super::*;
    /// the (derived or, for KeyIdentifier, generic AsRef<[u8]>) PartialEq impls below are lawful
    #[verifier::external_body]
    pub broadcast proof fn axiom_eq_obeys()
        ensures
            #[trigger] <KeyIdentifier as PartialEqSpec>::obeys_eq_spec(),
            #[trigger] <RpkiSignatureAlgorithm as PartialEqSpec>::obeys_eq_spec(),
            #[trigger] <KeyUsage as PartialEqSpec>::obeys_eq_spec(),
    {}
    /// KeyIdentifier: the generic `impl<T: AsRef<[u8]>> PartialEq<T>` compares the 20 octets, i.e. is
    /// structural equality (R12 addderive; Kani harness key_identifier_eq of unit slurm)
    #[verifier::external_body]
    pub broadcast proof fn axiom_ki_eq(a: KeyIdentifier, b: KeyIdentifier)
        ensures #[trigger] a.eq_spec(&b) == (a == b) {}
    /// derive(PartialEq) on RpkiSignatureAlgorithm { has_parameter: bool } is field-wise equality
    #[verifier::external_body]
    pub broadcast proof fn axiom_alg_eq(a: RpkiSignatureAlgorithm, b: RpkiSignatureAlgorithm)
        ensures #[trigger] a.eq_spec(&b) == (a == b) {}
    /// derive(PartialEq) on the field-less enum KeyUsage is variant equality
    #[verifier::external_body]
    pub broadcast proof fn axiom_key_usage_eq(a: KeyUsage, b: KeyUsage)
        ensures #[trigger] a.eq_spec(&b) == (a == b) {}
}

impl Validity {
    /// contract link: proved in unit validity (Validity::verify_at), text taken from there
    //@stub validity :: impl Validity :: verify_at
    pub fn verify_at(self, now: Time) -> (r: Result<(), ValidityPeriodError>)
    //@end
}

impl<Alg: SignatureAlgorithm> SignedData<Alg> {
    /// contract link: proved in unit key_verify (= PublicKey::verify over the captured octets; PublicKey::verify
    /// itself is proved there down to the aws-lc primitives), text taken from there
    //@stub key_verify :: verify_signature
    pub fn verify_signature(&self, public_key: &PublicKey) -> (r: Result<(), SignatureVerificationError>)
    //@end
}

impl PublicKey {
    /// contract link: proved in unit key_verify (SHA-1 over the key bits, both unwrap()s panic-free)
    //@stub key_verify :: impl PublicKey :: key_identifier
    pub fn key_identifier(&self) -> (r: KeyIdentifier)
    //@end
}

impl Name {
    /// out of scope (runs inside bcder decoding closures): abstract predicate
    #[verifier::external_body]
    pub fn inspect_router(&self, strict: bool) -> (r: Result<(), InspectionError>)
        ensures r.is_ok() <==> name_router_ok(*self, strict)
    { unimplemented!() }
    /// out of scope (runs inside bcder decoding closures): abstract predicate
    #[verifier::external_body]
    pub fn inspect_rpki(&self, strict: bool) -> (r: Result<(), InspectionError>)
        ensures r.is_ok() <==> name_rpki_ok(*self, strict)
    { unimplemented!() }
}

impl IpBlocks {
    /// contract link: proved in unit res_sets
    //@stub res_sets :: impl IpBlocks :: empty
    pub fn empty() -> (r: Self)
    //@end

    /// contract link: proved in unit res_sets
    //@stub res_sets :: impl IpBlocks :: verify_issued
    pub fn verify_issued(&self, res: &IpResources, mode: Overclaim) -> (r: Result<IpBlocks, OverclaimedIpResources>)
    //@end
}
impl AsBlocks {
    /// contract link: proved in unit res_sets
    //@stub res_sets :: impl AsBlocks :: empty
    pub fn empty() -> (r: Self)
    //@end

    /// contract link: proved in unit res_sets
    //@stub res_sets :: impl AsBlocks :: verify_issued
    pub fn verify_issued(&self, res: &AsResources, mode: Overclaim) -> (r: Result<AsBlocks, OverclaimedAsResources>)
    //@end
}
impl Clone for IpResources {
    /// derive(Clone): the clone is the same choice with the same blocks (Arc-shared chain)
    #[verifier::external_body]
    fn clone(&self) -> (r: Self) ensures r == *self { unimplemented!() }
}
impl Clone for AsResources {
    #[verifier::external_body]
    fn clone(&self) -> (r: Self) ensures r == *self { unimplemented!() }
}

// =================================================================================================
// real code: error plumbing
// =================================================================================================
impl InspectionError {
    //@fn src/repository/error.rs :: impl InspectionError :: new
    //@end
}
impl VerificationError {
    //@fn src/repository/error.rs :: impl VerificationError :: new
    //@end
}
impl FromSpecImpl<ContentError> for VerificationError {
    open spec fn obeys_from_spec() -> bool { false }
    open spec fn from_spec(e: ContentError) -> VerificationError { arbitrary() }
}
impl From<ContentError> for VerificationError {
    //@fn src/repository/error.rs :: impl From<ContentError> for VerificationError :: from
    //@end
}
impl FromSpecImpl<SignatureVerificationError> for ContentError {
    open spec fn obeys_from_spec() -> bool { false }
    open spec fn from_spec(e: SignatureVerificationError) -> ContentError { arbitrary() }
}
impl From<SignatureVerificationError> for ContentError {
    //@fn src/crypto/keys.rs :: impl From<SignatureVerificationError> for ContentError :: from
    //@sigsub R12 "_: SignatureVerificationError" "_e: SignatureVerificationError"
    //@end
}
impl FromSpecImpl<SignatureVerificationError> for VerificationError {
    open spec fn obeys_from_spec() -> bool { false }
    open spec fn from_spec(e: SignatureVerificationError) -> VerificationError { arbitrary() }
}
impl From<SignatureVerificationError> for VerificationError {
    //@fn src/repository/error.rs :: impl From<SignatureVerificationError> for VerificationError :: from
    //@end
}
impl FromSpecImpl<ValidityPeriodError> for VerificationError {
    open spec fn obeys_from_spec() -> bool { false }
    open spec fn from_spec(e: ValidityPeriodError) -> VerificationError { arbitrary() }
}
impl From<ValidityPeriodError> for VerificationError {
    //@fn src/repository/x509.rs :: impl From<ValidityPeriodError> for VerificationError :: from
    //@end
}
impl FromSpecImpl<InspectionError> for ValidationError {
    open spec fn obeys_from_spec() -> bool { false }
    open spec fn from_spec(e: InspectionError) -> ValidationError { arbitrary() }
}
impl From<InspectionError> for ValidationError {
    //@fn src/repository/error.rs :: impl From<InspectionError> for ValidationError :: from
    //@end
}
impl FromSpecImpl<VerificationError> for ValidationError {
    open spec fn obeys_from_spec() -> bool { false }
    open spec fn from_spec(e: VerificationError) -> ValidationError { arbitrary() }
}
impl From<VerificationError> for ValidationError {
    //@fn src/repository/error.rs :: impl From<VerificationError> for ValidationError :: from
    //@end
}

impl FromSpecImpl<ContentError> for InspectionError {
    open spec fn obeys_from_spec() -> bool { false }
    open spec fn from_spec(e: ContentError) -> InspectionError { arbitrary() }
}
impl From<ContentError> for InspectionError {
    //@fn src/repository/error.rs :: impl From<ContentError> for InspectionError :: from
    //@end
}
impl FromSpecImpl<IssuerError> for InspectionError {
    open spec fn obeys_from_spec() -> bool { false }
    open spec fn from_spec(e: IssuerError) -> InspectionError { arbitrary() }
}
impl From<IssuerError> for InspectionError {
    //@fn src/repository/cert.rs :: impl From<IssuerError> for InspectionError :: from
    //@end
}
impl FromSpecImpl<SubjectError> for InspectionError {
    open spec fn obeys_from_spec() -> bool { false }
    open spec fn from_spec(e: SubjectError) -> InspectionError { arbitrary() }
}
impl From<SubjectError> for InspectionError {
    //@fn src/repository/cert.rs :: impl From<SubjectError> for InspectionError :: from
    //@end
}

// =================================================================================================
// real code: accessors and resource choices
// =================================================================================================
impl<T> ResourcesChoice<T> {
    //@fn src/repository/resources/choice.rs :: impl<T> ResourcesChoice<T> :: is_inherited
    //@spec
        ensures r == (*self is Inherit),
    //@/spec
    //@end
    //@fn src/repository/resources/choice.rs :: impl<T> ResourcesChoice<T> :: is_present
    //@spec
        ensures r == !(*self is Missing),
    //@/spec
    //@end
}
impl IpResources {
    //@fn src/repository/resources/ipres.rs :: impl IpResources :: is_present
    //@spec
        ensures r == !(self.0 is Missing),
    //@/spec
    //@end
    //@fn src/repository/resources/ipres.rs :: impl IpResources :: is_inherited
    //@spec
        ensures r == ip_inherited(*self),
    //@/spec
    //@end
}
impl AsResources {
    //@fn src/repository/resources/asres.rs :: impl AsResources :: is_present
    //@spec
        ensures r == !(self.0 is Missing),
    //@/spec
    //@end
    //@fn src/repository/resources/asres.rs :: impl AsResources :: is_inherited
    //@spec
        ensures r == as_inherited(*self),
    //@/spec
    //@end
}
impl IpBlocks {
    //@fn src/repository/resources/ipres.rs :: impl IpBlocks :: from_resources
    //@spec
        ensures
            r.is_ok() <==> !ip_inherited(res),
            r matches Ok(b) ==> ip_set(b) == ip_claim(res) && (ip_res_wf(res) ==> ip_wf(b)),
    //@/spec
    //@end
}
impl AsBlocks {
    //@fn src/repository/resources/asres.rs :: impl AsBlocks :: from_resources
    //@spec
        ensures
            r.is_ok() <==> !as_inherited(res),
            r matches Ok(b) ==> as_set(b) == as_claim(res) && (as_res_wf(res) ==> as_wf(b)),
    //@/spec
    //@end
}

impl<Alg> Signature<Alg> {
    //@fn src/crypto/signature.rs :: impl<Alg> Signature<Alg> :: algorithm
    //@spec
        ensures *r == self.algorithm,
    //@/spec
    //@end
}
impl<Alg> SignedData<Alg> {
    //@fn src/repository/x509.rs :: impl<Alg> SignedData<Alg> :: signature
    //@spec
        ensures *r == self.signature,
    //@/spec
    //@end
}
impl PublicKeyFormat {
    //@fn src/crypto/keys.rs :: impl PublicKeyFormat :: allow_rpki_cert
    //@spec
        ensures r == (self is Rsa),
    //@/spec
    //@end
}
impl PublicKeyFormat {
    //@fn src/crypto/keys.rs :: impl PublicKeyFormat :: allow_router_cert
    //@spec
        ensures r == (self is EcdsaP256),
    //@/spec
    //@end
}
impl ExtendedKeyUsage {
    //@fn src/repository/cert.rs :: impl ExtendedKeyUsage :: inspect_router
    //@spec
        ensures r.is_ok() <==> self.has_bgpsec_router,
    //@/spec
    //@end
}
impl PublicKey {
    //@fn src/crypto/keys.rs :: impl PublicKey :: allow_router_cert
    //@spec
        ensures r == (self.algorithm is EcdsaP256),
    //@/spec
    //@end
    //@fn src/crypto/keys.rs :: impl PublicKey :: allow_rpki_cert
    //@spec
        ensures r == (self.algorithm is Rsa),
    //@/spec
    //@end
}

impl TbsCert {
    //@fn src/repository/cert.rs :: impl TbsCert :: subject_public_key_info
    //@spec
        ensures *r == self.subject_public_key_info,
    //@/spec
    //@end
    //@fn src/repository/cert.rs :: impl TbsCert :: subject_key_identifier
    //@spec
        ensures r == self.subject_key_identifier,
    //@/spec
    //@end
    //@fn src/repository/cert.rs :: impl TbsCert :: authority_key_identifier
    //@spec
        ensures r == self.authority_key_identifier,
    //@/spec
    //@end
    //@fn src/repository/cert.rs :: impl TbsCert :: extended_key_usage
    //@spec
        ensures r.is_some() == self.extended_key_usage.is_some(), r matches Some(e) ==> *e == self.extended_key_usage.unwrap(),
    //@/spec
    //@end
    //@fn src/repository/cert.rs :: impl TbsCert :: crl_uri
    //@spec
        ensures r.is_some() == self.crl_uri.is_some(),
    //@/spec
    //@end
    //@fn src/repository/cert.rs :: impl TbsCert :: ca_issuer
    //@spec
        ensures r.is_some() == self.ca_issuer.is_some(),
    //@/spec
    //@end
    //@fn src/repository/cert.rs :: impl TbsCert :: basic_ca
    //@spec
        ensures r == self.basic_ca,
    //@/spec
    //@end
    //@fn src/repository/cert.rs :: impl TbsCert :: key_usage
    //@spec
        ensures r == self.key_usage,
    //@/spec
    //@end
    //@fn src/repository/cert.rs :: impl TbsCert :: ca_repository
    //@spec
        ensures r.is_some() == self.ca_repository.is_some(),
    //@/spec
    //@end
    //@fn src/repository/cert.rs :: impl TbsCert :: rpki_manifest
    //@spec
        ensures r.is_some() == self.rpki_manifest.is_some(),
    //@/spec
    //@end
    //@fn src/repository/cert.rs :: impl TbsCert :: signed_object
    //@spec
        ensures r.is_some() == self.signed_object.is_some(),
    //@/spec
    //@end
    //@fn src/repository/cert.rs :: impl TbsCert :: rpki_notify
    //@spec
        ensures r.is_some() == self.rpki_notify.is_some(),
    //@/spec
    //@end
    //@fn src/repository/cert.rs :: impl TbsCert :: overclaim
    //@spec
        ensures r == self.overclaim,
    //@/spec
    //@end
    //@fn src/repository/cert.rs :: impl TbsCert :: v4_resources
    //@spec
        ensures *r == self.v4_resources,
    //@/spec
    //@end
    //@fn src/repository/cert.rs :: impl TbsCert :: v6_resources
    //@spec
        ensures *r == self.v6_resources,
    //@/spec
    //@end
    //@fn src/repository/cert.rs :: impl TbsCert :: as_resources
    //@spec
        ensures *r == self.as_resources,
    //@/spec
    //@end
}

impl ops::Deref for Cert {
    type Target = TbsCert;
    //@fn src/repository/cert.rs :: impl ops::Deref for Cert :: deref
    //@spec
        ensures *r == self.tbs,
    //@/spec
    //@end
}
impl ResourceCert {
    //@fn src/repository/cert.rs :: impl ResourceCert :: as_cert
    //@spec
        ensures *r == self.cert,
    //@/spec
    //@end
}
impl ops::Deref for ResourceCert {
    type Target = Cert;
    //@fn src/repository/cert.rs :: impl ops::Deref for ResourceCert :: deref
    //@spec
        ensures *r == self.cert,
    //@/spec
    //@end
}

// =================================================================================================
// real code under contract: verification
// =================================================================================================
impl Cert {
    //@fn src/repository/cert.rs :: impl Cert :: inspect_basics
    //@sub R12 "map_err(IssuerError)" "map_err(|e| IssuerError(e))"
    //@sub R12 "map_err(SubjectError)" "map_err(|e| SubjectError(e))"
    //@spec
        ensures r.is_ok() <==> basics_ok(*self, strict),
    //@/spec
    //@ghost begin
        proof { broadcast use ax::axiom_eq_obeys, ax::axiom_ki_eq, ax::axiom_alg_eq; }
    //@/ghost
    //@end

    //@fn src/repository/cert.rs :: impl Cert :: inspect_issued
    //@spec
        ensures r.is_ok() <==> self.tbs.crl_uri.is_some(),
    //@/spec
    //@end

    //@fn src/repository/cert.rs :: impl Cert :: inspect_ca_basics
    //@spec
        ensures r.is_ok() <==> ca_basics_ok(*self),
    //@/spec
    //@ghost begin
        proof { broadcast use ax::axiom_eq_obeys, ax::axiom_key_usage_eq; }
    //@/ghost
    //@end

    //@fn src/repository/cert.rs :: impl Cert :: inspect_ta
    //@spec
        ensures r.is_ok() <==> inspect_ta_ok(*self, strict),
    //@/spec
    //@ghost begin
        proof { broadcast use ax::axiom_eq_obeys, ax::axiom_ki_eq; }
    //@/ghost
    //@end

    //@fn src/repository/cert.rs :: impl Cert :: inspect_ca
    //@spec
        ensures r.is_ok() <==> inspect_ca_ok(*self, strict),
    //@/spec
    //@end

    //@fn src/repository/cert.rs :: impl Cert :: inspect_ee
    //@spec
        ensures r.is_ok() <==> inspect_ee_ok(*self, strict),
    //@/spec
    //@ghost begin
        proof { broadcast use ax::axiom_eq_obeys, ax::axiom_key_usage_eq; }
    //@/ghost
    //@end

    //@fn src/repository/cert.rs :: impl Cert :: inspect_detached_ee
    //@spec
        ensures r.is_ok() <==> inspect_detached_ee_ok(*self, strict),
    //@/spec
    //@ghost begin
        proof { broadcast use ax::axiom_eq_obeys, ax::axiom_key_usage_eq; }
    //@/ghost
    //@end

    //@fn src/repository/cert.rs :: impl Cert :: inspect_router
    //@sub R12 "map_err(IssuerError)" "map_err(|e| IssuerError(e))"
    //@sub R12 "map_err(SubjectError)" "map_err(|e| SubjectError(e))"
    //@spec
        ensures r.is_ok() <==> inspect_router_ok(*self, strict),
    //@/spec
    //@ghost begin
        proof { broadcast use ax::axiom_eq_obeys, ax::axiom_ki_eq, ax::axiom_alg_eq, ax::axiom_key_usage_eq; }
    //@/ghost
    //@end

    //@fn src/repository/cert.rs :: impl Cert :: validate_ta_at
    //@spec
        ensures
            r.is_ok() <==> inspect_ta_ok(self, strict) && ta_ok(self, now),
            r matches Ok(rc) ==> ta_result(rc, self, tal) && (cert_res_wf(self) ==> rc_wf(rc)),
    //@/spec
    //@end

    //@fn src/repository/cert.rs :: impl Cert :: validate_ca_at
    //@spec
        requires cert_res_wf(self), rc_wf(*issuer),
        ensures
            r.is_ok() <==> inspect_ca_ok(self, strict) && issued_basic_ok(self, *issuer, now) && resources_ok(self, *issuer),
            r matches Ok(rc) ==> issued_result(rc, self, *issuer) && rc_wf(rc),
    //@/spec
    //@end

    //@fn src/repository/cert.rs :: impl Cert :: validate_ee_at
    //@spec
        requires cert_res_wf(self), rc_wf(*issuer),
        ensures
            r.is_ok() <==> inspect_ee_ok(self, strict) && issued_basic_ok(self, *issuer, now) && resources_ok(self, *issuer),
            r matches Ok(rc) ==> issued_result(rc, self, *issuer) && rc_wf(rc),
    //@/spec
    //@end

    //@fn src/repository/cert.rs :: impl Cert :: validate_detached_ee_at
    //@spec
        requires cert_res_wf(self), rc_wf(*issuer),
        ensures
            r.is_ok() <==> inspect_detached_ee_ok(self, strict) && issued_basic_ok(self, *issuer, now) && resources_ok(self, *issuer),
            r matches Ok(rc) ==> issued_result(rc, self, *issuer) && rc_wf(rc),
    //@/spec
    //@end

    //@fn src/repository/cert.rs :: impl Cert :: validate_router_at
    //@spec
        requires cert_res_wf(*self), rc_wf(*issuer),
        ensures
            r.is_ok() <==> inspect_router_ok(*self, strict) && issued_basic_ok(*self, *issuer, now)
                && as_issued(as_set(issuer.as_resources), self.tbs.as_resources, self.tbs.overclaim).is_some(),
    //@/spec
    //@end

    //@fn src/repository/cert.rs :: impl Cert :: verify_validity
    //@spec
        ensures r.is_ok() <==> in_window(self.tbs.validity, tat(now)),
    //@/spec
    //@end

    //@fn src/repository/cert.rs :: impl Cert :: verify_issuer_claim
    //@spec
        ensures r.is_ok() <==> issuer_claim_ok(*self, *issuer),
    //@/spec
    //@ghost begin
        proof { broadcast use ax::axiom_eq_obeys, ax::axiom_ki_eq; }
    //@/ghost
    //@end

    //@fn src/repository/cert.rs :: impl Cert :: verify_signature
    //@spec
        ensures r.is_ok() <==> signed_ok(issuer.tbs.subject_public_key_info, self.signed_data),
    //@/spec
    //@end

    //@fn src/repository/cert.rs :: impl Cert :: verify_resources
    //@sub R12 "|_|" "|_e|" n=3
    //@spec
        requires cert_res_wf(self), rc_wf(*issuer),
        ensures
            r.is_ok() <==> resources_ok(self, *issuer),
            r matches Ok(rc) ==> issued_result(rc, self, *issuer) && rc_wf(rc),
    //@/spec
    //@end

    //@fn src/repository/cert.rs :: impl Cert :: verify_as_resources
    //@sub R12 "|_|" "|_e|"
    //@spec
        requires cert_res_wf(*self), rc_wf(*issuer),
        ensures r.is_ok() <==> as_issued(as_set(issuer.as_resources), self.tbs.as_resources, self.tbs.overclaim).is_some(),
    //@/spec
    //@end

    //@fn src/repository/cert.rs :: impl Cert :: verify_ca_at
    //@spec
        requires cert_res_wf(self), rc_wf(*issuer),
        ensures
            r.is_ok() <==> issued_basic_ok(self, *issuer, now) && resources_ok(self, *issuer),
            r matches Ok(rc) ==> issued_result(rc, self, *issuer) && rc_wf(rc),
    //@/spec
    //@end

    //@fn src/repository/cert.rs :: impl Cert :: verify_ee_at
    //@spec
        requires cert_res_wf(self), rc_wf(*issuer),
        ensures
            r.is_ok() <==> issued_basic_ok(self, *issuer, now) && resources_ok(self, *issuer),
            r matches Ok(rc) ==> issued_result(rc, self, *issuer) && rc_wf(rc),
    //@/spec
    //@end

    //@fn src/repository/cert.rs :: impl Cert :: verify_router_at
    //@spec
        requires cert_res_wf(*self), rc_wf(*issuer),
        ensures
            r.is_ok() <==> issued_basic_ok(*self, *issuer, now)
                && as_issued(as_set(issuer.as_resources), self.tbs.as_resources, self.tbs.overclaim).is_some(),
    //@/spec
    //@end

    //@fn src/repository/cert.rs :: impl Cert :: verify_ta_at
    //@sub R12 "|_|" "|_e|" n=3
    //@spec
        ensures
            r.is_ok() <==> ta_ok(self, now),
            r matches Ok(rc) ==> ta_result(rc, self, tal) && (cert_res_wf(self) ==> rc_wf(rc)),
    //@/spec
    //@end

    //@fn src/repository/cert.rs :: impl Cert :: verify_ta_ref_at
    //@spec
        ensures r.is_ok() <==> ta_ok(*self, now),
    //@/spec
    //@end

    // ---- the wrappers that evaluate at the current time: the same contracts at `wall_clock()` --------------
    //@fn src/repository/cert.rs :: impl Cert :: validate_ta
    //@spec
        ensures
            r.is_ok() <==> inspect_ta_ok(self, strict) && ta_ok(self, wall_clock()),
            r matches Ok(rc) ==> ta_result(rc, self, tal) && (cert_res_wf(self) ==> rc_wf(rc)),
    //@/spec
    //@end
    //@fn src/repository/cert.rs :: impl Cert :: validate_ca
    //@spec
        requires cert_res_wf(self), rc_wf(*issuer),
        ensures
            r.is_ok() <==> inspect_ca_ok(self, strict) && issued_basic_ok(self, *issuer, wall_clock()) && resources_ok(self, *issuer),
            r matches Ok(rc) ==> issued_result(rc, self, *issuer) && rc_wf(rc),
    //@/spec
    //@end
    //@fn src/repository/cert.rs :: impl Cert :: validate_ee
    //@spec
        requires cert_res_wf(self), rc_wf(*issuer),
        ensures
            r.is_ok() <==> inspect_ee_ok(self, strict) && issued_basic_ok(self, *issuer, wall_clock()) && resources_ok(self, *issuer),
            r matches Ok(rc) ==> issued_result(rc, self, *issuer) && rc_wf(rc),
    //@/spec
    //@end
    //@fn src/repository/cert.rs :: impl Cert :: validate_detached_ee
    //@spec
        requires cert_res_wf(self), rc_wf(*issuer),
        ensures
            r.is_ok() <==> inspect_detached_ee_ok(self, strict) && issued_basic_ok(self, *issuer, wall_clock()) && resources_ok(self, *issuer),
            r matches Ok(rc) ==> issued_result(rc, self, *issuer) && rc_wf(rc),
    //@/spec
    //@end
    //@fn src/repository/cert.rs :: impl Cert :: validate_router
    //@spec
        requires cert_res_wf(*self), rc_wf(*issuer),
        ensures
            r.is_ok() <==> inspect_router_ok(*self, strict) && issued_basic_ok(*self, *issuer, wall_clock())
                && as_issued(as_set(issuer.as_resources), self.tbs.as_resources, self.tbs.overclaim).is_some(),
    //@/spec
    //@end
    //@fn src/repository/cert.rs :: impl Cert :: verify_ta
    //@spec
        ensures
            r.is_ok() <==> ta_ok(self, wall_clock()),
            r matches Ok(rc) ==> ta_result(rc, self, tal) && (cert_res_wf(self) ==> rc_wf(rc)),
    //@/spec
    //@end
    //@fn src/repository/cert.rs :: impl Cert :: verify_ta_ref
    //@spec
        ensures r.is_ok() <==> ta_ok(*self, wall_clock()),
    //@/spec
    //@end
    //@fn src/repository/cert.rs :: impl Cert :: verify_ca
    //@spec
        requires cert_res_wf(self), rc_wf(*issuer),
        ensures
            r.is_ok() <==> issued_basic_ok(self, *issuer, wall_clock()) && resources_ok(self, *issuer),
            r matches Ok(rc) ==> issued_result(rc, self, *issuer) && rc_wf(rc),
    //@/spec
    //@end
    //@fn src/repository/cert.rs :: impl Cert :: verify_ee
    //@spec
        requires cert_res_wf(self), rc_wf(*issuer),
        ensures
            r.is_ok() <==> issued_basic_ok(self, *issuer, wall_clock()) && resources_ok(self, *issuer),
            r matches Ok(rc) ==> issued_result(rc, self, *issuer) && rc_wf(rc),
    //@/spec
    //@end
    //@fn src/repository/cert.rs :: impl Cert :: verify_router
    //@spec
        requires cert_res_wf(*self), rc_wf(*issuer),
        ensures
            r.is_ok() <==> issued_basic_ok(*self, *issuer, wall_clock())
                && as_issued(as_set(issuer.as_resources), self.tbs.as_resources, self.tbs.overclaim).is_some(),
    //@/spec
    //@end
}

// =================================================================================================
// consequences
// =================================================================================================
/// resources never grow: whatever is issued is a subset of what the issuer holds
pub proof fn lemma_ip_issued_subset(issuer: ISet<int>, res: IpResources, mode: Overclaim)
    ensures ip_issued(issuer, res, mode) matches Some(s) ==> s.subset_of(issuer),
{}
pub proof fn lemma_as_issued_subset(issuer: ISet<int>, res: AsResources, mode: Overclaim)
    ensures as_issued(issuer, res, mode) matches Some(s) ==> s.subset_of(issuer),
{}
/// ... stated on a validated result
pub proof fn lemma_resources_never_grow(rc: ResourceCert, c: Cert, issuer: ResourceCert)
    requires issued_result(rc, c, issuer),
    ensures
        ip_set(rc.v4_resources).subset_of(ip_set(issuer.v4_resources)),
        ip_set(rc.v6_resources).subset_of(ip_set(issuer.v6_resources)),
        as_set(rc.as_resources).subset_of(as_set(issuer.as_resources)),
{
    lemma_ip_issued_subset(ip_set(issuer.v4_resources), c.tbs.v4_resources, c.tbs.overclaim);
    lemma_ip_issued_subset(ip_set(issuer.v6_resources), c.tbs.v6_resources, c.tbs.overclaim);
    lemma_as_issued_subset(as_set(issuer.as_resources), c.tbs.as_resources, c.tbs.overclaim);
}

/// The acceptance conditions named by the property, read off the contracts above: an issued CA / EE
/// certificate is accepted only if the signature verifies under the issuer's key, the time is inside
/// the validity window, AKI == issuer's SKI, and its own SKI is the hash of its key ...
pub proof fn lemma_acceptance_requires(c: Cert, issuer: ResourceCert, now: Time, strict: bool)
    requires
        (inspect_ca_ok(c, strict) || inspect_ee_ok(c, strict) || inspect_detached_ee_ok(c, strict) || inspect_router_ok(c, strict)),
        issued_basic_ok(c, issuer, now),
    ensures
        signed_ok(issuer.cert.tbs.subject_public_key_info, c.signed_data),
        tat(c.tbs.validity.not_before) <= tat(now) <= tat(c.tbs.validity.not_after),
        c.tbs.authority_key_identifier == Some(issuer.cert.tbs.subject_key_identifier),
        c.tbs.subject_key_identifier == ski_of(c.tbs.subject_public_key_info),
{}
/// ... and changing any single one of these inputs to a non-conforming value turns acceptance into
/// rejection (acceptance of validate_{ca,ee,detached_ee,router}_at is equivalent to a conjunction
/// containing issued_basic_ok, that of verify_*_at likewise; each conjunct is necessary)
pub proof fn lemma_single_point_change(c: Cert, issuer: ResourceCert, now: Time)
    ensures
        !signed_ok(issuer.cert.tbs.subject_public_key_info, c.signed_data) ==> !issued_basic_ok(c, issuer, now),
        tat(now) < tat(c.tbs.validity.not_before) ==> !issued_basic_ok(c, issuer, now),
        tat(now) > tat(c.tbs.validity.not_after) ==> !issued_basic_ok(c, issuer, now),
        c.tbs.authority_key_identifier != Some(issuer.cert.tbs.subject_key_identifier) ==> !issued_basic_ok(c, issuer, now),
        // a no-overclaim certificate claiming anything outside the issuer's resources is rejected
        (c.tbs.overclaim is Refuse && c.tbs.v4_resources.0 is Blocks
            && !ip_set(c.tbs.v4_resources.0->Blocks_0).subset_of(ip_set(issuer.v4_resources))) ==> !resources_ok(c, issuer),
        (c.tbs.overclaim is Refuse && c.tbs.v6_resources.0 is Blocks
            && !ip_set(c.tbs.v6_resources.0->Blocks_0).subset_of(ip_set(issuer.v6_resources))) ==> !resources_ok(c, issuer),
        (c.tbs.overclaim is Refuse && c.tbs.as_resources.0 is Blocks
            && !as_set(c.tbs.as_resources.0->Blocks_0).subset_of(as_set(issuer.as_resources))) ==> !resources_ok(c, issuer),
{}
/// a trust anchor is accepted only with a valid self-signature, inside its window, without inherited resources
pub proof fn lemma_ta_requires(c: Cert, now: Time)
    requires ta_ok(c, now),
    ensures
        signed_ok(c.tbs.subject_public_key_info, c.signed_data),
        !(c.tbs.v4_resources.0 is Inherit), !(c.tbs.v6_resources.0 is Inherit), !(c.tbs.as_resources.0 is Inherit),
        tat(c.tbs.validity.not_before) <= tat(now) <= tat(c.tbs.validity.not_after),
{}

// =================================================================================================
// vacuity guards
// =================================================================================================
/// the acceptance predicates are satisfiable in each resource mode, and give the stated result
pub proof fn reach_resources(c: Cert, issuer: ResourceCert)
    requires
        c.tbs.v4_resources.0 is Inherit,
        c.tbs.v6_resources.0 is Missing,
        c.tbs.as_resources.0 matches ResourcesChoice::Blocks(b) && as_set(b).subset_of(as_set(issuer.as_resources)) && as_wf(b),
        ip_wf(issuer.v4_resources), ip_wf(issuer.v6_resources), as_wf(issuer.as_resources),
    ensures
        // the well-formedness preconditions of the issued-certificate functions are satisfiable
        cert_res_wf(c), rc_wf(issuer),
        resources_ok(c, issuer),
        ip_issued(ip_set(issuer.v4_resources), c.tbs.v4_resources, c.tbs.overclaim) == Some(ip_set(issuer.v4_resources)),
        ip_issued(ip_set(issuer.v6_resources), c.tbs.v6_resources, c.tbs.overclaim) == Some(ISet::<int>::empty()),
        as_issued(as_set(issuer.as_resources), c.tbs.as_resources, c.tbs.overclaim)
            == Some(as_claim(c.tbs.as_resources)),
{
    let b = c.tbs.as_resources.0->Blocks_0;
    assert(as_set(b).intersect(as_set(issuer.as_resources)) =~= as_set(b));
}
/// a window [t, t] accepts t
pub proof fn reach_window(v: Validity, now: Time)
    requires v.not_before == now, v.not_after == now,
    ensures in_window(v, tat(now)),
{}

} // verus!
// Display is needed only as the bound of the `Box<dyn Display>` coercion in the two From impls above;
// the formatting code itself (write!) is never reached from a function under contract.
impl core::fmt::Display for InspectionError { fn fmt(&self, _f: &mut core::fmt::Formatter) -> core::fmt::Result { unimplemented!() } }
impl core::fmt::Display for IssuerError { fn fmt(&self, _f: &mut core::fmt::Formatter) -> core::fmt::Result { unimplemented!() } }
impl core::fmt::Display for SubjectError { fn fmt(&self, _f: &mut core::fmt::Formatter) -> core::fmt::Result { unimplemented!() } }
fn main() {}
