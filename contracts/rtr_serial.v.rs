// Unit rtr_serial (C16): RTR serial number arithmetic, src/rtr/state.rs
// Verus contracts on the extracted bodies of Serial::partial_cmp, Serial::add,
// PartialEq::eq; lemmas over the spec function rfc1982.
use vstd::prelude::*;
use core::cmp;

verus! {

//@item src/rtr/state.rs :: pub struct Serial keepderive=Clone,Copy

/// RFC 1982 comparison for SERIAL_BITS = 32, phrased on the difference
/// (b - a) mod 2^32 only (this is the property statement, not the code).
pub open spec fn rfc1982(a: u32, b: u32) -> Option<cmp::Ordering> {
    let d = (b as int - a as int) % 0x1_0000_0000;
    if d == 0 { Some(cmp::Ordering::Equal) }
    else if d < 0x8000_0000 { Some(cmp::Ordering::Less) }
    else if d > 0x8000_0000 { Some(cmp::Ordering::Greater) }
    else { None }
}

pub open spec fn rev(o: Option<cmp::Ordering>) -> Option<cmp::Ordering> {
    match o {
        Some(cmp::Ordering::Less) => Some(cmp::Ordering::Greater),
        Some(cmp::Ordering::Greater) => Some(cmp::Ordering::Less),
        x => x,
    }
}

impl Serial {
    //@fn src/rtr/state.rs :: impl cmp::PartialOrd for Serial :: partial_cmp as=partial_cmp_impl
    //@spec
        ensures r == rfc1982(self.0, other.0),
    //@/spec
    //@end

    //@fn src/rtr/state.rs :: impl Serial :: add
    //@spec
        requires other <= 0x7FFF_FFFF,
        ensures
            r.0 as int == (self.0 as int + other as int) % 0x1_0000_0000,
            other >= 1 ==> rfc1982(self.0, r.0) == Some(cmp::Ordering::Less),
            other == 0 ==> r.0 == self.0,
    //@/spec
    //@end

    //@fn src/rtr/state.rs :: impl PartialEq for Serial :: eq as=eq_impl
    //@spec
        ensures r <==> rfc1982(self.0, other.0) == Some(cmp::Ordering::Equal),
                r <==> self.0 == other.0,
    //@/spec
    //@end
}

//@item src/rtr/state.rs :: pub struct State pubfields keepderive=Clone,Copy
impl State {
    //@fn src/rtr/state.rs :: impl State :: from_parts
    //@spec
        ensures r.session == session, r.serial == serial,
    //@/spec
    //@end
    //@fn src/rtr/state.rs :: impl State :: inc
    //@spec
        ensures
            final(self).session == old(self).session,
            final(self).serial.0 as int == (old(self).serial.0 as int + 1) % 0x1_0000_0000,
            rfc1982(old(self).serial.0, final(self).serial.0) == Some(cmp::Ordering::Less),
    //@/spec
    //@end
    //@fn src/rtr/state.rs :: impl State :: session
    //@spec
        ensures r == self.session,
    //@/spec
    //@end
    //@fn src/rtr/state.rs :: impl State :: serial
    //@spec
        ensures r == self.serial,
    //@/spec
    //@end
}

// ---- lemmas of the property statement, over the spec function -------------

/// depends only on the difference modulo 2^32
proof fn lemma_difference_only(a: u32, b: u32, c: u32, d: u32)
    requires (b as int - a as int) % 0x1_0000_0000 == (d as int - c as int) % 0x1_0000_0000
    ensures rfc1982(a, b) == rfc1982(c, d)
{}

/// antisymmetric: cmp(b,a) is the reverse of cmp(a,b)
proof fn lemma_antisymmetric(a: u32, b: u32)
    ensures rfc1982(b, a) == rev(rfc1982(a, b))
{}

/// undefined exactly at distance 2^31
proof fn lemma_undefined_exactly_at_half(a: u32, b: u32)
    ensures rfc1982(a, b).is_none() <==> (b as int - a as int) % 0x1_0000_0000 == 0x8000_0000
{}

/// "less" exactly when b is 1..2^31-1 ahead; "greater" when that far behind
proof fn lemma_less_greater(a: u32, b: u32)
    ensures
        rfc1982(a, b) == Some(cmp::Ordering::Less) <==> 1 <= (b as int - a as int) % 0x1_0000_0000 <= 0x7FFF_FFFF,
        rfc1982(a, b) == Some(cmp::Ordering::Greater) <==> 1 <= (a as int - b as int) % 0x1_0000_0000 <= 0x7FFF_FFFF,
        rfc1982(a, b) == Some(cmp::Ordering::Equal) <==> a == b,
{}

// ---- vacuity guards --------------------------------------------------------
proof fn reach_add() { let s = Serial(0xFFFF_FFFFu32); assert(0x7FFF_FFFFu32 <= 0x7FFF_FFFF); }

} // verus!
fn main() {}
