// Unit slurm (C15): the drop decision and the assertion -> payload functions of src/slurm.rs,
// with the payload types of src/rtr/payload.rs.  Prefix::covers is used through its contract
// (proved by Kani unit addr_prefix: covers == address-range inclusion within one family).
use vstd::prelude::*;
use vstd::std_specs::cmp::*;

verus! {

// ---- environment: types of other modules ------------------------------------------------
//@item src/resources/asn.rs :: pub struct Asn pubfields keepderive=Clone,Copy,Eq,PartialEq
//@item src/crypto/keys.rs :: pub struct KeyIdentifier pubfields keepderive=Clone,Copy,Eq addderive=PartialEq

/// opaque stand-in for resources::addr::Prefix (its own contracts are in unit addr_prefix)
#[verifier::external_body]
#[derive(Clone, Copy)]
pub struct Prefix { _opaque: u8 }
pub uninterp spec fn covers_spec(a: Prefix, b: Prefix) -> bool;
impl Prefix {
    /// assumed here, proved in unit addr_prefix (harness prefix_covers)
    #[verifier::external_body]
    pub fn covers(self, other: Self) -> (r: bool)
        ensures r == covers_spec(self, other)
    { unimplemented!() }
}
//@item src/resources/addr.rs :: pub struct MaxLenPrefix pubfields keepderive=Clone,Copy
impl MaxLenPrefix {
    //@fn src/resources/addr.rs :: impl MaxLenPrefix :: prefix
    //@spec
        ensures r == self.prefix,
    //@/spec
    //@end
}
/// opaque stand-ins for the Bytes-backed PDU payload parts
#[verifier::external_body]
pub struct RouterKeyInfo { _opaque: u8 }
#[verifier::external_body]
pub struct ProviderAsns { _opaque: u8 }
pub uninterp spec fn rki_view(k: RouterKeyInfo) -> Seq<u8>;
pub uninterp spec fn pas_view(k: ProviderAsns) -> Seq<u8>;
impl RouterKeyInfo {
    /// derive(Clone) on a Bytes newtype: the clone holds the same octets (assumed)
    #[verifier::external_body]
    pub fn clone(&self) -> (r: Self) ensures rki_view(r) == rki_view(*self) { unimplemented!() }
}
impl ProviderAsns {
    #[verifier::external_body]
    pub fn clone(&self) -> (r: Self) ensures pas_view(r) == pas_view(*self) { unimplemented!() }
}

pub mod ax {
    use super::*;
    /// derive(PartialEq) is field-wise equality (rustc's derive expansion is trusted; for
    /// KeyIdentifier the generic AsRef<[u8]> impl compares the 20 octets: Kani harness key_identifier_eq)
    #[verifier::external_body]
    pub broadcast proof fn axiom_derived_eq_obeys()
        ensures #[trigger] <Asn as PartialEqSpec>::obeys_eq_spec(), #[trigger] <KeyIdentifier as PartialEqSpec>::obeys_eq_spec() {}
    #[verifier::external_body]
    pub broadcast proof fn axiom_asn_eq(a: Asn, b: Asn) ensures #[trigger] a.eq_spec(&b) == (a == b) {}
    #[verifier::external_body]
    pub broadcast proof fn axiom_ki_eq(a: KeyIdentifier, b: KeyIdentifier) ensures #[trigger] a.eq_spec(&b) == (a == b) {}
}
broadcast use {ax::axiom_derived_eq_obeys, ax::axiom_asn_eq, ax::axiom_ki_eq};

pub mod rtr {
    use super::*;
    //@item src/rtr/payload.rs :: pub struct RouteOrigin pubfields keepderive=Clone,Copy
    //@item src/rtr/payload.rs :: pub struct RouterKey pubfields
    //@item src/rtr/payload.rs :: pub struct Aspa pubfields
    //@item src/rtr/payload.rs :: pub enum Payload

    impl RouteOrigin {
        //@fn src/rtr/payload.rs :: impl RouteOrigin :: new
        //@spec
            ensures r.prefix == prefix, r.asn == asn,
        //@/spec
        //@end
    }
    impl RouterKey {
        //@fn src/rtr/payload.rs :: impl RouterKey :: new
        //@spec
            ensures r.key_identifier == key_identifier, r.asn == asn, r.key_info == key_info,
        //@/spec
        //@end
    }
    impl Aspa {
        //@fn src/rtr/payload.rs :: impl Aspa :: new
        //@spec
            ensures r.customer == customer, r.providers == providers,
        //@/spec
        //@end
    }
    impl Payload {
        //@fn src/rtr/payload.rs :: impl Payload :: origin
        //@spec
            ensures r == Payload::Origin(RouteOrigin { prefix, asn }),
        //@/spec
        //@end
        //@fn src/rtr/payload.rs :: impl Payload :: router_key
        //@spec
            ensures r == Payload::RouterKey(RouterKey { key_identifier, asn, key_info }),
        //@/spec
        //@end
        //@fn src/rtr/payload.rs :: impl Payload :: aspa
        //@spec
            ensures r == Payload::Aspa(Aspa { customer, providers }),
        //@/spec
        //@end
    }
}

// ---- the filters --------------------------------------------------------------------------
//@item src/slurm.rs :: pub struct PrefixFilter
//@item src/slurm.rs :: pub struct BgpsecFilter
//@item src/slurm.rs :: pub struct AspaFilter
//@item src/slurm.rs :: pub struct ValidationOutputFilters

/// property statement: a prefix filter matches when it has at least one criterion and every
/// present criterion matches (prefix covers the origin's prefix / AS number equal)
pub open spec fn prefix_filter_matches(f: PrefixFilter, o: rtr::RouteOrigin) -> bool {
    (f.prefix.is_some() || f.asn.is_some())
    && (f.prefix.is_some() ==> covers_spec(f.prefix.unwrap(), o.prefix.prefix))
    && (f.asn.is_some() ==> f.asn.unwrap() == o.asn)
}
pub open spec fn bgpsec_filter_matches(f: BgpsecFilter, k: rtr::RouterKey) -> bool {
    (f.ski.is_some() || f.asn.is_some())
    && (f.ski.is_some() ==> f.ski.unwrap() == k.key_identifier)
    && (f.asn.is_some() ==> f.asn.unwrap() == k.asn)
}
pub open spec fn aspa_filter_matches(f: AspaFilter, a: rtr::Aspa) -> bool {
    f.customer_asid.is_some() && f.customer_asid.unwrap() == a.customer
}
pub open spec fn prefix_filter_drops(f: PrefixFilter, p: rtr::Payload) -> bool {
    match p { rtr::Payload::Origin(o) => prefix_filter_matches(f, o), _ => false }
}
pub open spec fn bgpsec_filter_drops(f: BgpsecFilter, p: rtr::Payload) -> bool {
    match p { rtr::Payload::RouterKey(k) => bgpsec_filter_matches(f, k), _ => false }
}
pub open spec fn aspa_filter_drops(f: AspaFilter, p: rtr::Payload) -> bool {
    match p { rtr::Payload::Aspa(a) => aspa_filter_matches(f, a), _ => false }
}
/// "dropped exactly when one of its filters for that kind of item matches"
pub open spec fn filters_drop(fs: ValidationOutputFilters, p: rtr::Payload) -> bool {
    (exists|i: int| 0 <= i < fs.prefix@.len() && prefix_filter_drops(fs.prefix@[i], p))
    || (exists|i: int| 0 <= i < fs.bgpsec@.len() && bgpsec_filter_drops(fs.bgpsec@[i], p))
    || (fs.aspa.is_some() && exists|i: int| 0 <= i < fs.aspa.unwrap()@.len() && aspa_filter_drops(fs.aspa.unwrap()@[i], p))
}

impl PrefixFilter {
    //@fn src/slurm.rs :: impl PrefixFilter :: drop_origin
    //@spec
        ensures r == prefix_filter_matches(*self, origin),
    //@/spec
    //@closure "|self_prefix|"
        -> (b: bool) ensures b == covers_spec(self_prefix, origin.prefix.prefix)
    //@/closure
    //@closure "|self_asn|"
        -> (b: bool) ensures b == (self_asn == origin.asn)
    //@/closure
    //@end
    //@fn src/slurm.rs :: impl PrefixFilter :: drop_payload
    //@spec
        ensures r == prefix_filter_drops(*self, *payload),
    //@/spec
    //@end
}
impl BgpsecFilter {
    //@fn src/slurm.rs :: impl BgpsecFilter :: drop_router_key
    //@spec
        ensures r == bgpsec_filter_matches(*self, *key),
    //@/spec
    //@closure "|self_ski|"
        -> (b: bool) ensures b == (self_ski == key.key_identifier)
    //@/closure
    //@closure "|self_asn|"
        -> (b: bool) ensures b == (self_asn == key.asn)
    //@/closure
    //@end
    //@fn src/slurm.rs :: impl BgpsecFilter :: drop_payload
    //@spec
        ensures r == bgpsec_filter_drops(*self, *payload),
    //@/spec
    //@end
}
impl AspaFilter {
    //@fn src/slurm.rs :: impl AspaFilter :: drop_aspa
    //@spec
        ensures r == aspa_filter_matches(*self, *aspa),
    //@/spec
    //@closure "|self_asid|"
        -> (b: bool) ensures b == (self_asid == aspa.customer)
    //@/closure
    //@end
    //@fn src/slurm.rs :: impl AspaFilter :: drop_payload
    //@spec
        ensures r == aspa_filter_drops(*self, *payload),
    //@/spec
    //@end
}
impl ValidationOutputFilters {
    //@fn src/slurm.rs :: impl ValidationOutputFilters :: drop_payload
    //@spec
        ensures r == filters_drop(*self, *payload),
    //@/spec
    //@loop "for prefix in &self.prefix" iter=it_p
        invariant forall|i: int| 0 <= i < it_p.index@ ==> !prefix_filter_drops(self.prefix@[i], *payload),
    //@/loop
    //@loop "for bgpsec in &self.bgpsec" iter=it_b optional
        invariant
            forall|i: int| 0 <= i < self.prefix@.len() ==> !prefix_filter_drops(self.prefix@[i], *payload),
            forall|i: int| 0 <= i < it_b.index@ ==> !bgpsec_filter_drops(self.bgpsec@[i], *payload),
    //@/loop
    //@loop "for aspa in aspa" iter=it_a optional
        invariant
            forall|i: int| 0 <= i < self.prefix@.len() ==> !prefix_filter_drops(self.prefix@[i], *payload),
            forall|i: int| 0 <= i < self.bgpsec@.len() ==> !bgpsec_filter_drops(self.bgpsec@[i], *payload),
            self.aspa.is_some(), av == self.aspa.unwrap()@, it_a.seq().len() == av.len(), forall|i: int| 0 <= i < av.len() ==> *(#[trigger] it_a.seq()[i]) == av[i],
            forall|i: int| 0 <= i < it_a.index@ ==> !aspa_filter_drops(av[i], *payload),
    //@/loop
    //@ghost before "for aspa in aspa" optional
            let ghost av = aspa@;
    //@/ghost
    //@end
}

// ---- the file: SlurmFile::drop_payload is the entry point the property names ---------------------------
//@item src/slurm.rs :: struct SlurmVersion pubfields keepderive=Clone,Eq,PartialEq
impl SlurmVersion {
    //@fn src/slurm.rs :: impl SlurmVersion :: v1
    //@spec
        ensures r.version == 1,
    //@/spec
    //@end
    //@fn src/slurm.rs :: impl SlurmVersion :: v2
    //@spec
        ensures r.version == 2,
    //@/spec
    //@end
}
/// opaque stand-in for the assertions part of the file (irrelevant to dropping)
#[verifier::external_body]
pub struct LocallyAddedAssertions { _o: u8 }
//@item src/slurm.rs :: pub struct SlurmFile pubfields
impl SlurmFile {
    //@fn src/slurm.rs :: impl SlurmFile :: drop_payload
    //@spec
        // whatever the version field says: dropped exactly when some filter of the payload's kind matches
        ensures r == filters_drop(self.filters, *payload),
    //@/spec
    //@end
}

// ---- the assertions -----------------------------------------------------------------------
//@item src/slurm.rs :: pub struct PrefixAssertion
//@item src/slurm.rs :: pub struct AspaAssertion
//@item src/slurm.rs :: pub struct BgpsecAssertion
//@item src/slurm.rs :: pub struct Base64KeyInfo pubfields
impl BgpsecAssertion {
    //@fn src/slurm.rs :: impl BgpsecAssertion :: to_payload
    //@spec
        ensures r matches rtr::Payload::RouterKey(k) && k.key_identifier == self.ski && k.asn == self.asn
                && rki_view(k.key_info) == rki_view(self.router_public_key.0),
    //@/spec
    //@end
}
impl PrefixAssertion {
    //@fn src/slurm.rs :: impl PrefixAssertion :: to_payload
    //@spec
        ensures r == rtr::Payload::Origin(rtr::RouteOrigin { prefix: self.prefix, asn: self.asn }),
    //@/spec
    //@end
}
impl AspaAssertion {
    //@fn src/slurm.rs :: impl AspaAssertion :: to_payload
    //@spec
        ensures r matches rtr::Payload::Aspa(a) && a.customer == self.customer_asn
                && pas_view(a.providers) == pas_view(self.provider_asns),
    //@/spec
    //@end
}

// ---- vacuity guards -----------------------------------------------------------------------
proof fn reach_filters(f: ValidationOutputFilters, p: rtr::Payload)
    requires f.prefix@.len() == 0, f.bgpsec@.len() == 0, f.aspa.is_none()
    ensures !filters_drop(f, p)
{}

} // verus!
fn main() {}
