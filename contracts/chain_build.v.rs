// Unit chain_build (C03): construction of chains in src/repository/resources/chain.rs --
// OwnedChain::from_iter (sorted fast path), from_iter_unsorted (merge, sort, compact) and
// merge_or_add_block -- against the mathematical view of a block collection: the result is
// canonical and denotes exactly the union of the collected blocks.
use vstd::prelude::*;
use vstd::std_specs::cmp::*;
use vstd::std_specs::iter::IteratorSpec;
use core::cmp::Ordering;
use core::cmp::{min, max};

verus! {

//@include shared/chain_env.v.rs

pub mod lem {
use super::*;

// ---- assumed contracts of std (listed in chain_build.trusted) ---------------------------------
// The iterator contracts themselves (Vec::into_iter, vec::IntoIter::next, `for` over vec::IntoIter,
// slice::IterMut, Range) are the ones shipped with vstd (prophetic `remaining()` model).

/// `a` sorts before-or-equal `b` under the key extraction `f` (some keys the closure may return
/// for a and b compare as not-Greater)
pub open spec fn key_le<T, K: Ord, F: FnMut(&T) -> K>(f: F, a: T, b: T) -> bool {
    exists|ka: K, kb: K| #![trigger call_ensures(f, (&a,), ka), call_ensures(f, (&b,), kb)]
        call_ensures(f, (&a,), ka) && call_ensures(f, (&b,), kb) && ka.cmp_spec(&kb) != Ordering::Greater
}

pub assume_specification<T, K: Ord, F: FnMut(&T) -> K> [ <[T]>::sort_unstable_by_key ] (s: &mut [T], f: F)
    requires
        forall|i: int| #![trigger old(s)@[i]] 0 <= i < old(s)@.len() ==> call_requires(f, (&old(s)@[i],)),
    ensures
        final(s)@.to_multiset() == old(s)@.to_multiset(),
        K::obeys_cmp_spec() ==> forall|i: int, j: int| 0 <= i < j < final(s)@.len() ==> key_le(f, #[trigger] final(s)@[i], #[trigger] final(s)@[j]);

/// Dropping a `slice::IterMut` ends the borrows of the elements it has not yielded: they keep
/// their current value.
pub broadcast axiom fn axiom_iter_mut_has_resolved<'a, T>(it: core::slice::IterMut<'a, T>)
    ensures #[trigger] has_resolved(it) ==> forall|i: int| 0 <= i < it.remaining().len() ==> has_resolved(#[trigger] it.remaining()[i]);

// ---- vocabulary ----------------------------------------------------------------------------------

/// x lies in one of the first n blocks of s
pub open spec fn in_pref<T: Block>(s: Seq<T>, n: int, x: int) -> bool {
    exists|i: int| 0 <= i < n && i < s.len() && (#[trigger] s[i]).lo() <= x <= s[i].hi()
}

pub open spec fn sorted_lo<T: Block>(s: Seq<T>) -> bool {
    forall|i: int, j: int| 0 <= i < j < s.len() ==> (#[trigger] s[i]).lo() <= (#[trigger] s[j]).lo()
}

// ---- lemmas for merge_or_add_block ---------------------------------------------------------------

/// replacing block k by the hull of block k and a touching block b adds exactly b to the view
pub proof fn lemma_update_hull<T: Block>(s: Seq<T>, k: int, b: T, nb: T)
    requires
        blocks_ok(s), 0 <= k < s.len(), b.lo() <= b.hi(),
        s[k].lo() <= b.hi() + 1, b.lo() <= s[k].hi() + 1,
        nb.lo() == (if s[k].lo() <= b.lo() { s[k].lo() } else { b.lo() }),
        nb.hi() == (if s[k].hi() >= b.hi() { s[k].hi() } else { b.hi() }),
    ensures
        blocks_ok(s.update(k, nb)),
        forall|x: int| #![trigger in_view(s.update(k, nb), x)] #![trigger in_view(s, x)] in_view(s.update(k, nb), x) <==> (in_view(s, x) || b.lo() <= x <= b.hi()),
{
    let t = s.update(k, nb);
    assert forall|x: int| #![trigger in_view(t, x)] #![trigger in_view(s, x)] in_view(t, x) <==> (in_view(s, x) || b.lo() <= x <= b.hi()) by {
        if in_view(t, x) {
            let i = choose|i: int| 0 <= i < t.len() && (#[trigger] t[i]).lo() <= x <= t[i].hi();
            if i == k { if !(b.lo() <= x <= b.hi()) { assert(s[k].lo() <= x <= s[k].hi()); } }
            else { assert(s[i].lo() <= x <= s[i].hi()); }
        }
        if in_view(s, x) {
            let i = choose|i: int| 0 <= i < s.len() && (#[trigger] s[i]).lo() <= x <= s[i].hi();
            assert(t[i].lo() <= x <= t[i].hi());
        }
        if b.lo() <= x <= b.hi() { assert(t[k].lo() <= x <= t[k].hi()); }
    }
}

pub open spec fn upd_of<T: Block>(t: Seq<T>, s: Seq<T>, k: int, nb: T) -> bool {
    t.len() == s.len() && forall|i: int| 0 <= i < s.len() ==> #[trigger] t[i] == (if i == k { nb } else { s[i] })
}

/// the same for every sequence that is pointwise the update (used at a `return` inside a loop
/// over iter_mut, where the final vector is only known pointwise); the conclusions are triggered
/// by the goal terms blocks_ok(t) and in_view(t, x) themselves
pub proof fn lemma_update_hull_any<T: Block>(s: Seq<T>, k: int, b: T, nb: T)
    requires
        blocks_ok(s), 0 <= k < s.len(), b.lo() <= b.hi(),
        s[k].lo() <= b.hi() + 1, b.lo() <= s[k].hi() + 1,
        nb.lo() == (if s[k].lo() <= b.lo() { s[k].lo() } else { b.lo() }),
        nb.hi() == (if s[k].hi() >= b.hi() { s[k].hi() } else { b.hi() }),
    ensures
        forall|t: Seq<T>| #![trigger blocks_ok(t)] upd_of(t, s, k, nb) ==> blocks_ok(t),
        forall|t: Seq<T>, x: int| #![trigger in_view(t, x)] upd_of(t, s, k, nb) ==> (in_view(t, x) <==> (in_view(s, x) || b.lo() <= x <= b.hi())),
{
    lemma_update_hull(s, k, b, nb);
    assert forall|t: Seq<T>| #![trigger blocks_ok(t)] upd_of(t, s, k, nb) implies blocks_ok(t) by {
        assert(t =~= s.update(k, nb));
    }
    assert forall|t: Seq<T>, x: int| #![trigger in_view(t, x)] upd_of(t, s, k, nb) implies (in_view(t, x) <==> (in_view(s, x) || b.lo() <= x <= b.hi())) by {
        assert(t =~= s.update(k, nb));
    }
}

/// pushing a block with the bounds of b adds exactly b to the view
pub proof fn lemma_push_view<T: Block>(s: Seq<T>, b: T, nb: T)
    requires blocks_ok(s), b.lo() <= b.hi(), nb.lo() == b.lo(), nb.hi() == b.hi(),
    ensures
        blocks_ok(s.push(nb)),
        forall|x: int| #![trigger in_view(s.push(nb), x)] #![trigger in_view(s, x)] in_view(s.push(nb), x) <==> (in_view(s, x) || b.lo() <= x <= b.hi()),
{
    let t = s.push(nb);
    assert forall|x: int| #![trigger in_view(t, x)] #![trigger in_view(s, x)] in_view(t, x) <==> (in_view(s, x) || b.lo() <= x <= b.hi()) by {
        if in_view(t, x) {
            let i = choose|i: int| 0 <= i < t.len() && (#[trigger] t[i]).lo() <= x <= t[i].hi();
            if i < s.len() { assert(s[i].lo() <= x <= s[i].hi()); }
        }
        if in_view(s, x) {
            let i = choose|i: int| 0 <= i < s.len() && (#[trigger] s[i]).lo() <= x <= s[i].hi();
            assert(t[i].lo() <= x <= t[i].hi());
        }
        if b.lo() <= x <= b.hi() { assert(t[s.len() as int].lo() <= x <= t[s.len() as int].hi()); }
    }
}

// ---- lemmas for from_iter_unsorted ---------------------------------------------------------------

/// a permutation has the same view and keeps blocks_ok
pub broadcast proof fn lemma_view_perm<T: Block>(a: Seq<T>, b: Seq<T>)
    requires #[trigger] a.to_multiset() == #[trigger] b.to_multiset(),
    ensures
        a.len() == b.len(),
        blocks_ok(a) ==> blocks_ok(b),
        forall|x: int| #![trigger in_view(a, x)] #![trigger in_view(b, x)] in_view(a, x) <==> in_view(b, x),
{
    a.to_multiset_ensures();
    b.to_multiset_ensures();
    assert forall|i: int| 0 <= i < b.len() implies a.contains(#[trigger] b[i]) by {
        assert(b.contains(b[i]));
        assert(b.to_multiset().count(b[i]) > 0);
    }
    assert forall|i: int| 0 <= i < a.len() implies b.contains(#[trigger] a[i]) by {
        assert(a.contains(a[i]));
        assert(a.to_multiset().count(a[i]) > 0);
    }
    if blocks_ok(a) {
        assert forall|i: int| 0 <= i < b.len() implies (#[trigger] b[i]).lo() <= b[i].hi() by {
            assert(a.contains(b[i]));
            let k = choose|k: int| 0 <= k < a.len() && a[k] == b[i];
            assert(a[k].lo() <= a[k].hi());
        }
    }
    assert forall|x: int| #![trigger in_view(a, x)] #![trigger in_view(b, x)] in_view(a, x) <==> in_view(b, x) by {
        if in_view(a, x) {
            let i = choose|i: int| 0 <= i < a.len() && (#[trigger] a[i]).lo() <= x <= a[i].hi();
            assert(b.contains(a[i]));
            let k = choose|k: int| 0 <= k < b.len() && b[k] == a[i];
            assert(b[k].lo() <= x <= b[k].hi());
        }
        if in_view(b, x) {
            let i = choose|i: int| 0 <= i < b.len() && (#[trigger] b[i]).lo() <= x <= b[i].hi();
            assert(a.contains(b[i]));
            let k = choose|k: int| 0 <= k < a.len() && a[k] == b[i];
            assert(a[k].lo() <= x <= a[k].hi());
        }
    }
}

/// the first n blocks are in canonical form
pub open spec fn canon_pref<T: Block>(s: Seq<T>, n: int) -> bool {
    &&& n <= s.len()
    &&& forall|i: int| 0 <= i < n ==> (#[trigger] s[i]).lo() <= s[i].hi()
    &&& forall|i: int, j: int| 0 <= i < j < n ==> (#[trigger] s[i]).hi() + 1 < (#[trigger] s[j]).lo()
}

/// invariant of the compaction loop (n = tail + 1 output blocks, j input blocks consumed):
/// cur[0..n] is canonical and denotes the same set as the sorted input s[0..j]; cur[j..] is still
/// s[j..]; every block of s[j..] starts at or after the start of cur[n-1]
pub open spec fn compact_inv<T: Block>(cur: Seq<T>, s: Seq<T>, n: int, j: int) -> bool {
    &&& cur.len() == s.len()
    &&& 1 <= n <= j <= s.len()
    &&& forall|k: int| j <= k < s.len() ==> #[trigger] cur[k] == s[k]
    &&& canon_pref(cur, n)
    &&& forall|x: int| #![trigger in_pref(cur, n, x)] #![trigger in_pref(s, j, x)] in_pref(cur, n, x) <==> in_pref(s, j, x)
    &&& forall|k: int| j <= k < s.len() ==> cur[n - 1].lo() <= (#[trigger] s[k]).lo()
}

pub proof fn lemma_in_pref_succ<T: Block>(s: Seq<T>, n: int, n1: int)
    requires 0 <= n < s.len(), n1 == n + 1,
    ensures forall|x: int| #![trigger in_pref(s, n1, x)] #![trigger in_pref(s, n, x)] in_pref(s, n1, x) <==> (in_pref(s, n, x) || s[n].lo() <= x <= s[n].hi()),
{
    assert forall|x: int| #![trigger in_pref(s, n1, x)] #![trigger in_pref(s, n, x)] in_pref(s, n1, x) <==> (in_pref(s, n, x) || s[n].lo() <= x <= s[n].hi()) by {
        if in_pref(s, n1, x) {
            let i = choose|i: int| 0 <= i < n1 && i < s.len() && (#[trigger] s[i]).lo() <= x <= s[i].hi();
            if i < n { assert(in_pref(s, n, x)); }
        }
        if in_pref(s, n, x) {
            let i = choose|i: int| 0 <= i < n && i < s.len() && (#[trigger] s[i]).lo() <= x <= s[i].hi();
            assert(s[i].lo() <= x <= s[i].hi());
        }
        if s[n].lo() <= x <= s[n].hi() { assert(in_pref(s, n1, x)); }
    }
}

/// the same for every term m equal to n + 1 (loop counters are not syntactically n + 1)
pub proof fn lemma_in_pref_succ_all<T: Block>(s: Seq<T>, n: int)
    requires 0 <= n < s.len(),
    ensures forall|m: int, x: int| m == n + 1 ==> (#[trigger] in_pref(s, m, x) <==> (in_pref(s, n, x) || s[n].lo() <= x <= s[n].hi())),
{
    lemma_in_pref_succ(s, n, n + 1);
}

pub proof fn lemma_compact_init<T: Block>(s: Seq<T>)
    requires blocks_ok(s), sorted_lo(s), s.len() > 1,
    ensures compact_inv(s, s, 1, 1),
{
}

/// block j lies within cur[n-1]: nothing to do
pub proof fn lemma_compact_skip<T: Block>(cur: Seq<T>, s: Seq<T>, n: int, j: int)
    requires
        blocks_ok(s), sorted_lo(s), compact_inv(cur, s, n, j), j < s.len(),
        s[j].hi() <= cur[n - 1].hi(),
    ensures compact_inv(cur, s, n, j + 1),
{
    let j1 = j + 1;
    lemma_in_pref_succ(s, j, j1);
    assert forall|x: int| #![trigger in_pref(cur, n, x)] #![trigger in_pref(s, j1, x)] in_pref(cur, n, x) <==> in_pref(s, j1, x) by {
        if s[j].lo() <= x <= s[j].hi() {
            assert(cur[n - 1].lo() <= x <= cur[n - 1].hi());
        }
    }
}

/// block j overlaps or touches cur[n-1] and ends later: cur[n-1] is extended to its end
pub proof fn lemma_compact_merge<T: Block>(cur: Seq<T>, s: Seq<T>, n: int, j: int, nb: T)
    requires
        blocks_ok(s), sorted_lo(s), compact_inv(cur, s, n, j), j < s.len(),
        s[j].lo() <= cur[n - 1].hi() + 1, s[j].hi() > cur[n - 1].hi(),
        nb.lo() == cur[n - 1].lo(), nb.hi() == s[j].hi(),
    ensures compact_inv(cur.update(n - 1, nb), s, n, j + 1),
{
    let tail = n - 1;
    let j1 = j + 1;
    let t = cur.update(tail, nb);
    lemma_in_pref_succ(s, j, j1);
    assert forall|x: int| #![trigger in_pref(t, n, x)] #![trigger in_pref(s, j1, x)] in_pref(t, n, x) <==> in_pref(s, j1, x) by {
        if in_pref(t, n, x) {
            let i = choose|i: int| 0 <= i < n && i < t.len() && (#[trigger] t[i]).lo() <= x <= t[i].hi();
            if i == tail {
                if x <= cur[tail].hi() { assert(cur[tail].lo() <= x <= cur[tail].hi()); assert(in_pref(cur, n, x)); }
            } else {
                assert(cur[i].lo() <= x <= cur[i].hi()); assert(in_pref(cur, n, x));
            }
        }
        if in_pref(s, j, x) {
            assert(in_pref(cur, n, x));
            let i = choose|i: int| 0 <= i < n && i < cur.len() && (#[trigger] cur[i]).lo() <= x <= cur[i].hi();
            assert(t[i].lo() <= x <= t[i].hi());
        }
        if s[j].lo() <= x <= s[j].hi() { assert(t[tail].lo() <= x <= t[tail].hi()); }
    }
    assert(canon_pref(t, n)) by {
        assert forall|i: int, k: int| 0 <= i < k < n implies (#[trigger] t[i]).hi() + 1 < (#[trigger] t[k]).lo() by {
            assert(cur[i].hi() + 1 < cur[k].lo());
        }
    }
}

/// block j starts beyond the successor of cur[n-1]: (a copy of) it becomes the new last block
pub proof fn lemma_compact_move<T: Block>(cur: Seq<T>, s: Seq<T>, n: int, j: int, c: T)
    requires
        blocks_ok(s), sorted_lo(s), compact_inv(cur, s, n, j), j < s.len(),
        s[j].lo() > cur[n - 1].hi() + 1,
        c.lo() == s[j].lo(), c.hi() == s[j].hi(),
    ensures
        compact_inv(cur.update(n, c), s, n + 1, j + 1),
{
    let tail = n - 1;
    let n1 = n + 1;
    let j1 = j + 1;
    let t = cur.update(n, c);
    lemma_in_pref_succ(s, j, j1);
    lemma_in_pref_succ(t, n, n1);
    assert forall|x: int| #![trigger in_pref(t, n, x)] #![trigger in_pref(cur, n, x)] in_pref(t, n, x) <==> in_pref(cur, n, x) by {
        if in_pref(t, n, x) {
            let i = choose|i: int| 0 <= i < n && i < t.len() && (#[trigger] t[i]).lo() <= x <= t[i].hi();
            assert(cur[i].lo() <= x <= cur[i].hi());
        }
        if in_pref(cur, n, x) {
            let i = choose|i: int| 0 <= i < n && i < cur.len() && (#[trigger] cur[i]).lo() <= x <= cur[i].hi();
            assert(t[i].lo() <= x <= t[i].hi());
        }
    }
    assert(canon_pref(t, n1)) by {
        assert forall|i: int, k: int| 0 <= i < k < n1 implies (#[trigger] t[i]).hi() + 1 < (#[trigger] t[k]).lo() by {
            if k == n {
                if i < tail { assert(cur[i].hi() + 1 < cur[tail].lo()); }
                assert(cur[tail].lo() <= cur[tail].hi());
            } else {
                assert(cur[i].hi() + 1 < cur[k].lo());
            }
        }
    }
    assert forall|x: int| #![trigger in_pref(t, n1, x)] #![trigger in_pref(s, j1, x)] in_pref(t, n1, x) <==> in_pref(s, j1, x) by {}
}

/// the same when the new last block is already in place (n == j)
pub proof fn lemma_compact_move_same<T: Block>(cur: Seq<T>, s: Seq<T>, n: int, j: int)
    requires
        blocks_ok(s), sorted_lo(s), compact_inv(cur, s, n, j), j < s.len(), n == j,
        s[j].lo() > cur[n - 1].hi() + 1,
    ensures
        compact_inv(cur, s, n + 1, j + 1),
{
    lemma_compact_move(cur, s, n, j, cur[j]);
    assert(cur.update(n, cur[j]) =~= cur);
}

/// one iteration of the compaction loop, all cases; the conclusions are stated for every integer
/// term equal to the new counters so that they match the loop invariant syntactically
pub proof fn lemma_compact_step<T: Block>(cur: Seq<T>, s: Seq<T>, t: int, j: int)
    requires blocks_ok(s), sorted_lo(s), compact_inv(cur, s, t + 1, j), j < s.len(),
    ensures
        s[j].lo() <= cur[t].hi() + 1 && s[j].hi() > cur[t].hi() ==>
            forall|nb: T, n2: int, j2: int| #![trigger compact_inv(cur.update(t, nb), s, n2, j2)]
                nb.lo() == cur[t].lo() && nb.hi() == s[j].hi() && n2 == t + 1 && j2 == j + 1 ==> compact_inv(cur.update(t, nb), s, n2, j2),
        s[j].lo() <= cur[t].hi() + 1 && s[j].hi() <= cur[t].hi() ==>
            forall|n2: int, j2: int| #![trigger compact_inv(cur, s, n2, j2)] n2 == t + 1 && j2 == j + 1 ==> compact_inv(cur, s, n2, j2),
        s[j].lo() > cur[t].hi() + 1 ==>
            forall|c: T, t1: int, n2: int, j2: int| #![trigger compact_inv(cur.update(t1, c), s, n2, j2)]
                cloned(s[j], c) && t1 == t + 1 && n2 == t + 2 && j2 == j + 1 ==> compact_inv(cur.update(t1, c), s, n2, j2),
        s[j].lo() > cur[t].hi() + 1 && t + 1 == j ==>
            forall|n2: int, j2: int| #![trigger compact_inv(cur, s, n2, j2)] n2 == t + 2 && j2 == j + 1 ==> compact_inv(cur, s, n2, j2),
{
    T::ord_law();
    if s[j].lo() <= cur[t].hi() + 1 {
        if s[j].hi() > cur[t].hi() {
            assert forall|nb: T, n2: int, j2: int| #![trigger compact_inv(cur.update(t, nb), s, n2, j2)]
                nb.lo() == cur[t].lo() && nb.hi() == s[j].hi() && n2 == t + 1 && j2 == j + 1 implies compact_inv(cur.update(t, nb), s, n2, j2) by {
                lemma_compact_merge(cur, s, t + 1, j, nb);
            }
        } else {
            lemma_compact_skip(cur, s, t + 1, j);
        }
    } else {
        assert forall|c: T, t1: int, n2: int, j2: int| #![trigger compact_inv(cur.update(t1, c), s, n2, j2)]
            cloned(s[j], c) && t1 == t + 1 && n2 == t + 2 && j2 == j + 1 implies compact_inv(cur.update(t1, c), s, n2, j2) by {
            lemma_compact_move(cur, s, t + 1, j, c);
        }
        if t + 1 == j { lemma_compact_move_same(cur, s, t + 1, j); }
    }
}

/// at the end of the loop the first n blocks are the result
pub broadcast proof fn lemma_compact_done<T: Block>(cur: Seq<T>, s: Seq<T>, n: int, j: int)
    requires #[trigger] compact_inv(cur, s, n, j), j == s.len(),
    ensures
        canonical(cur.take(n)),
        forall|x: int| #![trigger in_view(cur.take(n), x)] #![trigger in_view(s, x)] in_view(cur.take(n), x) <==> in_view(s, x),
{
    let t = cur.take(n);
    assert forall|x: int| #![trigger in_view(t, x)] #![trigger in_view(s, x)] in_view(t, x) <==> in_view(s, x) by {
        if in_view(t, x) {
            let i = choose|i: int| 0 <= i < t.len() && (#[trigger] t[i]).lo() <= x <= t[i].hi();
            assert(cur[i].lo() <= x <= cur[i].hi());
            assert(in_pref(cur, n, x));
            assert(in_pref(s, j, x));
        }
        if in_view(s, x) {
            assert(in_pref(s, j, x));
            assert(in_pref(cur, n, x));
            let i = choose|i: int| 0 <= i < n && i < cur.len() && (#[trigger] cur[i]).lo() <= x <= cur[i].hi();
            assert(t[i].lo() <= x <= t[i].hi());
        }
    }
    assert(canonical(t)) by {
        assert forall|i: int| 0 <= i < t.len() implies (#[trigger] t[i]).lo() <= t[i].hi() by { assert(cur[i].lo() <= cur[i].hi()); }
        assert forall|i: int, k: int| 0 <= i < k < t.len() implies (#[trigger] t[i]).hi() + 1 < (#[trigger] t[k]).lo() by {
            assert(cur[i].hi() + 1 < cur[k].lo());
        }
    }
}

// ---- lemmas for OwnedChain::from_iter (sorted fast path) -----------------------------------------

/// t is pre with its last block replaced by a block with bounds [lo, hi]
pub open spec fn set_last_of<T: Block>(t: Seq<T>, pre: Seq<T>, lo: int, hi: int) -> bool {
    &&& pre.len() > 0
    &&& t.len() == pre.len()
    &&& forall|i: int| 0 <= i < pre.len() - 1 ==> #[trigger] t[i] == pre[i]
    &&& t[pre.len() - 1].lo() == lo
    &&& t[pre.len() - 1].hi() == hi
}

/// t is pre followed by a block with bounds [lo, hi]
pub open spec fn push_of<T: Block>(t: Seq<T>, pre: Seq<T>, lo: int, hi: int) -> bool {
    &&& t.len() == pre.len() + 1
    &&& forall|i: int| 0 <= i < pre.len() ==> #[trigger] t[i] == pre[i]
    &&& t[pre.len() as int].lo() == lo
    &&& t[pre.len() as int].hi() == hi
}

/// t is canonical and denotes pre extended by the interval of b
pub open spec fn canon_ext<T: Block>(t: Seq<T>, pre: Seq<T>, b: T) -> bool {
    canonical(t) && forall|x: int| #![trigger in_view(t, x)] #![trigger in_view(pre, x)] in_view(t, x) <==> (in_view(pre, x) || b.lo() <= x <= b.hi())
}

/// the last block of pre is extended to the end of b (overlap or adjacency)
pub open spec fn step_extend<T: Block>(t: Seq<T>, pre: Seq<T>, b: T) -> bool {
    pre.len() > 0 && pre.last().lo() <= b.lo() <= pre.last().hi() + 1 && b.hi() >= pre.last().hi()
    && set_last_of(t, pre, pre.last().lo(), b.hi())
}

/// a block with the bounds of b is appended (b starts beyond the successor of the last block)
pub open spec fn step_append<T: Block>(t: Seq<T>, pre: Seq<T>, b: T) -> bool {
    (pre.len() == 0 || b.lo() > pre.last().hi() + 1) && push_of(t, pre, b.lo(), b.hi())
}

pub proof fn lemma_step_extend<T: Block>(t: Seq<T>, pre: Seq<T>, b: T)
    requires canonical(pre), b.lo() <= b.hi(), step_extend(t, pre, b),
    ensures canon_ext(t, pre, b),
{
    let n = pre.len() as int;
    let l = n - 1;
    assert forall|i: int, j: int| 0 <= i < j < t.len() implies (#[trigger] t[i]).hi() + 1 < (#[trigger] t[j]).lo() by {
        assert(t[i] == pre[i]);
        assert(pre[i].hi() + 1 < pre[j].lo());
    }
    assert forall|i: int| 0 <= i < t.len() implies (#[trigger] t[i]).lo() <= t[i].hi() by {
        if i < l { assert(t[i] == pre[i]); } else { assert(pre[l].lo() <= pre[l].hi()); }
    }
    assert forall|x: int| #![trigger in_view(t, x)] #![trigger in_view(pre, x)] in_view(t, x) <==> (in_view(pre, x) || b.lo() <= x <= b.hi()) by {
        if in_view(t, x) {
            let i = choose|i: int| 0 <= i < t.len() && (#[trigger] t[i]).lo() <= x <= t[i].hi();
            if i < l { assert(t[i] == pre[i]); assert(pre[i].lo() <= x <= pre[i].hi()); }
            else if x <= pre[l].hi() { assert(pre[l].lo() <= x <= pre[l].hi()); }
        }
        if in_view(pre, x) {
            let i = choose|i: int| 0 <= i < pre.len() && (#[trigger] pre[i]).lo() <= x <= pre[i].hi();
            if i < l { assert(t[i] == pre[i]); }
            assert(t[i].lo() <= x <= t[i].hi());
        }
        if b.lo() <= x <= b.hi() { assert(t[l].lo() <= x <= t[l].hi()); }
    }
}

pub proof fn lemma_step_append<T: Block>(t: Seq<T>, pre: Seq<T>, b: T)
    requires canonical(pre), b.lo() <= b.hi(), step_append(t, pre, b),
    ensures canon_ext(t, pre, b),
{
    let n = pre.len() as int;
    assert forall|i: int, j: int| 0 <= i < j < t.len() implies (#[trigger] t[i]).hi() + 1 < (#[trigger] t[j]).lo() by {
        assert(t[i] == pre[i]);
        if j < n { assert(t[j] == pre[j]); assert(pre[i].hi() + 1 < pre[j].lo()); }
        else if i < n - 1 { assert(pre[i].hi() + 1 < pre[n - 1].lo()); assert(pre[n - 1].lo() <= pre[n - 1].hi()); }
    }
    assert forall|i: int| 0 <= i < t.len() implies (#[trigger] t[i]).lo() <= t[i].hi() by {
        if i < n { assert(t[i] == pre[i]); }
    }
    assert forall|x: int| #![trigger in_view(t, x)] #![trigger in_view(pre, x)] in_view(t, x) <==> (in_view(pre, x) || b.lo() <= x <= b.hi()) by {
        if in_view(t, x) {
            let i = choose|i: int| 0 <= i < t.len() && (#[trigger] t[i]).lo() <= x <= t[i].hi();
            if i < n { assert(t[i] == pre[i]); assert(pre[i].lo() <= x <= pre[i].hi()); }
        }
        if in_view(pre, x) {
            let i = choose|i: int| 0 <= i < pre.len() && (#[trigger] pre[i]).lo() <= x <= pre[i].hi();
            assert(t[i] == pre[i]);
            assert(t[i].lo() <= x <= t[i].hi());
        }
        if b.lo() <= x <= b.hi() { assert(t[n].lo() <= x <= t[n].hi()); }
    }
}

/// one iteration of the sorted path of from_iter: the block b starts at or after the start of
/// the last block of the canonical chain pre.  The conclusions hold for every sequence t that is
/// pointwise the new vector and are triggered by the goal terms canonical(t) / in_view(t, x).
pub proof fn lemma_sorted_step<T: Block>(pre: Seq<T>, b: T)
    requires canonical(pre), b.lo() <= b.hi(),
    ensures
        forall|t: Seq<T>| #![trigger canonical(t)] step_extend(t, pre, b) || step_append(t, pre, b) ==> canonical(t),
        forall|t: Seq<T>, x: int| #![trigger in_view(t, x)] step_extend(t, pre, b) || step_append(t, pre, b)
            ==> (in_view(t, x) <==> (in_view(pre, x) || b.lo() <= x <= b.hi())),
        // b lies within the last block
        pre.len() > 0 && pre.last().lo() <= b.lo() && b.hi() <= pre.last().hi() ==>
            forall|x: int| b.lo() <= x <= b.hi() ==> #[trigger] in_view(pre, x),
{
    let n = pre.len() as int;
    assert forall|t: Seq<T>| #![trigger canonical(t)] step_extend(t, pre, b) || step_append(t, pre, b) implies canonical(t) by {
        if step_extend(t, pre, b) { lemma_step_extend(t, pre, b); } else { lemma_step_append(t, pre, b); }
    }
    assert forall|t: Seq<T>, x: int| #![trigger in_view(t, x)] step_extend(t, pre, b) || step_append(t, pre, b)
            implies (in_view(t, x) <==> (in_view(pre, x) || b.lo() <= x <= b.hi())) by {
        if step_extend(t, pre, b) { lemma_step_extend(t, pre, b); } else { lemma_step_append(t, pre, b); }
    }
    if pre.len() > 0 && pre.last().lo() <= b.lo() && b.hi() <= pre.last().hi() {
        assert forall|x: int| b.lo() <= x <= b.hi() implies #[trigger] in_view(pre, x) by {
            assert(pre[n - 1].lo() <= x <= pre[n - 1].hi());
        }
    }
}

/// the view of a non-empty sequence is its first block plus the view of the rest
pub broadcast proof fn lemma_view_drop_first<T: Block>(r: Seq<T>, x: int)
    requires r.len() > 0,
    ensures in_view(r, x) <==> (r[0].lo() <= x <= r[0].hi() || #[trigger] in_view(r.drop_first(), x)),
{
    let d = r.drop_first();
    if in_view(r, x) {
        let i = choose|i: int| 0 <= i < r.len() && (#[trigger] r[i]).lo() <= x <= r[i].hi();
        if i > 0 { assert(d[i - 1].lo() <= x <= d[i - 1].hi()); }
    }
    if in_view(d, x) {
        let i = choose|i: int| 0 <= i < d.len() && (#[trigger] d[i]).lo() <= x <= d[i].hi();
        assert(r[i + 1].lo() <= x <= r[i + 1].hi());
    }
}

pub proof fn lemma_push_view_all<T: Block>(s: Seq<T>, b: T)
    requires blocks_ok(s), b.lo() <= b.hi(),
    ensures
        forall|nb: T| nb.lo() == b.lo() && nb.hi() == b.hi() ==> blocks_ok(#[trigger] s.push(nb))
            && (forall|x: int| #![trigger in_view(s.push(nb), x)] #![trigger in_view(s, x)] in_view(s.push(nb), x) <==> (in_view(s, x) || b.lo() <= x <= b.hi())),
{
    assert forall|nb: T| nb.lo() == b.lo() && nb.hi() == b.hi() implies blocks_ok(#[trigger] s.push(nb))
            && (forall|x: int| #![trigger in_view(s.push(nb), x)] #![trigger in_view(s, x)] in_view(s.push(nb), x) <==> (in_view(s, x) || b.lo() <= x <= b.hi())) by {
        lemma_push_view(s, b, nb);
    }
}

} // mod lem
pub use lem::*;
broadcast use lem::axiom_iter_mut_has_resolved;

impl<T: Block> OwnedChain<T> {
    //@fn src/repository/resources/chain.rs :: impl<T: Block> OwnedChain<T> :: from_vec_unchecked
    //@spec
        ensures r.0@ == vec@,
    //@/spec
    //@end

    //@fn src/repository/resources/chain.rs :: impl<T: Block> OwnedChain<T> :: empty
    //@spec
        ensures r.0@ == Seq::<T>::empty(),
    //@/spec
    //@end

    #[verifier::allow_complex_invariants]
    //@fn src/repository/resources/chain.rs :: impl<T: Block> iter::FromIterator<T> for OwnedChain<T> :: from_iter as=from_iter_impl loopiso
    //@sigsub R12 "<I>(iter: I)" "(iter: Vec<T>)"
    //@sigsub R12 "where I: IntoIterator<Item=T>" ""
    //@spec
        requires blocks_ok(iter@),
        ensures
            canonical(r.0@),
            forall|x: int| #![trigger in_view(r.0@, x)] #![trigger in_view(iter@, x)] in_view(r.0@, x) <==> in_view(iter@, x),
    //@/spec
    //@ghost begin
        broadcast use lem::lemma_view_drop_first;
        proof { T::ord_law(); }
        let ghost bs = iter@;
    //@/ghost
    //@ghost after "while let Some(block) = iter.next() {"
            proof { lemma_sorted_step(res@, block); }
    //@/ghost
    //@loop "while let Some(block) = iter.next()"
            invariant
                iter.obeys_prophetic_iter_laws(),
                iter.decrease() is Some,
                blocks_ok(iter.remaining()),
                canonical(res@),
                forall|x: int| #![trigger in_view(bs, x)] #![trigger in_view(res@, x)] #![trigger in_view(iter.remaining(), x)]
                    in_view(bs, x) <==> (in_view(res@, x) || in_view(iter.remaining(), x)),
            ensures
                iter.remaining().len() == 0,
            decreases iter.decrease()->0
    //@/loop
    //@end
}

//@fn src/repository/resources/chain.rs :: - :: from_iter_unsorted loopiso
//@sigsub R12 ", I: Iterator<Item=T>" ""
//@sigsub R12 "iter: I," "iter: std::vec::IntoIter<T>,"
//@sub R2 "|block| block.min()" "|block| -> (k: T::Item) ensures T::val(k) == block.lo() { block.min() }"
//@spec
    requires
        blocks_ok(res@),
        block.lo() <= block.hi(),
        iter.obeys_prophetic_iter_laws(),
        iter.decrease() is Some,
        blocks_ok(iter.remaining()),
    ensures
        canonical(r.0@),
        forall|x: int| #![trigger in_view(r.0@, x)] #![trigger in_view(res@, x)] #![trigger in_view(iter.remaining(), x)] in_view(r.0@, x) <==> (in_view(res@, x) || block.lo() <= x <= block.hi() || in_view(iter.remaining(), x)),
//@/spec
//@ghost begin
    broadcast use {lem::lemma_view_perm, lem::lemma_compact_done};
    proof { T::ord_law(); }
    let ghost res0 = res@;
    let ghost b0 = block;
//@/ghost
//@loop "for block in iter" iter=it
        invariant
            it.seq() == iter.remaining(),
            blocks_ok(res@),
            forall|x: int| #![trigger in_view(res@, x)] #![trigger in_view(res0, x)] #![trigger in_pref(it.seq(), it.index@, x)] in_view(res@, x) <==> (in_view(res0, x) || b0.lo() <= x <= b0.hi() || in_pref(it.seq(), it.index@, x)),
//@/loop
//@ghost after "for block in iter {"
        proof { lemma_in_pref_succ_all(it.seq(), it.index@); }
//@/ghost
//@ghost before "if res.len() > 1 {"
    let ghost s = res@;
    proof {
        assert(sorted_lo(s));
        assert(forall|x: int| #![trigger in_pref(iter.remaining(), iter.remaining().len() as int, x)] #![trigger in_view(iter.remaining(), x)] in_pref(iter.remaining(), iter.remaining().len() as int, x) <==> in_view(iter.remaining(), x));
        if s.len() > 1 { lemma_compact_init(s); }
    }
//@/ghost
//@loop "for j in 1..res.len()" iter=jt
        invariant
            jt.seq().len() == s.len() - 1,
            forall|i: int| 0 <= i < jt.seq().len() ==> jt.seq()[i] == 1 + i,
            compact_inv(res@, s, tail + 1, jt.index@ + 1),
            match tail_next { Some(nx) => T::val(nx) == res@[tail as int].hi() + 1, None => res@[tail as int].hi() == T::item_max() },
//@/loop
//@ghost after "for j in 1..res.len() {"
            proof { lemma_compact_step(res@, s, tail as int, j as int); }
//@/ghost
//@end

//@fn src/repository/resources/chain.rs :: - :: merge_or_add_block loopiso
//@spec
    requires
        blocks_ok(old(res)@),
        block.lo() <= block.hi(),
    ensures
        blocks_ok(final(res)@),
        forall|x: int| #![trigger in_view(final(res)@, x)] #![trigger in_view(old(res)@, x)] in_view(final(res)@, x) <==> (in_view(old(res)@, x) || block.lo() <= x <= block.hi()),
//@/spec
//@ghost begin
    proof { T::ord_law(); }
//@/ghost
//@loop "for elem in res.iter_mut()" iter=it
        invariant
            it.seq().len() == old(res)@.len(),
            it.iter.remaining() == it.seq().skip(it.index@),
            forall|i: int| 0 <= i < it.seq().len() ==> *(#[trigger] it.seq()[i]) == old(res)@[i],
            forall|i: int| 0 <= i < it.index@ ==> *final(#[trigger] it.seq()[i]) == old(res)@[i],
//@/loop
//@ghost after "*elem = sum;"
            proof {
                let k = it.index@;
                assert(forall|j: int| k < j < it.seq().len() ==> #[trigger] it.seq()[j] == it.iter.remaining().drop_first()[j - k - 1]);
                lemma_update_hull_any(old(res)@, k, block, *final(elem));
            }
//@/ghost
//@ghost before "res.push("
    proof {
        assert(res@ =~= old(res)@);
        lemma_push_view_all(old(res)@, block);
    }
//@/ghost
//@end

proof fn reach_build<T: Block>(b: T)
    requires b.lo() <= b.hi(),
{
    let s: Seq<T> = seq![b, b];
    assert(blocks_ok(s));
    assert(blocks_ok(Seq::<T>::empty()));
}

} // verus!
fn main() {}
