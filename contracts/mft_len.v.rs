// Unit mft_len (C14): "the reported length equals the number of entries": the counting loop of
// ManifestContent::take_from (src/repository/manifest.rs).  The loop is the innermost closure
//     cons.capture(|cons| { while let Some(()) = FileAndHash::skip_opt_in(cons)? { len += 1; } Ok(()) })
// which mutates the captured local `len` two closures deep - Verus rejects such closures, so the block is LIFTED
// (R13): text unchanged except that the captured `len` is the `&mut usize` parameter (`len += 1` -> `*len += 1`).
// Verified: when the loop ends with Ok, `len` has grown by exactly the number of entries skipped - each of which
// passed the file-name check (contract of skip_opt_in as proved for its closure in unit mft_entry) - and the
// addition cannot overflow.  The latter needs a physical fact, stated as precondition: the content being decoded
// is in memory, so it has at most usize::MAX octets, and every entry occupies at least one octet.
// Assumed (glue dropped by the lifting, listed in .trusted): cons.capture / take_sequence run the closure on the
// file list and capture exactly what it walked over; `len` starts at 0; FileListIter::next yields one entry per
// captured entry (take_opt_from over the captured octets).  The thisUpdate <= nextUpdate test sits in the enclosing
// closure next to these nested closures and stays out of reach (not_decided).
use vstd::prelude::*;

verus! {

//@include shared/mft_vocab.v.rs

#[verifier::external_body]
pub struct DecodeError { _o: u8 }
/// bcder::decode::Constructed positioned in the file list
#[verifier::external_body]
pub struct Constructed { _o: u8 }
impl Constructed {
    /// ghost: the file names of the entries walked over so far
    pub uninterp spec fn names(&self) -> Seq<Seq<u8>>;
    /// ghost: octets of content not yet consumed (the source is in memory: at most usize::MAX)
    pub uninterp spec fn remaining(&self) -> nat;
}

pub struct FileAndHash;
impl FileAndHash {
    /// FileAndHash::skip_opt_in = cons.take_opt_sequence(<closure>): the closure is proved in unit mft_entry
    /// (Ok only for a valid RFC 9286 name); assumed glue: None at the end of the list with nothing consumed,
    /// Some(()) after one entry of at least one octet.
    #[verifier::external_body]
    pub fn skip_opt_in(cons: &mut Constructed) -> (r: Result<Option<()>, DecodeError>)
        ensures
            r matches Ok(Some(_)) ==> final(cons).names().len() == old(cons).names().len() + 1
                && final(cons).names().drop_last() == old(cons).names()
                && valid_mft_name(final(cons).names().last())
                && final(cons).remaining() < old(cons).remaining(),
            r matches Ok(None) ==> final(cons).names() == old(cons).names() && final(cons).remaining() == old(cons).remaining(),
    { unimplemented!() }
}

pub struct ManifestContent;
impl ManifestContent {
    #[verifier::loop_isolation(false)]
    //@fn src/repository/manifest.rs :: impl ManifestContent :: take_from
    //@lift "cons.capture(|cons|"
    //@sig
    fn count_entries(cons: &mut Constructed, len: &mut usize) -> Result<(), DecodeError>
    //@/sig
    //@sub R13 "len += 1;" "*len += 1;"
    //@spec
        requires
            *old(len) + old(cons).remaining() <= usize::MAX,
        ensures
            r is Ok ==> {
                &&& final(cons).names().len() >= old(cons).names().len()
                &&& *final(len) - *old(len) == final(cons).names().len() - old(cons).names().len()
                &&& final(cons).names().subrange(0, old(cons).names().len() as int) == old(cons).names()
                &&& forall|i: int| old(cons).names().len() <= i < final(cons).names().len() ==> valid_mft_name(#[trigger] final(cons).names()[i])
            },
    //@/spec
    //@ghost after "*len += 1;"
                        proof {
                            let k = old(cons).names().len() as int;
                            let prev = cons.names().drop_last();
                            assert(cons.names().subrange(0, k) =~= prev.subrange(0, k));
                            assert forall|i: int| k <= i < cons.names().len() implies valid_mft_name(#[trigger] cons.names()[i]) by {
                                if i < cons.names().len() - 1 { assert(prev[i] == cons.names()[i]); }
                            }
                        }
    //@/ghost
    //@loop "while let Some(())"
        invariant
            *len + cons.remaining() <= usize::MAX,
            cons.names().len() >= old(cons).names().len(),
            *len - *old(len) == cons.names().len() - old(cons).names().len(),
            cons.names().subrange(0, old(cons).names().len() as int) == old(cons).names(),
            forall|i: int| old(cons).names().len() <= i < cons.names().len() ==> valid_mft_name(#[trigger] cons.names()[i]),
        decreases cons.remaining(),
    //@/loop
    //@end
}

proof fn reach_count(c: Constructed, n: usize)
    requires n + c.remaining() <= usize::MAX
{}

} // verus!
fn main() {}
