// Unit uri_algebra.k (C12): BOUNDED evidence (kind Kb) for the two things the Verus unit uri_algebra
// takes on trust about the parsing side of src/uri.rs:
//   * the assumed contracts of `Rsync::check_path` (== positional predicate `path_ok`) and of
//     `check_uri_ascii` (== every octet permitted), and
//   * that the data-structure invariants `wf_rsync` / `wf_https` are exactly what `from_bytes` accepts
//     and establishes (so a result satisfying the invariant really "re-parses to the same value").
// The predicates below are executable transcriptions of the spec functions of uri_algebra.v.rs with the
// same names.  Nothing here is counted as proved beyond the stated bound.
//@features ca,rtr,slurm

//@append src/uri.rs
#[cfg(any(kani, verif_replay))]
#[allow(dead_code, unused)]
mod verif_uri_algebra {
    use super::*;
    use crate::verif_support::{assume, reach};

    fn permitted(ch: u8) -> bool {
        ch == 0x21 || (ch >= 0x24 && ch <= 0x3b) || ch == 0x3d || (ch >= 0x41 && ch <= 0x5a) || ch == 0x5f
            || (ch >= 0x61 && ch <= 0x7a) || ch == 0x7e
    }
    fn lower(c: u8) -> u8 { if c >= 0x41 && c <= 0x5a { c + 0x20 } else { c } }
    /// `path_ok_from(b[..n], s)` of uri_algebra.v.rs: no empty segment except a trailing one, no "." / ".." segment
    fn path_ok_from<const N: usize>(b: &[u8; N], n: usize, s: usize) -> bool {
        let mut ok = true;
        let mut i = s;
        while i < N {
            if i < n {
                let seg_start = i == s || b[i - 1] == b'/';
                if b[i] == b'/' && seg_start { ok = false; }          // empty segment in front of a '/'
                if seg_start && b[i] == b'.' {
                    let end1 = i + 1 == n || b[i + 1] == b'/';
                    let end2 = i + 1 < n && b[i + 1] == b'.' && (i + 2 == n || b[i + 2] == b'/');
                    if end1 || end2 { ok = false; }                    // dot segment
                }
            }
            i += 1;
        }
        ok
    }
    fn all_permitted<const N: usize>(b: &[u8; N], n: usize) -> bool {
        let mut ok = true;
        let mut i = 0;
        while i < N { if i < n && !permitted(b[i]) { ok = false; } i += 1; }
        ok
    }
    /// Bytes over a leaked array: no promotable vtable, cheapest Bytes for CBMC
    fn mkbytes<const N: usize>(a: [u8; N], len: usize) -> Bytes {
        let s: &'static [u8; N] = Box::leak(Box::new(a));
        Bytes::from_static(&s[..len])
    }

    //@harness check_path_is_path_ok Kb fn=Rsync::check_path bound="all octet strings of length <= 6" timeout=1500
    verif_harness!{ #[kani::unwind(9)] check_path_is_path_ok; |t: [u8; 6], n: usize| {
        assume(n <= 6);
        let r = Rsync::check_path(&t[..n]);
        assert!(r.is_ok() == path_ok_from(&t, n, 0), "check_path accepts exactly path_ok");
    }}

    //@harness check_uri_ascii_is_all_permitted Kb fn=check_uri_ascii bound="all octet strings of length <= 6" timeout=1500
    verif_harness!{ #[kani::unwind(9)] check_uri_ascii_is_all_permitted; |t: [u8; 6], n: usize| {
        assume(n <= 6);
        let r = check_uri_ascii(&t[..n]);
        assert!(r.is_ok() == all_permitted(&t, n), "check_uri_ascii accepts exactly the permitted characters");
        if let Err(e) = r { assert!(e == Error::InvalidCharacters, "error kind"); }
    }}

    //@harness rsync_from_bytes_iff_wf Kb fn=Rsync::from_bytes bound="8 symbolic scheme octets are NOT varied: rsync:// (any case of the letters) followed by at most 5 symbolic octets" timeout=1800 thorough
    verif_harness!{ #[kani::unwind(16)] rsync_from_bytes_iff_wf; |t: [u8; 5], n: usize, up: u8| {
        assume(n <= 5);
        // letter case of the scheme chosen by 5 bits of `up`
        let c = |k: u8, ch: u8| if up & (1 << k) != 0 { ch - 0x20 } else { ch };
        let a = [c(0, b'r'), c(1, b's'), c(2, b'y'), c(3, b'n'), c(4, b'c'), b':', b'/', b'/', t[0], t[1], t[2], t[3], t[4]];
        let len = 8 + n;
        // the offsets wf_rsync determines: just behind the first and the second '/' at or after index 8
        let mut ms = 0usize;
        let mut ps = 0usize;
        let mut i = 8;
        while i < 13 {
            if i < len && a[i] == b'/' {
                if ms == 0 { ms = i + 1; } else if ps == 0 { ps = i + 1; }
            }
            i += 1;
        }
        let wf = ms >= 10 && ps >= ms + 2 && all_permitted(&a, len) && path_ok_from(&a, len, 8);
        let r = Rsync::from_bytes(mkbytes(a, len));
        assert!(r.is_ok() == wf, "from_bytes accepts exactly the texts satisfying wf_rsync for some offsets");
        if let Ok(u) = r {
            assert!(u.module_start == ms && u.path_start == ps, "and caches exactly those offsets");
            assert!(u.as_slice().len() == len, "text unchanged");
        }
    }}

    //@harness https_from_bytes_iff_wf Kb fn=Https::from_bytes bound="https:// (any case of the letters) followed by at most 5 symbolic octets" timeout=1800 thorough
    verif_harness!{ #[kani::unwind(16)] https_from_bytes_iff_wf; |t: [u8; 5], n: usize, up: u8| {
        assume(n <= 5);
        let c = |k: u8, ch: u8| if up & (1 << k) != 0 { ch - 0x20 } else { ch };
        let a = [c(0, b'h'), c(1, b't'), c(2, b't'), c(3, b'p'), c(4, b's'), b':', b'/', b'/', t[0], t[1], t[2], t[3], t[4]];
        let len = 8 + n;
        let mut pi = len;
        let mut i = 13;
        while i > 8 { i -= 1; if i < len && a[i] == b'/' { pi = i; } }
        let wf = all_permitted(&a, len);
        let r = Https::from_bytes(mkbytes(a, len));
        assert!(r.is_ok() == wf, "from_bytes accepts exactly the texts satisfying wf_https");
        if let Ok(u) = r {
            assert!(u.path_idx == pi, "and caches the index of the first '/' behind the scheme, or the length");
            assert!(u.as_slice().len() == len, "text unchanged");
        }
    }}
}
//@end
