// Unit uri_kb (C12): src/uri.rs on the compiled crate.  BOUNDED ONLY (kind Kb) except the character
// table: uri.rs is bytes::Bytes + &str slicing + slice::split(closure), which Verus rejects and which CBMC
// can only carry for a handful of symbolic octets.  Every harness fixes a concrete skeleton and makes a few
// octets fully symbolic (all 256 values each); the bound is stated per harness and nothing here is counted
// as proved beyond it.
//@features ca,rtr,slurm

//@append src/uri.rs
#[cfg(any(kani, verif_replay))]
#[allow(dead_code, unused)]
mod verif_uri_kb {
    use super::*;
    use crate::verif_support::{assume, reach};

    fn permitted(ch: u8) -> bool {
        ch == b'!' || (ch >= b'$' && ch <= b';') || ch == b'=' || (ch >= b'A' && ch <= b'Z') || ch == b'_'
            || (ch >= b'a' && ch <= b'z') || ch == b'~'
    }
    /// Bytes over a leaked array: no promotable vtable, cheapest Bytes for CBMC
    fn mkbytes<const N: usize>(a: [u8; N], len: usize) -> Bytes {
        let s: &'static [u8; N] = Box::leak(Box::new(a));
        Bytes::from_static(&s[..len])
    }

    //@harness uri_char_table K fn=is_u8_uri_ascii
    verif_harness!{ uri_char_table; |c: u8| {
        assert!(is_u8_uri_ascii(c) == permitted(c), "permitted URI characters");
    }}

    //@harness rsync_parse_kb_n5 Kb fn=Rsync::from_bytes bound="rsync:// followed by at most 5 symbolic octets" timeout=1500 thorough
    verif_harness!{ #[kani::unwind(16)] rsync_parse_kb_n5; |t: [u8; 5], n: usize| {
        assume(n <= 5);
        let a = [b'r', b's', b'y', b'n', b'c', b':', b'/', b'/', t[0], t[1], t[2], t[3], t[4]];
        let len = 8 + n;
        let r = Rsync::from_bytes(mkbytes(a, len));
        if let Ok(u) = r {
            let s = u.as_slice();
            assert!(s.len() == len, "text unchanged (length)");
            let mut i = 0;
            while i < 13 { if i < len { assert!(s[i] == a[i], "text unchanged"); assert!(permitted(s[i]), "only permitted characters"); } i += 1; }
            // offsets point just behind the separating slashes
            assert!(u.module_start >= 10 && u.module_start < u.path_start && u.path_start <= len, "offset order");
            assert!(s[u.module_start - 1] == b'/' && s[u.path_start - 1] == b'/', "offsets follow slashes");
            // authority and module are non-empty and slash-free
            let mut k = 8;
            while k < 13 { if k < u.path_start - 1 && k != u.module_start - 1 { assert!(s[k] != b'/', "authority/module contain no slash"); } k += 1; }
            // accessors recompose to the text
            assert!(8 + u.authority().len() + 1 + u.module_name().len() + 1 + u.path().len() == len, "accessors recompose");
            // no empty segment except a trailing one, no dot segments
            let mut j = u.path_start;
            while j < 13 { if j + 1 < len && j >= u.path_start { assert!(!(s[j] == b'/' && s[j + 1] == b'/'), "no empty segment"); } j += 1; }
        }
    }}

    //@harness https_parse_kb_n5 Kb fn=Https::from_bytes bound="https:// followed by at most 5 symbolic octets" timeout=1500
    verif_harness!{ #[kani::unwind(16)] https_parse_kb_n5; |t: [u8; 5], n: usize| {
        assume(n <= 5);
        let a = [b'h', b't', b't', b'p', b's', b':', b'/', b'/', t[0], t[1], t[2], t[3], t[4]];
        let len = 8 + n;
        let r = Https::from_bytes(mkbytes(a, len));
        if let Ok(u) = r {
            let s = u.as_slice();
            assert!(s.len() == len, "text unchanged (length)");
            let mut i = 0;
            while i < 13 { if i < len { assert!(s[i] == a[i], "text unchanged"); assert!(permitted(s[i]), "only permitted characters"); } i += 1; }
            // path_idx is the first slash behind the scheme separator, or the end of the text
            assert!(u.path_idx >= 8 && u.path_idx <= len, "path index in range");
            assert!(u.path_idx == len || s[u.path_idx] == b'/', "path starts with a slash");
            let mut k = 8;
            while k < 13 { if k < u.path_idx { assert!(s[k] != b'/', "authority contains no slash"); } k += 1; }
            assert!(8 + u.authority().len() + u.path().len() == len, "accessors recompose");
        }
    }}
}
//@end
