// Unit uri_kb (C12): src/uri.rs on the compiled crate.  BOUNDED ONLY (kind Kb) except the character
// table: uri.rs is bytes::Bytes + &str slicing + slice::split(closure), which Verus rejects and which CBMC
// can only carry for a handful of symbolic octets.  Every harness fixes a concrete skeleton and makes a few
// octets fully symbolic (all 256 values each); the bound is stated per harness and nothing here is counted
// as proved beyond it.
//@features ca,rtr,slurm

//@append src/uri.rs
#[cfg(any(kani, verif_replay))]
#[allow(dead_code, unused)]
mod verif_uri_kb {
    use super::*;
    use crate::verif_support::{assume, reach};

    fn permitted(ch: u8) -> bool {
        ch == b'!' || (ch >= b'$' && ch <= b';') || ch == b'=' || (ch >= b'A' && ch <= b'Z') || ch == b'_'
            || (ch >= b'a' && ch <= b'z') || ch == b'~'
    }
    /// Bytes over a leaked array: no promotable vtable, cheapest Bytes for CBMC
    fn mkbytes<const N: usize>(a: [u8; N], len: usize) -> Bytes {
        let s: &'static [u8; N] = Box::leak(Box::new(a));
        Bytes::from_static(&s[..len])
    }

    //@harness uri_char_table K fn=is_u8_uri_ascii
    verif_harness!{ uri_char_table; |c: u8| {
        assert!(is_u8_uri_ascii(c) == permitted(c), "permitted URI characters");
    }}

    //@harness rsync_parse_kb_n5 Kb fn=Rsync::from_bytes bound="rsync:// followed by at most 5 symbolic octets" timeout=1500
    verif_harness!{ #[kani::unwind(16)] rsync_parse_kb_n5; |t: [u8; 5], n: usize| {
        assume(n <= 5);
        let a = [b'r', b's', b'y', b'n', b'c', b':', b'/', b'/', t[0], t[1], t[2], t[3], t[4]];
        let len = 8 + n;
        let r = Rsync::from_bytes(mkbytes(a, len));
        if let Ok(u) = r {
            let s = u.as_slice();
            assert!(s.len() == len, "text unchanged (length)");
            let mut i = 0;
            while i < 13 { if i < len { assert!(s[i] == a[i], "text unchanged"); assert!(permitted(s[i]), "only permitted characters"); } i += 1; }
            // offsets point just behind the separating slashes
            assert!(u.module_start >= 10 && u.module_start < u.path_start && u.path_start <= len, "offset order");
            assert!(s[u.module_start - 1] == b'/' && s[u.path_start - 1] == b'/', "offsets follow slashes");
            // authority and module are non-empty and slash-free
            let mut k = 8;
            while k < 13 { if k < u.path_start - 1 && k != u.module_start - 1 { assert!(s[k] != b'/', "authority/module contain no slash"); } k += 1; }
            // accessors recompose to the text
            assert!(8 + u.authority().len() + 1 + u.module_name().len() + 1 + u.path().len() == len, "accessors recompose");
            // no empty segment except a trailing one, no dot segments
            let mut j = u.path_start;
            while j < 13 { if j + 1 < len && j >= u.path_start { assert!(!(s[j] == b'/' && s[j + 1] == b'/'), "no empty segment"); } j += 1; }
        }
    }}

    //@harness rsync_relative_join_kb Kb fn=Rsync::relative_to,Rsync::join,Rsync::is_parent_of bound="rsync://h/<m1>/a<p2> vs rsync://h/<m2>/<q>: four symbolic octets" timeout=1500
    verif_harness!{ #[kani::unwind(20)] rsync_relative_join_kb; |m1: u8, m2: u8, p2: u8, q: u8, ql: bool| {
        let p1 = b'a';
        let a = Rsync::from_bytes(mkbytes([b'r', b's', b'y', b'n', b'c', b':', b'/', b'/', b'h', b'/', m1, b'/', p1, p2], 14));
        let o = Rsync::from_bytes(mkbytes([b'r', b's', b'y', b'n', b'c', b':', b'/', b'/', b'h', b'/', m2, b'/', q], if ql { 13 } else { 12 }));
        if let (Ok(a), Ok(o)) = (a, o) {
            match a.relative_to(&o) {
                Some(p) if !p.is_empty() => {
                    let j = o.join(p.as_bytes());
                    assert!(matches!(j, Ok(ref x) if *x == a), "joining the relative path onto the other URI gives back the original");
                    assert!(o.is_parent_of(&a), "non-empty relative path <=> parent");
                }
                Some(_) => {
                    // empty path exactly for URIs equal up to one trailing slash
                    let (x, y) = (a.as_slice(), o.as_slice());
                    assert!(a == o || (x.len() == y.len() + 1 && x[x.len() - 1] == b'/') || (y.len() == x.len() + 1 && y[y.len() - 1] == b'/'),
                            "empty relative path only for URIs equal up to one trailing slash");
                    assert!(!o.is_parent_of(&a), "is_parent_of is irreflexive up to trailing slash");
                }
                None => { assert!(!o.is_parent_of(&a), "no relative path => not a parent"); }
            }
            assert!(!a.is_parent_of(&a), "parent-of is irreflexive");
        }
    }}

    //@harness rsync_join_parent_kb Kb fn=Rsync::join,Rsync::parent bound="base rsync://h/m/ or rsync://h/m/<b>, argument of 1-2 symbolic octets" timeout=1500
    verif_harness!{ #[kani::unwind(20)] rsync_join_parent_kb; |b: u8, bl: bool, p: [u8; 2], n: usize| {
        assume(n >= 1 && n <= 2);
        let base = Rsync::from_bytes(mkbytes([b'r', b's', b'y', b'n', b'c', b':', b'/', b'/', b'h', b'/', b'm', b'/', b], if bl { 13 } else { 12 }));
        if let Ok(base) = base {
            if let Ok(j) = base.join(&p[..n]) {
                // the result is itself a valid URI that re-parses to an equal value with the same authority
                let re = Rsync::from_bytes(j.to_bytes());
                assert!(matches!(re, Ok(ref x) if *x == j && x.module_start == j.module_start && x.path_start == j.path_start),
                        "join result re-parses to an equal value with the same offsets");
                assert!(j.authority() == base.authority() && j.module_name() == base.module_name(), "same authority and module");
                assert!(base.is_parent_of(&j), "join(base, p) lies beneath base");
                if let Some(par) = j.parent() {
                    assert!(par.is_parent_of(&j), "a parent is a parent of its child");
                    assert!(matches!(Rsync::from_bytes(par.to_bytes()), Ok(ref x) if *x == par), "parent re-parses");
                }
            }
        }
    }}

    //@harness https_join_kb Kb fn=Https::from_bytes,Https::join,Https::parent bound="https://h<b1><b2> (0-2 symbolic octets) joined with 1 symbolic octet" timeout=1500
    verif_harness!{ #[kani::unwind(20)] https_join_kb; |b: [u8; 2], bn: usize, p: [u8; 1], pn: usize| {
        assume(bn <= 2 && pn == 1);
        let base = Https::from_bytes(mkbytes([b'h', b't', b't', b'p', b's', b':', b'/', b'/', b'h', b[0], b[1]], 9 + bn));
        if let Ok(base) = base {
            assert!(base.as_slice().len() == 9 + bn, "text unchanged");
            assert!(8 + base.authority().len() + base.path().len() == 9 + bn, "accessors recompose");
            if let Ok(j) = base.join(&p[..pn]) {
                let re = Https::from_bytes(Bytes::copy_from_slice(j.as_slice()));
                assert!(matches!(re, Ok(ref x) if *x == j && x.path_idx == j.path_idx), "join result re-parses to an equal value");
                assert!(j.authority().len() == base.authority().len() && j.eq_authority(&base), "join keeps the authority");
                if let Some(par) = j.parent() {
                    assert!(par.eq_authority(&j), "parent keeps the authority");
                    assert!(matches!(Https::from_bytes(Bytes::copy_from_slice(par.as_slice())), Ok(ref x) if *x == par), "parent re-parses");
                }
            }
        }
    }}

    /// recording hasher (fixed slots, no allocation)
    #[derive(PartialEq, Eq)]
    struct Rec { n: usize, b: [u8; 24] }
    impl hash::Hasher for Rec {
        fn finish(&self) -> u64 { 0 }
        fn write(&mut self, bytes: &[u8]) { let mut i = 0; while i < bytes.len() { self.write_u8(bytes[i]); i += 1; } }
        fn write_u8(&mut self, i: u8) { assert!(self.n < 24, "recording hasher overflow"); self.b[self.n] = i; self.n += 1; }
        fn write_usize(&mut self, i: usize) { self.write_u8(i as u8) }
    }
    fn fed<T: hash::Hash>(t: &T) -> Rec { let mut r = Rec { n: 0, b: [0; 24] }; t.hash(&mut r); r }

    //@harness rsync_eq_hash_kb Kb fn=PartialEq/Hash(Rsync) bound="rsync://<a>/<m>/p vs Rsync://<b>/<n>/p: four symbolic octets" timeout=1500
    verif_harness!{ #[kani::unwind(30)] rsync_eq_hash_kb; |a: u8, m: u8, b: u8, n: u8| {
        let x = Rsync::from_bytes(mkbytes([b'r', b's', b'y', b'n', b'c', b':', b'/', b'/', a, b'/', m, b'/', b'p'], 13));
        let y = Rsync::from_bytes(mkbytes([b'R', b's', b'Y', b'n', b'c', b':', b'/', b'/', b, b'/', n, b'/', b'p'], 13));
        if let (Ok(x), Ok(y)) = (x, y) {
            let want = a.to_ascii_lowercase() == b.to_ascii_lowercase() && m == n;
            assert!((x == y) == want, "rsync equality: scheme and authority case-insensitive, the rest exact");
            assert!((y == x) == want, "symmetric");
            if x == y { assert!(fed(&x) == fed(&y), "equal rsync URIs hash equally"); }
        }
    }}
    //@harness https_eq_hash_kb Kb fn=PartialEq/Hash(Https) bound="https://<a>/<p> vs HTtps://<b>/<q>: four symbolic octets" timeout=1500
    verif_harness!{ #[kani::unwind(30)] https_eq_hash_kb; |a: u8, p: u8, b: u8, q: u8| {
        let u = Https::from_bytes(mkbytes([b'h', b't', b't', b'p', b's', b':', b'/', b'/', a, b'/', p], 11));
        let v = Https::from_bytes(mkbytes([b'H', b'T', b't', b'p', b's', b':', b'/', b'/', b, b'/', q], 11));
        if let (Ok(u), Ok(v)) = (u, v) {
            let want = a.to_ascii_lowercase() == b.to_ascii_lowercase() && p == q;
            assert!((u == v) == want, "https equality");
            if u == v { assert!(fed(&u) == fed(&v), "equal https URIs hash equally"); }
        }
    }}
}
//@end
