// Unit sigattrs (C02, shared with C10): SignedAttrs::encode_verify of src/repository/sigobj.rs.
// The octets over which the CMS signature is verified are the DER encoding of the signed
// attributes as a SET OF: tag 0x31, MINIMAL definite length octets, then the captured content,
// whatever the total size (up to the 65535 content octets the decoder lets through).
//
// The precondition |attrs| <= 0xFFFF is established by the check `if raw.len() > 0xFFFF { return
// Err(..) }` in SignedAttrs::take_from_with_mode; that function's body consists of bcder closures
// (take_constructed_if / capture / take_opt_sequence) and cannot be extracted, so the limit is stated
// here as the precondition (it is the only decode path that builds a SignedAttrs).
use vstd::prelude::*;

verus! {

// ---- environment and specification vocabulary (shared with the composition units) ----------------
// the stand-in `Captured` with `captured_view`, `der_len`, `set_of_encoding`, `SignedAttrs::view`
//@include shared/cms_vocab.v.rs

impl Captured {
    /// bcder: Deref<Target = Bytes>, Bytes::len = number of octets (assumed)
    #[verifier::external_body]
    pub fn len(&self) -> (r: usize)
        ensures r == captured_view(*self).len()
    { unimplemented!() }
    /// bcder: `impl AsRef<[u8]> for Captured` (= `self.bytes.as_ref()`) returns the captured octets
    /// (assumed).  Declared as an inherent method of the stand-in because Verus has no model of the
    /// AsRef trait; `self.0.as_ref()` in the verified body resolves to it, so the body stays verbatim.
    #[verifier::external_body]
    pub fn as_ref(&self) -> (r: &[u8])
        ensures r@ == captured_view(*self)
    { unimplemented!() }
}

pub mod lem {
    use super::*;
    /// `>> 8` / `as u8` on a length below 2^16 are the two base-256 digits
    pub proof fn lemma_len_octets(len: usize)
        requires len < 0x10000,
        ensures
            (len >> 8) as u8 == (len as int / 256) as u8,
            (len >> 8) < 256,
            len as u8 == (len as int % 256) as u8,
            len < 256 ==> len as u8 == len,
    {
        let l = len as u32;
        assert(l >> 8 == l / 256) by (bit_vector);
        assert((l >> 8) < 256) by (bit_vector) requires l < 0x10000;
        assert(l as u8 == (l % 256) as u8) by (bit_vector);
        assert(len >> 8 == (l >> 8) as usize) by (bit_vector) requires l == len as u32, len < 0x10000;
        assert(len as u8 == l as u8) by (bit_vector) requires l == len as u32, len < 0x10000;
    }
}

pub struct SignedAttrs(pub Captured);

impl SignedAttrs {
    //@fn src/repository/sigobj.rs :: impl SignedAttrs :: encode_verify
    //@spec
        requires
            self@.len() <= 0xFFFF,
        ensures
            r@ == set_of_encoding(self@),
    //@/spec
    //@ghost after "let len = self.0.len();"
        proof { lem::lemma_len_octets(len); }
    //@/ghost
    //@ghost before "res.extend_from_slice" optional
        proof {
            assert(res@ =~= seq![0x31u8] + der_len(len as int));
        }
    //@/ghost
    //@end
}

// ---- consequences used by the composition units (C02 sigobj_compose, C10 sigmsg_compose) -------
/// the header is minimal: short form below 128, one length octet below 256, two above
proof fn lemma_encoding_shape(attrs: Seq<u8>)
    requires attrs.len() <= 0xFFFF,
    ensures
        set_of_encoding(attrs)[0] == 0x31,
        attrs.len() < 128 ==> set_of_encoding(attrs).len() == attrs.len() + 2
            && set_of_encoding(attrs)[1] == attrs.len(),
        128 <= attrs.len() < 256 ==> set_of_encoding(attrs).len() == attrs.len() + 3
            && set_of_encoding(attrs)[1] == 0x81 && set_of_encoding(attrs)[2] == attrs.len(),
        256 <= attrs.len() ==> set_of_encoding(attrs).len() == attrs.len() + 4
            && set_of_encoding(attrs)[1] == 0x82
            && set_of_encoding(attrs)[2] as int * 256 + set_of_encoding(attrs)[3] as int == attrs.len()
            && set_of_encoding(attrs)[2] != 0,
{
    let n = attrs.len() as int;
    let e = set_of_encoding(attrs);
    let h = seq![0x31u8] + der_len(n);
    assert(e =~= h + attrs);
    if n < 128 {
        assert(h[1] == n as u8);
    } else if n < 256 {
        assert(h[1] == 0x81u8 && h[2] == n as u8);
    } else {
        assert(h[1] == 0x82u8 && h[2] == (n / 256) as u8 && h[3] == (n % 256) as u8);
        assert(e[2] == h[2] && e[3] == h[3]);
    }
}

/// vacuity guard: the precondition is satisfiable on both sides of every branch boundary
proof fn reach_encode_verify(c0: Captured, c1: Captured, c2: Captured)
    requires
        captured_view(c0).len() == 127,
        captured_view(c1).len() == 203,
        captured_view(c2).len() == 0xFFFF,
    ensures
        SignedAttrs(c0)@.len() <= 0xFFFF && SignedAttrs(c1)@.len() <= 0xFFFF && SignedAttrs(c2)@.len() <= 0xFFFF,
        der_len(127) == seq![127u8],
        der_len(203) == seq![0x81u8, 203u8],
        der_len(0xFFFF) == seq![0x82u8, 0xffu8, 0xffu8],
        der_len(256) == seq![0x82u8, 1u8, 0u8],
{
    assert(der_len(127) =~= seq![127u8]);
    assert(der_len(203) =~= seq![0x81u8, 203u8]);
    assert(der_len(0xFFFF) =~= seq![0x82u8, 0xffu8, 0xffu8]);
    assert(der_len(256) =~= seq![0x82u8, 1u8, 0u8]);
}

} // verus!
fn main() {}
