// Unit addr_prefix (C13, reused by C15): src/resources/addr.rs on the compiled crate.
// Function contracts (kani::requires/ensures + proof_for_contract) on the constructors,
// bit helpers, covers; lemma harnesses for the order laws over three fully symbolic
// prefixes.  Every harness is loop-free over full-domain inputs (all 2^128 address bits,
// every length byte 0..=255): complete proofs.
//@features ca,rtr,slurm

//@attrs src/resources/addr.rs :: impl Bits :: is_host_zero
#[cfg_attr(kani, kani::ensures(|r: &bool| *r == (self.0 & verif_addr_prefix::hostmask(len) == 0)))]
//@end
//@attrs src/resources/addr.rs :: impl Bits :: clear_host
#[cfg_attr(kani, kani::ensures(|r: &Bits| r.0 == self.0 & !verif_addr_prefix::hostmask(len)))]
//@end
//@attrs src/resources/addr.rs :: impl Bits :: into_max
#[cfg_attr(kani, kani::ensures(|r: &Bits| r.0 == self.0 | verif_addr_prefix::hostmask(prefix_len)))]
//@end
//@attrs src/resources/addr.rs :: impl FamilyAndLen :: new_v4
#[cfg_attr(kani, kani::ensures(|r: &Result<FamilyAndLen, PrefixError>| match r {
    Ok(f) => len <= 32 && f.0 == verif_addr_prefix::fal_byte(true, len) && f.is_v4() && !f.is_v6() && f.len() == len,
    Err(e) => len > 32 && *e == PrefixError::LenOverflow }))]
//@end
//@attrs src/resources/addr.rs :: impl FamilyAndLen :: new_v6
#[cfg_attr(kani, kani::ensures(|r: &Result<FamilyAndLen, PrefixError>| match r {
    Ok(f) => len <= 128 && f.0 == verif_addr_prefix::fal_byte(false, len) && f.is_v6() && !f.is_v4() && f.len() == len,
    Err(e) => len > 128 && *e == PrefixError::LenOverflow }))]
//@end
//@attrs src/resources/addr.rs :: impl Prefix :: new_v4
#[cfg_attr(kani, kani::ensures(|r: &Result<Prefix, PrefixError>| verif_addr_prefix::post_new(true, (u32::from(addr) as u128) << 96, len, false, r)))]
//@end
//@attrs src/resources/addr.rs :: impl Prefix :: new_v6
#[cfg_attr(kani, kani::ensures(|r: &Result<Prefix, PrefixError>| verif_addr_prefix::post_new(false, u128::from(addr), len, false, r)))]
//@end
//@attrs src/resources/addr.rs :: impl Prefix :: new_v4_relaxed
#[cfg_attr(kani, kani::ensures(|r: &Result<Prefix, PrefixError>| verif_addr_prefix::post_new(true, (u32::from(addr) as u128) << 96, len, true, r)))]
//@end
//@attrs src/resources/addr.rs :: impl Prefix :: new_v6_relaxed
#[cfg_attr(kani, kani::ensures(|r: &Result<Prefix, PrefixError>| verif_addr_prefix::post_new(false, u128::from(addr), len, true, r)))]
//@end
//@attrs src/resources/addr.rs :: impl Prefix :: covers
#[cfg_attr(kani, kani::requires(verif_addr_prefix::wf(&self) && verif_addr_prefix::wf(&other)))]
#[cfg_attr(kani, kani::ensures(|r: &bool| *r == verif_addr_prefix::spec_covers(&self, &other)))]
//@end
//@attrs src/resources/addr.rs :: impl MaxLenPrefix :: new
#[cfg_attr(kani, kani::requires(verif_addr_prefix::wf(&prefix)))]
#[cfg_attr(kani, kani::ensures(|r: &Result<MaxLenPrefix, MaxLenError>| verif_addr_prefix::post_maxlen_new(&prefix, max_len, r)))]
//@end
//@attrs src/resources/addr.rs :: impl MaxLenPrefix :: saturating_new
#[cfg_attr(kani, kani::requires(verif_addr_prefix::wf(&prefix)))]
#[cfg_attr(kani, kani::ensures(|r: &MaxLenPrefix| verif_addr_prefix::post_maxlen_saturating(&prefix, max_len, r)))]
//@end

//@append src/resources/addr.rs
#[cfg(any(kani, verif_replay))]
#[allow(dead_code, unused)]
pub(crate) mod verif_addr_prefix {
    use super::*;
    use crate::verif_support::{assume, reach};

    // ---------------- independent specification vocabulary -----------------
    /// all-ones in the host part of a prefix of length `len` (128-bit view)
    pub fn hostmask(len: u8) -> u128 {
        if len >= 128 { 0 } else { u128::MAX >> (len as u32) }
    }
    /// documented packing of family and length into one byte
    pub fn fal_byte(v4: bool, len: u8) -> u8 {
        if v4 { len } else if len == 128 { 0x40 } else { 0xFF - len }
    }
    pub fn fam_max(v4: bool) -> u8 { if v4 { 32 } else { 128 } }

    /// type invariant of Prefix: valid family/length byte, host bits zero
    /// (for v4 this includes the low 96 bits)
    pub fn wf(p: &Prefix) -> bool {
        let b = p.family_and_len.0;
        let (v4, len) = decode(b);
        len <= fam_max(v4) && b == fal_byte(v4, len) && p.bits.0 & hostmask(len) == 0
    }
    /// inverse of fal_byte on valid bytes
    pub fn decode(b: u8) -> (bool, u8) {
        if b <= 32 { (true, b) } else if b == 0x40 { (false, 128) } else { (false, 0xFF - b) }
    }
    pub fn is4(p: &Prefix) -> bool { decode(p.family_and_len.0).0 }
    pub fn plen(p: &Prefix) -> u8 { decode(p.family_and_len.0).1 }
    pub fn lo(p: &Prefix) -> u128 { p.bits.0 }
    pub fn hi(p: &Prefix) -> u128 { p.bits.0 | hostmask(plen(p)) }

    /// a symbolic well-formed prefix from raw symbolic scalars
    pub fn mk(v4: bool, len: u8, raw: u128) -> Prefix {
        assume(len <= fam_max(v4));
        let raw = if v4 { raw & 0xFFFF_FFFF_0000_0000_0000_0000_0000_0000 } else { raw };
        let p = Prefix { family_and_len: FamilyAndLen(fal_byte(v4, len)), bits: Bits(raw & !hostmask(len)) };
        p
    }

    /// `covers` per the property statement: same family and address-range inclusion
    pub fn spec_covers(a: &Prefix, b: &Prefix) -> bool {
        is4(a) == is4(b) && lo(a) <= lo(b) && hi(b) <= hi(a)
    }

    pub fn post_new(v4: bool, addr_bits: u128, len: u8, relaxed: bool, r: &Result<Prefix, PrefixError>) -> bool {
        let in_range = len <= fam_max(v4);
        let host_zero = addr_bits & hostmask(len) == 0;
        match r {
            Ok(p) => in_range && (relaxed || host_zero)
                && wf(p) && is4(p) == v4 && plen(p) == len
                && p.bits.0 == addr_bits & !hostmask(len)
                && p.len() == len && p.is_v4() == v4 && p.is_v6() != v4,
            Err(PrefixError::LenOverflow) => !in_range,
            Err(PrefixError::NonZeroHost) => in_range && !relaxed && !host_zero,
        }
    }

    pub fn post_maxlen_new(p: &Prefix, m: Option<u8>, r: &Result<MaxLenPrefix, MaxLenError>) -> bool {
        let ok = match m { None => true, Some(m) => plen(p) <= m && m <= fam_max(is4(p)) };
        match r {
            Ok(x) => ok && x.prefix == *p && x.max_len == m && x.prefix() == *p && x.max_len() == m
                && x.resolved_max_len() == (match m { Some(m) => m, None => plen(p) })
                && x.prefix_len() == plen(p),
            Err(MaxLenError::Overflow) => matches!(m, Some(m) if m > fam_max(is4(p))),
            Err(MaxLenError::Underflow) => matches!(m, Some(m) if m <= fam_max(is4(p)) && plen(p) > m),
        }
    }
    pub fn post_maxlen_saturating(p: &Prefix, m: Option<u8>, r: &MaxLenPrefix) -> bool {
        r.prefix == *p && match (m, r.max_len) {
            (None, None) => true,
            (Some(m), Some(x)) => {
                let lo = plen(p); let hi = fam_max(is4(p));
                x == (if m < lo { lo } else if m > hi { hi } else { m })
                    && MaxLenPrefix::new(*p, Some(x)).is_ok()
            }
            _ => false,
        }
    }

    // ---------------- contract harnesses ------------------------------------
    //@harness bits_is_host_zero K fn=Bits::is_host_zero
    verif_harness!{ bits_is_host_zero for Bits::is_host_zero; |b: u128, len: u8| {
        let r = Bits(b).is_host_zero(len);
        assert!(r == (b & hostmask(len) == 0), "is_host_zero");
    }}
    //@harness bits_clear_host K fn=Bits::clear_host
    verif_harness!{ bits_clear_host for Bits::clear_host; |b: u128, len: u8| {
        let r = Bits(b).clear_host(len);
        assert!(r.0 == b & !hostmask(len), "clear_host");
        assert!(Bits(r.0).is_host_zero(len), "cleared host is zero");
    }}
    //@harness bits_into_max K fn=Bits::into_max
    verif_harness!{ bits_into_max for Bits::into_max; |b: u128, len: u8| {
        let r = Bits(b).into_max(len);
        assert!(r.0 == b | hostmask(len), "into_max");
    }}
    //@harness fal_new_v4 K fn=FamilyAndLen::new_v4
    verif_harness!{ fal_new_v4 for FamilyAndLen::new_v4; |len: u8| {
        let r = FamilyAndLen::new_v4(len);
        assert!(r.is_ok() == (len <= 32), "new_v4 ok iff len<=32");
        if let Ok(f) = r { assert!(f.is_v4() && !f.is_v6() && f.len() == len && f.0 == fal_byte(true, len), "v4 byte"); }
    }}
    //@harness fal_new_v6 K fn=FamilyAndLen::new_v6
    verif_harness!{ fal_new_v6 for FamilyAndLen::new_v6; |len: u8| {
        let r = FamilyAndLen::new_v6(len);
        assert!(r.is_ok() == (len <= 128), "new_v6 ok iff len<=128");
        if let Ok(f) = r { assert!(f.is_v6() && !f.is_v4() && f.len() == len && f.0 == fal_byte(false, len), "v6 byte"); }
    }}
    //@harness fal_bytes_disjoint K fn=FamilyAndLen::len,FamilyAndLen::is_v4
    verif_harness!{ fal_bytes_disjoint; |a: u8, b: u8, v4a: bool, v4b: bool| {
        // the packing is injective on valid (family,len) pairs and the accessors invert it
        assume(a <= fam_max(v4a) && b <= fam_max(v4b));
        let fa = FamilyAndLen(fal_byte(v4a, a)); let fb = FamilyAndLen(fal_byte(v4b, b));
        assert!((fa == fb) == (a == b && v4a == v4b), "packing injective");
        assert!(fa.is_v4() == v4a && fa.is_v6() == !v4a && fa.len() == a, "accessors invert packing");
        assert!(decode(fa.0) == (v4a, a), "spec decode inverts packing");
    }}
    //@harness prefix_new_v4 K fn=Prefix::new_v4
    verif_harness!{ prefix_new_v4 for Prefix::new_v4; |a: u32, len: u8| {
        let r = Prefix::new_v4(Ipv4Addr::from(a), len);
        assert!(post_new(true, (a as u128) << 96, len, false, &r), "new_v4 post");
        if let Ok(p) = r {
            assert!(p.addr() == IpAddr::V4(Ipv4Addr::from(a)), "addr() returns the constructor address");
        }
    }}
    //@harness prefix_new_v6 K fn=Prefix::new_v6
    verif_harness!{ prefix_new_v6 for Prefix::new_v6; |a: u128, len: u8| {
        let r = Prefix::new_v6(Ipv6Addr::from(a), len);
        assert!(post_new(false, a, len, false, &r), "new_v6 post");
        if let Ok(p) = r {
            assert!(p.addr() == IpAddr::V6(Ipv6Addr::from(a)), "addr() returns the constructor address");
        }
    }}
    //@harness prefix_new_v4_relaxed K fn=Prefix::new_v4_relaxed
    verif_harness!{ prefix_new_v4_relaxed for Prefix::new_v4_relaxed; |a: u32, len: u8| {
        let r = Prefix::new_v4_relaxed(Ipv4Addr::from(a), len);
        assert!(post_new(true, (a as u128) << 96, len, true, &r), "new_v4_relaxed post");
        if let (Ok(p), Ok(q)) = (r, Prefix::new_v4(Ipv4Addr::from(a), len)) { assert!(p == q, "relaxed == strict when strict accepts"); }
    }}
    //@harness prefix_new_v6_relaxed K fn=Prefix::new_v6_relaxed
    verif_harness!{ prefix_new_v6_relaxed for Prefix::new_v6_relaxed; |a: u128, len: u8| {
        let r = Prefix::new_v6_relaxed(Ipv6Addr::from(a), len);
        assert!(post_new(false, a, len, true, &r), "new_v6_relaxed post");
        if let (Ok(p), Ok(q)) = (r, Prefix::new_v6(Ipv6Addr::from(a), len)) { assert!(p == q, "relaxed == strict when strict accepts"); }
    }}
    //@harness prefix_new_dispatch K fn=Prefix::new,Prefix::new_relaxed
    verif_harness!{ prefix_new_dispatch; |v4: bool, a: u128, len: u8| {
        let (ip, bits) = if v4 { (IpAddr::V4(Ipv4Addr::from((a >> 96) as u32)), a & 0xFFFF_FFFF_0000_0000_0000_0000_0000_0000) }
                         else { (IpAddr::V6(Ipv6Addr::from(a)), a) };
        assert!(post_new(v4, bits, len, false, &Prefix::new(ip, len)), "Prefix::new post");
        assert!(post_new(v4, bits, len, true, &Prefix::new_relaxed(ip, len)), "Prefix::new_relaxed post");
    }}
    //@harness prefix_min_max_addr K fn=Prefix::min_addr,Prefix::max_addr
    verif_harness!{ prefix_min_max_addr; |v4: bool, len: u8, raw: u128| {
        let p = mk(v4, len, raw);
        assert!(wf(&p), "mk is well-formed");
        if v4 {
            assert!(p.min_addr() == IpAddr::V4(Ipv4Addr::from((lo(&p) >> 96) as u32)), "min v4");
            assert!(p.max_addr() == IpAddr::V4(Ipv4Addr::from((hi(&p) >> 96) as u32)), "max v4");
        } else {
            assert!(p.min_addr() == IpAddr::V6(Ipv6Addr::from(lo(&p))), "min v6");
            assert!(p.max_addr() == IpAddr::V6(Ipv6Addr::from(hi(&p))), "max v6");
        }
        assert!(p.addr_and_len() == (p.addr(), len), "addr_and_len");
    }}
    //@harness prefix_covers K fn=Prefix::covers
    verif_harness!{ prefix_covers for Prefix::covers; |v4a: bool, la: u8, ra: u128, v4b: bool, lb: u8, rb: u128| {
        let a = mk(v4a, la, ra); let b = mk(v4b, lb, rb);
        let r = a.covers(b);
        assert!(r == spec_covers(&a, &b), "covers == range inclusion within one family");
    }}

    // ---------------- order laws on the real Ord impl ------------------------
    fn rev(o: Ordering) -> Ordering { o.reverse() }
    //@harness prefix_ord_pair K fn=Ord::cmp(Prefix)
    verif_harness!{ prefix_ord_pair; |v4a: bool, la: u8, ra: u128, v4b: bool, lb: u8, rb: u128| {
        let a = mk(v4a, la, ra); let b = mk(v4b, lb, rb);
        let c = a.cmp(&b);
        assert!(a.cmp(&a) == Ordering::Equal, "reflexive");
        assert!(b.cmp(&a) == rev(c), "antisymmetric / total");
        assert!((c == Ordering::Equal) == (a == b), "Equal <=> ==");
        assert!(a.partial_cmp(&b) == Some(c), "partial_cmp agrees");
        // a more specific prefix sorts before any prefix covering it
        if spec_covers(&a, &b) && a != b { assert!(c == Ordering::Greater, "covered prefix sorts first"); }
        if v4a && !v4b { assert!(c == Ordering::Less, "v4 before v6"); }
    }}
    //@harness prefix_ord_transitive K fn=Ord::cmp(Prefix)
    verif_harness!{ prefix_ord_transitive; |v4a: bool, la: u8, ra: u128, v4b: bool, lb: u8, rb: u128, v4c: bool, lc: u8, rc: u128| {
        let a = mk(v4a, la, ra); let b = mk(v4b, lb, rb); let c = mk(v4c, lc, rc);
        if a.cmp(&b) != Ordering::Greater && b.cmp(&c) != Ordering::Greater {
            assert!(a.cmp(&c) != Ordering::Greater, "transitive");
            if a.cmp(&b) == Ordering::Less || b.cmp(&c) == Ordering::Less { assert!(a.cmp(&c) == Ordering::Less, "strict transitive"); }
        }
    }}

    /// records what a Hash impl feeds into the hasher (no loops: fixed slots)
    #[derive(PartialEq, Eq, Default)]
    pub struct Rec { pub n: u8, pub w: [u128; 8], pub k: [u8; 8] }
    impl Rec {
        fn push(&mut self, kind: u8, v: u128) {
            let i = self.n as usize;
            assert!(i < 8, "recording hasher overflow"); self.w[i] = v; self.k[i] = kind;
            self.n += 1;
        }
    }
    impl std::hash::Hasher for Rec {
        fn finish(&self) -> u64 { 0 }
        fn write(&mut self, _bytes: &[u8]) { panic!("unexpected slice write into recording hasher") }
        fn write_u8(&mut self, i: u8) { self.push(1, i as u128) }
        fn write_u16(&mut self, i: u16) { self.push(2, i as u128) }
        fn write_u32(&mut self, i: u32) { self.push(4, i as u128) }
        fn write_u64(&mut self, i: u64) { self.push(8, i as u128) }
        fn write_usize(&mut self, i: usize) { self.push(9, i as u128) }
        fn write_isize(&mut self, i: isize) { self.push(10, i as u128) }
        fn write_u128(&mut self, i: u128) { self.push(16, i) }
    }
    pub fn fed<T: std::hash::Hash>(t: &T) -> Rec { let mut r = Rec::default(); t.hash(&mut r); r }

    //@harness prefix_hash_eq K fn=Hash::hash(Prefix)
    verif_harness!{ prefix_hash_eq; |v4a: bool, la: u8, ra: u128, v4b: bool, lb: u8, rb: u128| {
        let a = mk(v4a, la, ra); let b = mk(v4b, lb, rb);
        let (ha, hb) = (fed(&a), fed(&b));
        assert!(ha.n == 2, "Prefix feeds exactly its two fields through fixed-width writes");
        assert!((a == b) == (ha == hb), "hash input equal exactly when prefixes are equal");
    }}

    // ---------------- MaxLenPrefix ------------------------------------------
    //@harness maxlen_new K fn=MaxLenPrefix::new
    verif_harness!{ maxlen_new for MaxLenPrefix::new; |v4: bool, len: u8, raw: u128, has: bool, m: u8| {
        let p = mk(v4, len, raw);
        let ml = if has { Some(m) } else { None };
        let r = MaxLenPrefix::new(p, ml);
        assert!(post_maxlen_new(&p, ml, &r), "MaxLenPrefix::new post");
        assert!(r.is_ok() == (!has || (len <= m && m <= fam_max(v4))), "Ok iff len <= max_len <= family max");
    }}
    //@harness maxlen_saturating_new K fn=MaxLenPrefix::saturating_new
    verif_harness!{ maxlen_saturating_new for MaxLenPrefix::saturating_new; |v4: bool, len: u8, raw: u128, has: bool, m: u8| {
        let p = mk(v4, len, raw);
        let ml = if has { Some(m) } else { None };
        let r = MaxLenPrefix::saturating_new(p, ml);
        assert!(post_maxlen_saturating(&p, ml, &r), "saturating_new clamps into [len, family max]");
        if let Ok(x) = MaxLenPrefix::new(p, ml) { assert!(x == r, "agrees with new when new accepts"); }
    }}
    pub fn mkml(v4: bool, len: u8, raw: u128, has: bool, m: u8) -> MaxLenPrefix {
        let p = mk(v4, len, raw);
        if has { assume(len <= m && m <= fam_max(v4)); }
        MaxLenPrefix { prefix: p, max_len: if has { Some(m) } else { None } }
    }
    //@harness maxlen_ord_pair K fn=Ord::cmp(MaxLenPrefix)
    verif_harness!{ maxlen_ord_pair; |v4a: bool, la: u8, ra: u128, ha: bool, ma: u8, v4b: bool, lb: u8, rb: u128, hb: bool, mb: u8| {
        let a = mkml(v4a, la, ra, ha, ma); let b = mkml(v4b, lb, rb, hb, mb);
        let c = a.cmp(&b);
        assert!(a.cmp(&a) == Ordering::Equal, "reflexive");
        assert!(b.cmp(&a) == rev(c), "antisymmetric / total");
        assert!((c == Ordering::Equal) == (a == b), "Equal <=> ==");
        assert!(a.partial_cmp(&b) == Some(c), "partial_cmp agrees");
        assert!((a == b) == (fed(&a) == fed(&b)), "hash input equal exactly when equal");
        if a.prefix.cmp(&b.prefix) != Ordering::Equal { assert!(c == a.prefix.cmp(&b.prefix), "prefix order dominates"); }
    }}
    //@harness maxlen_ord_transitive K fn=Ord::cmp(MaxLenPrefix)
    verif_harness!{ maxlen_ord_transitive; |v4a: bool, la: u8, ra: u128, ha: bool, ma: u8, v4b: bool, lb: u8, rb: u128, hb: bool, mb: u8, v4c: bool, lc: u8, rc: u128, hc: bool, mc: u8| {
        let a = mkml(v4a, la, ra, ha, ma); let b = mkml(v4b, lb, rb, hb, mb); let c = mkml(v4c, lc, rc, hc, mc);
        if a.cmp(&b) != Ordering::Greater && b.cmp(&c) != Ordering::Greater {
            assert!(a.cmp(&c) != Ordering::Greater, "transitive");
        }
    }}
}
//@end

//@append src/rtr/payload.rs
#[cfg(any(kani, verif_replay))]
#[allow(dead_code, unused)]
mod verif_route_origin {
    use super::*;
    use crate::verif_support::{assume, reach};
    use crate::resources::addr::verif_addr_prefix::{mkml, fed};

    fn key(o: &RouteOrigin) -> (crate::resources::addr::Prefix, u8, u32) {
        (o.prefix.prefix(), o.prefix.resolved_max_len(), o.asn.into_u32())
    }
    //@harness route_origin_eq_ord_hash K fn=RouteOrigin::{eq,cmp,hash}
    verif_harness!{ route_origin_eq_ord_hash; |v4a: bool, la: u8, ra: u128, ha: bool, ma: u8, asa: u32, v4b: bool, lb: u8, rb: u128, hb: bool, mb: u8, asb: u32| {
        let a = RouteOrigin::new(mkml(v4a, la, ra, ha, ma), Asn::from_u32(asa));
        let b = RouteOrigin::new(mkml(v4b, lb, rb, hb, mb), Asn::from_u32(asb));
        let c = a.cmp(&b);
        // compare by prefix, effective max length and AS number
        assert!((a == b) == (key(&a) == key(&b)), "eq <=> (prefix, resolved max len, asn) equal");
        assert!((c == Ordering::Equal) == (a == b), "cmp Equal <=> ==");
        assert!(c == key(&a).0.cmp(&key(&b).0).then(key(&a).1.cmp(&key(&b).1)).then(key(&a).2.cmp(&key(&b).2)),
                "cmp is lexicographic on (prefix, resolved max len, asn)");
        assert!(b.cmp(&a) == c.reverse(), "antisymmetric / total");
        assert!(a.partial_cmp(&b) == Some(c), "partial_cmp agrees");
        assert!((a == b) == (fed(&a) == fed(&b)), "hash input equal exactly when equal");
        assert!(a.is_v4() == v4a, "is_v4");
    }}
    //@harness route_origin_ord_transitive K fn=RouteOrigin::cmp
    verif_harness!{ route_origin_ord_transitive; |v4a: bool, la: u8, ra: u128, ha: bool, ma: u8, asa: u32, v4b: bool, lb: u8, rb: u128, hb: bool, mb: u8, asb: u32, v4c: bool, lc: u8, rc: u128, hc: bool, mc: u8, asc: u32| {
        let a = RouteOrigin::new(mkml(v4a, la, ra, ha, ma), Asn::from_u32(asa));
        let b = RouteOrigin::new(mkml(v4b, lb, rb, hb, mb), Asn::from_u32(asb));
        let c = RouteOrigin::new(mkml(v4c, lc, rc, hc, mc), Asn::from_u32(asc));
        if a.cmp(&b) != Ordering::Greater && b.cmp(&c) != Ordering::Greater {
            assert!(a.cmp(&c) != Ordering::Greater, "transitive");
        }
    }}
}
//@end
