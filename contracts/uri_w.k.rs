// Unit uri_w (C12, and the Rsync::join contract C14 relies on): WITNESS SEARCH ONLY (kind W) - proves nothing.
// The Verus units uri_parse / uri_algebra prove the parsers and the path algebra unbounded on extracted text;
// a restructured function makes them come back undecided (lost anchor / unsupported construct).  This unit is
// the anchor-free last line: the COMPILED functions run natively on biased random URI texts (small alphabets
// rich in '/', '.', upper/lower case, a few illegal octets; related pairs sharing a prefix) and are compared
// with the clauses of the property written down independently (a reference validity predicate on the text,
// re-parsing as the oracle for join / parent results).  A hit is a concrete input, replayed and reported.
//@features ca,rtr,slurm

//@append src/uri.rs
#[cfg(any(kani, verif_replay))]
#[allow(dead_code, unused)]
mod verif_uri_w {
    use super::*;
    use crate::verif_support::{assume, reach};
    use std::hash::{Hash, Hasher};
    use std::collections::hash_map::DefaultHasher;

    const ALPHA: &[u8] = b"a/b.A/c.B-a/M%~m.x/";
    fn ch(b: u8) -> u8 { if b >= 0xE0 { b.wrapping_mul(7).wrapping_add(3) } else if b >= 0xD0 { b"@#?[]^`\"<>| \\{}\x7f"[(b & 15) as usize] } else { ALPHA[(b as usize) % ALPHA.len()] } }
    fn text(prefix: &[u8], t: &[u8], n: u8) -> Vec<u8> {
        let mut v = prefix.to_vec();
        v.extend(t[..(n as usize) % (t.len() + 1)].iter().map(|b| ch(*b)));
        v
    }
    fn scheme(sel: u8, want: &'static [u8; 8]) -> Vec<u8> {
        let other: &[u8; 8] = if want == b"rsync://" { b"https://" } else { b"rsync://" };
        match sel % 16 {
            0 => other.to_vec(),
            1 => want[..7].to_vec(),
            2 => b"rsynx://".to_vec(),
            3 => b"http://a".to_vec(),
            4 => Vec::new(),
            5 | 6 | 7 => want.iter().enumerate().map(|(i, c)| if (sel as usize >> 4 >> (i % 4)) & 1 == 1 { c.to_ascii_uppercase() } else { *c }).collect(),
            _ => want.to_vec(),
        }
    }
    /// the permitted characters, written down from the property ("only permitted characters"): RFC 3986
    /// unreserved / sub-delims / ':' '/' '%' plus digits, without '?', '#', '[', ']', '@'
    fn permitted(c: u8) -> bool {
        c.is_ascii_alphanumeric() || b"-._~!$&'()*+,;=:/%".contains(&c)
    }
    fn lower(s: &[u8]) -> Vec<u8> { s.to_ascii_lowercase() }
    fn h<T: Hash>(t: &T) -> u64 { let mut s = DefaultHasher::new(); t.hash(&mut s); s.finish() }
    /// no "." / ".." piece, no empty piece except one last
    fn segments_ok(s: &[u8]) -> bool {
        let parts: Vec<&[u8]> = s.split(|c| *c == b'/').collect();
        parts.iter().enumerate().all(|(i, p)| *p != b"." && *p != b".." && (!p.is_empty() || i + 1 == parts.len()))
    }
    /// reference validity of an rsync URI text
    fn rsync_valid(t: &[u8]) -> bool {
        if !t.iter().all(|c| permitted(*c)) || t.len() < 8 || lower(&t[..8]) != b"rsync://" { return false }
        let rest = &t[8..];
        let parts: Vec<&[u8]> = rest.split(|c| *c == b'/').collect();
        parts.len() >= 3 && !parts[0].is_empty() && !parts[1].is_empty() && segments_ok(rest)
    }
    fn rsync_eq_ref(a: &Rsync, b: &Rsync) -> bool {
        let (x, y) = (a.as_slice(), b.as_slice());
        let (ka, kb) = (8 + a.authority().len(), 8 + b.authority().len());
        ka == kb && lower(&x[..ka]) == lower(&y[..kb]) && x[ka..] == y[kb..]
    }
    /// the invariant behind "re-parses to an equal value": parsing the text again gives the same offsets
    fn rsync_reparses(u: &Rsync) -> bool {
        match Rsync::from_slice(u.as_slice()) {
            Ok(v) => v.module_start == u.module_start && v.path_start == u.path_start && v == *u && v.authority() == u.authority(),
            Err(_) => false,
        }
    }
    fn strip1(s: &[u8]) -> &[u8] { if s.ends_with(b"/") { &s[..s.len() - 1] } else { s } }

    //@harness uri_w_rsync W fn=Rsync::{from_bytes,check_path,join,parent,relative_to,is_parent_of,eq_module,eq,hash},check_uri_ascii,is_u8_uri_ascii,starts_with_ignore_case n=40000 timeout=600
    verif_search!{ uri_w_rsync; |sel: u8, n: u8, t: [u8; 20], k: u8, m: u8, t2: [u8; 12], casef: u8, pn: u8, p: [u8; 10]| {
        let t1 = text(&scheme(sel, b"rsync://"), &t, n);
        let r1 = Rsync::from_slice(&t1);
        assert!(r1.is_ok() == rsync_valid(&t1), "Rsync::from_bytes accepts exactly the valid texts");
        let a = match r1 { Ok(a) => a, Err(_) => return };
        assert!(a.as_slice() == &t1[..], "accepted URI keeps its text");
        let mut rec = t1[..8].to_vec();
        rec.extend_from_slice(a.authority().as_bytes()); rec.push(b'/');
        rec.extend_from_slice(a.module_name().as_bytes()); rec.push(b'/');
        rec.extend_from_slice(a.path().as_bytes());
        assert!(rec == t1, "scheme, authority, module and path recompose to the text");
        assert!(!a.authority().contains('/') && !a.module_name().contains('/') && !a.authority().is_empty() && !a.module_name().is_empty(), "authority and module are single non-empty pieces");
        assert!(a.path_bytes() == a.path().as_bytes() && a.module().as_bytes() == &t1[..t1.len() - a.path().len()], "module() / path_bytes() agree");
        assert!(a == a && h(&a) == h(&a.clone()) && !a.is_parent_of(&a), "reflexive; parent-of irreflexive");
        assert!(a.relative_to(&a) == Some(""), "relative_to(self) is empty");
        // the same URI with only the case of the scheme changed (authority left alone): equal, so it hashes equally
        for up in [true, false] {
            let mut tc = t1.clone();
            for c in tc[..5].iter_mut() { *c = if up { c.to_ascii_uppercase() } else { c.to_ascii_lowercase() } }
            let c = Rsync::from_slice(&tc).expect("the case of the scheme does not matter for acceptance");
            assert!(a == c && c == a, "scheme compared case-insensitively");
            assert!(h(&a) == h(&c), "equal URIs hash equally (scheme case changed)");
        }
        // a related second URI: shares a prefix with the first, case of scheme/authority possibly flipped
        let cut = (k as usize) % (t1.len() + 1);
        let mut t2v = t1[..cut].to_vec();
        for (i, c) in t2v.iter_mut().enumerate() { if (i < 8 + a.authority().len() || sel >= 0xC0) && (casef >> (i % 8)) & 1 == 1 { *c = if c.is_ascii_lowercase() { c.to_ascii_uppercase() } else { c.to_ascii_lowercase() } } }
        let t2v = text(&t2v, &t2, m);
        if let Ok(b) = Rsync::from_slice(&t2v) {
            let e = a == b;
            assert!(e == rsync_eq_ref(&a, &b) && e == (b == a), "== is: scheme+authority case-insensitively, the rest exactly; symmetric");
            if e { assert!(h(&a) == h(&b), "equal URIs hash equally"); }
            for (x, y) in [(&a, &b), (&b, &a)] {
                let (sx, sy) = (strip1(x.as_slice()), strip1(y.as_slice()));
                let (kx, ky) = (8 + x.authority().len(), 8 + y.authority().len());
                let upto = sx.len() == sy.len() && kx == ky && lower(&sx[..kx]) == lower(&sy[..ky]) && sx[kx..] == sy[ky..];
                let rel = x.relative_to(y);
                assert!((rel == Some("")) == upto, "relative_to is empty exactly for URIs equal up to one trailing slash");
                match rel {
                    Some(rel) if !rel.is_empty() => {
                        let j = y.join(rel.as_bytes());
                        assert!(j.is_ok() && j.unwrap() == *x, "non-empty relative_to: joining it to the other URI gives back the original");
                        assert!(y.is_parent_of(x), "non-empty relative path <=> parent-of");
                    }
                    _ => assert!(!y.is_parent_of(x), "no or empty relative path ==> not a parent"),
                }
            }
            // parent-of agrees with equality and is transitive along join
            if let Some(q) = b.parent() {
                assert!(rsync_reparses(&q) && q.is_parent_of(&b) && q.path_is_dir(), "parent re-parses, is a parent of its child, is a directory");
                if a.is_parent_of(&q) { assert!(a.is_parent_of(&b), "parent-of is transitive"); }
                if e { assert!(a.parent().map(|qa| qa == q).unwrap_or(false), "equal URIs have equal parents"); }
            } else {
                assert!(b.path().is_empty(), "no parent only for an empty path");
            }
        }
        // join
        let pv: Vec<u8> = p[..(pn as usize) % 11].iter().map(|b| ch(*b)).collect();
        let join_ok = pv.is_empty() || (pv.iter().all(|c| permitted(*c)) && segments_ok(&pv) && pv[0] != b'/');
        match a.join(&pv) {
            Ok(j) => {
                assert!(join_ok, "join accepts only clean relative paths");
                assert!(rsync_reparses(&j), "join result re-parses to an equal value with the same offsets");
                assert!(j.authority() == a.authority() && j.module_name() == a.module_name(), "join keeps authority and module");
                let mut want = a.as_slice().to_vec();
                if !pv.is_empty() { if !want.ends_with(b"/") { want.push(b'/') } want.extend_from_slice(&pv); }
                assert!(j.as_slice() == &want[..], "join appends the path below the base");
                if !pv.is_empty() {
                    assert!(a.is_parent_of(&j), "join(base, p) lies beneath base");
                    assert!(j.relative_to(&a) == Some(std::str::from_utf8(&pv).unwrap()), "relative_to undoes join");
                }
            }
            Err(_) => assert!(!join_ok, "join rejects only unclean paths"),
        }
        match a.parent() {
            Some(q) => {
                assert!(rsync_reparses(&q) && q.is_parent_of(&a) && q.authority() == a.authority() && q.module_name() == a.module_name(), "parent re-parses, same authority, parent of its child");
                assert!(a.as_slice().starts_with(q.as_slice()) && !strip1(a.as_slice())[q.as_slice().len()..].contains(&b'/'), "parent removes exactly the last segment");
            }
            None => assert!(a.path().is_empty(), "no parent only for an empty path"),
        }
    }}

    fn https_reparses(u: &Https) -> bool {
        match Https::from_slice(u.as_slice()) {
            Ok(v) => v.path_idx == u.path_idx && v == *u && v.authority() == u.authority(),
            Err(_) => false,
        }
    }
    //@harness uri_w_https W fn=Https::{from_bytes,join,parent,eq,hash,eq_authority} n=40000 timeout=600
    verif_search!{ uri_w_https; |sel: u8, n: u8, t: [u8; 16], k: u8, m: u8, t2: [u8; 10], casef: u8, pn: u8, p: [u8; 8]| {
        let t1 = text(&scheme(sel, b"https://"), &t, n);
        let valid = t1.iter().all(|c| permitted(*c)) && t1.len() >= 8 && lower(&t1[..8]) == b"https://";
        let r1 = Https::from_slice(&t1);
        assert!(r1.is_ok() == valid, "Https::from_bytes accepts exactly permitted-character texts with the https scheme");
        let a = match r1 { Ok(a) => a, Err(_) => return };
        assert!(a.as_slice() == &t1[..], "accepted URI keeps its text");
        let mut rec = t1[..8].to_vec();
        rec.extend_from_slice(a.authority().as_bytes()); rec.extend_from_slice(a.path().as_bytes());
        assert!(rec == t1 && !a.authority().contains('/') && (a.path().is_empty() || a.path().starts_with('/')), "scheme, authority and path recompose to the text");
        assert!(a == a && h(&a) == h(&a.clone()), "reflexive");
        let cut = (k as usize) % (t1.len() + 1);
        let mut t2v = t1[..cut].to_vec();
        for (i, c) in t2v.iter_mut().enumerate() { if (i < 8 + a.authority().len() || sel >= 0xC0) && (casef >> (i % 8)) & 1 == 1 { *c = if c.is_ascii_lowercase() { c.to_ascii_uppercase() } else { c.to_ascii_lowercase() } } }
        let t2v = text(&t2v, &t2, m);
        if let Ok(b) = Https::from_slice(&t2v) {
            let (ka, kb) = (8 + a.authority().len(), 8 + b.authority().len());
            let want = ka == kb && lower(&t1[..ka]) == lower(&t2v[..kb]) && t1[ka..] == t2v[kb..];
            assert!((a == b) == want && (b == a) == want, "== is: scheme+authority case-insensitively, the rest exactly; symmetric");
            if want { assert!(h(&a) == h(&b), "equal URIs hash equally"); }
            assert!(a.eq_authority(&b) == (lower(a.authority().as_bytes()) == lower(b.authority().as_bytes())), "eq_authority compares the authority case-insensitively");
        }
        let pv: Vec<u8> = p[..(pn as usize) % 9].iter().map(|b| ch(*b)).collect();
        match a.join(&pv) {
            Ok(j) => {
                assert!(pv.iter().all(|c| permitted(*c)), "join accepts only permitted characters");
                assert!(https_reparses(&j), "join result re-parses to an equal value with the same authority");
                assert!(j.authority() == a.authority(), "join keeps the authority");
                let mut want = a.as_slice().to_vec();
                if !a.path().ends_with('/') { want.push(b'/') }
                want.extend_from_slice(&pv);
                assert!(j.as_slice() == &want[..], "join appends the path below the base");
            }
            Err(_) => assert!(!pv.iter().all(|c| permitted(*c)), "join rejects only illegal characters"),
        }
        match a.parent() {
            Some(q) => {
                assert!(https_reparses(&q) && q.authority() == a.authority() && q.path().ends_with('/'), "parent re-parses, same authority, is a directory");
                assert!(a.as_slice().starts_with(q.as_slice()) && a.as_slice().len() > q.as_slice().len() && !strip1(a.as_slice())[q.as_slice().len()..].contains(&b'/'), "parent removes exactly the last segment");
            }
            None => assert!(a.path().is_empty() || a.path() == "/", "no parent only for an empty path"),
        }
    }}
}
//@end
