// Unit chain_trim (C03): Chain::trim of src/repository/resources/chain.rs yields the
// intersection of the two chains (mathematical view), in canonical form.
use vstd::prelude::*;
use vstd::std_specs::cmp::*;
use core::cmp::Ordering;
use core::cmp::{min, max};

verus! {

//@include shared/chain_env.v.rs

impl<T: Block> OwnedChain<T> {
    //@fn src/repository/resources/chain.rs :: impl<T: Block> OwnedChain<T> :: from_vec_unchecked
    //@spec
        ensures r.0@ == vec@,
    //@/spec
    //@end

    //@fn src/repository/resources/chain.rs :: impl<T: Block> OwnedChain<T> :: empty
    //@spec
        ensures r.0@ == Seq::<T>::empty(),
    //@/spec
    //@end
}

impl<T: Block> Chain<T> {
    //@fn src/repository/resources/chain.rs :: impl<T: Block> Chain<T> :: as_slice
    //@spec
        ensures r@ == self.0@,
    //@/spec
    //@end

    //@fn src/repository/resources/chain.rs :: impl<T: Block> Chain<T> :: trim loopiso
    //@sigsub R4 "<C: AsRef<Chain<T>>>" ""
    //@sigsub R4 "other: &C" "other: &Chain<T>"
    //@sub R4 "let other = other.as_ref();" "let other = other;"
    //@spec
        requires canonical(self.0@), canonical(other.0@),
    //@/spec
    //@ghost begin
        proof { T::ord_law(); }
    //@/ghost
    //@sub R2 ".map(|item| (item.min(), item.max()))" ".map(|item| -> (p: (T::Item, T::Item)) ensures T::val(p.0) == item.lo(), T::val(p.1) == item.hi() { (item.min(), item.max()) })"
    //@loop "loop"
            invariant true,
            decreases 0int,
    //@/loop
    //@end
}

impl<T: Block> core::ops::Deref for Chain<T> {
    type Target = [T];
    //@fn src/repository/resources/chain.rs :: impl<T: Block> ops::Deref for Chain<T> :: deref
    //@spec
        ensures r@ == self.0@,
    //@/spec
    //@end
}

} // verus!
fn main() {}
