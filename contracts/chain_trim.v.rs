// Unit chain_trim (C03): Chain::trim of src/repository/resources/chain.rs yields the
// intersection of the two chains (mathematical view), in canonical form; Ok(()) exactly when
// self is already a subset of other.
use vstd::prelude::*;
use vstd::std_specs::cmp::*;
use vstd::std_specs::iter::IteratorSpec;
use core::cmp::Ordering;
use core::cmp::{min, max};

verus! {

//@include shared/chain_env.v.rs

// ---- assumed contract of std (listed in chain_trim.trusted) -------------------------------
// `impl<T: Clone> From<&[T]> for Vec<T>` is `s.to_vec()`: element-wise clone, same length.
pub assume_specification<'a, T: Clone> [ <Vec<T> as core::convert::From<&'a [T]>>::from ] (s: &[T]) -> (r: Vec<T>)
    ensures lem::clone_seq(s@, r@);

pub mod lem {
use super::*;

// ---- specification vocabulary of the trim loop ---------------------------------------------
pub open spec fn clone_seq<T: Clone>(a: Seq<T>, v: Seq<T>) -> bool {
    a.len() == v.len() && forall|i: int| 0 <= i < a.len() ==> cloned(#[trigger] a[i], v[i])
}
/// the slice iterator `rem` (prophesied remaining items) is a suffix walk over `s`
pub open spec fn iter_at<T>(rem: Seq<&T>, s: Seq<T>) -> bool {
    rem.len() <= s.len() && forall|j: int| 0 <= j < rem.len() ==> *(#[trigger] rem[j]) == s[s.len() - rem.len() + j]
}
/// the blocks accumulated so far: a prefix of self (by index) or the vector being built
pub open spec fn acc_of<T: Block>(res: Result<usize, Vec<T>>, slf: Seq<T>) -> Seq<T> {
    match res { Ok(i) => slf.subrange(0, i as int), Err(v) => v@ }
}
/// acc is canonical and denotes self ∩ other
pub open spec fn final_ok<T: Block>(slf: Seq<T>, oth: Seq<T>, acc: Seq<T>) -> bool {
    &&& canonical(acc)
    &&& forall|x: int| #[trigger] in_view(acc, x) <==> (in_view(slf, x) && in_view(oth, x))
}
pub open spec fn final_err<T: Block>(slf: Seq<T>, oth: Seq<T>, acc: Seq<T>) -> bool {
    final_ok(slf, oth, acc) && !view_subset(slf, oth)
}
/// Loop invariant.  si / oi: index of the current self / other block; [lo, hi] the unprocessed
/// part of self[si]; acc the blocks produced so far; ok: no trimming was necessary so far.
pub closed spec fn inv<T: Block>(slf: Seq<T>, oth: Seq<T>, si: int, oi: int, lo: int, hi: int, ok: bool, acc: Seq<T>) -> bool {
    &&& canonical(slf)
    &&& canonical(oth)
    &&& 0 <= si < slf.len()
    &&& 0 <= oi < oth.len()
    &&& slf[si].lo() <= lo <= hi
    &&& hi == slf[si].hi()
    &&& (oi > 0 ==> oth[oi - 1].hi() < lo)
    &&& canonical(acc)
    &&& (forall|x: int| #[trigger] in_view(acc, x) <==> (in_view(slf, x) && in_view(oth, x) && x < lo))
    &&& (acc.len() > 0 ==> acc.last().hi() < lo
            && (acc.last().hi() + 1 < lo || acc.last().hi() + 1 < oth[oi].lo() || acc.last().hi() == oth[oi].hi()))
    &&& (ok ==> lo == slf[si].lo() && acc == slf.subrange(0, si))
    &&& (!ok ==> !view_subset(slf, oth))
}

/// the length of a slice fits in usize (vstd: `s.len()` in spec mode is a usize equal to s@.len())
pub proof fn lemma_slice_len<T>(s: &[T])
    ensures s@.len() <= usize::MAX,
{
    assert(s.len() == s@.len());
}

// ---- basic lemmas over in_view / canonical ---------------------------------------------------
pub proof fn lemma_in_block<T: Block>(s: Seq<T>, i: int, x: int)
    requires 0 <= i < s.len(), s[i].lo() <= x <= s[i].hi(),
    ensures in_view(s, x),
{}

pub proof fn lemma_locate<T: Block>(s: Seq<T>, x: int) -> (i: int)
    requires in_view(s, x),
    ensures 0 <= i < s.len(), s[i].lo() <= x <= s[i].hi(),
{
    choose|i: int| 0 <= i < s.len() && (#[trigger] s[i]).lo() <= x <= s[i].hi()
}

/// in a canonical chain blocks are ordered (non-strict index order gives non-strict bounds)
pub proof fn lemma_ordered<T: Block>(s: Seq<T>, i: int, j: int)
    requires canonical(s), 0 <= i <= j < s.len(),
    ensures s[i].lo() <= s[j].lo(), s[i].hi() <= s[j].hi(), s[i].lo() <= s[i].hi(),
            i < j ==> s[i].hi() + 1 < s[j].lo(),
{
    if i < j { assert(s[i].hi() + 1 < s[j].lo()); }
}

/// a point above the end of block i-1 and not above the end of block i can only be in block i
pub proof fn lemma_locate_at<T: Block>(s: Seq<T>, i: int, x: int)
    requires canonical(s), 0 <= i < s.len(), i > 0 ==> s[i - 1].hi() < x, x <= s[i].hi(),
    ensures in_view(s, x) <==> s[i].lo() <= x,
{
    if in_view(s, x) {
        let j = lemma_locate(s, x);
        if j < i { lemma_ordered(s, j, i - 1); }
        if j > i { lemma_ordered(s, i, j); }
    } else if s[i].lo() <= x {
        lemma_in_block(s, i, x);
    }
}

/// a point above the end of block i and below the start of block i+1 (if any) is in no block
pub proof fn lemma_gap<T: Block>(s: Seq<T>, i: int, x: int)
    requires canonical(s), 0 <= i < s.len(), s[i].hi() < x, i + 1 < s.len() ==> x < s[i + 1].lo(),
    ensures !in_view(s, x),
{
    if in_view(s, x) {
        let j = lemma_locate(s, x);
        if j <= i { lemma_ordered(s, j, i); }
        if j > i { lemma_ordered(s, i + 1, j); }
    }
}

/// a point below the start of block 0 is in no block
pub proof fn lemma_below_first<T: Block>(s: Seq<T>, x: int)
    requires canonical(s), s.len() > 0 ==> x < s[0].lo(),
    ensures !in_view(s, x),
{
    if in_view(s, x) {
        let j = lemma_locate(s, x);
        lemma_ordered(s, 0, j);
    }
}

pub proof fn lemma_push_view<T: Block>(acc: Seq<T>, b: T, x: int)
    ensures in_view(acc.push(b), x) <==> (in_view(acc, x) || b.lo() <= x <= b.hi()),
{
    let p = acc.push(b);
    if in_view(p, x) {
        let j = lemma_locate(p, x);
        if j < acc.len() { assert(p[j] == acc[j]); lemma_in_block(acc, j, x); }
        else { assert(p[j] == b); }
    }
    if in_view(acc, x) {
        let j = lemma_locate(acc, x);
        assert(p[j] == acc[j]);
        lemma_in_block(p, j, x);
    }
    if b.lo() <= x <= b.hi() {
        assert(p[acc.len() as int] == b);
        lemma_in_block(p, acc.len() as int, x);
    }
}

pub proof fn lemma_push_canonical<T: Block>(acc: Seq<T>, b: T)
    requires canonical(acc), b.lo() <= b.hi(), acc.len() > 0 ==> acc.last().hi() + 1 < b.lo(),
    ensures canonical(acc.push(b)),
{
    let p = acc.push(b);
    assert forall|i: int| 0 <= i < p.len() implies (#[trigger] p[i]).lo() <= p[i].hi() by {
        if i < acc.len() { assert(p[i] == acc[i]); }
    }
    assert forall|i: int, j: int| 0 <= i < j < p.len() implies (#[trigger] p[i]).hi() + 1 < (#[trigger] p[j]).lo() by {
        assert(p[i] == acc[i]);
        if j < acc.len() { assert(p[j] == acc[j]); }
        else { lemma_ordered(acc, i, acc.len() - 1); }
    }
}

/// the first k blocks of a canonical chain: canonical, and exactly the part of the view below block k
pub proof fn lemma_prefix<T: Block>(s: Seq<T>, k: int)
    requires canonical(s), 0 <= k <= s.len(),
    ensures
        canonical(s.subrange(0, k)),
        forall|x: int| #[trigger] in_view(s.subrange(0, k), x) <==> (in_view(s, x) && (k < s.len() ==> x < s[k].lo())),
{
    let p = s.subrange(0, k);
    assert forall|x: int| #[trigger] in_view(p, x) <==> (in_view(s, x) && (k < s.len() ==> x < s[k].lo())) by {
        if in_view(p, x) {
            let j = lemma_locate(p, x);
            assert(p[j] == s[j]);
            lemma_in_block(s, j, x);
            if k < s.len() { lemma_ordered(s, j, k); }
        }
        if in_view(s, x) && (k < s.len() ==> x < s[k].lo()) {
            let j = lemma_locate(s, x);
            if j >= k { lemma_ordered(s, k, j); }
            assert(p[j] == s[j]);
            lemma_in_block(p, j, x);
        }
    }
}

/// an element-wise clone of a chain has the same bounds, hence the same view and canonicity
pub proof fn lemma_clone_seq<T: Block>(a: Seq<T>, v: Seq<T>)
    requires clone_seq(a, v),
    ensures
        canonical(a) ==> canonical(v),
        forall|x: int| #[trigger] in_view(v, x) <==> in_view(a, x),
        a.len() == v.len(),
        a.len() > 0 ==> a.last().hi() == v.last().hi(),
{
    T::ord_law();
    assert forall|i: int| 0 <= i < a.len() implies (#[trigger] v[i]).lo() == a[i].lo() && v[i].hi() == a[i].hi() by {
        assert(cloned(a[i], v[i]));
    }
    assert forall|x: int| #[trigger] in_view(v, x) <==> in_view(a, x) by {
        if in_view(v, x) { let j = lemma_locate(v, x); lemma_in_block(a, j, x); }
        if in_view(a, x) { let j = lemma_locate(a, x); lemma_in_block(v, j, x); }
    }
    if canonical(a) {
        assert forall|i: int, j: int| 0 <= i < j < v.len() implies (#[trigger] v[i]).hi() + 1 < (#[trigger] v[j]).lo() by {
            lemma_ordered(a, i, j);
        }
    }
}

// ---- one lemma per loop step ---------------------------------------------------------------------
pub proof fn lemma_init<T: Block>(slf: Seq<T>, oth: Seq<T>)
    requires canonical(slf), canonical(oth), slf.len() > 0, oth.len() > 0,
    ensures inv(slf, oth, 0, 0, slf[0].lo(), slf[0].hi(), true, slf.subrange(0, 0)),
{
    let acc = slf.subrange(0, 0);
    lemma_prefix(slf, 0);
}

/// other[oi] lies entirely below the unprocessed part: advance other, or stop if it was the last
pub proof fn lemma_adv_other<T: Block>(slf: Seq<T>, oth: Seq<T>, si: int, oi: int, lo: int, hi: int, ok: bool, acc: Seq<T>)
    requires inv(slf, oth, si, oi, lo, hi, ok, acc), oth[oi].hi() < lo,
    ensures
        oi + 1 < oth.len() ==> inv(slf, oth, si, oi + 1, lo, hi, ok, acc),
        oi + 1 == oth.len() ==> final_ok(slf, oth, acc) && !view_subset(slf, oth),
{
    if oi + 1 < oth.len() {
        lemma_ordered(oth, oi, oi + 1);
    } else {
        assert forall|x: int| #[trigger] in_view(acc, x) <==> (in_view(slf, x) && in_view(oth, x)) by {
            if in_view(oth, x) { let j = lemma_locate(oth, x); lemma_ordered(oth, j, oi); }
        }
        lemma_in_block(slf, si, lo);
        lemma_gap(oth, oi, lo);
    }
}

/// self[si]'s unprocessed part is covered by other[oi] and nothing was trimmed so far
pub proof fn lemma_covered_ok<T: Block>(slf: Seq<T>, oth: Seq<T>, si: int, oi: int, lo: int, hi: int)
    requires
        inv(slf, oth, si, oi, lo, hi, true, slf.subrange(0, si)),
        oth[oi].lo() <= lo, hi <= oth[oi].hi(),
    ensures
        si + 1 < slf.len() ==> inv(slf, oth, si + 1, oi, slf[si + 1].lo(), slf[si + 1].hi(), true, slf.subrange(0, si + 1)),
        si + 1 == slf.len() ==> view_subset(slf, oth),
{
    let acc = slf.subrange(0, si);
    let acc2 = slf.subrange(0, si + 1);
    lemma_prefix(slf, si + 1);
    // everything of self up to and including block si is in other
    assert forall|x: int| in_view(acc2, x) implies in_view(oth, x) by {
        let j = lemma_locate(acc2, x);
        assert(acc2[j] == slf[j]);
        if j < si {
            assert(acc[j] == slf[j]);
            lemma_in_block(acc, j, x);
        } else {
            lemma_in_block(oth, oi, x);
        }
    }
    if si + 1 < slf.len() {
        lemma_ordered(slf, si, si + 1);
        assert(acc2.last() == slf[si]);
    }
}

/// self[si]'s unprocessed part [lo, hi] is covered by other[oi]; b = [lo, hi] is pushed
pub proof fn lemma_covered_err<T: Block>(slf: Seq<T>, oth: Seq<T>, si: int, oi: int, lo: int, hi: int, acc: Seq<T>, b: T)
    requires
        inv(slf, oth, si, oi, lo, hi, false, acc),
        lo <= oth[oi].hi(), oth[oi].lo() <= lo, hi <= oth[oi].hi(),
        b.lo() == lo, b.hi() == hi,
    ensures
        si + 1 < slf.len() ==> inv(slf, oth, si + 1, oi, slf[si + 1].lo(), slf[si + 1].hi(), false, acc.push(b)),
        si + 1 == slf.len() ==> final_err(slf, oth, acc.push(b)),
{
    lemma_keep(slf, oth, si, oi, lo, hi, acc, b);
}

/// pushing b = [max(lo, other[oi].lo), min(hi, other[oi].hi)] (non-empty) onto acc:
/// canonical, and the view grows by exactly self ∩ other ∩ [lo, b.hi]
pub proof fn lemma_push_step<T: Block>(slf: Seq<T>, oth: Seq<T>, si: int, oi: int, lo: int, hi: int, acc: Seq<T>, b: T)
    requires
        inv(slf, oth, si, oi, lo, hi, false, acc),
        lo <= oth[oi].hi(), oth[oi].lo() <= hi,
        b.lo() == (if lo >= oth[oi].lo() { lo } else { oth[oi].lo() }),
        b.hi() == (if hi <= oth[oi].hi() { hi } else { oth[oi].hi() }),
    ensures
        canonical(acc.push(b)),
        acc.push(b).last() == b,
        forall|x: int| #[trigger] in_view(acc.push(b), x) <==> (in_view(slf, x) && in_view(oth, x) && x <= b.hi()),
{
    let p = acc.push(b);
    lemma_ordered(oth, oi, oi);
    lemma_push_canonical(acc, b);
    assert forall|x: int| #[trigger] in_view(p, x) <==> (in_view(slf, x) && in_view(oth, x) && x <= b.hi()) by {
        lemma_push_view(acc, b, x);
        if b.lo() <= x <= b.hi() {
            lemma_in_block(slf, si, x);
            lemma_in_block(oth, oi, x);
        }
        if in_view(slf, x) && in_view(oth, x) && lo <= x <= b.hi() {
            lemma_locate_at(oth, oi, x);
        }
    }
}

/// keep-and-advance-self: b as in lemma_push_step with b.hi == hi
pub proof fn lemma_keep<T: Block>(slf: Seq<T>, oth: Seq<T>, si: int, oi: int, lo: int, hi: int, acc: Seq<T>, b: T)
    requires
        inv(slf, oth, si, oi, lo, hi, false, acc),
        lo <= oth[oi].hi(), oth[oi].lo() <= hi, hi <= oth[oi].hi(),
        b.lo() == (if lo >= oth[oi].lo() { lo } else { oth[oi].lo() }), b.hi() == hi,
    ensures
        si + 1 < slf.len() ==> inv(slf, oth, si + 1, oi, slf[si + 1].lo(), slf[si + 1].hi(), false, acc.push(b)),
        si + 1 == slf.len() ==> final_err(slf, oth, acc.push(b)),
{
    let p = acc.push(b);
    lemma_push_step(slf, oth, si, oi, lo, hi, acc, b);
    lemma_self_done(slf, oth, si, oi, hi, p);
}

/// all of self ∩ other up to hi = self[si].hi is in p: move on to self[si+1] or finish
pub proof fn lemma_self_done<T: Block>(slf: Seq<T>, oth: Seq<T>, si: int, oi: int, hi: int, p: Seq<T>)
    requires
        canonical(slf), canonical(oth), canonical(p), 0 <= si < slf.len(), 0 <= oi < oth.len(),
        hi == slf[si].hi(),
        oi > 0 ==> oth[oi - 1].hi() < hi,
        forall|x: int| #[trigger] in_view(p, x) <==> (in_view(slf, x) && in_view(oth, x) && x <= hi),
        p.len() > 0 ==> p.last().hi() <= hi,
        !view_subset(slf, oth),
    ensures
        si + 1 < slf.len() ==> inv(slf, oth, si + 1, oi, slf[si + 1].lo(), slf[si + 1].hi(), false, p),
        si + 1 == slf.len() ==> final_err(slf, oth, p),
{
    if si + 1 < slf.len() {
        lemma_ordered(slf, si, si + 1);
        let lo2 = slf[si + 1].lo();
        assert forall|x: int| #[trigger] in_view(p, x) <==> (in_view(slf, x) && in_view(oth, x) && x < lo2) by {
            if in_view(slf, x) && x < lo2 && x > hi { lemma_gap(slf, si, x); }
        }
    } else {
        assert forall|x: int| #[trigger] in_view(p, x) <==> (in_view(slf, x) && in_view(oth, x)) by {
            if in_view(slf, x) { let j = lemma_locate(slf, x); lemma_ordered(slf, j, si); }
        }
    }
}

/// first trimming step: the index result is replaced by a clone of the prefix
pub proof fn lemma_to_err<T: Block>(slf: Seq<T>, oth: Seq<T>, si: int, oi: int, lo: int, hi: int, v: Seq<T>)
    requires
        inv(slf, oth, si, oi, lo, hi, true, slf.subrange(0, si)),
        clone_seq(slf.subrange(0, si), v),
        lo <= oth[oi].hi(), !(oth[oi].lo() <= lo && hi <= oth[oi].hi()),
    ensures inv(slf, oth, si, oi, lo, hi, false, v),
{
    let acc = slf.subrange(0, si);
    lemma_clone_seq(acc, v);
    assert forall|x: int| #[trigger] in_view(v, x) <==> (in_view(slf, x) && in_view(oth, x) && x < lo) by {
        assert(in_view(v, x) <==> in_view(acc, x));
    }
    // a point of self that is not in other
    lemma_ordered(oth, oi, oi);
    if lo < oth[oi].lo() {
        lemma_in_block(slf, si, lo);
        lemma_locate_at(oth, oi, lo);
    } else {
        let x = oth[oi].hi() + 1;
        lemma_in_block(slf, si, x);
        if oi + 1 < oth.len() { lemma_ordered(oth, oi, oi + 1); }
        lemma_gap(oth, oi, x);
    }
}

/// the else branch: self[si]'s unprocessed part is not covered by other[oi] (which does not end
/// below it); `keep` is pushed if present, then either `redo` replaces the unprocessed part or
/// self advances
pub proof fn lemma_else<T: Block>(slf: Seq<T>, oth: Seq<T>, si: int, oi: int, lo: int, hi: int, acc: Seq<T>, keep: Option<T>, redo: Option<int>)
    requires
        inv(slf, oth, si, oi, lo, hi, false, acc),
        lo <= oth[oi].hi(), !(oth[oi].lo() <= lo && hi <= oth[oi].hi()),
        hi < oth[oi].lo() ==> keep.is_none() && redo.is_none(),
        oth[oi].lo() <= hi ==> keep.is_some()
            && keep.unwrap().lo() == (if lo >= oth[oi].lo() { lo } else { oth[oi].lo() })
            && keep.unwrap().hi() == (if hi <= oth[oi].hi() { hi } else { oth[oi].hi() }),
        oth[oi].lo() <= hi <= oth[oi].hi() ==> redo.is_none(),
        oth[oi].hi() < hi ==> redo == Some(oth[oi].hi() + 1),
    ensures
        ({
            let acc2 = match keep { Some(b) => acc.push(b), None => acc };
            match redo {
                Some(l) => inv(slf, oth, si, oi, l, hi, false, acc2),
                None => (si + 1 < slf.len() ==> inv(slf, oth, si + 1, oi, slf[si + 1].lo(), slf[si + 1].hi(), false, acc2))
                     && (si + 1 == slf.len() ==> final_err(slf, oth, acc2)),
            }
        }),
{
    lemma_ordered(oth, oi, oi);
    if hi < oth[oi].lo() {
        // nothing of [lo, hi] is in other
        assert forall|x: int| #[trigger] in_view(acc, x) <==> (in_view(slf, x) && in_view(oth, x) && x <= hi) by {
            if in_view(oth, x) && lo <= x <= hi { lemma_locate_at(oth, oi, x); }
        }
        lemma_self_done(slf, oth, si, oi, hi, acc);
    } else if hi <= oth[oi].hi() {
        lemma_keep(slf, oth, si, oi, lo, hi, acc, keep.unwrap());
    } else {
        let b = keep.unwrap();
        let p = acc.push(b);
        lemma_push_step(slf, oth, si, oi, lo, hi, acc, b);
        let l = oth[oi].hi() + 1;
        assert forall|x: int| #[trigger] in_view(p, x) <==> (in_view(slf, x) && in_view(oth, x) && x < l) by {}
    }
}

} // mod lem

proof fn reach_trim<T: Block>(b: T)
    requires b.lo() <= b.hi(),
    ensures canonical(seq![b]), canonical(Seq::<T>::empty()), in_view(seq![b], b.lo()),
{
    assert(seq![b][0] == b);
}

impl<T: Block> OwnedChain<T> {
    //@fn src/repository/resources/chain.rs :: impl<T: Block> OwnedChain<T> :: from_vec_unchecked
    //@spec
        ensures r.0@ == vec@,
    //@/spec
    //@end

    //@fn src/repository/resources/chain.rs :: impl<T: Block> OwnedChain<T> :: empty
    //@spec
        ensures r.0@.len() == 0,
    //@/spec
    //@end
}

impl<T: Block> core::ops::Deref for Chain<T> {
    type Target = [T];
    //@fn src/repository/resources/chain.rs :: impl<T: Block> ops::Deref for Chain<T> :: deref
    //@spec
        ensures r@ == self.0@,
    //@/spec
    //@end
}

impl<T: Block> Chain<T> {
    //@fn src/repository/resources/chain.rs :: impl<T: Block> Chain<T> :: as_slice
    //@spec
        ensures r@ == self.0@,
    //@/spec
    //@end

    // loopiso + break-only loop clauses (invariant_except_break / ensures) need this verifier switch
    #[verifier::allow_complex_invariants]
    //@fn src/repository/resources/chain.rs :: impl<T: Block> Chain<T> :: trim loopiso
    //@sigsub R4 "<C: AsRef<Chain<T>>>" ""
    //@sigsub R4 "other: &C" "other: &Chain<T>"
    //@sub R4 "let other = other.as_ref();" "let other = other;"
    //@sub R2 ".map(|item| (item.min(), item.max()))" ".map(|item| -> (p: (T::Item, T::Item)) ensures T::val(p.0) == item.lo(), T::val(p.1) == item.hi() { (item.min(), item.max()) })"
    //@spec
        requires canonical(self.0@), canonical(other.0@),
        ensures
            r.is_ok() ==> view_subset(self.0@, other.0@),
            r.is_err() ==> canonical(r.unwrap_err().0@)
                && forall|x: int| in_view(r.unwrap_err().0@, x) <==> (in_view(self.0@, x) && in_view(other.0@, x)),
            // completeness of Ok, except: both chains empty returns Err(empty chain) (other is tested first)
            view_subset(self.0@, other.0@) && (self.0@.len() > 0 || other.0@.len() > 0) ==> r.is_ok(),
    //@/spec
    //@ghost begin
        proof {
            T::ord_law();
            lem::lemma_slice_len(&self.0);
            if self.0@.len() > 0 { lem::lemma_in_block(self.0@, 0, self.0@[0].lo()); }
        }
    //@/ghost
    //@ghost before "let mut res: Result<usize, Vec<_>> = Ok(0);"
        proof { lem::lemma_init(self.0@, other.0@); }
    //@/ghost
    //@loop "loop"
            invariant_except_break
                other_iter.decrease().is_some(), self_iter.decrease().is_some(),
                lem::iter_at(other_iter.remaining(), other.0@),
                other_iter.remaining().len() < other.0@.len(),
                *other_item == other.0@[other.0@.len() - 1 - other_iter.remaining().len()],
                lem::iter_at(self_iter.remaining(), self.0@),
                self_iter.remaining().len() < self.0@.len(),
                res matches Ok(i) ==> i == self.0@.len() - 1 - self_iter.remaining().len(),
                lem::inv(self.0@, other.0@,
                    self.0@.len() - 1 - self_iter.remaining().len(), other.0@.len() - 1 - other_iter.remaining().len(),
                    T::val(self_item.0), T::val(self_item.1), res.is_ok(), lem::acc_of(res, self.0@)),
            ensures
                res matches Ok(i) ==> i <= self.0@.len(),
                lem::final_ok(self.0@, other.0@, lem::acc_of(res, self.0@)),
                !view_subset(self.0@, other.0@),
            decreases other_iter.decrease().unwrap(), self_iter.decrease().unwrap(), T::val(self_item.1) - T::val(self_item.0),
    //@/loop
    //@ghost before "match other_iter.next() {"
                proof {
                    lem::lemma_adv_other(self.0@, other.0@,
                        self.0@.len() - 1 - self_iter.remaining().len(), other.0@.len() - 1 - other_iter.remaining().len(),
                        T::val(self_item.0), T::val(self_item.1), res.is_ok(), lem::acc_of(res, self.0@));
                }
    //@/ghost
    //@ghost before "match res {" nth=0
                proof {
                    let si = self.0@.len() - 1 - self_iter.remaining().len();
                    let oi = other.0@.len() - 1 - other_iter.remaining().len();
                    let acc = lem::acc_of(res, self.0@);
                    if res.is_ok() {
                        lem::lemma_covered_ok(self.0@, other.0@, si, oi, T::val(self_item.0), T::val(self_item.1));
                    } else {
                        assert forall|b: T| b.lo() == T::val(self_item.0) && b.hi() == T::val(self_item.1) implies
                            (si + 1 < self.0@.len() ==> lem::inv(self.0@, other.0@, si + 1, oi, self.0@[si + 1].lo(), self.0@[si + 1].hi(), false, #[trigger] acc.push(b)))
                            && (si + 1 == self.0@.len() ==> lem::final_err(self.0@, other.0@, acc.push(b)))
                        by {
                            lem::lemma_covered_err(self.0@, other.0@, si, oi, T::val(self_item.0), T::val(self_item.1), acc, b);
                        }
                    }
                }
    //@/ghost
    //@ghost before "if let Some(keep) = keep {"
                proof {
                    let si = self.0@.len() - 1 - self_iter.remaining().len();
                    let oi = other.0@.len() - 1 - other_iter.remaining().len();
                    let v = res.unwrap_err()@;
                    if !lem::inv(self.0@, other.0@, si, oi, T::val(self_item.0), T::val(self_item.1), false, v) {
                        lem::lemma_to_err(self.0@, other.0@, si, oi, T::val(self_item.0), T::val(self_item.1), v);
                    }
                    lem::lemma_else(self.0@, other.0@, si, oi, T::val(self_item.0), T::val(self_item.1), v, keep,
                        match redo { Some(p) => Some(T::val(p.0)), None => None });
                }
    //@/ghost
    //@ghost before "let res = match res {"
        proof {
            if let Ok(i) = res {
                assert forall|v: Seq<T>| #[trigger] lem::clone_seq(self.0@.subrange(0, i as int), v) implies
                    canonical(v) && (forall|x: int| in_view(v, x) <==> (in_view(self.0@, x) && in_view(other.0@, x)))
                by {
                    lem::lemma_clone_seq(self.0@.subrange(0, i as int), v);
                }
            }
        }
    //@/ghost
    //@end
}

} // verus!
fn main() {}
