// Unit rtr_w (C06): WITNESS SEARCH ONLY (kind W) - proves nothing, never counted.
// "RTR: after any completed exchange the client holds exactly the server's data."
// The COMPILED rtr::client::Client and rtr::server::Server talk to each other natively over an in-memory
// duplex socket, single-threaded: the client's future is polled by hand (no-op waker) inside the context of a
// current-thread tokio runtime (tokio::time::timeout needs one; its timers are never waited for), the
// connection task that Server::run spawns is run by `block_on(yield_now())` between two client polls.  Only
// public entry points are called (Server::new/run, NotifySender, Client::new/with_initial_version/step/reset/
// apply/state/target/into_target and the PayloadSource / PayloadTarget / Socket traits).
// The source goes through a random history (sessions that change or stay; serials that stay, advance by one,
// by many, wrap around u32; origins v4/v6, router keys, ASPAs announced / withdrawn / replaced; diffs available
// or not; timings with boundary values), remembers the set it had in EVERY state it ever was in, and the client
// does one synchronisation step after each change: Client::step (serial query with fallback to reset) or
// Client::reset + apply, with initial versions 0, 1, 2 (and larger, capped), reconnects that reuse the stored
// state, resumed and foreign initial states, and an OLDER SERVER (a filter on the socket answering queries of a
// version above its own with the "unsupported protocol version" report, as RFC 8210 section 7 prescribes)
// which forces the client to downgrade.
// The clauses are written down independently: the state and the protocol version "named in the End of Data"
// are decoded by hand from the octets the server side wrote; the target only records what it is handed, the
// harness applies that in order to its own copy of the previous data (ASPA keyed by customer AS).
// A step that does not complete (error / nobody moves any more = the real client would time out) makes no
// claim.  A hit is a concrete input, replayed and reported.
//@features ca,rtr,slurm

//@append src/rtr/client.rs
#[cfg(any(kani, verif_replay))]
#[allow(dead_code, unused)]
mod verif_rtr_w {
    use super::*;
    use crate::verif_support::{assume, reach};
    // (named explicitly: the unit must not depend on which imports the file under test happens to keep)
    use std::io;
    use std::collections::{BTreeMap, BTreeSet, VecDeque};
    use std::future::Future;
    use std::net::{Ipv4Addr, Ipv6Addr};
    use std::pin::Pin;
    use std::sync::{Arc, Mutex, MutexGuard};
    use std::task::{Context, Poll, Wake, Waker};
    use bytes::Bytes;
    use tokio::io::{AsyncRead, AsyncWrite, ReadBuf};
    use tokio::runtime::{Builder, Runtime};
    use crate::resources::addr::{MaxLenPrefix, Prefix};
    use crate::resources::asn::Asn;
    use crate::rtr::payload::{Action, Payload, PayloadRef, Timing};
    use crate::rtr::pdu::{ProviderAsns, RouterKeyInfo};
    use crate::rtr::server::{NotifySender, PayloadDiff, PayloadSet, PayloadSource, Server, Socket};
    use crate::rtr::state::{Serial, State};

    /// socket operations per step / driver turns per step: far above what any exchange here needs
    const OPS_BUDGET: usize = 20_000;
    const TURN_BUDGET: usize = 2_000;

    // ---- selector stream (choices come from a hash of all raw inputs, values from the raw inputs) ---------
    struct Sel(u64);
    impl Sel {
        fn mix(mut z: u64) -> u64 {
            z = z.wrapping_add(0x9E3779B97F4A7C15);
            z = (z ^ (z >> 30)).wrapping_mul(0xBF58476D1CE4E5B9);
            z = (z ^ (z >> 27)).wrapping_mul(0x94D049BB133111EB);
            z ^ (z >> 31)
        }
        fn new(vals: &[u128]) -> Self {
            let mut s = 0x243F6A8885A308D3u64;
            for v in vals { s = Self::mix(s ^ (*v as u64) ^ ((*v >> 64) as u64).rotate_left(17)) }
            Sel(s)
        }
        fn pick(&mut self, n: u64) -> u64 { self.0 = Self::mix(self.0); self.0 % n }
    }

    // ---- the in-memory socket -----------------------------------------------------------------------------
    struct Wire {
        c2s: VecDeque<u8>,          // octets on their way to the server
        s2c: VecDeque<u8>,          // octets on their way to the client
        log: Vec<u8>,               // everything the server side sent during the current step
        partial: Vec<u8>,           // client octets not yet forming a whole PDU (the older-server filter)
        server_max: u8,             // the highest version the server side speaks (2 = the real server as it is)
        server_waker: Option<Waker>,
        client_gone: bool,
        server_gone: bool,
        moved: u64,                 // counts octets handed over: "somebody made progress"
        ops: usize,
        blown: bool,
    }
    impl Wire {
        fn tick(&mut self) -> bool { self.ops += 1; if self.ops > OPS_BUDGET { self.blown = true } self.blown }
    }
    fn lock(w: &Arc<Mutex<Wire>>) -> MutexGuard<'_, Wire> { w.lock().unwrap_or_else(|e| e.into_inner()) }
    fn be32(b: &[u8]) -> u32 { u32::from_be_bytes([b[0], b[1], b[2], b[3]]) }
    fn be16(b: &[u8]) -> u16 { u16::from_be_bytes([b[0], b[1]]) }
    const SPIN: &str = "socket budget exceeded: one side keeps reading / writing without end (spins on a closed stream?)";

    struct ClientEnd(Arc<Mutex<Wire>>);
    struct ServerEnd(Arc<Mutex<Wire>>);
    impl AsyncRead for ClientEnd {
        fn poll_read(self: Pin<&mut Self>, _: &mut Context<'_>, buf: &mut ReadBuf<'_>) -> Poll<io::Result<()>> {
            let mut w = lock(&self.0);
            if w.tick() { drop(w); panic!("{}", SPIN) }
            if !w.s2c.is_empty() {
                let n = buf.remaining().min(w.s2c.len());
                let chunk: Vec<u8> = w.s2c.drain(..n).collect();
                buf.put_slice(&chunk);
                w.moved += 1;
                Poll::Ready(Ok(()))
            }
            else if w.server_gone { Poll::Ready(Ok(())) }      // end of stream
            else { Poll::Pending }                             // (the client is polled by hand: no waker needed)
        }
    }
    impl AsyncWrite for ClientEnd {
        fn poll_write(self: Pin<&mut Self>, _: &mut Context<'_>, buf: &[u8]) -> Poll<io::Result<usize>> {
            let mut w = lock(&self.0);
            if w.tick() { drop(w); panic!("{}", SPIN) }
            let w = &mut *w;
            w.partial.extend_from_slice(buf);
            // whole PDUs go to the server, unless the (older) server does not speak their version: then it
            // answers with error report 4 carrying the version it does speak (RFC 8210, section 7)
            loop {
                if w.partial.len() < 8 { break }
                let len = be32(&w.partial[4..8]) as usize;
                if len < 8 || len > 70_000 { let all: Vec<u8> = w.partial.drain(..).collect(); w.c2s.extend(all); break }
                if w.partial.len() < len { break }
                let pdu: Vec<u8> = w.partial.drain(..len).collect();
                if pdu[0] > w.server_max {
                    let text = b"unsupported protocol version";
                    let mut e = vec![w.server_max, 10, 0, 4];
                    e.extend_from_slice(&((16 + pdu.len() + text.len()) as u32).to_be_bytes());
                    e.extend_from_slice(&(pdu.len() as u32).to_be_bytes());
                    e.extend_from_slice(&pdu);
                    e.extend_from_slice(&(text.len() as u32).to_be_bytes());
                    e.extend_from_slice(text);
                    w.log.extend_from_slice(&e);
                    w.s2c.extend(e);
                }
                else { w.c2s.extend(pdu) }
            }
            w.moved += 1;
            if let Some(k) = w.server_waker.take() { k.wake() }
            Poll::Ready(Ok(buf.len()))
        }
        fn poll_flush(self: Pin<&mut Self>, _: &mut Context<'_>) -> Poll<io::Result<()>> { Poll::Ready(Ok(())) }
        fn poll_shutdown(self: Pin<&mut Self>, _: &mut Context<'_>) -> Poll<io::Result<()>> { Poll::Ready(Ok(())) }
    }
    impl Drop for ClientEnd {
        fn drop(&mut self) { let mut w = lock(&self.0); w.client_gone = true; if let Some(k) = w.server_waker.take() { k.wake() } }
    }
    impl AsyncRead for ServerEnd {
        fn poll_read(self: Pin<&mut Self>, cx: &mut Context<'_>, buf: &mut ReadBuf<'_>) -> Poll<io::Result<()>> {
            let mut w = lock(&self.0);
            if w.tick() { drop(w); panic!("{}", SPIN) }
            if !w.c2s.is_empty() {
                let n = buf.remaining().min(w.c2s.len());
                let chunk: Vec<u8> = w.c2s.drain(..n).collect();
                buf.put_slice(&chunk);
                w.moved += 1;
                Poll::Ready(Ok(()))
            }
            else if w.client_gone { Poll::Ready(Ok(())) }      // end of stream
            else { w.server_waker = Some(cx.waker().clone()); Poll::Pending }
        }
    }
    impl AsyncWrite for ServerEnd {
        fn poll_write(self: Pin<&mut Self>, _: &mut Context<'_>, buf: &[u8]) -> Poll<io::Result<usize>> {
            let mut w = lock(&self.0);
            if w.tick() { drop(w); panic!("{}", SPIN) }
            w.s2c.extend(buf.iter().copied());
            w.log.extend_from_slice(buf);
            w.moved += 1;
            Poll::Ready(Ok(buf.len()))
        }
        fn poll_flush(self: Pin<&mut Self>, _: &mut Context<'_>) -> Poll<io::Result<()>> { Poll::Ready(Ok(())) }
        fn poll_shutdown(self: Pin<&mut Self>, _: &mut Context<'_>) -> Poll<io::Result<()>> { Poll::Ready(Ok(())) }
    }
    impl Drop for ServerEnd { fn drop(&mut self) { lock(&self.0).server_gone = true } }
    impl Socket for ServerEnd { }

    // ---- the executor -------------------------------------------------------------------------------------
    thread_local! { static RT: Runtime = Builder::new_current_thread().enable_time().build().expect("a current-thread runtime"); }
    struct Nop;
    impl Wake for Nop { fn wake(self: Arc<Self>) {} }
    /// lets the spawned connection task(s) run until they wait for the socket
    fn turn(rt: &Runtime) { rt.block_on(tokio::task::yield_now()) }
    /// Polls the client's future and runs the server side in turn.  None: nobody moves any more (the real
    /// client would run into its timeout) or the library panicked: the step does not complete, which is not
    /// this property's subject.  Panics beyond the budgets.
    fn drive<F: Future>(rt: &Runtime, wire: &Arc<Mutex<Wire>>, f: F) -> Option<F::Output> {
        let waker = Waker::from(Arc::new(Nop));
        let mut cx = Context::from_waker(&waker);
        let mut f = std::pin::pin!(f);
        let mut idle = 0;
        for _ in 0..TURN_BUDGET {
            let before = lock(wire).moved;
            match std::panic::catch_unwind(std::panic::AssertUnwindSafe(|| f.as_mut().poll(&mut cx))) {
                Ok(Poll::Ready(v)) => return Some(v),
                Ok(Poll::Pending) => {}
                Err(_) => { if lock(wire).blown { panic!("{}", SPIN) } return None }
            }
            turn(rt);
            let w = lock(wire);
            if w.blown { drop(w); panic!("{}", SPIN) }
            if w.moved == before { idle += 1; if idle >= 3 { return None } } else { idle = 0 }
        }
        panic!("turn budget exceeded: the exchange goes on without end");
    }

    // ---- the source: a history of states, each with the set it had then ----------------------------------
    struct Hist {
        session: u16,
        serial: u32,
        data: BTreeSet<Payload>,
        timing: Timing,
        /// earlier states of the current session a diff can still be produced from
        snaps: BTreeMap<u32, BTreeSet<Payload>>,
        /// whether a client that already is at the current state is offered an (empty) diff
        same_ok: bool,
        /// a replaced ASPA: withdrawal of the old record before the announcement of the new one, or the announcement alone
        replace_with_withdraw: bool,
        /// ASPA withdrawals carry the old provider list, or none
        withdraw_with_providers: bool,
        /// order inside the withdrawals / the announcements
        reversed: bool,
        /// EVERY state the source ever was in, with the set it had (= reported) then
        reported: BTreeMap<(u16, u32), BTreeSet<Payload>>,
    }
    #[derive(Clone)]
    struct Src(Arc<Mutex<Hist>>);
    impl Src { fn h(&self) -> MutexGuard<'_, Hist> { self.0.lock().unwrap_or_else(|e| e.into_inner()) } }
    struct Full(Vec<Payload>, usize);
    impl PayloadSet for Full {
        fn next(&mut self) -> Option<PayloadRef<'_>> { let r = self.0.get(self.1)?; self.1 += 1; Some(r.as_ref()) }
    }
    struct Delta(Vec<(Payload, Action)>, usize);
    impl PayloadDiff for Delta {
        fn next(&mut self) -> Option<(PayloadRef<'_>, Action)> { let r = self.0.get(self.1)?; self.1 += 1; Some((r.0.as_ref(), r.1)) }
    }
    fn customer(p: &Payload) -> Option<Asn> { match p { Payload::Aspa(a) => Some(a.customer), _ => None } }
    impl PayloadSource for Src {
        type Set = Full;
        type Diff = Delta;
        fn ready(&self) -> bool { true }
        fn notify(&self) -> State { let h = self.h(); State::from_parts(h.session, Serial(h.serial)) }
        fn full(&self) -> (State, Full) {
            let h = self.h();
            let mut v: Vec<Payload> = h.data.iter().cloned().collect();
            if h.reversed { v.reverse() }
            (State::from_parts(h.session, Serial(h.serial)), Full(v, 0))
        }
        fn diff(&self, state: State) -> Option<(State, Delta)> {
            let h = self.h();
            let now = State::from_parts(h.session, Serial(h.serial));
            if state.session() != h.session { return None }                 // another session: nothing is known
            if state.serial().0 == h.serial { return if h.same_ok { Some((now, Delta(Vec::new(), 0))) } else { None } }
            let old = h.snaps.get(&state.serial().0)?;                      // too old / never seen: no diff
            // withdrawals first, then announcements: under "ASPA keyed by customer" this leads from old to current
            let mut wd = Vec::new();
            for x in old.difference(&h.data) {
                let replaced = customer(x).is_some() && h.data.iter().any(|y| customer(y) == customer(x));
                if replaced && !h.replace_with_withdraw { continue }
                let item = match x { Payload::Aspa(a) if !h.withdraw_with_providers => Payload::Aspa(a.withdraw()), _ => x.clone() };
                wd.push((item, Action::Withdraw));
            }
            let mut an: Vec<(Payload, Action)> = h.data.difference(old).map(|x| (x.clone(), Action::Announce)).collect();
            if h.reversed { wd.reverse(); an.reverse() }
            wd.extend(an);
            Some((now, Delta(wd, 0)))
        }
        fn timing(&self) -> Timing { self.h().timing }
    }

    // ---- the target: records what it is handed ------------------------------------------------------------
    struct Upd { reset: bool, items: Vec<(Action, Payload)> }
    impl PayloadUpdate for Upd {
        fn push_update(&mut self, action: Action, payload: Payload) -> Result<(), PayloadError> { self.items.push((action, payload)); Ok(()) }
    }
    #[derive(Default)]
    struct Tgt { applied: Vec<(Upd, Timing)> }
    impl PayloadTarget for Tgt {
        type Update = Upd;
        fn start(&mut self, reset: bool) -> Upd { Upd { reset, items: Vec::new() } }
        fn apply(&mut self, update: Upd, timing: Timing) -> Result<(), PayloadError> { self.applied.push((update, timing)); Ok(()) }
    }
    /// the property's reading of an update: a reset starts from nothing; announcements add, withdrawals remove;
    /// ASPA records are keyed by their customer AS
    fn apply_handed(held: &mut BTreeSet<Payload>, u: &Upd) {
        if u.reset { held.clear() }
        for (action, item) in &u.items {
            if let Some(c) = customer(item) {
                held.retain(|x| customer(x) != Some(c));
                if matches!(action, Action::Announce) { held.insert(item.clone()); }
            }
            else if matches!(action, Action::Announce) { held.insert(item.clone()); }
            else { held.remove(item); }
        }
    }
    /// the payload types a protocol version carries: origins from 0, router keys from 1, ASPA from 2
    fn restricted(set: &BTreeSet<Payload>, version: u8) -> BTreeSet<Payload> {
        set.iter().filter(|x| match x { Payload::Origin(_) => true, Payload::RouterKey(_) => version >= 1, Payload::Aspa(_) => version >= 2 }).cloned().collect()
    }
    fn same_timing(a: Timing, b: Timing) -> bool { a.refresh == b.refresh && a.retry == b.retry && a.expire == b.expire }

    /// the last End of Data among the PDUs the server side wrote, decoded by hand: (version, session, serial)
    fn last_eod(log: &[u8]) -> Option<(u8, u16, u32)> {
        let (mut i, mut found) = (0usize, None);
        while log.len() - i >= 8 {
            let len = be32(&log[i + 4..i + 8]) as usize;
            if len < 8 || i + len > log.len() { break }
            if log[i + 1] == 7 && len >= 12 { found = Some((log[i], be16(&log[i + 2..i + 4]), be32(&log[i + 8..i + 12]))) }
            i += len;
        }
        found
    }

    // ---- the items ----------------------------------------------------------------------------------------
    fn mask(addr: u128, len: u8, width: u8) -> u128 {
        let full: u128 = if width == 32 { u32::MAX as u128 } else { u128::MAX };
        if len == 0 { 0 } else if len >= width { addr & full } else { addr & full & !(full >> len) }
    }
    fn origin(v6: bool, addr: u128, len: u8, max: Option<u8>, asn: u32) -> Payload {
        let p = if v6 { Prefix::new_v6(Ipv6Addr::from(mask(addr, len, 128)), len) } else { Prefix::new_v4(Ipv4Addr::from(mask(addr, len, 32) as u32), len) };
        Payload::origin(MaxLenPrefix::new(p.expect("a masked address is a prefix"), max).expect("prefix length <= max length <= width"), Asn::from_u32(asn))
    }
    fn some_len(g: &mut Sel, width: u8) -> u8 { match g.pick(6) { 0 => 0, 1 => width, 2 => width - 1, 3 => 1, _ => g.pick(width as u64 + 1) as u8 } }
    fn some_max(g: &mut Sel, len: u8, width: u8) -> Option<u8> { match g.pick(4) { 0 => None, 1 => Some(width), 2 => Some(len), _ => Some(len + g.pick((width - len) as u64 + 1) as u8) } }
    /// 11 origins / router keys (several differing in ONE component only) and 3 customers with 3 provider lists each
    struct Pool { plain: Vec<Payload>, aspa: Vec<Vec<Payload>> }
    fn pool(g: &mut Sel, a4: u32, a6: u128, asn: u32, kid: [u8; 20], p0: u32) -> Pool {
        let (l4, l6) = (some_len(g, 32), some_len(g, 128));
        let (m4, m6) = (some_len(g, 32), some_len(g, 128));
        let mut kid2 = kid; kid2[g.pick(20) as usize] ^= 1 << g.pick(8);
        let key = |n: usize, salt: u8| RouterKeyInfo::new(Bytes::from((0..n).map(|i| kid[i % 20] ^ salt ^ (i as u8)).collect::<Vec<u8>>())).expect("key info fits");
        let klen = [0usize, 1, 4, 91, 300, 992, 993, 2000][g.pick(8) as usize];      // (around and beyond 1 KiB PDUs too)
        let plain = vec![
            origin(false, a4 as u128, l4, None, asn),
            origin(false, a4 as u128, l4, Some(32), asn),                              // the same with another max length
            origin(false, a4 as u128, l4, some_max(g, l4, 32), asn ^ 1),               // the same with another AS
            origin(false, !a4 as u128, m4, some_max(g, m4, 32), asn.wrapping_add(2)),
            origin(true, a6, l6, None, asn),
            origin(true, a6, l6, Some(128), asn),
            origin(true, a6, l6, some_max(g, l6, 128), asn ^ 1),
            origin(true, a6.rotate_left(64) ^ a4 as u128, m6, some_max(g, m6, 128), p0),
            Payload::router_key(kid.into(), Asn::from_u32(asn), key(klen, 0)),
            Payload::router_key(kid.into(), Asn::from_u32(asn), key(klen + 1, 0x55)),  // the same with another key
            Payload::router_key(kid2.into(), Asn::from_u32(p0), key(91, 0)),
        ];
        let provs = |n: u32, base: u32| ProviderAsns::try_from_iter((0..n).map(|i| Asn::from_u32(base.wrapping_add(i)))).expect("a few providers fit");
        let long = 3 + g.pick(30) as u32;
        let first = if g.pick(3) == 0 { 0 } else { 1 };        // an announced record may have an EMPTY provider list
        let aspa = (0..3u32).map(|c| {
            let cust = Asn::from_u32(asn.wrapping_add(c));
            vec![Payload::aspa(cust, provs(first, p0)), Payload::aspa(cust, provs(2, p0)), Payload::aspa(cust, provs(long, p0.wrapping_sub(c)))]
        }).collect();
        Pool { plain, aspa }
    }
    /// which items are in a set: bit k = plain[k]; per customer 0 = no record, 1..=3 the provider list
    #[derive(Clone, Copy)]
    struct Comp { bits: u16, aspa: [u8; 3] }
    impl Comp {
        fn any(g: &mut Sel) -> Comp {
            if g.pick(10) == 0 { return Comp { bits: 0, aspa: [0; 3] } }
            Comp { bits: g.pick(1 << 11) as u16, aspa: [g.pick(4) as u8, g.pick(4) as u8, g.pick(4) as u8] }
        }
        /// a few announcements / withdrawals / replaced ASPAs away
        fn vary(self, g: &mut Sel) -> Comp {
            if g.pick(6) == 0 { return Comp::any(g) }
            let mut c = self;
            for _ in 0..1 + g.pick(3) {
                if g.pick(3) == 0 { c.aspa[g.pick(3) as usize] = g.pick(4) as u8 } else { c.bits ^= 1 << g.pick(11) }
            }
            c
        }
        fn set(self, p: &Pool) -> BTreeSet<Payload> {
            let mut s: BTreeSet<Payload> = p.plain.iter().enumerate().filter(|(k, _)| self.bits >> k & 1 == 1).map(|(_, x)| x.clone()).collect();
            for c in 0..3 { if self.aspa[c] > 0 { s.insert(p.aspa[c][self.aspa[c] as usize - 1].clone()); } }
            s
        }
    }
    fn some_timing(g: &mut Sel, raw: [u32; 3]) -> Timing {
        let mut one = |g: &mut Sel, raw: u32| match g.pick(12) {
            0 => 0, 1 => 1, 2 => u32::MAX, 3 => [599, 600, 7200, 7201, 86400, 86401, 172800, 172801][g.pick(8) as usize], 4 => 3600, _ => raw,
        };
        Timing { refresh: one(g, raw[0]), retry: one(g, raw[1]), expire: one(g, raw[2]) }
    }

    /// the source moves on: session and serial change or stay, items come and go, the timing may change
    fn mutate(src: &Src, pool: &Pool, comp: &mut Comp, g: &mut Sel, raw_timing: [u32; 3]) {
        let mut h = src.h();
        let h = &mut *h;
        let far = match g.pick(4) { 0 => 2 + g.pick(1000) as u32, 1 => 0x7FFF_FFFF, 2 => (u32::MAX - h.serial).wrapping_add(1 + g.pick(3) as u32), _ => g.pick(1 << 32) as u32 };
        if g.pick(5) == 0 {
            // a new session (server restart): the serial stays, starts again, or is anything
            h.session = h.session.wrapping_add(1 + g.pick(3) as u16);
            h.serial = match g.pick(4) { 0 | 1 => h.serial, 2 => g.pick(3) as u32, _ => h.serial.wrapping_add(far) };
            h.snaps.clear();
            *comp = comp.vary(g);
        }
        else {
            match g.pick(6) {
                0 => {}                                                     // nothing new: serial and data stay
                k => {
                    if g.pick(5) == 0 { h.snaps.clear() }
                    if g.pick(4) != 0 { h.snaps.insert(h.serial, h.data.clone()); }   // a diff from the old state stays available, or not
                    h.serial = h.serial.wrapping_add(if k <= 3 { 1 } else { far });
                    *comp = comp.vary(g);
                }
            }
        }
        let data = comp.set(pool);
        // one state, one set: a state the source was in before is not used again for other data
        while h.reported.get(&(h.session, h.serial)).map(|s| *s != data).unwrap_or(false) { h.serial = h.serial.wrapping_add(1) }
        h.snaps.remove(&h.serial);
        h.data = data;
        h.reported.insert((h.session, h.serial), h.data.clone());
        h.same_ok = g.pick(5) != 0;
        h.replace_with_withdraw = g.pick(2) == 0;
        h.withdraw_with_providers = g.pick(2) == 0;
        h.reversed = g.pick(2) == 0;
        if g.pick(2) == 0 { h.timing = some_timing(g, raw_timing) }
    }

    // ---- one connection -----------------------------------------------------------------------------------
    struct Conn {
        client: Client<ClientEnd, Tgt>,
        wire: Arc<Mutex<Wire>>,
        notify: NotifySender,
        /// the client has finished a step() before: the next one first waits for a Serial Notify / the refresh time
        waits: bool,
        /// the timing the target was handed last on this connection
        last_timing: Option<Timing>,
    }
    fn connect(rt: &Runtime, src: &Src, g: &mut Sel, init: u8, server_max: u8, target: Tgt, state: Option<State>) -> Option<Conn> {
        let wire = Arc::new(Mutex::new(Wire {
            c2s: VecDeque::new(), s2c: VecDeque::new(), log: Vec::new(), partial: Vec::new(), server_max,
            server_waker: None, client_gone: false, server_gone: false, moved: 0, ops: 0, blown: false,
        }));
        let notify = NotifySender::new();
        let listener = futures_util::stream::iter(vec![Ok::<_, io::Error>(ServerEnd(wire.clone()))]);
        // Server::run spawns the connection onto the runtime and returns when the listener is exhausted
        let run = drive(rt, &wire, Server::new(listener, notify.clone(), src.clone()).run());
        if !matches!(run, Some(Ok(()))) { return None }
        let sock = ClientEnd(wire.clone());
        let client = if init == 2 && g.pick(2) == 0 { Client::new(sock, target, state) } else { Client::with_initial_version(init, sock, target, state) };
        Some(Conn { client, wire, notify, waits: false, last_timing: None })
    }

    /// One synchronisation step and the clauses of the property after it.  `held`: what the target holds.
    /// Returns the version named in the End of Data; None if the step did not complete (no claim).
    fn step(rt: &Runtime, c: &mut Conn, src: &Src, held: &mut BTreeSet<Payload>, reset_only: bool) -> Option<u8> {
        { let mut w = lock(&c.wire); w.log.clear(); w.ops = 0; }
        let seen = c.client.target().applied.len();
        let done = if reset_only {
            // Reset Query, then hand the update over
            let client = &mut c.client;
            drive(rt, &c.wire, async move { let u = client.reset().await?; client.apply(u).await })
        }
        else {
            if c.waits {
                // the client now waits for its refresh time or a Serial Notify: the server is told of new data
                c.notify.notify();
                for _ in 0..4 { if !lock(&c.wire).s2c.is_empty() { break } turn(rt) }
                if lock(&c.wire).s2c.is_empty() { return None }
            }
            // serial query with fallback to reset (reset query if there is no state)
            let r = drive(rt, &c.wire, c.client.step());
            c.waits = true;
            r
        };
        if !matches!(done, Some(Ok(()))) { return None }

        // the state and version named in the End of Data, from the octets the server side wrote
        let log = lock(&c.wire).log.clone();
        let (version, session, serial) = match last_eod(&log) { Some(e) => e, None => panic!("a completed step ends with an End of Data from the server") };
        let (want, timing) = {
            let h = src.h();
            (h.reported.get(&(session, serial)).cloned(), h.timing)
        };
        let want = match want { Some(s) => s, None => panic!("the End of Data names a state the source has reported data for") };
        // clause: the updates handed to the target, applied in order to the previous data (ASPA keyed by customer
        // AS), give exactly the source's set for that state, restricted to the payload types of the version
        let handed = &c.client.target().applied[seen..];
        for (u, _) in handed { apply_handed(held, u) }
        assert!(*held == restricted(&want, version), "the updates handed to the target, applied in order to the previous data, give exactly the set the source reported for the state named in the End of Data, restricted to the negotiated version's payload types");
        // clause: the client's stored state is that state
        assert!(matches!(c.client.state(), Some(s) if s.session() == session && s.serial().0 == serial), "the client's stored state equals the state named in the End of Data");
        // clause: from version 1 on the timing is the source's (version 0 has none in its End of Data: unchanged)
        if let Some((_, got)) = handed.last() {
            if version >= 1 { assert!(same_timing(*got, timing), "from protocol version 1 on the client's timing values equal the source's"); }
            else if let Some(before) = c.last_timing { assert!(same_timing(*got, before), "protocol version 0 carries no timing: the client's timing values stay as they were"); }
            c.last_timing = Some(*got);
        }
        Some(version)
    }

    fn some_init(g: &mut Sel) -> u8 { match g.pick(8) { 0 | 1 => 0, 2 | 3 => 1, 4 | 5 => 2, 6 => 3, _ => 255 } }
    fn some_server_max(g: &mut Sel) -> u8 { match g.pick(6) { 0 => 0, 1 => 1, _ => 2 } }

    //@harness rtr_w_exchange W fn=Client::{new,with_initial_version,step,update,serial,reset,apply,state,check_version},FirstSerialReply::read,FirstResetReply::read,Server::run,Connection::{run,recv,check_version,serial,reset,notify},pdu::Payload::{new_if_supported,read,to_payload},pdu::EndOfData::{new,read_payload,state,timing},pdu::CacheResponse::new,pdu::CacheReset::new,pdu::SerialQuery::new,pdu::ResetQuery::new n=60000 timeout=600
    verif_search!{ rtr_w_exchange; |r: u64, session: u16, serial: u32, t0: u32, t1: u32, t2: u32, a4: u32, a6: u128, asn: u32, kid: [u8; 20], p0: u32| {
        RT.with(|rt| {
            let _ctx = rt.enter();
            turn(rt);                                   // (connection tasks of earlier inputs end here)
            let mut g = Sel::new(&[r as u128, session as u128, serial as u128, t0 as u128, t1 as u128, t2 as u128, a4 as u128, a6, asn as u128, p0 as u128, kid[0] as u128, kid[19] as u128]);
            let pool = pool(&mut g, a4, a6, asn, kid, p0);
            let raw_timing = [t0, t1, t2];
            let mut comp = Comp::any(&mut g);
            let first = comp.set(&pool);
            let src = Src(Arc::new(Mutex::new(Hist {
                session, serial, data: first.clone(), timing: some_timing(&mut g, raw_timing), snaps: BTreeMap::new(),
                same_ok: true, replace_with_withdraw: false, withdraw_with_providers: true, reversed: false,
                reported: [((session, serial), first)].into_iter().collect(),
            })));
            // (everything that happens before the client's first step happens before the client is made: a
            // made-up initial state must not become a state of the source afterwards)
            for _ in 0..g.pick(4) { mutate(&src, &pool, &mut comp, &mut g, raw_timing) }

            // the client: new, or started with a state and the data that goes with it (an earlier state of this
            // source), or with a state of some other cache and its data
            let (mut init, mut server_max) = (some_init(&mut g), some_server_max(&mut g));
            let mut held: BTreeSet<Payload> = BTreeSet::new();
            let mut state = None;
            if g.pick(3) == 0 {
                let h = src.h();
                let keys: Vec<(u16, u32)> = h.reported.keys().copied().collect();
                let (s, n) = match g.pick(5) {
                    0 | 1 => keys[g.pick(keys.len() as u64) as usize],                          // resumed
                    2 => (h.session.wrapping_sub(1 + g.pick(3) as u16), h.serial),                // other session, same serial
                    3 => (h.session, h.serial.wrapping_sub(1 + g.pick(3) as u32)),                // same session, other serial
                    _ => (h.session.wrapping_sub(1 + g.pick(3) as u16), g.pick(1 << 32) as u32),
                };
                held = match h.reported.get(&(s, n)) {
                    Some(set) => restricted(set, init.min(2).min(server_max)),
                    None => Comp::any(&mut g).set(&pool),
                };
                state = Some(State::from_parts(s, Serial(n)));
            }
            let mut conn = match connect(rt, &src, &mut g, init, server_max, Tgt::default(), state) { Some(c) => c, None => return };
            let mut version: Option<u8> = None;

            let rounds = 2 + g.pick(4);
            for round in 0..rounds {
                if round > 0 {
                    mutate(&src, &pool, &mut comp, &mut g, raw_timing);
                    if g.pick(5) == 0 { mutate(&src, &pool, &mut comp, &mut g, raw_timing) }   // the client misses a state
                }
                if round > 0 && g.pick(4) == 0 {
                    // a new connection; the stored state is used again only with the same protocol version
                    // (another version carries other payload types: the data would not go with the state)
                    let (st, tgt) = (conn.client.state(), conn.client.into_target());
                    init = some_init(&mut g);
                    server_max = some_server_max(&mut g);
                    let same = version == Some(init.min(2).min(server_max));
                    let reuse = same && g.pick(4) != 0;
                    conn = match connect(rt, &src, &mut g, init, server_max, tgt, if reuse { st } else { None }) { Some(c) => c, None => return };
                }
                let reset_only = g.pick(5) == 0;
                match step(rt, &mut conn, &src, &mut held, reset_only) {
                    Some(v) => version = Some(v),
                    None => return,                      // the step did not complete: no claim
                }
            }
        });
    }}
}
//@end
