// Unit x509_w (C17): WITNESS SEARCH ONLY (kind W) - proves nothing, never counted.
// The Kani unit x509_time decides the time decoders/encoders completely, except the UTCTime branch of
// Time::take_opt_from (CBMC runs out of memory); unit validity (Verus) decides Validity over an abstract
// instant order; serial_arith (Verus) the decimal text.  This unit runs the compiled functions natively on
// digit-biased octets and compares with the independent calendar reference of x509_time (included): both decoders
// on the same octets, encode -> decode round trips over the whole range of years, validity windows through real
// chrono instants, and serial text / DER round trips.  A hit is a concrete input, replayed and reported.
//@features ca,rtr,slurm
//@include x509_time

//@append src/repository/x509.rs
#[cfg(any(kani, verif_replay))]
#[allow(dead_code, unused)]
mod verif_x509_w {
    use super::*;
    use super::verif_x509_time::{valid_date_time, days_in_month};
    use crate::verif_support::{assume, reach};
    use bcder::encode::Values;

    /// mostly digits, sometimes 'Z', sometimes anything
    fn dg(b: u8) -> u8 { if b < 0xC0 { b'0' + b % 10 } else if b < 0xD0 { b'Z' } else if b < 0xE0 { b"+-. :/z"[(b % 7) as usize] } else { b.wrapping_mul(13) } }
    fn dig(b: u8) -> Option<u32> { if b.is_ascii_digit() { Some((b - b'0') as u32) } else { None } }
    fn num(s: &[u8]) -> Option<u32> { let mut v = 0; for b in s { v = v * 10 + dig(*b)? } Some(v) }
    /// what the content octets of a UTCTime / GeneralizedTime mean (RFC 5280; the property statement)
    fn reference(utc: bool, c: &[u8]) -> Option<(u32, u32, u32, u32, u32, u32)> {
        let (yl, total) = if utc { (2, 13) } else { (4, 15) };
        if c.len() != total || c[total - 1] != b'Z' { return None }
        let y = num(&c[..yl])?;
        let y = if utc { if y >= 50 { 1900 + y } else { 2000 + y } } else { y };
        let f = |i: usize| num(&c[yl + 2 * i..yl + 2 * i + 2]);
        let r = (y, f(0)?, f(1)?, f(2)?, f(3)?, f(4)?);
        if valid_date_time(r.0, r.1, r.2, r.3, r.4, r.5) { Some(r) } else { None }
    }
    fn fields(t: &Time) -> (u32, u32, u32, u32, u32, u32) { (t.year() as u32, t.month(), t.day(), t.hour(), t.minute(), t.second()) }
    /// a valid calendar instant from raw values
    fn instant(y: u16, mo: u8, d: u8, h: u8, mi: u8, s: u8) -> (u32, u32, u32, u32, u32, u32) {
        let y = (y % 10000) as u32; let mo = 1 + (mo % 12) as u32;
        (y, mo, 1 + (d as u32) % days_in_month(y, mo), (h % 24) as u32, (mi % 60) as u32, (s % 60) as u32)
    }

    //@harness x509_w_decode W fn=Time::take_from,Time::take_opt_from,Time::from_parts,read_two_char,read_four_char n=60000 timeout=600
    verif_search!{ x509_w_decode; |utc: bool, raw: [u8; 15], cut: u8, mode: u8, y: u16, mo: u8, d: u8, h: u8, mi: u8, s: u8| {
        // content: random digit-biased octets, or a real instant written by hand with one octet disturbed
        let total = if utc { 13 } else { 15 };
        let mut c: Vec<u8> = raw[..total].iter().map(|b| dg(*b)).collect();
        if mode % 3 != 0 {
            let (yy, mm, dd, hh, mi2, ss) = instant(y, mo, d, h, mi, s);
            let txt = if utc { format!("{:02}{:02}{:02}{:02}{:02}{:02}Z", yy % 100, mm, dd, hh, mi2, ss) } else { format!("{:04}{:02}{:02}{:02}{:02}{:02}Z", yy, mm, dd, hh, mi2, ss) };
            c = txt.into_bytes();
            if mode % 3 == 2 { let i = (cut as usize) % total; c[i] = dg(raw[i]); }
        }
        if mode >= 0xF0 { c.truncate((cut as usize) % total) }
        let mut der = vec![if utc { 0x17 } else { 0x18 }, c.len() as u8];
        der.extend_from_slice(&c);
        let want = reference(utc, &c);
        let a = Mode::Der.decode(&der[..], Time::take_from);
        assert!(a.as_ref().ok().map(fields) == want, "take_from: accepted exactly for all-digit Z-terminated real dates; decoded instant (pivot at 50)");
        let b = Mode::Der.decode(&der[..], Time::take_opt_from);
        assert!(b.is_ok() == want.is_some(), "take_opt_from: a present time value is accepted exactly when valid");
        if let Ok(t) = b { assert!(t.as_ref().map(fields) == want, "take_opt_from: decoded instant (pivot at 50)"); }
    }}

    //@harness x509_w_roundtrip W fn=Time::encode_varied,Time::encode_utc_time,Time::encode_generalized_time,Time::take_from,Time::utc n=60000 timeout=600
    verif_search!{ x509_w_roundtrip; |y: u16, near: u8, mo: u8, d: u8, h: u8, mi: u8, s: u8| {
        // years across the whole range with stress on the UTCTime window edges
        let y = match near % 8 { 0 => 1949, 1 => 1950, 2 => 2049, 3 => 2050, 4 => 1, 5 => 9999, _ => 1 + y % 9999 };
        let (_, mo, d, h, mi, s) = instant(y, mo, d, h, mi, s);
        let d = d.min(days_in_month(y as u32, mo));
        let t = Time::utc(y as i32, mo, d, h, mi, s);
        let der = t.encode_varied().to_captured(Mode::Der);
        let der = der.as_slice();
        let utc = (1950..=2049).contains(&y);
        assert!(der[0] == (if utc { 0x17 } else { 0x18 }) && der[1] as usize == der.len() - 2 && der.len() == (if utc { 15 } else { 17 }), "UTCTime for 1950-2049, GeneralizedTime otherwise, fixed width");
        assert!(reference(utc, &der[2..]) == Some((y as u32, mo, d, h, mi, s)), "the written octets name the same instant");
        let back = Mode::Der.decode(der, Time::take_from);
        assert!(matches!(back, Ok(x) if x == t), "encode -> decode gives the same instant");
        let back = Mode::Der.decode(der, Time::take_opt_from);
        assert!(matches!(back, Ok(Some(x)) if x == t), "encode -> optional decode gives the same instant");
    }}

    //@harness x509_w_validity W fn=Validity::verify_at,Validity::trim,Validity::new,Time::verify_not_before,Time::verify_not_after n=60000 timeout=600
    verif_search!{ x509_w_validity; |base: u32, a0: i32, a1: i32, b0: i32, b1: i32, p: i32, sel: u8, ns: u32| {
        use chrono::{TimeDelta, TimeZone};
        let t = |off: i32| Time::new(chrono::Utc.timestamp_opt((base % 4_000_000_000) as i64 + (off % 100_000) as i64, 0).unwrap());
        let (va, vb) = (Validity::new(t(a0), t(a1)), Validity::new(t(b0), t(b1)));
        assert!(va.not_before() == t(a0) && va.not_after() == t(a1), "a validity keeps its two instants");
        // probe: around an edge, possibly with a sub-second part
        let edge = [t(a0), t(a1), t(b0), t(b1), t(p)][(sel % 5) as usize];
        let now = Time::new(*edge + TimeDelta::seconds(((p % 5) - 2) as i64) + TimeDelta::nanoseconds((ns % 1_000_000_000) as i64 * (sel as i64 % 2)));
        let inside = |v: &Validity| v.not_before() <= now && now <= v.not_after();
        assert!(va.verify_at(now).is_ok() == inside(&va), "accepted exactly when not-before <= time <= not-after");
        let tr = va.trim(vb);
        assert!(tr.verify_at(now).is_ok() == (inside(&va) && inside(&vb)), "trimming two windows gives their intersection");
        assert!(tr.not_before() == va.not_before().max(vb.not_before()) && tr.not_after() == va.not_after().min(vb.not_after()), "trim: later start, earlier end");
    }}

    //@harness x509_w_serial W fn=Serial::from_slice,Serial::from_str,Serial::fmt,Serial::take_from,Serial::encode,derive(Ord)(Serial) n=40000 timeout=600
    verif_search!{ x509_w_serial; |a: u128, ah: u32, b: u128, bh: u32, len: u8| {
        let mk = |h: u32, l: u128, n: u8| { let mut v = [0u8; 20]; v[..4].copy_from_slice(&(h & 0x7FFF_FFFF).to_be_bytes()); v[4..].copy_from_slice(&l.to_be_bytes());
                                             let k = (n % 21) as usize; for x in v.iter_mut().take(k) { *x = 0 } v };
        let (xa, xb) = (mk(ah, a, len), mk(bh, b, len / 21));
        let (sa, sb) = (Serial::from_slice(&xa).unwrap(), Serial::from_slice(&xb).unwrap());
        assert!(sa.cmp(&sb) == xa.cmp(&xb) && (sa == sb) == (xa == xb), "order and equality are numeric (big-endian fixed width)");
        // decimal text round trip, canonical digits
        let txt = sa.to_string();
        // (the library writes the serial 0 as the empty text and reads the empty text as 0: a round trip, not demanded otherwise)
        assert!(txt.bytes().all(|c| c.is_ascii_digit()) && !txt.starts_with('0'), "decimal text: digits only, no leading zero");
        assert!(matches!(Serial::from_str(&txt), Ok(x) if x == sa), "decimal text parses back to the same serial");
        // independent decimal value for small serials
        if xa[..4] == [0; 4] { let v = u128::from_be_bytes(xa[4..].try_into().unwrap()); assert!(if v == 0 { txt.is_empty() } else { txt == v.to_string() }, "decimal text is the numeric value"); }
        // minimal DER INTEGER round trip
        let der = sa.encode().to_captured(Mode::Der);
        let der = der.as_slice();
        assert!(der[0] == 0x02 && der[1] as usize == der.len() - 2, "INTEGER");
        let c = &der[2..];
        assert!(c.len() == 1 || !(c[0] == 0 && c[1] & 0x80 == 0), "minimal: no redundant leading zero octet");
        assert!(c[0] & 0x80 == 0, "non-negative");
        assert!(matches!(Mode::Der.decode(der, Serial::take_from), Ok(x) if x == sa), "DER round trip");
    }}

    //@harness x509_w_serial_der W fn=Serial::take_from n=40000 timeout=600
    verif_search!{ x509_w_serial_der; |a: u128, ah: u64, n: u8, lead: u8| {
        // any INTEGER content of 1..=22 octets, biased towards the interesting first octets: only the minimal
        // two's-complement encodings of non-negative numbers that fit 20 octets are serial numbers, and they
        // decode to their numeric value (a negative INTEGER must never come back as a positive serial)
        let len = 1 + (n % 22) as usize;
        let mut c = Vec::with_capacity(24);
        c.extend_from_slice(&ah.to_be_bytes()[2..]); c.extend_from_slice(&a.to_be_bytes());      // 22 octets
        c.truncate(len);
        match lead % 6 { 0 => c[0] = 0x00, 1 => c[0] = 0xFF, 2 => c[0] = 0x80, 3 => c[0] = 0x7F, 4 => { c[0] = 0; if len > 1 { c[1] |= 0x80 } }, _ => {} }
        let mut der = vec![0x02u8, len as u8];
        der.extend_from_slice(&c);
        let negative = c[0] & 0x80 != 0;
        let padded = len > 1 && c[0] == 0 && c[1] & 0x80 == 0;
        let value: &[u8] = if len > 1 && c[0] == 0 { &c[1..] } else { &c[..] };                  // without the sign octet
        let fits = value.len() <= 20;
        let r = Mode::Der.decode(&der[..], Serial::take_from);
        match r {
            Ok(s) => {
                assert!(!negative, "a negative INTEGER is not a serial number");
                assert!(!padded, "only the minimal DER encoding is accepted");
                let arr = s.into_array();
                assert!(fits && arr[20 - value.len()..] == *value && arr[..20 - value.len()].iter().all(|x| *x == 0), "the serial is the numeric value of the INTEGER");
            }
            Err(_) => assert!(negative || padded || !fits || (value.len() == 20 && value[0] & 0x80 != 0), "a minimal non-negative INTEGER of at most 20 octets is accepted"),
        }
    }}
}
//@end
