// Unit sigmsg_compose (C10): acceptance of a CA-protocol CMS (RFC 6492 / RFC 8181) message.
//   SignedMessage::{inspect, verify, validate_at, validate}          src/ca/sigmsg.rs
//   SignedMessageCrl::{validate, verify_not_revoked}, SignedMessageTbsCrl::validate
//   IdCert::{validate_ee_at, validate_ta_at, inspect_basics, inspect_ca_basics, verify_validity,
//            verify_issuer_key, verify_signature}                    src/ca/idcert.rs
//   SignedData::signature, Signature::algorithm, the error conversions
//   (PublicKey::{verify, key_identifier}, SignedData::verify_signature: contract links to unit key_verify)
// Main contract:  validate_at(peer, when) is Ok  <=>  msg_accept(self, peer, when)   (exact conjunction).
// Environment: bcder / bytes / chrono / aws-lc / log are opaque; PublicKey, Time, Validity, SignedAttrs,
// RevokedCertificates::contains are used through contracts (proved or assumed elsewhere, see .trusted).
use vstd::prelude::*;
use vstd::std_specs::cmp::*;
use vstd::std_specs::iter::IteratorSpec;
use core::cmp::Ordering;
use core::ops;
use core::convert::Infallible;

// log crate: the two macros used by IdCert::validate_ta_at have no effect on the result
macro_rules! debug { ($($t:tt)*) => { () } }
macro_rules! error { ($($t:tt)*) => { () } }

verus! {

// ---- environment: bytes / bcder -----------------------------------------------------------
#[verifier::external_body]
pub struct Bytes { _o: u8 }
pub uninterp spec fn bytes_view(b: Bytes) -> Seq<u8>;
impl Bytes {
    /// AsRef<[u8]> for Bytes (inherent stand-in: Verus cannot specify AsRef)
    #[verifier::external_body]
    pub fn as_ref(&self) -> (r: &[u8]) ensures r@ == bytes_view(*self) { unimplemented!() }
}
// bcder::Captured (stand-in + `captured_view`), `der_len`, `set_of_encoding`, `SignedAttrs::view`:
// the vocabulary of SignedAttrs::encode_verify, shared with unit sigattrs which proves it
//@include shared/cms_vocab.v.rs
#[verifier::external_body]
#[verifier::reject_recursive_types(T)]
pub struct Oid<T> { _o: T }
#[verifier::external_body]
pub struct ContentError { _o: u8 }
impl ContentError {
    #[verifier::external_body]
    pub fn from_static(msg: &'static str) -> (r: Self) { unimplemented!() }
}
impl From<&'static str> for ContentError {
    #[verifier::external_body]
    fn from(msg: &'static str) -> (r: Self) { unimplemented!() }
}
#[verifier::external_body]
#[verifier::reject_recursive_types(E)]
pub struct DecodeError<E> { _o: E }

/// bcder::OctetString: the content octets, possibly in several segments
#[verifier::external_body]
pub struct OctetString { _o: u8 }
pub uninterp spec fn os_view(o: OctetString) -> Seq<u8>;
#[verifier::external_body]
pub struct OctetStringIter<'a> { _o: &'a u8 }
/// concatenation of a sequence of segments
pub open spec fn concat(s: Seq<&[u8]>) -> Seq<u8> decreases s.len() {
    if s.len() == 0 { Seq::empty() } else { s[0]@ + concat(s.drop_first()) }
}
impl<'a> Iterator for OctetStringIter<'a> {
    type Item = &'a [u8];
    #[verifier::external_body]
    fn next(&mut self) -> (r: Option<&'a [u8]>) { unimplemented!() }
}
impl<'a> vstd::std_specs::iter::IteratorSpecImpl for OctetStringIter<'a> {
    /// bcder's OctetStringIter is a finite, well-behaved iterator (assumed)
    open spec fn obeys_prophetic_iter_laws(&self) -> bool { true }
    open spec fn will_return_none(&self) -> bool { true }
    uninterp spec fn remaining(&self) -> Seq<&'a [u8]>;
    uninterp spec fn decrease(&self) -> Option<nat>;
    uninterp spec fn peek(&self, i: int) -> Option<&'a [u8]>;
}
impl OctetString {
    /// the segments yielded by iter() concatenate to the content octets (assumed, bcder)
    #[verifier::external_body]
    pub fn iter(&self) -> (r: OctetStringIter<'_>)
        ensures r.decrease().is_some(), concat(r.remaining()) == os_view(*self)
    { unimplemented!() }
}

// ---- environment: crypto (other module / aws-lc) ------------------------------------------
pub uninterp spec fn sha256(data: Seq<u8>) -> Seq<u8>;
#[verifier::external_body]
pub struct PublicKey { _o: u8 }
//@item src/crypto/keys.rs :: pub struct KeyIdentifier pubfields keepderive=Clone,Copy,Eq addderive=PartialEq
//@item src/crypto/keys.rs :: pub struct SignatureVerificationError pubfields
//@item src/crypto/signature.rs :: pub struct RpkiSignatureAlgorithm pubfields keepderive=Clone,Copy,Eq,PartialEq
//@item src/crypto/signature.rs :: pub struct Signature<Alg> pubfields
//@item src/crypto/signature.rs :: pub type RpkiSignature
//@item src/crypto/digest.rs :: pub struct DigestAlgorithm pubfields keepderive=Clone,Copy
// `sig_ok(key, msg, sig)`: the signature `sig` (algorithm identifier and value) over `msg` verifies under `key`
// -- abstract here, DEFINED in unit key_verify (format match && aws-lc primitive), which proves the linked
// contracts of PublicKey::verify and SignedData::verify_signature
//@include shared/sig_vocab.v.rs
impl SignatureAlgorithm for RpkiSignatureAlgorithm { }
// `ski_of(key)`: SHA-1 key identifier of a public key -- abstract here, DEFINED in unit key_verify, which proves
// the linked contract of PublicKey::key_identifier
//@include shared/ski_vocab.v.rs
impl PublicKey {
    /// contract link: proved in unit key_verify (SHA-1 over the key bits, both unwrap()s panic-free)
    //@stub key_verify :: impl PublicKey :: key_identifier
    pub fn key_identifier(&self) -> (r: KeyIdentifier)
    //@end
    /// contract link: proved in unit key_verify (algorithm check + dispatch to the aws-lc primitive)
    //@stub key_verify :: impl PublicKey :: verify
    pub fn verify<Alg: SignatureAlgorithm>(&self, message: &[u8], signature: &Signature<Alg>) -> (r: Result<(), SignatureVerificationError>)
    //@end
}
impl<Alg> Signature<Alg> {
    //@fn src/crypto/signature.rs :: impl<Alg> Signature<Alg> :: algorithm
    //@spec
        ensures *r == self.algorithm,
    //@/spec
    //@end
}
impl From<SignatureVerificationError> for ContentError {
    /// crypto::keys: a constant message (the real fn has a `_` parameter pattern, which Verus rejects)
    #[verifier::external_body]
    fn from(e: SignatureVerificationError) -> (r: Self) { unimplemented!() }
}
/// aws_lc_rs::digest::{Context, Digest} behind crypto::digest::Context
#[verifier::external_body]
pub struct Digest { _o: u8 }
pub uninterp spec fn digest_view(d: Digest) -> Seq<u8>;
impl Digest {
    /// AsRef<[u8]> for Digest
    #[verifier::external_body]
    pub fn as_ref(&self) -> (r: &[u8]) ensures r@ == digest_view(*self) { unimplemented!() }
}
#[verifier::external_body]
pub struct Context { _o: u8 }
/// the octets absorbed so far
pub uninterp spec fn ctx_view(c: Context) -> Seq<u8>;
impl DigestAlgorithm {
    #[verifier::external_body]
    pub fn start(self) -> (r: Context) ensures ctx_view(r) == Seq::<u8>::empty() { unimplemented!() }
}
impl Context {
    #[verifier::external_body]
    pub fn update(&mut self, data: &[u8]) ensures ctx_view(*final(self)) == ctx_view(*old(self)) + data@ { unimplemented!() }
    /// the digest function: octets == sha256(data)
    #[verifier::external_body]
    pub fn finish(self) -> (r: Digest) ensures digest_view(r) == sha256(ctx_view(self)) { unimplemented!() }
}

// ---- environment: repository::x509 / sigobj (other modules) -------------------------------
/// x509::Time (chrono DateTime<Utc>): abstract instant; derive(PartialOrd, Ord) is chrono's
/// chronological order (assumed; the same assumption as unit validity).  In a module of its own so
/// that the order axioms can be `broadcast use`d at the root without a definition cycle.
pub mod tm {
    use super::*;
    #[verifier::external_body]
    #[derive(Clone, Copy, PartialEq, Eq, PartialOrd, Ord)]
    pub struct Time { _o: u8 }
    /// the instant a Time denotes (same abstraction as unit validity: tat(t) = at(t.0))
    pub uninterp spec fn tat(t: Time) -> int;
    pub open spec fn int_cmp(a: int, b: int) -> Ordering {
        if a < b { Ordering::Less } else if a == b { Ordering::Equal } else { Ordering::Greater }
    }
    impl Time {
        #[verifier::external_body]
        pub fn now() -> (r: Self) { unimplemented!() }
    }
    /// chrono: PartialOrd on DateTime<Utc> (hence on the derive of the newtype Time) is the order of instants
    #[verifier::external_body]
    pub broadcast proof fn axiom_time_ord_obeys()
        ensures #[trigger] <Time as PartialOrdSpec>::obeys_partial_cmp_spec() {}
    #[verifier::external_body]
    pub broadcast proof fn axiom_time_cmp(a: Time, b: Time)
        ensures #[trigger] a.partial_cmp_spec(&b) == Some(int_cmp(tat(a), tat(b))) {}
}
pub use tm::{Time, tat};
//@item src/repository/x509.rs :: pub struct Validity pubfields keepderive=Clone,Copy
// `in_window` -- shared with unit validity
//@include shared/time_vocab.v.rs
impl Validity {
    /// contract link: proved in unit validity (Ok <=> not_before <= now <= not_after), text taken from there
    //@stub validity :: impl Validity :: verify_at
    pub fn verify_at(self, now: Time) -> (r: Result<(), ValidityPeriodError>)
    //@end
}
//@item src/repository/x509.rs :: pub struct ValidityPeriodError pubfields keepderive=Clone,Copy
impl vstd::std_specs::convert::FromSpecImpl<ValidityPeriodError> for VerificationError {
    open spec fn obeys_from_spec() -> bool { false }
    open spec fn from_spec(v: ValidityPeriodError) -> Self { arbitrary() }
}
impl From<ValidityPeriodError> for VerificationError {
    //@fn src/repository/x509.rs :: impl From<ValidityPeriodError> for VerificationError :: from
    //@end
}
//@item src/repository/x509.rs :: pub struct Serial pubfields keepderive=Clone,Copy
//@item src/repository/x509.rs :: pub struct Name pubfields
//@item src/repository/x509.rs :: pub struct SignedData<Alg = RpkiSignatureAlgorithm> pubfields
impl<Alg> SignedData<Alg> {
    //@fn src/repository/x509.rs :: impl<Alg> SignedData<Alg> :: signature
    //@spec
        ensures *r == self.signature,
    //@/spec
    //@end
}
impl<Alg: SignatureAlgorithm> SignedData<Alg> {
    /// contract link: proved in unit key_verify (= PublicKey::verify over the captured octets), text taken from there
    //@stub key_verify :: verify_signature
    pub fn verify_signature(&self, public_key: &PublicKey) -> (r: Result<(), SignatureVerificationError>)
    //@end
}
//@item src/repository/sigobj.rs :: pub struct SignedAttrs pubfields
impl SignedAttrs {
    /// contract link: proved in unit sigattrs (C02); the length bound is established by the decoder
    //@stub sigattrs :: impl SignedAttrs :: encode_verify
    pub fn encode_verify(&self) -> (r: Vec<u8>)
    //@end
}
//@item src/repository/sigobj.rs :: pub struct MessageDigest pubfields
impl MessageDigest {
    //@fn src/repository/sigobj.rs :: impl AsRef<[u8]> for MessageDigest :: as_ref as=as_ref
    //@spec
        ensures r@ == bytes_view(self.0),
    //@/spec
    //@end
}

pub mod ax {
    use super::*;
    /// derive(PartialEq) is field-wise equality (rustc's derive expansion is trusted; for
    /// KeyIdentifier the generic AsRef<[u8]> impl compares the 20 octets: Kani harness key_identifier_eq)
    #[verifier::external_body]
    pub broadcast proof fn axiom_derived_eq_obeys()
        ensures #[trigger] <KeyIdentifier as PartialEqSpec>::obeys_eq_spec(), #[trigger] <RpkiSignatureAlgorithm as PartialEqSpec>::obeys_eq_spec() {}
    #[verifier::external_body]
    pub broadcast proof fn axiom_ki_eq(a: KeyIdentifier, b: KeyIdentifier) ensures #[trigger] a.eq_spec(&b) == (a == b) {}
    #[verifier::external_body]
    pub broadcast proof fn axiom_alg_eq(a: RpkiSignatureAlgorithm, b: RpkiSignatureAlgorithm) ensures #[trigger] a.eq_spec(&b) == (a == b) {}
}
broadcast use {ax::axiom_derived_eq_obeys, ax::axiom_ki_eq, ax::axiom_alg_eq, tm::axiom_time_ord_obeys, tm::axiom_time_cmp};

// ---- repository::error (real code) ----------------------------------------------------------
//@item src/repository/error.rs :: pub struct InspectionError pubfields
//@item src/repository/error.rs :: pub struct VerificationError pubfields
//@item src/repository/error.rs :: pub struct ValidationError pubfields
//@item src/repository/error.rs :: enum ValidationErrorKind
impl InspectionError {
    //@fn src/repository/error.rs :: impl InspectionError :: new
    //@end
}
impl VerificationError {
    //@fn src/repository/error.rs :: impl VerificationError :: new
    //@end
}
impl vstd::std_specs::convert::FromSpecImpl<ContentError> for VerificationError {
    open spec fn obeys_from_spec() -> bool { false }
    open spec fn from_spec(v: ContentError) -> Self { arbitrary() }
}
impl From<ContentError> for VerificationError {
    //@fn src/repository/error.rs :: impl From<ContentError> for VerificationError :: from
    //@end
}
impl vstd::std_specs::convert::FromSpecImpl<SignatureVerificationError> for VerificationError {
    open spec fn obeys_from_spec() -> bool { false }
    open spec fn from_spec(v: SignatureVerificationError) -> Self { arbitrary() }
}
impl From<SignatureVerificationError> for VerificationError {
    //@fn src/repository/error.rs :: impl From<SignatureVerificationError> for VerificationError :: from
    //@end
}
impl vstd::std_specs::convert::FromSpecImpl<InspectionError> for ValidationError {
    open spec fn obeys_from_spec() -> bool { false }
    open spec fn from_spec(v: InspectionError) -> Self { arbitrary() }
}
impl From<InspectionError> for ValidationError {
    //@fn src/repository/error.rs :: impl From<InspectionError> for ValidationError :: from
    //@end
}
impl vstd::std_specs::convert::FromSpecImpl<VerificationError> for ValidationError {
    open spec fn obeys_from_spec() -> bool { false }
    open spec fn from_spec(v: VerificationError) -> Self { arbitrary() }
}
impl From<VerificationError> for ValidationError {
    //@fn src/repository/error.rs :: impl From<VerificationError> for ValidationError :: from
    //@end
}

// ---- ca::idcert -----------------------------------------------------------------------------
//@item src/ca/idcert.rs :: pub struct IdCert pubfields
//@item src/ca/idcert.rs :: pub struct TbsIdCert pubfields

impl ops::Deref for IdCert {
    type Target = TbsIdCert;
    //@fn src/ca/idcert.rs :: impl ops::Deref for IdCert :: deref
    //@spec
        ensures *r == self.tbs,
    //@/spec
    //@end
}
impl TbsIdCert {
    //@fn src/ca/idcert.rs :: impl TbsIdCert :: subject_public_key_info
    //@spec
        ensures *r == self.subject_public_key_info,
    //@/spec
    //@end
    //@fn src/ca/idcert.rs :: impl TbsIdCert :: subject_key_identifier
    //@spec
        ensures r == self.subject_key_id,
    //@/spec
    //@end
    //@fn src/ca/idcert.rs :: impl TbsIdCert :: serial_number
    //@spec
        ensures r == self.serial_number,
    //@/spec
    //@end
}

/// the AKI, when present, names the issuer key ("issuer-key check as coded")
pub open spec fn aki_matches(aki: Option<KeyIdentifier>, issuer: PublicKey) -> bool {
    aki matches Some(a) ==> a == ski_of(issuer)
}
pub open spec fn window(nb: Time, when: Time, na: Time) -> bool {
    tat(nb) <= tat(when) <= tat(na)
}
/// EE identity certificate valid under the peer key `issuer` at `when`
pub open spec fn ee_accept(c: IdCert, issuer: PublicKey, when: Time) -> bool {
    &&& c.tbs.subject_key_id == ski_of(c.tbs.subject_public_key_info)
    &&& window(c.tbs.validity.not_before, when, c.tbs.validity.not_after)
    &&& aki_matches(c.tbs.authority_key_id, issuer)
    &&& c.tbs.basic_ca != Some(true)
    &&& sig_ok(issuer, captured_view(c.signed_data.data), c.signed_data.signature)
}
/// TA identity certificate acceptable at `now` (RFC 8183 BPKI TA, as coded)
pub open spec fn ta_accept(c: IdCert, now: Time) -> bool {
    &&& c.tbs.subject_key_id == ski_of(c.tbs.subject_public_key_info)
    &&& c.tbs.basic_ca == Some(true)
    &&& window(c.tbs.validity.not_before, now, c.tbs.validity.not_after)
    &&& (c.tbs.authority_key_id == Some(c.tbs.subject_key_id)
            ==> sig_ok(c.tbs.subject_public_key_info, captured_view(c.signed_data.data), c.signed_data.signature))
}

impl IdCert {
    //@fn src/ca/idcert.rs :: impl IdCert :: validate_ta_at
    //@spec
        ensures r.is_ok() == ta_accept(*self, now),
    //@/spec
    //@end

    //@fn src/ca/idcert.rs :: impl IdCert :: validate_ee_at
    //@spec
        ensures r.is_ok() == ee_accept(*self, *issuer_key, now),
    //@/spec
    //@end

    //@fn src/ca/idcert.rs :: impl IdCert :: inspect_basics
    //@spec
        ensures r.is_ok() == (self.tbs.subject_key_id == ski_of(self.tbs.subject_public_key_info)),
    //@/spec
    //@end

    //@fn src/ca/idcert.rs :: impl IdCert :: inspect_ca_basics
    //@spec
        ensures r.is_ok() == (self.tbs.basic_ca == Some(true)),
    //@/spec
    //@end

    //@fn src/ca/idcert.rs :: impl IdCert :: verify_validity
    //@spec
        ensures r.is_ok() == window(self.tbs.validity.not_before, now, self.tbs.validity.not_after),
    //@/spec
    //@end

    //@fn src/ca/idcert.rs :: impl IdCert :: verify_issuer_key
    //@spec
        ensures r.is_ok() == aki_matches(self.tbs.authority_key_id, *issuer_key),
    //@/spec
    //@end

    //@fn src/ca/idcert.rs :: impl IdCert :: verify_signature
    //@spec
        ensures r.is_ok() == sig_ok(*public_key, captured_view(self.signed_data.data), self.signed_data.signature),
    //@/spec
    //@end
}

// ---- ca::sigmsg -----------------------------------------------------------------------------
//@item src/ca/sigmsg.rs :: pub struct SignedMessage pubfields
//@item src/ca/sigmsg.rs :: struct SignedMessageCrl pubfields
//@item src/ca/sigmsg.rs :: struct SignedMessageTbsCrl pubfields
//@item src/ca/sigmsg.rs :: struct RevokedCertificates pubfields

/// the serial number occurs as userCertificate of an entry of the captured DER list
pub uninterp spec fn revoked(list: Seq<u8>, serial: Serial) -> bool;
impl RevokedCertificates {
    /// assumed: the body is a bcder decode closure walking the captured list (not decided here)
    #[verifier::external_body]
    pub fn contains(&self, serial: Serial) -> (r: bool)
        ensures r == revoked(captured_view(self.0), serial)
    { unimplemented!() }
}

/// the embedded CRL is valid under the peer key `issuer` at `when`
pub open spec fn crl_accept(c: SignedMessageCrl, issuer: PublicKey, when: Time) -> bool {
    &&& c.tbs.signature == c.signed_data.signature.algorithm
    &&& sig_ok(issuer, captured_view(c.signed_data.data), c.signed_data.signature)
    &&& window(c.tbs.this_update, when, c.tbs.next_update)
    &&& aki_matches(c.tbs.authority_key_id, issuer)
}
pub open spec fn tbs_crl_accept(c: SignedMessageTbsCrl, issuer: PublicKey, when: Time) -> bool {
    &&& window(c.this_update, when, c.next_update)
    &&& aki_matches(c.authority_key_id, issuer)
}
/// CMS signature: digest attribute matches the content, signature over all signed attributes
pub open spec fn cms_sig_accept(m: SignedMessage) -> bool {
    &&& bytes_view(m.message_digest.0) == sha256(os_view(m.content))
    &&& sig_ok(m.ee_cert.tbs.subject_public_key_info, set_of_encoding(captured_view(m.signed_attrs.0)), m.signature)
}
/// C10: the exact acceptance condition
pub open spec fn msg_accept(m: SignedMessage, issuer: PublicKey, when: Time) -> bool {
    &&& m.sid == m.ee_cert.tbs.subject_key_id
    &&& cms_sig_accept(m)
    &&& ee_accept(m.ee_cert, issuer, when)
    &&& crl_accept(m.crl, issuer, when)
    &&& !revoked(captured_view(m.crl.tbs.revoked_certs.0), m.ee_cert.tbs.serial_number)
}
/// established by the decoder (SignedAttrs::take_from_with_mode rejects longer sets; unit sigattrs)
pub open spec fn msg_wf(m: SignedMessage) -> bool {
    captured_view(m.signed_attrs.0).len() <= 0xFFFF
}

pub mod lem {
    use super::*;
    /// absorbing segment i moves it from the pending part to the absorbed prefix
    pub proof fn lemma_concat_skip(p: Seq<u8>, s: Seq<&[u8]>, i: int)
        requires 0 <= i < s.len()
        ensures p + concat(s.skip(i)) == (p + s[i]@) + concat(s.skip(i + 1))
    {
        assert(s.skip(i).drop_first() =~= s.skip(i + 1));
        assert(s.skip(i)[0] == s[i]);
        assert(p + (s[i]@ + concat(s.skip(i + 1))) =~= (p + s[i]@) + concat(s.skip(i + 1)));
    }
    pub broadcast proof fn lemma_concat_done(s: Seq<&[u8]>, i: int)
        requires i == s.len()
        ensures #[trigger] concat(s.skip(i)) == Seq::<u8>::empty()
    {
        assert(s.skip(i).len() == 0);
    }
    pub broadcast proof fn lemma_skip0(s: Seq<&[u8]>)
        ensures #[trigger] s.skip(0) == s
    {
        assert(s.skip(0) =~= s);
    }
    pub broadcast proof fn lemma_add_empty(p: Seq<u8>)
        ensures #[trigger] (p + Seq::<u8>::empty()) == p, #[trigger] (Seq::<u8>::empty() + p) == p
    {
        assert(p + Seq::<u8>::empty() =~= p);
        assert(Seq::<u8>::empty() + p =~= p);
    }
}

impl SignedMessage {
    //@fn src/ca/sigmsg.rs :: impl SignedMessage :: validate
    //@spec
        requires msg_wf(*self),
        ensures exists|now: Time| r.is_ok() == #[trigger] msg_accept(*self, *issuer_key, now),
    //@/spec
    //@end

    //@fn src/ca/sigmsg.rs :: impl SignedMessage :: validate_at
    //@spec
        requires msg_wf(*self),
        ensures r.is_ok() == msg_accept(*self, *issuer_key, when),
    //@/spec
    //@end

    //@fn src/ca/sigmsg.rs :: impl SignedMessage :: inspect
    //@spec
        ensures r.is_ok() == (self.sid == self.ee_cert.tbs.subject_key_id),
    //@/spec
    //@end

    //@fn src/ca/sigmsg.rs :: impl SignedMessage :: verify
    //@sub R12 "self.content.iter().for_each(|x| context.update(x));" "for x in self.content.iter() { context.update(x) }"
    //@spec
        requires msg_wf(*self),
        ensures r.is_ok() == cms_sig_accept(*self),
    //@/spec
    //@ghost begin
        broadcast use {lem::lemma_concat_done, lem::lemma_skip0, lem::lemma_add_empty};
    //@/ghost
    //@loop "for x in self.content.iter()" iter=it
        invariant
            ctx_view(context) + concat(it.seq().skip(it.index@ as int)) == os_view(self.content),
    //@/loop
    //@ghost after "for x in self.content.iter() {"
        proof {
            lem::lemma_concat_skip(ctx_view(context), it.seq(), it.index@ as int);
        }
    //@/ghost
    //@ghost before "if digest.as_ref()"
        proof {
            assert((digest_view(digest) =~= bytes_view(self.message_digest.0)) == (digest_view(digest) == bytes_view(self.message_digest.0)));
        }
    //@/ghost
    //@end
}

impl SignedMessageCrl {
    //@fn src/ca/sigmsg.rs :: impl SignedMessageCrl :: validate
    //@spec
        ensures r.is_ok() == crl_accept(*self, *issuer_key, when),
    //@/spec
    //@end

    //@fn src/ca/sigmsg.rs :: impl SignedMessageCrl :: verify_not_revoked
    //@spec
        ensures r.is_ok() == !revoked(captured_view(self.tbs.revoked_certs.0), id_cert.tbs.serial_number),
    //@/spec
    //@end
}

impl SignedMessageTbsCrl {
    //@fn src/ca/sigmsg.rs :: impl SignedMessageTbsCrl :: validate
    //@spec
        ensures r.is_ok() == tbs_crl_accept(*self, *issuer_key, when),
    //@/spec
    //@end
}

// ---- "any single violation is rejected" ----------------------------------------------------
/// every clause of the property statement is necessary for msg_accept, hence (validate_at's
/// contract) a message violating any single one of them is rejected
proof fn lemma_single_violation_rejected(m: SignedMessage, issuer: PublicKey, when: Time)
    ensures
        m.sid != m.ee_cert.tbs.subject_key_id ==> !msg_accept(m, issuer, when),
        bytes_view(m.message_digest.0) != sha256(os_view(m.content)) ==> !msg_accept(m, issuer, when),
        !sig_ok(m.ee_cert.tbs.subject_public_key_info, seq![0x31u8] + der_len(captured_view(m.signed_attrs.0).len() as int) + captured_view(m.signed_attrs.0), m.signature)
            ==> !msg_accept(m, issuer, when),
        m.ee_cert.tbs.subject_key_id != ski_of(m.ee_cert.tbs.subject_public_key_info) ==> !msg_accept(m, issuer, when),
        tat(when) < tat(m.ee_cert.tbs.validity.not_before) || tat(when) > tat(m.ee_cert.tbs.validity.not_after) ==> !msg_accept(m, issuer, when),
        (m.ee_cert.tbs.authority_key_id matches Some(a) && a != ski_of(issuer)) ==> !msg_accept(m, issuer, when),
        m.ee_cert.tbs.basic_ca == Some(true) ==> !msg_accept(m, issuer, when),
        !sig_ok(issuer, captured_view(m.ee_cert.signed_data.data), m.ee_cert.signed_data.signature) ==> !msg_accept(m, issuer, when),
        m.crl.tbs.signature != m.crl.signed_data.signature.algorithm ==> !msg_accept(m, issuer, when),
        !sig_ok(issuer, captured_view(m.crl.signed_data.data), m.crl.signed_data.signature) ==> !msg_accept(m, issuer, when),
        tat(when) < tat(m.crl.tbs.this_update) || tat(when) > tat(m.crl.tbs.next_update) ==> !msg_accept(m, issuer, when),
        (m.crl.tbs.authority_key_id matches Some(a) && a != ski_of(issuer)) ==> !msg_accept(m, issuer, when),
        revoked(captured_view(m.crl.tbs.revoked_certs.0), m.ee_cert.tbs.serial_number) ==> !msg_accept(m, issuer, when),
{}

// ---- vacuity guards -------------------------------------------------------------------------
/// the acceptance condition follows from its clauses (no hidden conjunct)
proof fn reach_msg_accept(m: SignedMessage, issuer: PublicKey, when: Time)
    requires
        msg_wf(m),
        m.sid == m.ee_cert.tbs.subject_key_id,
        cms_sig_accept(m),
        ee_accept(m.ee_cert, issuer, when),
        crl_accept(m.crl, issuer, when),
        !revoked(captured_view(m.crl.tbs.revoked_certs.0), m.ee_cert.tbs.serial_number),
    ensures msg_accept(m, issuer, when)
{}

} // verus!
fn main() {}
