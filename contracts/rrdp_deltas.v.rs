// Unit rrdp_deltas (C09): the delta-chain check and the origin check of src/rrdp.rs.
//   NotificationFile::sort_and_verify_deltas: with S = the deltas sorted by ascending serial and
//   retained = the newest `limit` of S (all of S without a limit), the list holds exactly `retained`
//   afterwards and the result is true exactly when the retained serials are consecutive
//   (mathematical integers); no panic / overflow for any input.
//   NotificationFile::has_matching_origins: true exactly when the snapshot URI and every delta URI
//   have the base URI's authority (relative to the assumed contract of uri::Https::eq_authority).
#![feature(allocator_api)]
use vstd::prelude::*;
use vstd::std_specs::cmp::*;
use vstd::std_specs::range::RangeBoundsSpec;
use core::cmp::Ordering;
use core::ops::Deref;

verus! {

// ---- environment: dependency types (opaque stand-ins) ----------------------------------------
/// uuid::Uuid
#[verifier::external_body]
pub struct Uuid { _o: u8 }

pub mod uri {
    use super::*;
    /// crate::uri::Https (a Bytes-backed URI; its own laws are C12, bounded only)
    #[verifier::external_body]
    pub struct Https { _o: u8 }
    /// abstract relation "a and b have the same authority part"
    pub uninterp spec fn same_authority(a: Https, b: Https) -> bool;
    impl Https {
        /// assumed contract of uri::Https::eq_authority (ASCII-case-insensitive comparison of the authority parts)
        #[verifier::external_body]
        pub fn eq_authority(&self, other: &Self) -> (r: bool)
            ensures r == same_authority(*self, *other)
        { unimplemented!() }
    }
}

// ---- assumed contracts of std (listed in rrdp_deltas.trusted) ---------------------------------
/// there are keys the closure may return for a and b with key(a) <= key(b)
pub open spec fn key_le<T, K: Ord, F: FnMut(&T) -> K>(f: F, a: T, b: T) -> bool {
    exists|ka: K, kb: K| #![trigger call_ensures(f, (&a,), ka), call_ensures(f, (&b,), kb)]
        call_ensures(f, (&a,), ka) && call_ensures(f, (&b,), kb) && ka.cmp_spec(&kb) != Ordering::Greater
}

pub assume_specification<T, K: Ord, F: FnMut(&T) -> K> [ <[T]>::sort_by_key ] (s: &mut [T], f: F)
    requires
        forall|i: int| #![trigger old(s)@[i]] 0 <= i < old(s)@.len() ==> call_requires(f, (&old(s)@[i],)),
    ensures
        final(s)@.to_multiset() == old(s)@.to_multiset(),
        K::obeys_cmp_spec() ==> forall|i: int, j: int| 0 <= i < j < final(s)@.len() ==> key_le(f, #[trigger] final(s)@[i], #[trigger] final(s)@[j]);

#[verifier::reject_recursive_types(A)]
#[verifier::reject_recursive_types(T)]
#[verifier::external_type_specification]
#[verifier::external_body]
pub struct ExDrain<'a, T: 'a, A: core::alloc::Allocator>(std::vec::Drain<'a, T, A>);

/// `v.drain(..n)` whose Drain is dropped at once: the first n elements are removed
pub assume_specification<T, A: core::alloc::Allocator, R: core::ops::RangeBounds<usize>> [ Vec::<T, A>::drain::<R> ] (v: &mut Vec<T, A>, range: R) -> (d: std::vec::Drain<'_, T, A>)
    requires
        range.spec_start_bound() == core::ops::Bound::<&usize>::Unbounded,
        range.spec_end_bound() matches core::ops::Bound::Excluded(n) && *n <= old(v)@.len(),
    ensures
        range.spec_end_bound() matches core::ops::Bound::Excluded(n) && final(v)@ == old(v)@.subrange(*n as int, old(v)@.len() as int);

// ---- the types of src/rrdp.rs --------------------------------------------------------------------
//@item src/rrdp.rs :: pub struct Hash pubfields keepderive=Clone,Copy
//@item src/rrdp.rs :: pub enum DeltaListError keepderive=Clone,Copy
//@item src/rrdp.rs :: pub struct UriAndHash pubfields
//@item src/rrdp.rs :: pub type SnapshotInfo
//@item src/rrdp.rs :: pub struct DeltaInfo pubfields
//@item src/rrdp.rs :: pub struct NotificationFile pubfields

// ---- specification vocabulary ---------------------------------------------------------------------
pub open spec fn sorted_by_serial(s: Seq<DeltaInfo>) -> bool {
    forall|i: int, j: int| 0 <= i < j < s.len() ==> (#[trigger] s[i]).serial <= (#[trigger] s[j]).serial
}
/// s is "the deltas a, sorted by ascending serial"
pub open spec fn sorted_perm(a: Seq<DeltaInfo>, s: Seq<DeltaInfo>) -> bool {
    s.to_multiset() == a.to_multiset() && sorted_by_serial(s)
}
/// the newest `limit` elements of the ascending list s (all of s without a limit)
pub open spec fn retained(s: Seq<DeltaInfo>, limit: Option<usize>) -> Seq<DeltaInfo> {
    match limit {
        Some(l) => if (l as int) < s.len() { s.subrange(s.len() - l as int, s.len() as int) } else { s },
        None => s,
    }
}
/// "the retained deltas have consecutive serials" (mathematical integers: u64::MAX has no successor)
pub open spec fn consecutive(s: Seq<DeltaInfo>) -> bool {
    forall|i: int| 0 <= i && i + 1 < s.len() ==> (#[trigger] s[i + 1]).serial as int == s[i].serial as int + 1
}
/// "every referenced URI has the notification's authority"
pub open spec fn origins_match(n: NotificationFile, base: uri::Https) -> bool {
    uri::same_authority(base, n.snapshot.uri)
    && match n.deltas {
        Ok(d) => forall|i: int| 0 <= i < d@.len() ==> uri::same_authority(base, (#[trigger] d@[i]).uri_and_hash.uri),
        Err(_) => true,
    }
}

/// the sequence of references a slice iterator over v yields
pub open spec fn refs<'a, T>(v: Seq<T>) -> Seq<&'a T> { v.map_values(|x: T| &x) }
/// every sequence of references that points element-wise at v *is* refs(v) (extensionality);
/// triggered by `s.len()`, so it identifies `deltas.iter().remaining()` of an unnamed temporary
pub proof fn lemma_iter_seq<'a, T>(v: Seq<T>)
    ensures forall|s: Seq<&'a T>| s.len() == v.len() && (forall|j: int| 0 <= j < s.len() ==> *(#[trigger] s[j]) == v[j])
                ==> #[trigger] s.len() == refs(v).len() && s == refs(v),
{
    assert forall|s: Seq<&'a T>| s.len() == v.len() && (forall|j: int| 0 <= j < s.len() ==> *(#[trigger] s[j]) == v[j])
        implies #[trigger] s.len() == refs(v).len() && s == refs(v) by { assert(s =~= refs(v)); }
}

impl UriAndHash {
    //@fn src/rrdp.rs :: impl UriAndHash :: uri
    //@spec
        ensures *r == self.uri,
    //@/spec
    //@end
}

impl DeltaInfo {
    //@fn src/rrdp.rs :: impl DeltaInfo :: serial
    //@spec
        ensures r == self.serial,
    //@/spec
    //@end
}

impl Deref for DeltaInfo {
    type Target = UriAndHash;
    //@fn src/rrdp.rs :: impl Deref for DeltaInfo :: deref
    //@spec
        ensures *r == self.uri_and_hash,
    //@/spec
    //@end
}

impl NotificationFile {
    //@fn src/rrdp.rs :: impl NotificationFile :: snapshot
    //@spec
        ensures *r == self.snapshot,
    //@/spec
    //@end

    //@fn src/rrdp.rs :: impl NotificationFile :: sort_and_verify_deltas loopiso
    //@sub R2 "|delta| delta.serial()" "|delta| -> (k: u64) ensures k == delta.serial { delta.serial() }"
    //@spec
        ensures
            final(self).session_id == old(self).session_id,
            final(self).serial == old(self).serial,
            final(self).snapshot == old(self).snapshot,
            // (parenthesised: the framework's fn-range scanner takes the first depth-0 brace as the body)
            (match old(self).deltas {
                Ok(d0) => exists|s: Seq<DeltaInfo>| #[trigger] sorted_perm(d0@, s)
                    && (final(self).deltas matches Ok(d1) && d1@ == retained(s, limit) && r == consecutive(d1@)),
                Err(e) => r && final(self).deltas == old(self).deltas,
            }),
    //@/spec
    //@ghost begin
        let ghost d0: Seq<DeltaInfo> = match self.deltas { Ok(ref d) => d@, Err(_) => Seq::empty() };
        proof { if d0.len() == 0 { assert(sorted_perm(d0, d0)); assert(retained(d0, limit) =~= d0); } }
    //@/ghost
    //@ghost before "if let Some(limit) = limit {"
                let ghost sorted = deltas@;
                proof { assert(sorted_perm(d0, sorted)); }
    //@/ghost
    //@ghost before "if let Some((first, tail))"
                proof { assert(deltas@ == retained(sorted, limit)); }
    //@/ghost
    //@loop "for delta in tail" iter=it
                        invariant
                            it.seq().len() == tail@.len(),
                            forall|i: int| 0 <= i < tail@.len() ==> *(#[trigger] it.seq()[i]) == tail@[i],
                            last_seen == deltas@[it.index@].serial,
                            forall|i: int| 0 <= i < it.index@ ==> (#[trigger] deltas@[i + 1]).serial as int == deltas@[i].serial as int + 1,
    //@/loop
    //@ghost before "return false;"
                            proof { assert(deltas@[it.index@ + 1] == *delta); }
    //@/ghost
    //@end

    //@fn src/rrdp.rs :: impl NotificationFile :: has_matching_origins
    //@sub R2 "|delta| !base.eq_authority(delta.uri())" "|delta| -> (b: bool) ensures b == !uri::same_authority(*base, delta.uri_and_hash.uri) { !base.eq_authority(delta.uri()) }"
    //@spec
        ensures r == origins_match(*self, *base),
    //@/spec
    //@ghost before "true"
        proof {
            if let Ok(ref d) = self.deltas {
                // names the sequence of the temporary `deltas.iter()` (vstd: `any` speaks about iterator.remaining())
                lemma_iter_seq(d@);
                assert forall|i: int| 0 <= i < d@.len() implies uri::same_authority(*base, (#[trigger] d@[i]).uri_and_hash.uri) by {
                    assert(*refs(d@)[i] == d@[i]);
                }
            }
        }
    //@/ghost
    //@end
}

// ---- vacuity guard --------------------------------------------------------------------------------
proof fn reach_deltas(a: DeltaInfo, b: DeltaInfo)
    requires a.serial == 7, b.serial == 8,
    ensures
        sorted_perm(seq![b, a], seq![a, b]),
        retained(seq![a, b], Some(1usize)) == seq![b],
        consecutive(seq![a, b]), !consecutive(seq![b, a]),
{
    assert(seq![b, a] =~= seq![b].push(a));
    assert(seq![a, b] =~= seq![a].push(b));
    assert(seq![b, a].to_multiset() =~= seq![a, b].to_multiset()) by {
        broadcast use vstd::seq_lib::group_to_multiset_ensures;
    }
    assert(retained(seq![a, b], Some(1usize)) =~= seq![b]);
    assert(seq![a, b][0int + 1] == b);
    assert(seq![b, a][0int + 1] == a);
}

} // verus!
fn main() {}
