// Unit crl_contains (C10): the revocation walk inside RevokedCertificates::contains (src/ca/sigmsg.rs).
// `contains` is `Mode::Der.decode(captured, |cons| { <walk> }).unwrap()`: a closure handed to a bcder combinator.
// Verus cannot specify closures with `&mut` parameters, so the closure's block is LIFTED (rule R13): its text,
// byte-identical, is the body of `contains_walk(cons, serial)`; the closure parameter and the captured `serial`
// are the parameters.  Verified: the walk returns Ok(true) exactly when SOME entry of the list - wherever it
// stands and whatever the order of the list - names the serial, it never fails or panics (every `unwrap`), and
// it terminates.  Not verified here (listed as assumed in the .trusted file): that Mode::decode runs the closure
// on a Constructed over exactly the captured content and hands back its result (bcder; State::Unbounded has no
// exhaustion check), and the decoding of a single entry (CrlEntry::take_opt_from, bcder closures).
use vstd::prelude::*;
use vstd::std_specs::cmp::*;
#[allow(unused_imports)]
use std::cmp::Ordering;

verus! {

// ---- environment ----------------------------------------------------------------------------
//@item src/repository/x509.rs :: pub struct Serial pubfields keepderive=Clone,Copy,PartialEq,Eq,PartialOrd,Ord
#[verifier::external_body]
#[derive(Clone, Copy)]
pub struct Time { _o: u8 }
//@item src/ca/sigmsg.rs :: struct CrlEntry pubfields keepderive=Clone,Copy
#[verifier::external_body]
#[derive(Debug)]
pub struct DecodeError { _o: u8 }

pub mod ax {
    use super::*;
    /// derive(PartialEq) on Serial([u8; 20]) is equality of the 20 octets (rustc's derive expansion is trusted)
    #[verifier::external_body]
    pub broadcast proof fn axiom_serial_eq_obeys()
        ensures #[trigger] <Serial as PartialEqSpec>::obeys_eq_spec() {}
    #[verifier::external_body]
    pub broadcast proof fn axiom_serial_eq(a: Serial, b: Serial) ensures #[trigger] a.eq_spec(&b) == (a == b) {}
}
broadcast use {ax::axiom_serial_eq_obeys, ax::axiom_serial_eq};

/// bcder::decode::Constructed positioned inside the captured revocation list.
#[verifier::external_body]
pub struct Constructed { _o: u8 }
impl Constructed {
    /// ghost view: the entries still to be decoded, in list order
    pub uninterp spec fn rest(&self) -> Seq<CrlEntry>;
}

impl CrlEntry {
    /// ASSUMED (bcder + capture-time check): RevokedCertificates::take_from captured the list by running this
    /// very decoder over every entry, so on captured content decoding an entry cannot fail: it yields the next
    /// entry and advances past it, or None at the end of the list.
    #[verifier::external_body]
    pub fn take_opt_from(cons: &mut Constructed) -> (r: Result<Option<CrlEntry>, DecodeError>)
        ensures
            r.is_ok(),
            old(cons).rest().len() == 0 ==> r.unwrap().is_none() && final(cons).rest() == old(cons).rest(),
            old(cons).rest().len() > 0 ==> r.unwrap() == Some(old(cons).rest()[0])
                && final(cons).rest() == old(cons).rest().drop_first(),
    { unimplemented!() }
}

/// the property's clause: the list names the serial (any position, any order)
pub open spec fn lists(entries: Seq<CrlEntry>, serial: Serial) -> bool {
    exists|i: int| 0 <= i < entries.len() && (#[trigger] entries[i]).user_certificate == serial
}

//@fn src/ca/sigmsg.rs :: impl RevokedCertificates :: contains loopiso
//@lift "self.0.as_ref(), |cons|"
//@sig
fn contains_walk(cons: &mut Constructed, serial: Serial) -> Result<bool, DecodeError>
//@/sig
//@spec
    ensures
        r.is_ok(),
        r.unwrap() == lists(old(cons).rest(), serial),
//@/spec
//@loop "while let Some(entry)"
    invariant
        cons.rest().len() <= old(cons).rest().len(),
        cons.rest() == old(cons).rest().subrange(old(cons).rest().len() - cons.rest().len(), old(cons).rest().len() as int),
        forall|i: int| 0 <= i < old(cons).rest().len() - cons.rest().len() ==> (#[trigger] old(cons).rest()[i]).user_certificate != serial,
    decreases cons.rest().len(),
//@/loop
//@end

proof fn reach_contains_walk(c: Constructed, e: CrlEntry)
    requires c.rest() == seq![e]
    ensures lists(c.rest(), e.user_certificate)
{
    assert(c.rest()[0].user_certificate == e.user_certificate);
}

} // verus!
fn main() {}
