// Unit mft_hash (C14): ManifestHash::verify (src/repository/manifest.rs):
// Ok exactly when the listed hash equals the digest of the data.
use vstd::prelude::*;
use vstd::std_specs::cmp::*;

verus! {

// ---- std: slice comparison is element-wise ----
pub mod ax {
    use super::*;
    #[verifier::external_body]
    pub broadcast proof fn axiom_u8_slice_eq(a: &[u8], b: &[u8])
        ensures #[trigger] <[u8] as PartialEqSpec<[u8]>>::eq_spec(a, b) == (a@ == b@) {}
    #[verifier::external_body]
    pub broadcast proof fn axiom_u8_slice_eq_obeys()
        ensures #[trigger] <[u8] as PartialEqSpec<[u8]>>::obeys_eq_spec() {}
}
broadcast use {ax::axiom_u8_slice_eq, ax::axiom_u8_slice_eq_obeys};

// ---- environment: dependency types as opaque stand-ins --------------------------------------
#[verifier::external_body]
pub struct Bytes { _o: u8 }
#[verifier::external_body]
pub struct Digest { _o: u8 }
pub uninterp spec fn bytes_view(b: Bytes) -> Seq<u8>;
pub uninterp spec fn digest_view(d: Digest) -> Seq<u8>;
/// SHA-256 as an uninterpreted function of the data (aws-lc; cryptography is not verified)
pub uninterp spec fn sha256(data: Seq<u8>) -> Seq<u8>;
impl Bytes {
    #[verifier::external_body]
    pub fn as_ref(&self) -> (r: &[u8]) ensures r@ == bytes_view(*self) { unimplemented!() }
}
impl Digest {
    #[verifier::external_body]
    pub fn as_ref(&self) -> (r: &[u8]) ensures r@ == digest_view(*self) { unimplemented!() }
}
//@item src/crypto/digest.rs :: pub struct DigestAlgorithm keepderive=Clone,Copy
impl DigestAlgorithm {
    /// aws-lc digest::digest(&SHA256, data): assumed to be SHA-256 of the data
    #[verifier::external_body]
    pub fn digest(self, data: &[u8]) -> (r: Digest) ensures digest_view(r) == sha256(data@) { unimplemented!() }
}
//@item src/repository/manifest.rs :: pub struct ManifestHash pubfields
//@item src/repository/manifest.rs :: pub struct ManifestHashMismatch pubfields

impl ManifestHash {
    //@fn src/repository/manifest.rs :: impl ManifestHash :: verify
    //@sigsub R12 "<T: AsRef<[u8]>>" ""
    //@sigsub R12 "t: T" "t: &[u8]"
    //@sub R4 "t.as_ref()" "t"
    //@spec
        ensures r.is_ok() <==> bytes_view(self.hash) == sha256(t@),
    //@/spec
    //@end
}

proof fn reach_verify(h: ManifestHash, d: Seq<u8>) requires bytes_view(h.hash) == sha256(d) {}

} // verus!
fn main() {}
